// Package hx is the common harness layer shared by all property packages:
// case -> executor -> verdict plumbing around rapid, evidence statistics,
// fail-case / current-case persistence, replay, and known-finding exclusions.
//
// Conventions (see /verif/DESIGN.md 2.2-2.6):
//   - every property package has a JSON-serialisable Case type, a generator
//     (rapid -> Case) and an executor (Case -> Verdict) that does not depend on rapid;
//   - TestProp  = hx.Check(t, gen, exec)
//   - TestReplay = hx.Replay(t, exec)    (case file in $VERIF_REPLAY)
//   - TestMain  = hx.Main(m, "Cxx")      (writes the statistics file at exit)
package hx

import (
	"encoding/binary"
	"encoding/json"
	"fmt"
	"hash/fnv"
	"os"
	"runtime/debug"
	"sort"
	"strconv"
	"strings"
	"sync"
	"testing"

	"pgregory.net/rapid"
)

// Verdict is the outcome of executing one case.
type Verdict struct {
	// OK is false when the oracle was violated.
	OK bool `json:"ok"`
	// Clause names the oracle clause that failed, Detail what was observed.
	Clause string `json:"clause,omitempty"`
	Detail string `json:"detail,omitempty"`
	// Step is the index of the failing operation where that makes sense.
	Step int `json:"step,omitempty"`
	// NonTrivial: the case is non-trivial by the property's stated rule.
	NonTrivial bool `json:"-"`
	// Labels are generator/executor class labels of this case.
	Labels []string `json:"-"`
	// Counters are extra additive counters (hook hits, fault positions, ...).
	Counters map[string]int64 `json:"-"`
	// Inconclusive: the case could not be judged (resource problem); never a violation.
	Inconclusive bool `json:"-"`
}

// Pass returns an OK verdict.
func Pass() Verdict { return Verdict{OK: true} }

// Fail returns a violation verdict.
func Fail(clause, format string, a ...interface{}) Verdict {
	return Verdict{OK: false, Clause: clause, Detail: fmt.Sprintf(format, a...)}
}

// Label adds a label.
func (v *Verdict) Label(l string) { v.Labels = append(v.Labels, l) }

// Count adds to a counter.
func (v *Verdict) Count(k string, n int64) {
	if v.Counters == nil {
		v.Counters = map[string]int64{}
	}
	v.Counters[k] += n
}

// CaseFile is the on-disk replay unit (DESIGN appendix A).
type CaseFile struct {
	Property string          `json:"property"`
	Format   int             `json:"format"`
	Seed     int64           `json:"seed"`
	Note     string          `json:"note,omitempty"`
	Kind     string          `json:"kind,omitempty"` // which executor of the package (default "")
	Case     json.RawMessage `json:"case"`
	Verdict  *Verdict        `json:"verdict,omitempty"`
}

type stats struct {
	mu        sync.Mutex
	Property  string `json:"property"`
	Evals     int64  `json:"evaluations"`
	NonTriv   int64  `json:"nontrivial_total"`
	hashes    map[uint64]struct{}
	Labels    map[string]int64  `json:"labels"`
	Counters  map[string]int64  `json:"counters"`
	Excluded  map[string]int64  `json:"excluded_by_known_finding"`
	Samples   []json.RawMessage `json:"samples"`
	Violation int64             `json:"violations"`
	Inconcl   int64             `json:"inconclusive"`
	Notes     []string          `json:"notes"`
	Exhaust   []Exhaustive      `json:"exhaustive_parts"`
	sampleN   map[string]int
}

// Exhaustive describes one fully enumerated part of a run.
type Exhaustive struct {
	What     string `json:"what"`
	Alphabet string `json:"alphabet,omitempty"`
	Bound    string `json:"bound,omitempty"`
	Count    int64  `json:"count"`
}

var st = &stats{
	hashes:   map[uint64]struct{}{},
	Labels:   map[string]int64{},
	Counters: map[string]int64{},
	Excluded: map[string]int64{},
	sampleN:  map[string]int{},
}

var excluded = map[string]bool{}

func init() {
	for _, c := range strings.Split(os.Getenv("VERIF_EXCLUDE"), ",") {
		if c = strings.TrimSpace(c); c != "" {
			excluded[c] = true
		}
	}
}

// Excluded reports whether the generator class `class` is excluded because of an
// open known finding (driver passes the classes in $VERIF_EXCLUDE).
func Excluded(class string) bool { return excluded[class] }

// CountExcluded records that a generated case/op fell into an excluded class and was
// therefore steered away from.
func CountExcluded(class string) {
	st.mu.Lock()
	st.Excluded[class]++
	st.mu.Unlock()
}

// Thorough reports whether the thorough tier is running.
func Thorough() bool { return os.Getenv("VERIF_TIER") == "thorough" }

// EnvInt reads an integer from the environment with a default.
func EnvInt(name string, def int) int {
	if v, err := strconv.Atoi(os.Getenv(name)); err == nil {
		return v
	}
	return def
}

// Shard returns (index, count) of this process among the shards of an enumeration.
func Shard() (int, int) {
	n := EnvInt("VERIF_NSHARDS", 1)
	if n < 1 {
		n = 1
	}
	return EnvInt("VERIF_SHARD", 0) % n, n
}

// Note attaches a free-text note to the statistics.
func Note(format string, a ...interface{}) {
	st.mu.Lock()
	st.Notes = append(st.Notes, fmt.Sprintf(format, a...))
	st.mu.Unlock()
}

// AddExhaustive records a fully enumerated part.
func AddExhaustive(e Exhaustive) {
	st.mu.Lock()
	st.Exhaust = append(st.Exhaust, e)
	st.mu.Unlock()
}

// AddCounter adds to a global counter.
func AddCounter(k string, n int64) {
	st.mu.Lock()
	st.Counters[k] += n
	st.mu.Unlock()
}

func hashBytes(b []byte) uint64 {
	h := fnv.New64a()
	h.Write(b)
	return h.Sum64()
}

// Record accounts one executed case. kind distinguishes executors within a package.
func Record(kind string, c interface{}, v Verdict) {
	var raw []byte
	needJSON := v.NonTrivial || !v.OK
	if needJSON {
		raw, _ = json.Marshal(c)
	}
	st.mu.Lock()
	defer st.mu.Unlock()
	st.Evals++
	if v.Inconclusive {
		st.Inconcl++
	}
	for _, l := range v.Labels {
		st.Labels[l]++
	}
	for k, n := range v.Counters {
		st.Counters[k] += n
	}
	if !v.OK {
		st.Violation++
	}
	if v.NonTrivial {
		st.NonTriv++
		h := hashBytes(append([]byte(kind+"|"), raw...))
		if _, seen := st.hashes[h]; !seen {
			st.hashes[h] = struct{}{}
			// deterministic sample selection: the first 2 of each kind, then sparse picks
			n := st.sampleN[kind]
			if n < 2 || (n < 6 && h%97 == 0) {
				if len(raw) < 6000 {
					s, _ := json.Marshal(map[string]interface{}{"kind": kind, "case": json.RawMessage(raw)})
					st.Samples = append(st.Samples, s)
					st.sampleN[kind] = n + 1
				}
			}
		}
	}
}

// SaveCase writes a case file to path.
func SaveCase(path, kind string, c interface{}, v *Verdict, note string) {
	if path == "" {
		return
	}
	raw, err := json.Marshal(c)
	if err != nil {
		return
	}
	cf := CaseFile{Property: st.Property, Format: 1, Seed: int64(EnvInt("VERIF_SEED", 1)), Note: note, Kind: kind, Case: raw, Verdict: v}
	out, _ := json.MarshalIndent(cf, "", " ")
	tmp := path + ".tmp"
	if os.WriteFile(tmp, out, 0644) == nil {
		os.Rename(tmp, path)
	}
}

// ReportFailure persists the failing case for the driver ($VERIF_FAILCASE).
func ReportFailure(kind string, c interface{}, v Verdict) {
	SaveCase(os.Getenv("VERIF_FAILCASE"), kind, c, &v, "failing case (last written = most shrunk)")
}

// PersistCurrent writes the case about to be executed to $VERIF_CURCASE so that an
// unrecoverable crash of the process (fatal error, panic in a goroutine the code under
// test started) can still be attributed to a case by the driver.
func PersistCurrent(kind string, c interface{}) {
	if p := os.Getenv("VERIF_CURCASE"); p != "" {
		SaveCase(p, kind, c, nil, "case running when the process died")
	}
}

// ClearCurrent removes the current-case marker (the case finished).
func ClearCurrent() {
	if p := os.Getenv("VERIF_CURCASE"); p != "" {
		os.Remove(p)
	}
}

// Guard runs f and converts a panic into a violation verdict of clause "panic".
func Guard(f func() Verdict) (v Verdict) {
	defer func() {
		if r := recover(); r != nil {
			v = Fail("panic", "%v\n%s", r, trimStack(debug.Stack()))
		}
	}()
	return f()
}

// PanicStack renders the stack of a panic being recovered (call it inside the deferred function,
// after recover() returned non-nil) in the deterministic short form used by Guard.
func PanicStack() string { return trimStack(debug.Stack()) }

// trimStack renders a stack deterministically: only function names and file:line of
// frames below the panic, no addresses or goroutine ids (rapid shrinks a failure only
// when the re-run reports the same message).
func trimStack(b []byte) string {
	lines := strings.Split(string(b), "\n")
	var out []string
	seenPanic := false
	for _, l := range lines {
		t := strings.TrimSpace(l)
		if strings.HasPrefix(t, "panic(") {
			seenPanic = true
			out = out[:0]
			continue
		}
		if !seenPanic || !strings.HasPrefix(l, "\t") {
			continue
		}
		// "\t/path/file.go:123 +0x1d" -> "/path/file.go:123"
		if i := strings.Index(t, " +0x"); i > 0 {
			t = t[:i]
		}
		if strings.Contains(t, "/runtime/") || strings.Contains(t, "/testing/") || strings.Contains(t, "pgregory.net") {
			continue
		}
		out = append(out, t)
		if len(out) >= 8 {
			break
		}
	}
	return strings.Join(out, " < ")
}

// Check is TestProp: draws cases with rapid, executes them, records statistics, and on
// a violation writes the fail case and fails the rapid test (which then shrinks).
func Check[C any](t *testing.T, kind string, gen func(*rapid.T) C, exec func(C) Verdict) {
	rapid.Check(t, func(rt *rapid.T) {
		c := gen(rt)
		v := exec(c)
		Record(kind, c, v)
		if !v.OK {
			ReportFailure(kind, c, v)
			rt.Fatalf("VIOLATION clause=%s step=%d: %s", v.Clause, v.Step, v.Detail)
		}
	})
}

// One executes a single (enumerated) case through the same accounting; it returns
// false after reporting when the case violates the property.
func One[C any](t testing.TB, kind string, c C, exec func(C) Verdict) bool {
	v := exec(c)
	Record(kind, c, v)
	if !v.OK {
		ReportFailure(kind, c, v)
		t.Errorf("VIOLATION clause=%s step=%d: %s", v.Clause, v.Step, v.Detail)
		return false
	}
	return true
}

// Replay is TestReplay: executes the case in $VERIF_REPLAY with the executor registered
// for its kind. The test fails iff the case violates the property.
func Replay(t *testing.T, execs map[string]func(json.RawMessage) (Verdict, error)) {
	path := os.Getenv("VERIF_REPLAY")
	if path == "" {
		t.Skip("no VERIF_REPLAY")
	}
	b, err := os.ReadFile(path)
	if err != nil {
		t.Fatalf("REPLAY-ERROR read: %v", err)
	}
	var cf CaseFile
	if err := json.Unmarshal(b, &cf); err != nil {
		t.Fatalf("REPLAY-ERROR parse: %v", err)
	}
	ex, ok := execs[cf.Kind]
	if !ok {
		t.Fatalf("REPLAY-ERROR unknown kind %q", cf.Kind)
	}
	reps := EnvInt("VERIF_REPLAY_REPEAT", 1)
	for i := 0; i < reps; i++ {
		v, err := ex(cf.Case)
		if err != nil {
			t.Fatalf("REPLAY-ERROR decode: %v", err)
		}
		if !v.OK {
			fmt.Printf("REPLAY-VIOLATION clause=%s step=%d: %s\n", v.Clause, v.Step, v.Detail)
			t.Fatalf("replayed case violates the property: clause=%s step=%d: %s", v.Clause, v.Step, v.Detail)
		}
	}
	fmt.Printf("REPLAY-OK %s\n", path)
}

// Exec adapts a typed executor for Replay.
func Exec[C any](exec func(C) Verdict) func(json.RawMessage) (Verdict, error) {
	return func(raw json.RawMessage) (Verdict, error) {
		var c C
		if err := json.Unmarshal(raw, &c); err != nil {
			return Verdict{}, err
		}
		return exec(c), nil
	}
}

// Main is TestMain: runs the tests and writes the statistics file ($VERIF_STATS) and
// the hash file ($VERIF_STATS.hashes, little-endian uint64s) for the driver.
func Main(m *testing.M, property string) {
	st.Property = property
	code := m.Run()
	WriteStats()
	os.Exit(code)
}

// WriteStats flushes the statistics (also callable before a deliberate os.Exit).
func WriteStats() {
	path := os.Getenv("VERIF_STATS")
	if path == "" {
		return
	}
	if IsFuzzWorker() {
		// worker processes of a native fuzzing campaign leave their own statistics file next
		// to the coordinator's; the driver merges every "<stats>.w<pid>" file
		path = fmt.Sprintf("%s.w%d", path, os.Getpid())
	}
	st.mu.Lock()
	defer st.mu.Unlock()
	out := map[string]interface{}{
		"property":                  st.Property,
		"evaluations":               st.Evals,
		"nontrivial_total":          st.NonTriv,
		"distinct_nontrivial":       len(st.hashes),
		"labels":                    st.Labels,
		"counters":                  st.Counters,
		"excluded_by_known_finding": st.Excluded,
		"samples":                   st.Samples,
		"violations":                st.Violation,
		"inconclusive":              st.Inconcl,
		"notes":                     st.Notes,
		"exhaustive_parts":          st.Exhaust,
	}
	b, _ := json.Marshal(out)
	os.WriteFile(path, b, 0644)
	hs := make([]uint64, 0, len(st.hashes))
	for h := range st.hashes {
		hs = append(hs, h)
	}
	sort.Slice(hs, func(i, j int) bool { return hs[i] < hs[j] })
	buf := make([]byte, 8*len(hs))
	for i, h := range hs {
		binary.LittleEndian.PutUint64(buf[8*i:], h)
	}
	os.WriteFile(path+".hashes", buf, 0644)
}

var uniformGens [40]*rapid.Generator[int]

func init() {
	for k := range uniformGens {
		k := k
		uniformGens[k] = rapid.Custom(func(t *rapid.T) int {
			v := 0
			for i := 0; i < k; i++ {
				if rapid.Bool().Draw(t, "b") {
					v |= 1 << uint(i)
				}
			}
			return v
		})
	}
}

// IsFuzzWorker reports whether this process is a worker of a native go fuzzing campaign.
func IsFuzzWorker() bool {
	for _, a := range os.Args[1:] {
		if strings.HasPrefix(a, "-test.fuzzworker") {
			return true
		}
	}
	return false
}

// FuzzRapid is a native fuzz target over a rapid generator: the fuzzer's bytes become the
// bit stream the generator draws from (rapid.MakeFuzz), so coverage feedback steers the same
// case space TestProp samples blindly. A violation is reported like any other failing case.
func FuzzRapid[C any](f *testing.F, kind string, gen func(*rapid.T) C, exec func(C) Verdict) {
	f.Fuzz(rapid.MakeFuzz(func(rt *rapid.T) {
		c := gen(rt)
		v := exec(c)
		Record(kind, c, v)
		if !v.OK {
			ReportFailure(kind, c, v)
			rt.Fatalf("VIOLATION clause=%s step=%d: %s", v.Clause, v.Step, v.Detail)
		}
	}))
}

// Uniform draws an (almost exactly) uniform integer in [0,n). rapid's own integer
// generators are deliberately biased towards small values, which starves the later
// alternatives of weighted choices; this one is built from fair coin flips and still
// shrinks towards 0.
func Uniform(t *rapid.T, n int, label string) int {
	if n <= 1 {
		return 0
	}
	bits := 0
	for (1 << uint(bits)) < n {
		bits++
	}
	bits += 4 // modulo bias < 1/16 relative
	return uniformGens[bits].Draw(t, label) % n
}

// Chance is true with probability pct/100 (uniform).
func Chance(t *rapid.T, pct int, label string) bool { return Uniform(t, 100, label) < pct }
