package hx
