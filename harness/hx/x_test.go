package hx
import ("testing";"pgregory.net/rapid"; _ "github.com/goatcms/goatcore/filesystem/filespace/memfs")
func TestX(t *testing.T){ rapid.Check(t, func(t *rapid.T){ _ = rapid.Int().Draw(t,"x") }) }
