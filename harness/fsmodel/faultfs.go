package fsmodel

import (
	"fmt"
	"os"
	"sync"

	"github.com/goatcms/goatcore/filesystem"
)

// FaultCtl counts the fallible I/O calls made through a FaultFS (and every view,
// reader and writer obtained from it) and makes call number FailAt fail once.
type FaultCtl struct {
	mu     sync.Mutex
	N      int
	FailAt int // -1 = never
	Fired  bool
	What   string // description of the call that was failed
	Trace  []string
	Keep   bool // record Trace
}

// NewFaultCtl returns a controller that fails call number failAt (0-based; -1 = none).
func NewFaultCtl(failAt int) *FaultCtl { return &FaultCtl{FailAt: failAt} }

// ErrInjected is the injected failure.
var ErrInjected = fmt.Errorf("injected I/O failure")

func (c *FaultCtl) hit(what string) error {
	c.mu.Lock()
	defer c.mu.Unlock()
	n := c.N
	c.N++
	if c.Keep {
		c.Trace = append(c.Trace, what)
	}
	if n == c.FailAt {
		c.Fired = true
		c.What = what
		return fmt.Errorf("%w at call %d (%s)", ErrInjected, n, what)
	}
	return nil
}

// Count returns the number of counted calls so far.
func (c *FaultCtl) Count() int {
	c.mu.Lock()
	defer c.mu.Unlock()
	return c.N
}

// FaultFS wraps a filespace.
type FaultFS struct {
	FS
	ctl  *FaultCtl
	name string
}

// NewFaultFS wraps fs.
func NewFaultFS(fs FS, ctl *FaultCtl, name string) *FaultFS {
	return &FaultFS{FS: fs, ctl: ctl, name: name}
}

func (f *FaultFS) Copy(src, dest string) error {
	if err := f.ctl.hit(f.name + ".Copy " + src + " " + dest); err != nil {
		return err
	}
	return f.FS.Copy(src, dest)
}
func (f *FaultFS) CopyDirectory(src, dest string) error {
	if err := f.ctl.hit(f.name + ".CopyDirectory " + src + " " + dest); err != nil {
		return err
	}
	return f.FS.CopyDirectory(src, dest)
}
func (f *FaultFS) CopyFile(src, dest string) error {
	if err := f.ctl.hit(f.name + ".CopyFile " + src + " " + dest); err != nil {
		return err
	}
	return f.FS.CopyFile(src, dest)
}
func (f *FaultFS) ReadDir(p string) ([]os.FileInfo, error) {
	if err := f.ctl.hit(f.name + ".ReadDir " + p); err != nil {
		return nil, err
	}
	return f.FS.ReadDir(p)
}
func (f *FaultFS) MkdirAll(p string, m os.FileMode) error {
	if err := f.ctl.hit(f.name + ".MkdirAll " + p); err != nil {
		return err
	}
	return f.FS.MkdirAll(p, m)
}
func (f *FaultFS) ReadFile(p string) ([]byte, error) {
	if err := f.ctl.hit(f.name + ".ReadFile " + p); err != nil {
		return nil, err
	}
	return f.FS.ReadFile(p)
}
func (f *FaultFS) WriteFile(p string, d []byte, m os.FileMode) error {
	if err := f.ctl.hit(f.name + ".WriteFile " + p); err != nil {
		return err
	}
	return f.FS.WriteFile(p, d, m)
}
func (f *FaultFS) Filespace(p string) (filesystem.Filespace, error) {
	if err := f.ctl.hit(f.name + ".Filespace " + p); err != nil {
		return nil, err
	}
	c, err := f.FS.Filespace(p)
	if err != nil {
		return nil, err
	}
	return &FaultFS{FS: c, ctl: f.ctl, name: f.name + "/" + p}, nil
}
func (f *FaultFS) Remove(p string) error {
	if err := f.ctl.hit(f.name + ".Remove " + p); err != nil {
		return err
	}
	return f.FS.Remove(p)
}
func (f *FaultFS) RemoveAll(p string) error {
	if err := f.ctl.hit(f.name + ".RemoveAll " + p); err != nil {
		return err
	}
	return f.FS.RemoveAll(p)
}
func (f *FaultFS) Lstat(p string) (os.FileInfo, error) {
	if err := f.ctl.hit(f.name + ".Lstat " + p); err != nil {
		return nil, err
	}
	return f.FS.Lstat(p)
}
func (f *FaultFS) Reader(p string) (filesystem.Reader, error) {
	if err := f.ctl.hit(f.name + ".Reader " + p); err != nil {
		return nil, err
	}
	r, err := f.FS.Reader(p)
	if err != nil {
		return nil, err
	}
	return &faultReader{r: r, ctl: f.ctl, name: f.name + ":" + p}, nil
}
func (f *FaultFS) Writer(p string) (filesystem.Writer, error) {
	if err := f.ctl.hit(f.name + ".Writer " + p); err != nil {
		return nil, err
	}
	w, err := f.FS.Writer(p)
	if err != nil {
		return nil, err
	}
	return &faultWriter{w: w, ctl: f.ctl, name: f.name + ":" + p, fs: f.FS, path: p}, nil
}

type faultReader struct {
	r    filesystem.Reader
	ctl  *FaultCtl
	name string
}

func (r *faultReader) Read(p []byte) (int, error) {
	if err := r.ctl.hit(r.name + " Read"); err != nil {
		return 0, err
	}
	return r.r.Read(p)
}
func (r *faultReader) Close() error {
	err := r.ctl.hit(r.name + " reader.Close")
	cerr := r.r.Close() // always release the underlying handle
	if err != nil {
		return err
	}
	return cerr
}

type faultWriter struct {
	w    filesystem.Writer
	ctl  *FaultCtl
	name string
	fs   FS
	path string
}

func (w *faultWriter) Write(p []byte) (int, error) {
	if err := w.ctl.hit(w.name + " Write"); err != nil {
		return 0, err
	}
	return w.w.Write(p)
}
func (w *faultWriter) Close() error {
	err := w.ctl.hit(w.name + " writer.Close")
	cerr := w.w.Close() // always release the underlying handle
	if err != nil {
		// a failed Close means the data did not reach the store: emulate a torn write
		w.fs.WriteFile(w.path, []byte("TORN-WRITE-AFTER-FAILED-CLOSE"), filesystem.DefaultUnixFileMode)
		return err
	}
	return cerr
}

// TNode is one node of a serialisable tree description.
type TNode struct {
	Path string `json:"path"`
	Dir  bool   `json:"dir,omitempty"`
	Data []byte `json:"data,omitempty"`
}

// Flatten lists the nodes of a model tree (parents before children).
func Flatten(n *Node) []TNode {
	var out []TNode
	var rec func(n *Node, p string)
	rec = func(n *Node, p string) {
		for _, k := range n.Names() {
			q := k
			if p != "" {
				q = p + "/" + k
			}
			if n.Kids[k].Dir {
				out = append(out, TNode{Path: q, Dir: true})
				rec(n.Kids[k], q)
			} else {
				out = append(out, TNode{Path: q, Data: n.Kids[k].Data})
			}
		}
	}
	rec(n, "")
	return out
}

// Build turns a flat description into a model tree.
func Build(nodes []TNode) *Node {
	m := NewModel(Options{})
	for _, t := range nodes {
		if t.Dir {
			m.Apply(Op{Op: "MkdirAll", Path: t.Path})
		} else {
			m.Apply(Op{Op: "WriteFile", Path: t.Path, Data: t.Data})
		}
	}
	return m.Root
}

// Populate writes a flat description into a real filespace.
func Populate(fs FS, nodes []TNode) error {
	for _, t := range nodes {
		if t.Dir {
			if err := fs.MkdirAll(t.Path, filesystem.DefaultUnixDirMode); err != nil {
				return err
			}
		} else if err := fs.WriteFile(t.Path, append([]byte{}, t.Data...), filesystem.DefaultUnixFileMode); err != nil {
			return err
		}
	}
	return nil
}
