package fsmodel

import (
	"strings"

	"pgregory.net/rapid"
	"verif/harness/hx"
)

// GenCfg configures the model-aware history generator.
type GenCfg struct {
	MinOps, MaxOps int
	Opt            Options
	Views          bool // generate Filespace ops and use the resulting receivers
	OddNames       bool // low-probability odd but legal names
	NoisyPaths     bool // redundant spellings ('//', './', 'x/../', leading '/', trailing '/')
	BigData        bool // occasional multi-KiB contents
	// Weights per op name; zero/absent = default weight for the op, negative = never.
	Weights map[string]int
	// Initial tree to start from (cloned); nil = empty.
	Initial *Node
	// DropFailingMutations: mutating ops that the model refuses (or leaves open) are not emitted.
	DropFailingMutations bool
	// KeepFailingPct: with DropFailingMutations, keep a model-refused (Err == Yes) mutation with this probability.
	KeepFailingPct int
	// Hook lets a property veto/adjust an op after drawing (return false to drop it).
	Hook func(m *Model, op *Op) bool
	// Prefix: constructed ops that open the history (applied to the generator's model first, vetoed by Hook like drawn ones).
	Prefix []Op
}

var allOps = []string{"WriteFile", "Writer", "MkdirAll", "Remove", "RemoveAll", "Copy", "CopyFile", "CopyDirectory",
	"ReadDir", "IsExist", "IsFile", "IsDir", "ReadFile", "Reader", "Lstat", "Filespace"}

var defaultWeights = map[string]int{"WriteFile": 14, "Writer": 8, "MkdirAll": 8, "Remove": 8, "RemoveAll": 5, "Copy": 5,
	"CopyFile": 5, "CopyDirectory": 5, "ReadDir": 7, "IsExist": 4, "IsFile": 3, "IsDir": 3, "ReadFile": 7, "Reader": 4, "Lstat": 4, "Filespace": 4}

var namePool = []string{"a", "b", "c", "d"}
var oddPool = []string{"...", ".h", "a.b", "a b", "é", "-x", "A", ".a", ".cfg", "..a", "a.", "_"}

type gen struct {
	rt  *rapid.T
	cfg GenCfg
	m   *Model
}

func (g *gen) intn(n int, label string) int {
	if n <= 1 {
		return 0
	}
	return hx.Uniform(g.rt, n, label)
}

func (g *gen) chance(pct int, label string) bool {
	return hx.Chance(g.rt, pct, label)
}

// derived names: a sibling whose name is another pool name plus a typical temporary-file
// decoration; implementations that stage writes in "<name>.tmp"-like files collide with them.
var derivedSuffixes = []string{".tmp", "~", ".bak", ".part", ".lock", ".new", ".swp", ".orig"}

func (g *gen) name() string {
	if hx.Uniform(g.rt, 100, "derived") >= 93 {
		return namePool[g.intn(len(namePool), "dname")] + derivedSuffixes[g.intn(len(derivedSuffixes), "dsuf")]
	}
	if g.cfg.OddNames && hx.Uniform(g.rt, 100, "odd") >= 94 {
		return oddPool[g.intn(len(oddPool), "oddi")]
	}
	return namePool[g.intn(len(namePool), "name")]
}

// collect lists relative paths (as segment lists) of nodes below base by kind.
func collect(n *Node, prefix []string, files, dirs *[][]string) {
	if n == nil || !n.Dir {
		return
	}
	for _, k := range n.Names() {
		p := Join(prefix, []string{k})
		if n.Kids[k].Dir {
			*dirs = append(*dirs, p)
			collect(n.Kids[k], p, files, dirs)
		} else {
			*files = append(*files, p)
		}
	}
}

const (
	kExFile = iota
	kExDir
	kExAny
	kFresh
	kFreshDeep
	kThroughFile
	kRoot
)

// pick chooses a relative target of the wanted kind under the receiver's base.
func (g *gen) pick(base []string, kind int) []string {
	var files, dirs [][]string
	collect(g.m.Root.Lookup(base), nil, &files, &dirs)
	switch kind {
	case kExFile:
		if len(files) > 0 {
			return files[g.intn(len(files), "f")]
		}
		return g.pick(base, kFresh)
	case kExDir:
		if len(dirs) > 0 {
			return dirs[g.intn(len(dirs), "d")]
		}
		return g.pick(base, kFresh)
	case kExAny:
		all := append(append([][]string{}, files...), dirs...)
		if len(all) > 0 {
			return all[g.intn(len(all), "n")]
		}
		return g.pick(base, kFresh)
	case kFresh, kFreshDeep:
		// parent: the base itself or an existing directory; then 1 (or 2-3) new names
		parent := []string{}
		if len(dirs) > 0 && g.chance(60, "sub") {
			parent = dirs[g.intn(len(dirs), "pd")]
		}
		n := 1
		if kind == kFreshDeep {
			n = 2 + g.intn(2, "deep")
		}
		p := append([]string{}, parent...)
		for i := 0; i < n; i++ {
			p = append(p, g.name())
		}
		return p
	case kThroughFile:
		if len(files) > 0 {
			return Join(files[g.intn(len(files), "tf")], []string{g.name()})
		}
		return g.pick(base, kFresh)
	}
	return []string{}
}

// pickW picks a kind by weights [kind, weight, kind, weight, ...].
func (g *gen) pickW(base []string, kw ...int) []string {
	total := 0
	for i := 1; i < len(kw); i += 2 {
		total += kw[i]
	}
	r := g.intn(total, "k")
	for i := 0; i < len(kw); i += 2 {
		if r < kw[i+1] {
			return g.pick(base, kw[i])
		}
		r -= kw[i+1]
	}
	return g.pick(base, kw[0])
}

// Spell renders relative segments as a (possibly noisy) path string.
func (g *gen) spell(segs []string) string {
	if !g.cfg.NoisyPaths || g.chance(55, "plain") {
		if len(segs) == 0 {
			return []string{"", ".", "/", "./"}[g.intn(4, "rs")]
		}
		return strings.Join(segs, "/")
	}
	if len(segs) == 0 {
		roots := []string{"", ".", "/", "./.", "a/..", "./", "//", "a/b/../..", "/."}
		return roots[g.intn(len(roots), "rs")]
	}
	var sb strings.Builder
	switch g.intn(6, "lead") {
	case 0:
		sb.WriteString("/")
	case 1:
		sb.WriteString("./")
	case 2:
		sb.WriteString(g.name() + "/../")
	}
	for i, s := range segs {
		if i > 0 {
			switch g.intn(8, "sep") {
			case 0:
				sb.WriteString("//")
			case 1:
				sb.WriteString("/./")
			case 2:
				sb.WriteString("/" + g.name() + "/../")
			default:
				sb.WriteString("/")
			}
		}
		sb.WriteString(s)
	}
	switch g.intn(8, "trail") {
	case 0:
		sb.WriteString("/")
	case 1:
		sb.WriteString("/.")
	case 2:
		sb.WriteString("/" + g.name() + "/..")
	}
	return sb.String()
}

func (g *gen) data() []byte {
	c := g.intn(100, "dc")
	switch {
	case c < 10:
		return []byte{}
	case c < 80:
		return rapid.SliceOfN(rapid.Byte(), 1, 24).Draw(g.rt, "data")
	case c < 95 || !g.cfg.BigData:
		return rapid.SliceOfN(rapid.Byte(), 25, 200).Draw(g.rt, "data")
	default:
		n := 4000 + g.intn(300, "big")
		seed := byte(g.intn(256, "bs"))
		b := make([]byte, n)
		for i := range b {
			b[i] = byte(i*7) + seed
		}
		return b
	}
}

func (g *gen) bufs() []int {
	n := 1 + g.intn(3, "nb")
	out := make([]int, n)
	for i := range out {
		out[i] = []int{1, 2, 3, 7, 16, 64, 512, 4096}[g.intn(8, "bsz")]
	}
	return out
}

func (g *gen) opKind() string {
	total := 0
	ws := make([]int, len(allOps))
	for i, o := range allOps {
		w := defaultWeights[o]
		if cw, ok := g.cfg.Weights[o]; ok {
			w = cw
		}
		if o == "Filespace" && !g.cfg.Views {
			w = 0
		}
		if w < 0 {
			w = 0
		}
		ws[i] = w
		total += w
	}
	r := g.intn(total, "op")
	for i, w := range ws {
		if r < w {
			return allOps[i]
		}
		r -= w
	}
	return "IsExist"
}

func (g *gen) one() (Op, bool) {
	op := Op{Op: g.opKind()}
	// receiver
	live := []int{}
	for i, v := range g.m.Views {
		if v != nil {
			live = append(live, i)
		}
	}
	if len(live) > 1 && g.chance(50, "useview") {
		op.Recv = live[1+g.intn(len(live)-1, "recv")]
	}
	base := g.m.Views[op.Recv]
	switch op.Op {
	case "WriteFile":
		op.Path = g.spell(g.pickW(base, kExFile, 38, kFresh, 37, kFreshDeep, 10, kExDir, 8, kThroughFile, 7))
		op.Data = g.data()
		op.Scribble = g.chance(50, "scr")
	case "Writer":
		op.Path = g.spell(g.pickW(base, kExFile, 45, kFresh, 33, kFreshDeep, 8, kExDir, 7, kThroughFile, 7))
		n := g.intn(5, "nch")
		op.Chunks = make([][]byte, n)
		for i := range op.Chunks {
			op.Chunks[i] = g.data()
		}
		op.Scribble = g.chance(50, "scr")
	case "MkdirAll":
		op.Path = g.spell(g.pickW(base, kExDir, 20, kFresh, 40, kFreshDeep, 20, kExFile, 8, kThroughFile, 5, kRoot, 7))
	case "Remove":
		op.Path = g.spell(g.pickW(base, kExFile, 42, kExDir, 38, kFresh, 14, kThroughFile, 6))
	case "RemoveAll":
		op.Path = g.spell(g.pickW(base, kExAny, 82, kFresh, 14, kThroughFile, 4))
	case "CopyFile":
		op.Path = g.spell(g.pickW(base, kExFile, 85, kExDir, 6, kFresh, 9))
		op.Path2 = g.spell(g.pickW(base, kFresh, 72, kFreshDeep, 22, kThroughFile, 6))
	case "CopyDirectory":
		op.Path = g.spell(g.pickW(base, kExDir, 85, kExFile, 6, kFresh, 9))
		op.Path2 = g.spell(g.pickW(base, kFresh, 72, kFreshDeep, 22, kThroughFile, 6))
	case "Copy":
		op.Path = g.spell(g.pickW(base, kExAny, 90, kFresh, 10))
		op.Path2 = g.spell(g.pickW(base, kFresh, 72, kFreshDeep, 22, kThroughFile, 6))
	case "ReadDir":
		op.Path = g.spell(g.pickW(base, kExDir, 60, kRoot, 22, kExFile, 8, kFresh, 10))
		op.Scribble = g.chance(35, "scr")
	case "IsExist", "IsFile", "IsDir", "Lstat":
		op.Path = g.spell(g.pickW(base, kExAny, 60, kFresh, 20, kRoot, 10, kThroughFile, 10))
	case "ReadFile":
		op.Path = g.spell(g.pickW(base, kExFile, 75, kExDir, 8, kFresh, 10, kThroughFile, 4, kRoot, 3))
		op.Scribble = g.chance(50, "scr")
	case "Reader":
		op.Path = g.spell(g.pickW(base, kExFile, 80, kExDir, 8, kFresh, 8, kRoot, 4))
		op.Bufs = g.bufs()
	case "Filespace":
		op.Path = g.spell(g.pickW(base, kExDir, 74, kRoot, 8, kFresh, 12, kExFile, 6))
	}
	if g.cfg.Hook != nil && !g.cfg.Hook(g.m, &op) {
		return op, false
	}
	return op, true
}

// GenHistory draws a history; ops outside the model's domain (Skip) are dropped while
// drawing, so (nearly) every generated op is executed.
func GenHistory(rt *rapid.T, cfg GenCfg) []Op {
	g := &gen{rt: rt, cfg: cfg, m: NewModel(cfg.Opt)}
	if cfg.Initial != nil {
		g.m.Root = cfg.Initial.Clone()
	}
	n := rapid.IntRange(cfg.MinOps, cfg.MaxOps).Draw(rt, "nops")
	ops := make([]Op, 0, n+len(cfg.Prefix))
	for _, op := range cfg.Prefix {
		if cfg.Hook != nil && !cfg.Hook(g.m, &op) {
			continue
		}
		if e := g.m.Apply(op); e.Skip {
			continue
		}
		ops = append(ops, op)
	}
	n += len(ops)
	for tries := 0; len(ops) < n && tries < 3*n+10; tries++ {
		op, ok := g.one()
		if !ok {
			continue
		}
		views := len(g.m.Views)
		e := g.m.Apply(op)
		if e.Skip {
			if len(g.m.Views) != views {
				g.m.Views = g.m.Views[:views]
			}
			continue
		}
		if cfg.DropFailingMutations && Mutating(op.Op) && e.Err != No {
			if !(e.Err == Yes && cfg.KeepFailingPct > 0 && hx.Chance(rt, cfg.KeepFailingPct, "keepfail")) {
				continue // the model is unchanged by a refused op
			}
		}
		ops = append(ops, op)
	}
	return ops
}

// GenTree draws a small initial tree.
func GenTree(rt *rapid.T, maxNodes int, odd bool) *Node {
	g := &gen{rt: rt, cfg: GenCfg{OddNames: odd}, m: NewModel(Options{})}
	n := g.intn(maxNodes+1, "tn")
	for i := 0; i < n; i++ {
		if g.chance(35, "isdir") {
			g.m.Apply(Op{Op: "MkdirAll", Path: strings.Join(g.pickW(nil, kFresh, 70, kFreshDeep, 30), "/")})
		} else {
			g.m.Apply(Op{Op: "WriteFile", Path: strings.Join(g.pickW(nil, kFresh, 70, kFreshDeep, 20, kExFile, 10), "/"), Data: g.data()})
		}
	}
	return g.m.Root
}
