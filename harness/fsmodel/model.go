// Package fsmodel is the shared reference model for goatcore filespaces
// (DESIGN.md section 3): a plain tree of named nodes, lexical path resolution,
// the 16 interface operations with their expected results, an executor that runs
// the same operations against real filespaces, a tree walker and generators.
package fsmodel

import (
	"bytes"
	"fmt"
	"sort"
	"strings"
)

// Node is a model node: a directory with children or a file with bytes.
type Node struct {
	Dir  bool
	Data []byte
	Kids map[string]*Node
}

// NewDir returns an empty directory node.
func NewDir() *Node { return &Node{Dir: true, Kids: map[string]*Node{}} }

// NewFile returns a file node holding a private copy of data.
func NewFile(data []byte) *Node { return &Node{Data: append([]byte{}, data...)} }

// Clone deep-copies the subtree.
func (n *Node) Clone() *Node {
	if n == nil {
		return nil
	}
	if !n.Dir {
		return NewFile(n.Data)
	}
	c := NewDir()
	for k, v := range n.Kids {
		c.Kids[k] = v.Clone()
	}
	return c
}

// Equal compares two subtrees.
func (n *Node) Equal(o *Node) bool {
	if n == nil || o == nil {
		return n == o
	}
	if n.Dir != o.Dir {
		return false
	}
	if !n.Dir {
		return bytes.Equal(n.Data, o.Data)
	}
	if len(n.Kids) != len(o.Kids) {
		return false
	}
	for k, v := range n.Kids {
		if !v.Equal(o.Kids[k]) {
			return false
		}
	}
	return true
}

// Names returns the sorted child names.
func (n *Node) Names() []string {
	out := make([]string, 0, len(n.Kids))
	for k := range n.Kids {
		out = append(out, k)
	}
	sort.Strings(out)
	return out
}

// Count returns the number of nodes below n (n excluded).
func (n *Node) Count() int {
	if n == nil || !n.Dir {
		return 0
	}
	c := 0
	for _, k := range n.Kids {
		c += 1 + k.Count()
	}
	return c
}

// Resolve resolves a path lexically: "" and "." segments are dropped, ".." pops one
// segment; popping at depth 0 is an escape.
func Resolve(p string) (segs []string, escapes bool) {
	segs = []string{}
	for _, s := range strings.Split(p, "/") {
		switch s {
		case "", ".":
		case "..":
			if len(segs) == 0 {
				return nil, true
			}
			segs = segs[:len(segs)-1]
		default:
			segs = append(segs, s)
		}
	}
	return segs, false
}

// Join concatenates segment lists into a fresh slice.
func Join(a, b []string) []string {
	out := make([]string, 0, len(a)+len(b))
	out = append(out, a...)
	return append(out, b...)
}

// Lookup returns the node at segs or nil. A path through a file is nil.
func (n *Node) Lookup(segs []string) *Node {
	cur := n
	for _, s := range segs {
		if cur == nil || !cur.Dir {
			return nil
		}
		cur = cur.Kids[s]
	}
	return cur
}

// filePrefix reports whether a proper prefix of segs is a file.
func (n *Node) filePrefix(segs []string) bool {
	cur := n
	for i := 0; i < len(segs); i++ {
		if cur == nil {
			return false
		}
		if !cur.Dir {
			return true
		}
		cur = cur.Kids[segs[i]]
	}
	return false
}

// mkParents creates the directories segs[:len-1] (caller checked filePrefix) and returns the parent.
func (n *Node) mkdirs(segs []string) *Node {
	cur := n
	for _, s := range segs {
		nx := cur.Kids[s]
		if nx == nil {
			nx = NewDir()
			cur.Kids[s] = nx
		}
		cur = nx
	}
	return cur
}

func isPrefix(a, b []string) bool { // a is a prefix of (or equal to) b
	if len(a) > len(b) {
		return false
	}
	for i := range a {
		if a[i] != b[i] {
			return false
		}
	}
	return true
}

// Tri is a three-valued expectation.
type Tri int

const (
	No Tri = iota
	Yes
	Either
)

// Entry is one listing entry.
type Entry struct {
	Name string
	Dir  bool
}

// Expect is what the model says an operation must return.
type Expect struct {
	// Skip: the op is outside the domain the property fixes; it is not executed.
	Skip   bool
	Reason string
	Err    Tri
	Bool   bool
	Data   []byte
	List   []Entry
	// Lstat facts
	IsDir bool
	Size  int64
	Name  string // "" = not checked (root)
	// NewView: base of the receiver created by a Filespace op (nil if none)
	NewView []string
	HasView bool
}

// Op is one filespace operation of a history.
type Op struct {
	Recv   int      `json:"recv"`
	Op     string   `json:"op"`
	Path   string   `json:"path"`
	Path2  string   `json:"path2,omitempty"`
	Data   []byte   `json:"data,omitempty"`
	Chunks [][]byte `json:"chunks,omitempty"`
	Bufs   []int    `json:"bufs,omitempty"`
	// Scribble: after the call the caller overwrites the slice/listing it handed in or got back.
	Scribble bool `json:"scribble,omitempty"`
}

func (o Op) String() string {
	switch o.Op {
	case "Copy", "CopyFile", "CopyDirectory":
		return fmt.Sprintf("r%d.%s(%q,%q)", o.Recv, o.Op, o.Path, o.Path2)
	case "WriteFile":
		return fmt.Sprintf("r%d.WriteFile(%q,%dB)", o.Recv, o.Path, len(o.Data))
	case "Writer":
		return fmt.Sprintf("r%d.Writer(%q,%d chunks)", o.Recv, o.Path, len(o.Chunks))
	}
	return fmt.Sprintf("r%d.%s(%q)", o.Recv, o.Op, o.Path)
}

// Mutating reports whether the op kind can change the tree.
func Mutating(op string) bool {
	switch op {
	case "WriteFile", "Writer", "MkdirAll", "Remove", "RemoveAll", "Copy", "CopyFile", "CopyDirectory":
		return true
	}
	return false
}

// Model is the reference state: the tree plus the bases of all receivers.
type Model struct {
	Root *Node
	// Views[i] is the base path of receiver i; Views[0] is the root (empty base).
	// A nil entry with Dead[i] means the receiver slot exists but is unusable.
	Views [][]string
	// Opt selects the variant of the contract.
	Opt Options
}

// Options select the domain of ops the model fixes (others are skipped).
type Options struct {
	// StrictPre (C02): only ops whose preconditions hold are in the domain:
	// source exists, destination parent exists, copy destination absent,
	// Remove/RemoveAll target exists, Filespace target is a directory.
	StrictPre bool
}

// NewModel returns a model with an empty root.
func NewModel(opt Options) *Model {
	return &Model{Root: NewDir(), Views: [][]string{{}}, Opt: opt}
}

func skip(reason string) Expect { return Expect{Skip: true, Reason: reason} }

// Apply computes the expectation of op and applies its effect to the model.
func (m *Model) Apply(op Op) Expect {
	if op.Recv < 0 || op.Recv >= len(m.Views) || m.Views[op.Recv] == nil {
		return skip("no such receiver")
	}
	base := m.Views[op.Recv]
	rel, esc := Resolve(op.Path)
	if esc {
		return skip("escaping path")
	}
	p := Join(base, rel)
	root := m.Root
	if m.Opt.StrictPre && len(base) > 0 {
		if bn := root.Lookup(base); bn == nil || !bn.Dir {
			return skip("receiver's root is no longer a directory")
		}
	}
	switch op.Op {
	case "WriteFile", "Writer":
		if len(rel) == 0 {
			if n := root.Lookup(p); n != nil && n.Dir {
				return Expect{Err: Yes} // the receiver's root is a directory
			}
			return skip("write to a receiver root that is not a directory")
		}
		if root.filePrefix(p) {
			return Expect{Err: Yes}
		}
		if n := root.Lookup(p); n != nil && n.Dir {
			return Expect{Err: Yes}
		}
		if m.Opt.StrictPre && root.Lookup(p[:len(p)-1]) == nil {
			return skip("destination parent missing")
		}
		data := op.Data
		if op.Op == "Writer" {
			data = bytes.Join(op.Chunks, nil)
		}
		root.mkdirs(p[:len(p)-1]).Kids[p[len(p)-1]] = NewFile(data)
		return Expect{Err: No}
	case "MkdirAll":
		if root.filePrefix(p) {
			return Expect{Err: Yes}
		}
		if n := root.Lookup(p); n != nil && !n.Dir {
			return Expect{Err: Yes}
		}
		if m.Opt.StrictPre && len(p) > 0 && root.Lookup(p[:len(p)-1]) == nil {
			return skip("destination parent missing")
		}
		root.mkdirs(p)
		return Expect{Err: No}
	case "Remove", "RemoveAll":
		if len(rel) == 0 {
			return skip("remove of the receiver's own root")
		}
		for i, v := range m.Views {
			if i != 0 && v != nil && len(v) > 0 && isPrefix(p, v) && len(p) <= len(v) {
				// removing a directory that is (an ancestor of) a live view's root is
				// allowed: the view is path based. Nothing special to do.
				_ = i
			}
		}
		n := root.Lookup(p)
		if n == nil {
			if op.Op == "RemoveAll" {
				if m.Opt.StrictPre {
					return skip("remove target missing")
				}
				return Expect{Err: Either}
			}
			if m.Opt.StrictPre {
				return skip("remove target missing")
			}
			// "remove deletes a file or an empty directory only": nothing is said about a
			// missing target (both backends refuse it today; an idempotent Remove would be as good)
			return Expect{Err: Either}
		}
		if op.Op == "Remove" && n.Dir && len(n.Kids) > 0 {
			return Expect{Err: Yes}
		}
		delete(root.Lookup(p[:len(p)-1]).Kids, p[len(p)-1])
		return Expect{Err: No}
	case "Copy", "CopyFile", "CopyDirectory":
		rel2, esc2 := Resolve(op.Path2)
		if esc2 {
			return skip("escaping path")
		}
		d := Join(base, rel2)
		if len(rel2) == 0 {
			return skip("copy onto the receiver's own root")
		}
		src := root.Lookup(p)
		if src == nil {
			if m.Opt.StrictPre {
				return skip("copy source missing")
			}
			return Expect{Err: Yes}
		}
		if (op.Op == "CopyFile" && src.Dir) || (op.Op == "CopyDirectory" && !src.Dir) {
			if m.Opt.StrictPre {
				return skip("copy source has the wrong kind")
			}
			return Expect{Err: Yes}
		}
		if root.Lookup(d) != nil {
			return skip("copy destination exists")
		}
		if src.Dir && isPrefix(p, d) {
			return skip("copy destination inside source")
		}
		if root.filePrefix(d) {
			return Expect{Err: Yes}
		}
		if m.Opt.StrictPre && root.Lookup(d[:len(d)-1]) == nil {
			return skip("destination parent missing")
		}
		root.mkdirs(d[:len(d)-1]).Kids[d[len(d)-1]] = src.Clone()
		return Expect{Err: No}
	case "ReadDir":
		n := root.Lookup(p)
		if n == nil || !n.Dir {
			return Expect{Err: Yes}
		}
		e := Expect{Err: No, List: []Entry{}}
		for _, k := range n.Names() {
			e.List = append(e.List, Entry{k, n.Kids[k].Dir})
		}
		return e
	case "IsExist":
		return Expect{Bool: root.Lookup(p) != nil}
	case "IsFile":
		n := root.Lookup(p)
		return Expect{Bool: n != nil && !n.Dir}
	case "IsDir":
		n := root.Lookup(p)
		return Expect{Bool: n != nil && n.Dir}
	case "ReadFile", "Reader":
		n := root.Lookup(p)
		if n == nil || n.Dir {
			return Expect{Err: Yes}
		}
		return Expect{Err: No, Data: n.Data}
	case "Lstat":
		n := root.Lookup(p)
		if n == nil {
			return Expect{Err: Yes}
		}
		e := Expect{Err: No, IsDir: n.Dir, Size: int64(len(n.Data))}
		if len(rel) > 0 {
			e.Name = rel[len(rel)-1]
		}
		return e
	case "Filespace":
		n := root.Lookup(p)
		if n != nil && n.Dir {
			m.Views = append(m.Views, p)
			return Expect{Err: No, HasView: true, NewView: p}
		}
		if m.Opt.StrictPre {
			return skip("view target is not a directory")
		}
		// missing or a file: the statement does not fix whether a view is handed out.
		m.Views = append(m.Views, p)
		return Expect{Err: Either, HasView: true, NewView: p}
	}
	return skip("unknown op " + op.Op)
}
