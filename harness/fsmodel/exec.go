package fsmodel

import (
	"bytes"
	"fmt"
	"io"
	"os"
	"runtime/debug"
	"sort"
	"strings"

	"github.com/goatcms/goatcore/filesystem"
)

// FS is an alias that can be embedded in wrapper structs (a field named Filespace
// would clash with the interface method of the same name).
type FS = filesystem.Filespace

// Obs is what a real filespace answered.
type Obs struct {
	Err    error
	Panic  string
	Bool   bool
	Data   []byte
	List   []Entry
	IsDir  bool
	Size   int64
	Name   string
	View   FS
	Reads  int
	NilEnt bool // listing contained a nil entry
}

// Backend is a real filespace with its receivers (views), mirroring Model.Views.
type Backend struct {
	Name  string
	Recvs []FS
	// kept slices/listings for the snapshot clause
	keptData []keptData
	keptList []keptList
}

type keptData struct {
	op   string
	live []byte
	copy []byte
}

type keptList struct {
	op   string
	live []os.FileInfo
	copy []Entry
}

// NewBackend wraps a root filespace.
func NewBackend(name string, root FS) *Backend {
	return &Backend{Name: name, Recvs: []FS{root}}
}

func entriesOf(infos []os.FileInfo) (out []Entry, hasNil bool) {
	out = make([]Entry, 0, len(infos))
	for _, fi := range infos {
		if fi == nil {
			hasNil = true
			continue
		}
		out = append(out, Entry{fi.Name(), fi.IsDir()})
	}
	sort.Slice(out, func(i, j int) bool {
		if out[i].Name != out[j].Name {
			return out[i].Name < out[j].Name
		}
		return !out[i].Dir && out[j].Dir
	})
	return out, hasNil
}

func scribble(b []byte) {
	for i := range b {
		b[i] ^= 0xA5
	}
}

// ReadAllSized reads r to EOF using the given buffer sizes cyclically. It fails when
// the reader does not terminate within a generous number of calls.
func ReadAllSized(r io.Reader, bufs []int, expectLen int) (data []byte, reads int, err error) {
	if len(bufs) == 0 {
		bufs = []int{512}
	}
	limit := 2*expectLen + 64
	// consumption style, a pure function of the buffer sizes: plain Read loop (half of the cases),
	// or one Read followed by io.Copy (WriteTo of the reader, when it has one), or one Read
	// followed by io.ReadAll. A reader yields exactly the stored bytes however it is consumed.
	style := 0
	for _, b := range bufs {
		style += b
	}
	style = (style + len(bufs)) % 4
	for i := 0; ; i++ {
		if i == 1 && style >= 2 {
			var rest []byte
			var e error
			if style == 2 {
				var bb bytes.Buffer
				_, e = io.Copy(&bb, r)
				rest = bb.Bytes()
			} else {
				rest, e = io.ReadAll(r)
			}
			if len(rest) > 4*limit+4096 {
				return data, i + 1, fmt.Errorf("reader delivered %d more bytes after the first Read (%d expected in total)", len(rest), expectLen)
			}
			return append(data, rest...), i + 1, e
		}
		if i > limit {
			return data, i, fmt.Errorf("reader did not reach EOF within %d Read calls (%d bytes so far)", limit, len(data))
		}
		sz := bufs[i%len(bufs)]
		if sz < 1 {
			sz = 1
		}
		buf := make([]byte, sz)
		n, e := r.Read(buf)
		if n < 0 || n > sz {
			return data, i, fmt.Errorf("Read returned n=%d for a %d byte buffer", n, sz)
		}
		data = append(data, buf[:n]...)
		if e == io.EOF {
			return data, i + 1, nil
		}
		if e != nil {
			return data, i + 1, e
		}
	}
}

// Run executes op on the backend (the op must not be a model Skip). It recovers panics.
func (b *Backend) Run(op Op) (o Obs) {
	defer func() {
		if r := recover(); r != nil {
			o.Panic = fmt.Sprintf("%v\n%s", r, shortStack())
		}
	}()
	if op.Recv < 0 || op.Recv >= len(b.Recvs) || b.Recvs[op.Recv] == nil {
		o.Err = fmt.Errorf("harness: receiver %d unavailable", op.Recv)
		return o
	}
	fs := b.Recvs[op.Recv]
	switch op.Op {
	case "WriteFile":
		buf := append([]byte{}, op.Data...)
		o.Err = fs.WriteFile(op.Path, buf, filesystem.DefaultUnixFileMode)
		if op.Scribble {
			scribble(buf) // the caller reuses its buffer
		}
	case "Writer":
		w, err := fs.Writer(op.Path)
		if err != nil {
			o.Err = err
			return o
		}
		if w == nil {
			o.Err = fmt.Errorf("harness: Writer returned nil, nil")
			o.Panic = "Writer returned (nil, nil)"
			return o
		}
		for ci, c := range op.Chunks {
			buf := append([]byte{}, c...)
			// the three standard ways of feeding an io.Writer, chosen as a pure function of the case:
			// Write, io.Copy from a plain reader (uses the writer's ReadFrom when it has one) and
			// io.WriteString (uses WriteString when it has one). All must append in call order.
			var n int
			var err error
			switch (len(c) + ci) % 3 {
			case 0:
				n, err = w.Write(buf)
			case 1:
				var n64 int64
				n64, err = io.Copy(w, struct{ io.Reader }{bytes.NewReader(buf)})
				n = int(n64)
			default:
				n, err = io.WriteString(w, string(buf))
			}
			if op.Scribble {
				scribble(buf)
			}
			if err == nil && n != len(c) {
				err = fmt.Errorf("short write %d of %d without error", n, len(c))
			}
			if err != nil {
				o.Err = err
				break
			}
		}
		if err := w.Close(); err != nil && o.Err == nil {
			o.Err = err
		}
	case "MkdirAll":
		o.Err = fs.MkdirAll(op.Path, filesystem.DefaultUnixDirMode)
	case "Remove":
		o.Err = fs.Remove(op.Path)
	case "RemoveAll":
		o.Err = fs.RemoveAll(op.Path)
	case "Copy":
		o.Err = fs.Copy(op.Path, op.Path2)
	case "CopyFile":
		o.Err = fs.CopyFile(op.Path, op.Path2)
	case "CopyDirectory":
		o.Err = fs.CopyDirectory(op.Path, op.Path2)
	case "ReadDir":
		infos, err := fs.ReadDir(op.Path)
		o.Err = err
		if err == nil {
			o.List, o.NilEnt = entriesOf(infos)
			if op.Scribble {
				for i := range infos { // the caller reuses the slice it was given
					infos[i] = nil
				}
			} else if len(infos) > 0 {
				b.keptList = append(b.keptList, keptList{op.String(), infos, append([]Entry{}, rawEntries(infos)...)})
			}
		}
	case "IsExist":
		o.Bool = fs.IsExist(op.Path)
	case "IsFile":
		o.Bool = fs.IsFile(op.Path)
	case "IsDir":
		o.Bool = fs.IsDir(op.Path)
	case "ReadFile":
		data, err := fs.ReadFile(op.Path)
		o.Err = err
		if err == nil {
			o.Data = append([]byte{}, data...)
			if op.Scribble {
				scribble(data)
			} else if len(data) > 0 {
				b.keptData = append(b.keptData, keptData{op.String(), data, o.Data})
			}
		}
	case "Reader":
		r, err := fs.Reader(op.Path)
		if err != nil {
			o.Err = err
			return o
		}
		if r == nil {
			o.Panic = "Reader returned (nil, nil)"
			return o
		}
		data, reads, err := ReadAllSized(r, op.Bufs, 1<<16)
		o.Data, o.Reads, o.Err = data, reads, err
		if cerr := r.Close(); cerr != nil && o.Err == nil {
			o.Err = cerr
		}
	case "Lstat":
		fi, err := fs.Lstat(op.Path)
		o.Err = err
		if err == nil {
			if fi == nil {
				o.Panic = "Lstat returned (nil, nil)"
				return o
			}
			o.IsDir, o.Size, o.Name = fi.IsDir(), fi.Size(), fi.Name()
		}
	case "Filespace":
		v, err := fs.Filespace(op.Path)
		o.Err = err
		if err == nil {
			o.View = v
		}
		if err != nil || v == nil {
			b.Recvs = append(b.Recvs, nil)
		} else {
			b.Recvs = append(b.Recvs, v)
		}
	default:
		o.Err = fmt.Errorf("harness: unknown op %s", op.Op)
	}
	return o
}

func rawEntries(infos []os.FileInfo) []Entry {
	out := make([]Entry, 0, len(infos))
	for _, fi := range infos {
		if fi == nil {
			out = append(out, Entry{"<nil>", false})
			continue
		}
		out = append(out, Entry{fi.Name(), fi.IsDir()})
	}
	return out
}

func shortStack() string {
	lines := strings.Split(string(debug.Stack()), "\n")
	var out []string
	seen := false
	for _, l := range lines {
		t := strings.TrimSpace(l)
		if strings.HasPrefix(t, "panic(") {
			seen = true
			out = out[:0]
			continue
		}
		if !seen || !strings.HasPrefix(l, "\t") {
			continue
		}
		if i := strings.Index(t, " +0x"); i > 0 {
			t = t[:i]
		}
		if strings.Contains(t, "/runtime/") {
			continue
		}
		out = append(out, t)
		if len(out) >= 6 {
			break
		}
	}
	return strings.Join(out, " < ")
}

// CheckKept verifies the snapshot clause for everything handed out so far: slices and
// listings the caller still holds must be unchanged by later filespace activity.
func (b *Backend) CheckKept() string {
	for _, k := range b.keptData {
		if !bytes.Equal(k.live, k.copy) {
			return fmt.Sprintf("[%s] bytes returned earlier by %s changed under the caller: now %q, were %q", b.Name, k.op, clip(k.live), clip(k.copy))
		}
	}
	for _, k := range b.keptList {
		now := rawEntries(k.live)
		if len(now) != len(k.copy) {
			return fmt.Sprintf("[%s] listing returned earlier by %s changed length", b.Name, k.op)
		}
		for i := range now {
			if now[i] != k.copy[i] {
				return fmt.Sprintf("[%s] listing returned earlier by %s changed under the caller: now %v, was %v", b.Name, k.op, now, k.copy)
			}
		}
	}
	return ""
}

// DropKept forgets kept slices (bounded memory in long histories).
func (b *Backend) DropKept() { b.keptData, b.keptList = nil, nil }

func clip(b []byte) []byte {
	if len(b) > 40 {
		return b[:40]
	}
	return b
}

// Compare checks an observation against the expectation; "" means agreement.
func Compare(op Op, e Expect, o Obs) string {
	if o.Panic != "" {
		return fmt.Sprintf("%s panicked: %s", op, o.Panic)
	}
	switch op.Op {
	case "IsExist", "IsFile", "IsDir":
		if o.Bool != e.Bool {
			return fmt.Sprintf("%s = %v, model says %v", op, o.Bool, e.Bool)
		}
		return ""
	}
	switch e.Err {
	case Yes:
		if o.Err == nil {
			return fmt.Sprintf("%s succeeded, model says it must fail", op)
		}
		return ""
	case No:
		if o.Err != nil {
			return fmt.Sprintf("%s failed (%v), model says it must succeed", op, firstLine(o.Err.Error()))
		}
	case Either:
		if o.Err != nil {
			return ""
		}
	}
	switch op.Op {
	case "ReadDir":
		if o.NilEnt {
			return fmt.Sprintf("%s returned a nil entry", op)
		}
		if d := diffEntries(e.List, o.List); d != "" {
			return fmt.Sprintf("%s: %s", op, d)
		}
	case "ReadFile", "Reader":
		if !bytes.Equal(o.Data, e.Data) {
			return fmt.Sprintf("%s returned %d bytes %q, model has %d bytes %q", op, len(o.Data), clip(o.Data), len(e.Data), clip(e.Data))
		}
	case "Lstat":
		if o.IsDir != e.IsDir {
			return fmt.Sprintf("%s IsDir=%v, model %v", op, o.IsDir, e.IsDir)
		}
		if !e.IsDir && o.Size != e.Size {
			return fmt.Sprintf("%s Size=%d, model %d", op, o.Size, e.Size)
		}
		if e.Name != "" && o.Name != e.Name {
			return fmt.Sprintf("%s Name=%q, model %q", op, o.Name, e.Name)
		}
	case "Filespace":
		if e.Err == No && o.View == nil {
			return fmt.Sprintf("%s returned a nil view without error", op)
		}
	}
	return ""
}

func firstLine(s string) string {
	if i := strings.IndexByte(s, '\n'); i >= 0 {
		s = s[:i]
	}
	if len(s) > 200 {
		s = s[:200]
	}
	return s
}

func diffEntries(want, got []Entry) string {
	ws := map[Entry]int{}
	for _, w := range want {
		ws[w]++
	}
	names := map[string]int{}
	for _, g := range got {
		names[g.Name]++
		if names[g.Name] > 1 {
			return fmt.Sprintf("name %q listed %d times", g.Name, names[g.Name])
		}
	}
	for _, g := range got {
		if ws[g] == 0 {
			return fmt.Sprintf("lists %q (dir=%v) which the model does not have; listing %v, model %v", g.Name, g.Dir, got, want)
		}
		ws[g]--
	}
	for w, n := range ws {
		if n > 0 {
			return fmt.Sprintf("does not list %q (dir=%v); listing %v, model %v", w.Name, w.Dir, got, want)
		}
	}
	return ""
}

// Walk reads the whole tree below the filespace into a model tree. Self-referential or
// impossible entries (".", "..", "", names with "/") are reported as phantoms instead of
// being followed. deep additionally cross-checks Lstat/IsExist/IsFile/IsDir per node.
func Walk(fs FS, deep bool) (root *Node, problem string) {
	defer func() {
		if r := recover(); r != nil {
			root, problem = nil, fmt.Sprintf("tree walk panicked: %v\n%s", r, shortStack())
		}
	}()
	root = NewDir()
	problem = walkInto(fs, "", root, deep, 0, "")
	return root, problem
}

// WalkSkip is Walk without descending into the directory skip (a cleaned path); that
// directory appears as an empty directory in the result.
func WalkSkip(fs FS, skip string) (root *Node, problem string) {
	defer func() {
		if r := recover(); r != nil {
			root, problem = nil, fmt.Sprintf("tree walk panicked: %v\n%s", r, shortStack())
		}
	}()
	root = NewDir()
	problem = walkInto(fs, "", root, false, 0, skip)
	return root, problem
}

func walkInto(fs FS, dir string, into *Node, deep bool, depth int, skip string) string {
	if skip != "" && dir == skip {
		return ""
	}
	if depth > 40 {
		return fmt.Sprintf("tree deeper than 40 levels at %q", dir)
	}
	infos, err := fs.ReadDir(dir)
	if err != nil {
		return fmt.Sprintf("walk: ReadDir(%q) failed: %v", dir, firstLine(err.Error()))
	}
	for _, fi := range infos {
		if fi == nil {
			return fmt.Sprintf("walk: ReadDir(%q) contains a nil entry", dir)
		}
		name := fi.Name()
		if name == "" || name == "." || name == ".." || strings.Contains(name, "/") {
			return fmt.Sprintf("phantom node: ReadDir(%q) lists an entry named %q (dir=%v)", dir, name, fi.IsDir())
		}
		if _, dup := into.Kids[name]; dup {
			return fmt.Sprintf("walk: ReadDir(%q) lists %q twice", dir, name)
		}
		p := name
		if dir != "" {
			p = dir + "/" + name
		}
		if fi.IsDir() {
			kid := NewDir()
			into.Kids[name] = kid
			if deep {
				if !fs.IsExist(p) || !fs.IsDir(p) || fs.IsFile(p) {
					return fmt.Sprintf("walk: listed directory %q: IsExist=%v IsDir=%v IsFile=%v", p, fs.IsExist(p), fs.IsDir(p), fs.IsFile(p))
				}
				if st, err := fs.Lstat(p); err != nil || st == nil || !st.IsDir() {
					return fmt.Sprintf("walk: Lstat of listed directory %q: err=%v", p, err)
				}
			}
			if pr := walkInto(fs, p, kid, deep, depth+1, skip); pr != "" {
				return pr
			}
		} else {
			data, err := fs.ReadFile(p)
			if err != nil {
				return fmt.Sprintf("walk: ReadFile of listed file %q failed: %v", p, firstLine(err.Error()))
			}
			into.Kids[name] = NewFile(data)
			if deep {
				if !fs.IsExist(p) || fs.IsDir(p) || !fs.IsFile(p) {
					return fmt.Sprintf("walk: listed file %q: IsExist=%v IsDir=%v IsFile=%v", p, fs.IsExist(p), fs.IsDir(p), fs.IsFile(p))
				}
				st, err := fs.Lstat(p)
				if err != nil || st == nil || st.IsDir() {
					return fmt.Sprintf("walk: Lstat of listed file %q: err=%v", p, err)
				}
				if st.Size() != int64(len(data)) {
					return fmt.Sprintf("walk: Lstat(%q).Size=%d but ReadFile gives %d bytes", p, st.Size(), len(data))
				}
			}
		}
	}
	return ""
}

// Diff describes the first difference between a model tree and an observed tree.
func Diff(want, got *Node, at string) string {
	if want.Dir != got.Dir {
		return fmt.Sprintf("%q: model dir=%v, observed dir=%v", at, want.Dir, got.Dir)
	}
	if !want.Dir {
		if !bytes.Equal(want.Data, got.Data) {
			return fmt.Sprintf("%q: model holds %d bytes %q, observed %d bytes %q", at, len(want.Data), clip(want.Data), len(got.Data), clip(got.Data))
		}
		return ""
	}
	for _, k := range want.Names() {
		g, ok := got.Kids[k]
		if !ok {
			return fmt.Sprintf("%q: model has child %q, observed tree does not", at, k)
		}
		if d := Diff(want.Kids[k], g, at+"/"+k); d != "" {
			return d
		}
	}
	for _, k := range got.Names() {
		if _, ok := want.Kids[k]; !ok {
			return fmt.Sprintf("%q: observed child %q (dir=%v) that the model does not have", at, k, got.Kids[k].Dir)
		}
	}
	return ""
}

// Dump renders a tree compactly (for messages and samples).
func Dump(n *Node) string {
	var sb strings.Builder
	dump(&sb, n)
	return sb.String()
}

func dump(sb *strings.Builder, n *Node) {
	if !n.Dir {
		fmt.Fprintf(sb, "%dB", len(n.Data))
		return
	}
	sb.WriteString("{")
	for i, k := range n.Names() {
		if i > 0 {
			sb.WriteString(" ")
		}
		sb.WriteString(k + ":")
		dump(sb, n.Kids[k])
	}
	sb.WriteString("}")
}
