module verif/harness

go 1.23

require (
	github.com/goatcms/goatcore v0.0.0
	pgregory.net/rapid v1.3.0
)

require (
	github.com/denisbrodbeck/machineid v1.0.1 // indirect
	golang.org/x/crypto v0.0.0-20210415154028-4f45737414dc // indirect
)

replace github.com/goatcms/goatcore => /repo
