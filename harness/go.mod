module verif/harness

go 1.23

require (
	github.com/goatcms/goatcore v0.0.0
	pgregory.net/rapid v1.3.0
)

replace github.com/goatcms/goatcore => /repo
