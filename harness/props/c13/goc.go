package c13

import (
	"fmt"
	"sync"
	"time"

	"github.com/goatcms/goatcore/app"
	"github.com/goatcms/goatcore/app/modules/commonm/commservices/envs"
	"github.com/goatcms/goatcore/app/modules/commonm/commservices/waits"
	"github.com/goatcms/goatcore/app/modules/pipelinem/pipservices/tasks"
	"github.com/goatcms/goatcore/app/scope"
	"pgregory.net/rapid"
	"verif/harness/hx"
)

// ---------------------------------------------------------------------------------
// (c) the three get-or-create services under concurrent callers
// ---------------------------------------------------------------------------------

// GocCaller is one goroutine calling one service once.
type GocCaller struct {
	Svc     string `json:"svc"` // tasks | envs | waits
	OnChild bool   `json:"on_child,omitempty"`
	Pre     int    `json:"pre,omitempty"` // delay before the call
	D       []int  `json:"d"`             // delays injected after each data-scope call the service makes
}

// GocCase: callers released together on a fresh scope (and optionally on a child of it).
type GocCase struct {
	Child     bool        `json:"child,omitempty"`      // a child scope of the fresh scope exists
	ParentPre []string    `json:"parent_pre,omitempty"` // services already obtained on the parent before the race
	Procs     int         `json:"procs,omitempty"`
	Callers   []GocCaller `json:"callers"`
}

var svcNames = []string{"tasks", "envs", "waits"}

// GenGoc draws a case.
func GenGoc(rt *rapid.T) GocCase {
	maxN := 8
	if hx.Thorough() {
		maxN = 16
	}
	c := GocCase{Procs: []int{0, 1, 2, 4, 8}[hx.Uniform(rt, 5, "procs")]}
	c.Child = hx.Chance(rt, 40, "child")
	if c.Child {
		for _, s := range svcNames {
			if hx.Chance(rt, 25, "pre") {
				c.ParentPre = append(c.ParentPre, s)
			}
		}
	}
	n := 2 + hx.Uniform(rt, maxN-1, "ncallers")
	same := hx.Chance(rt, 60, "same")
	one := svcNames[hx.Uniform(rt, 3, "svc")]
	for i := 0; i < n; i++ {
		cl := GocCaller{Svc: one}
		if !same {
			cl.Svc = svcNames[hx.Uniform(rt, 3, "svc")]
		}
		if c.Child {
			cl.OnChild = hx.Chance(rt, 50, "onchild")
		}
		cl.Pre = hx.Uniform(rt, 5, "pre")
		cl.D = genDelays(rt, 1)
		c.Callers = append(c.Callers, cl)
	}
	return c
}

var (
	tasksUnit = tasks.NewUnit(tasks.UnitDeps{})
	envsUnit  = &envs.Unit{}
	waitsMgr  = waits.NewWaitManager()
)

// callSvc invokes one of the three services; the instance comes back as interface{} so
// that identity can be compared with ==.
func callSvc(svc string, scp app.Scope) (interface{}, error) {
	switch svc {
	case "tasks":
		m, err := tasksUnit.FromScope(scp)
		if m == nil {
			return nil, err
		}
		return m, err
	case "envs":
		e, err := envsUnit.Envs(scp)
		if e == nil {
			return nil, err
		}
		return e, err
	case "waits":
		w, err := waitsMgr.ForScope(scp)
		if w == nil {
			return nil, err
		}
		return w, err
	}
	return nil, fmt.Errorf("unknown service %q", svc)
}

// ExecGoc runs the case.
func ExecGoc(c GocCase) hx.Verdict {
	hx.PersistCurrent("goc", c)
	defer hx.ClearCurrent()
	return hx.Guard(func() hx.Verdict { return runGoc(c) })
}

func runGoc(c GocCase) hx.Verdict {
	if len(c.Callers) == 0 || len(c.Callers) > 256 {
		return hx.Pass()
	}
	for _, cl := range c.Callers {
		if cl.Svc != "tasks" && cl.Svc != "envs" && cl.Svc != "waits" {
			return hx.Pass()
		}
	}
	defer withProcs(c.Procs)()
	root := scope.New(scope.Params{})
	var child app.Scope
	if c.Child {
		child = scope.NewChild(root, scope.ChildParams{})
	}
	fb := &failbox{}
	// every call of a service opens at most one section
	pRoot := newProbe("fresh", len(c.Callers)+len(c.ParentPre)+8, fb)
	pChild := newProbe("child", len(c.Callers)+8, fb)
	pre := map[string]interface{}{}
	for _, s := range c.ParentPre {
		if s != "tasks" && s != "envs" && s != "waits" {
			continue
		}
		ins, err := callSvc(s, root)
		if err != nil || ins == nil {
			return hx.Fail("service-result", "%s on a fresh scope returned (%v, %v)", s, ins, err)
		}
		pre[s] = ins
	}
	type res struct {
		ins interface{}
		err error
	}
	results := make([]res, len(c.Callers))
	start := make(chan struct{})
	var wg sync.WaitGroup
	for i := range c.Callers {
		i := i
		cl := c.Callers[i]
		target, p := root, pRoot
		if cl.OnChild && child != nil {
			target, p = child, pChild
		}
		ps := &pScope{Scope: target, pd: &pData{inner: target, p: p, dl: &delayer{plan: cl.D}}}
		wg.Add(1)
		go func() {
			defer wg.Done()
			defer func() {
				if r := recover(); r != nil {
					fb.fail("panic", "caller %d (%s) panicked: %v", i, cl.Svc, r)
				}
			}()
			<-start
			pause(cl.Pre)
			ins, err := callSvc(cl.Svc, ps)
			results[i] = res{ins, err}
		}()
	}
	close(start)
	done := make(chan struct{})
	go func() { wg.Wait(); close(done) }()
	select {
	case <-done:
	case <-time.After(30 * time.Second):
		if fb.failed() {
			return hx.Fail(fb.clause, "%s", fb.detail)
		}
		v := hx.Pass()
		v.Inconclusive = true
		v.Label("goc:watchdog")
		return v
	}
	if fb.failed() {
		return hx.Fail(fb.clause, "%s", fb.detail)
	}
	// identity per (service, scope)
	type gk struct {
		svc     string
		onChild bool
	}
	first := map[gk]int{}
	groupSize := map[gk]int{}
	for i, cl := range c.Callers {
		r := results[i]
		if r.err != nil || r.ins == nil {
			return hx.Fail("service-result", "caller %d: %s returned (%v, %v)", i, cl.Svc, r.ins, r.err)
		}
		k := gk{cl.Svc, cl.OnChild && child != nil}
		groupSize[k]++
		if j, ok := first[k]; ok {
			if results[j].ins != r.ins {
				return hx.Fail("one-instance", "callers %d and %d of %s on the same scope (child=%v) received different instances (%p, %p)", j, i, cl.Svc, k.onChild, results[j].ins, r.ins)
			}
		} else {
			first[k] = i
		}
	}
	// a later caller gets that same instance too (the created one was stored, not lost)
	for k, j := range first {
		target := root
		if k.onChild {
			target = child
		}
		ins, err := callSvc(k.svc, target)
		if err != nil || ins != results[j].ins {
			return hx.Fail("one-instance", "%s called again after the race (child=%v) returned (%p, %v), the racing callers had received %p", k.svc, k.onChild, ins, err, results[j].ins)
		}
		if !k.onChild {
			if p, ok := pre[k.svc]; ok && p != ins {
				return hx.Fail("one-instance", "%s: the instance obtained before the race on the same scope (%p) differs from the racing callers' (%p)", k.svc, p, ins)
			}
		}
	}
	v := hx.Pass()
	cont := pRoot.contended.Load() + pChild.contended.Load()
	multi := false
	for _, n := range groupSize {
		if n >= 2 {
			multi = true
		}
	}
	v.NonTrivial = multi && cont > 0
	v.Count("goc_sections", pRoot.sections.Load()+pChild.sections.Load())
	v.Count("goc_calls_issued_while_section_open", cont)
	if cont > 0 {
		v.Label("goc:call-arrived-while-section-open")
	}
	if multi {
		v.Label("goc:>=2-callers-same-service-same-scope")
	}
	if c.Child {
		v.Label("goc:child-scope")
	}
	if len(pre) > 0 {
		v.Label("goc:parent-has-instance")
	}
	seen := map[string]bool{}
	for _, cl := range c.Callers {
		if !seen[cl.Svc] {
			seen[cl.Svc] = true
			v.Label("goc:svc-" + cl.Svc)
		}
	}
	return v
}
