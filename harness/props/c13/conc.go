package c13

import (
	"fmt"
	"sync"
	"sync/atomic"
	"time"

	"github.com/goatcms/goatcore/app"
	"github.com/goatcms/goatcore/app/scope/datascope"
	"pgregory.net/rapid"
	"verif/harness/hx"
)

// ---------------------------------------------------------------------------------
// (b) locked read-modify-write sections against plain reads / writes / locks
// ---------------------------------------------------------------------------------

// ConcG is one goroutine. Roles (all on the target scope S unless said otherwise):
//
//	inc         N locked sections: read counter, delay, re-read, write counter+1, delay, re-read, commit
//	lockread    N locked sections that only read (twice, with a delay between)
//	write       N plain SetValue of this goroutine's own key with increasing values
//	read        N rounds of plain Value of the counter, the section marker and the writers' keys
//	childread   N plain Value of the counter through a child of S (falls through to S)
//	parentwrite N plain SetValue on the PARENT of S (only generated when S has a parent)
type ConcG struct {
	Role string `json:"role"`
	N    int    `json:"n"`
	D    []int  `json:"d"` // delay plan (see pause), consumed cyclically
}

// ConcCase: a chain of Depth scopes, S = level Target.
type ConcCase struct {
	Via         string  `json:"via"` // data | scope
	Depth       int     `json:"depth"`
	Target      int     `json:"target"`
	CtrInParent bool    `json:"ctr_in_parent,omitempty"` // the counter's initial value lives in S's parent
	Procs       int     `json:"procs,omitempty"`         // GOMAXPROCS for the case (0 = unchanged)
	G           []ConcG `json:"g"`
}

const (
	keyCtr   = "ctr"
	keyDirty = "dirty"
	keyPK    = "pk"
	ctrBase  = 1000
)

func wkey(g int) string { return fmt.Sprintf("w%d", g) }

var concRoles = []string{"inc", "inc", "inc", "lockread", "write", "write", "read", "read", "childread", "parentwrite", "parentwrite"}

func genDelays(rt *rapid.T, min int) []int {
	n := min + hx.Uniform(rt, 3, "ndelay")
	d := make([]int, n)
	for i := range d {
		d[i] = hx.Uniform(rt, 9, "delay")
	}
	return d
}

// GenConc draws a concurrent case.
func GenConc(rt *rapid.T) ConcCase {
	maxG, maxN := 6, 6
	if hx.Thorough() {
		maxG, maxN = 10, 12
	}
	c := ConcCase{Via: []string{"data", "scope"}[hx.Uniform(rt, 2, "via")]}
	c.Depth = 1 + hx.Uniform(rt, 3, "depth")
	c.Target = hx.Uniform(rt, c.Depth, "target")
	if c.Target > 0 {
		c.CtrInParent = hx.Chance(rt, 50, "ctrparent")
	}
	c.Procs = []int{0, 1, 2, 4, 8}[hx.Uniform(rt, 5, "procs")]
	ng := 2 + hx.Uniform(rt, maxG-1, "ng")
	// always at least one incrementing holder and one more contender
	c.G = append(c.G, ConcG{Role: "inc", N: 1 + hx.Uniform(rt, maxN, "n"), D: genDelays(rt, 1)})
	for len(c.G) < ng {
		role := concRoles[hx.Uniform(rt, len(concRoles), "role")]
		if role == "parentwrite" && c.Target == 0 {
			role = "write"
		}
		c.G = append(c.G, ConcG{Role: role, N: 1 + hx.Uniform(rt, maxN, "n"), D: genDelays(rt, 1)})
	}
	return c
}

// ExecConc runs the case.
func ExecConc(c ConcCase) hx.Verdict {
	hx.PersistCurrent("conc", c)
	defer hx.ClearCurrent()
	return hx.Guard(func() hx.Verdict { return runConc(c) })
}

func runConc(c ConcCase) hx.Verdict {
	if c.Depth < 1 || c.Depth > 6 || c.Target < 0 || c.Target >= c.Depth || len(c.G) == 0 || len(c.G) > 64 {
		return hx.Pass()
	}
	defer withProcs(c.Procs)()
	init := make([][]KV, c.Depth)
	chain := buildChain(c.Via, init)
	S := chain[c.Target]
	var parent app.DataScope
	if c.Target > 0 {
		parent = chain[c.Target-1]
	}
	ctrInParent := c.CtrInParent && parent != nil
	// setup (single goroutine)
	S.SetValue(keyDirty, 0)
	if ctrInParent {
		parent.SetValue(keyCtr, ctrBase)
	} else {
		S.SetValue(keyCtr, ctrBase)
		if parent != nil {
			parent.SetValue(keyCtr, -5) // shadowed by S's own value
		}
	}
	var below app.DataScope // a child of S for the childread role
	total, sectionsPlanned, onS, holders := 0, 0, 0, 0
	var writers []int
	for gi, g := range c.G {
		if g.N < 0 || g.N > 1000 {
			return hx.Pass()
		}
		switch g.Role {
		case "inc":
			total += g.N
			sectionsPlanned += g.N
			onS++
			holders++
		case "lockread":
			sectionsPlanned += g.N
			onS++
			holders++
		case "write":
			writers = append(writers, gi)
			onS++
		case "read":
			onS++
		case "childread":
			if below == nil {
				below = datascope.NewChild(S, map[interface{}]interface{}{})
			}
		}
	}
	fb := &failbox{}
	pr := newProbe(fmt.Sprintf("level%d", c.Target), sectionsPlanned, fb)
	start := make(chan struct{})
	var wg sync.WaitGroup
	var issuedParentWrites atomic.Int64
	for gi := range c.G {
		gi := gi
		g := c.G[gi]
		wg.Add(1)
		go func() {
			defer wg.Done()
			defer func() {
				if r := recover(); r != nil {
					fb.fail("panic", "goroutine %d (%s) panicked: %v", gi, g.Role, r)
				}
			}()
			dl := &delayer{plan: g.D}
			ps := &pData{inner: S, p: pr} // no automatic delays: this executor places them itself
			<-start
			switch g.Role {
			case "inc", "lockread":
				for i := 0; i < g.N && !fb.failed(); i++ {
					mark := (gi+1)*10000 + i + 1
					lk := ps.LockData()
					if d0, ok := toInt(lk.Value(keyDirty)); !ok || d0 > 0 {
						fb.fail("exclusive-section", "goroutine %d entered a locked section and found the in-section marker of another section (%v): two holders between lock and commit", gi, d0)
					} else if d0 < 0 {
						fb.fail("overlay-own-concurrent", "goroutine %d read the marker key through the locker of a scope that has its own value 0 and got the parent's shadowed value %v", gi, d0)
					}
					lk.SetValue(keyDirty, mark)
					c1 := lk.Value(keyCtr)
					w1 := make([]interface{}, len(writers))
					for j, w := range writers {
						w1[j] = lk.Value(wkey(w))
					}
					dl.pause()
					if d1, _ := toInt(lk.Value(keyDirty)); d1 < 0 {
						fb.fail("overlay-own-concurrent", "goroutine %d wrote marker %d through the locker and read back the parent's shadowed value %v", gi, mark, d1)
					} else if d1 != mark {
						fb.fail("exclusive-section", "goroutine %d wrote marker %d under the lock and read back %v before committing", gi, mark, d1)
					}
					if c2 := lk.Value(keyCtr); c2 != c1 {
						fb.fail("stable-read", "goroutine %d read the counter twice inside one locked section: %v then %v", gi, c1, c2)
					}
					for j, w := range writers {
						if w2 := lk.Value(wkey(w)); w2 != w1[j] {
							fb.fail("stable-read", "goroutine %d read key %s twice inside one locked section: %v then %v (a plain write took effect in between)", gi, wkey(w), w1[j], w2)
						}
					}
					if g.Role == "inc" {
						ci, ok := toInt(c1)
						if !ok {
							fb.fail("counter", "counter holds %v", c1)
						}
						lk.SetValue(keyCtr, ci+1)
						dl.pause()
						if c3, _ := toInt(lk.Value(keyCtr)); c3 != ci+1 {
							fb.fail("stable-read", "goroutine %d wrote counter %d under the lock and read back %v before committing", gi, ci+1, c3)
						}
					}
					lk.SetValue(keyDirty, 0)
					if err := lk.Commit(); err != nil {
						fb.fail("commit", "Commit returned %v", err)
					}
					dl.pause()
				}
			case "write":
				for i := 0; i < g.N && !fb.failed(); i++ {
					ps.SetValue(wkey(gi), i+1)
					dl.pause()
				}
			case "read":
				lastC := 0
				lastW := make([]int, len(writers))
				for i := 0; i < g.N && !fb.failed(); i++ {
					cv, ok := toInt(ps.Value(keyCtr))
					if !ok || cv < lastC || cv > ctrBase+total || cv < ctrBase {
						fb.fail("counter-read", "plain read of the counter returned %v after %d (base %d, %d increments in the case)", cv, lastC, ctrBase, total)
					}
					lastC = cv
					if dv, ok := toInt(ps.Value(keyDirty)); !ok || dv > 0 {
						fb.fail("exclusive-read", "plain read on the scope returned the in-section marker %v: the read took effect between a lock and its commit", dv)
					} else if dv < 0 {
						fb.fail("overlay-own-concurrent", "plain read of the marker key on a scope that has its own value returned the parent's shadowed value %v", dv)
					}
					for j, w := range writers {
						wv, ok := toInt(ps.Value(wkey(w)))
						if !ok || wv < lastW[j] || wv > c.G[w].N {
							fb.fail("writer-read", "plain read of %s returned %v after %d", wkey(w), wv, lastW[j])
						}
						lastW[j] = wv
					}
					dl.pause()
				}
			case "childread":
				last := 0
				for i := 0; i < g.N && !fb.failed(); i++ {
					cv, ok := toInt(below.Value(keyCtr))
					if !ok || cv < last || cv > ctrBase+total || cv < ctrBase {
						fb.fail("overlay-concurrent", "read of the counter through a child of the scope returned %v after %d (base %d, %d increments)", cv, last, ctrBase, total)
					}
					last = cv
					dl.pause()
				}
			case "parentwrite":
				if parent == nil {
					return
				}
				for i := 0; i < g.N && !fb.failed(); i++ {
					parent.SetValue(keyPK, i+1)
					parent.SetValue(keyDirty, -7) // shadowed: S has its own marker key
					if !ctrInParent {
						parent.SetValue(keyCtr, -5-i) // shadowed: S has its own counter
					}
					issuedParentWrites.Add(1)
					dl.pause()
				}
			}
		}()
	}
	close(start)
	done := make(chan struct{})
	go func() { wg.Wait(); close(done) }()
	select {
	case <-done:
	case <-time.After(30 * time.Second):
		if fb.failed() {
			return hx.Fail(fb.clause, "%s", fb.detail)
		}
		v := hx.Pass()
		v.Inconclusive = true
		v.Label("conc:watchdog")
		return v
	}
	if fb.failed() {
		return hx.Fail(fb.clause, "%s", fb.detail)
	}
	// final state (single goroutine again)
	if got, ok := toInt(S.Value(keyCtr)); !ok || got != ctrBase+total {
		return hx.Fail("lost-update", "counter after %d locked increments from %d: expected %d, got %v", total, ctrBase, ctrBase+total, got)
	}
	if got, _ := toInt(S.Value(keyDirty)); got != 0 {
		return hx.Fail("exclusive-section", "in-section marker is %v after all sections committed", got)
	}
	for _, w := range writers {
		if got, _ := toInt(S.Value(wkey(w))); got != c.G[w].N {
			return hx.Fail("write-lands", "writer %d's last plain write (%d) is not the final value of its key: %v", w, c.G[w].N, got)
		}
	}
	if below != nil {
		if got, _ := toInt(below.Value(keyCtr)); got != ctrBase+total {
			return hx.Fail("overlay-concurrent", "child of the scope reads counter %v, scope holds %d", got, ctrBase+total)
		}
	}
	if parent != nil {
		// child writes never change the parent
		pc, _ := toInt(parent.Value(keyCtr))
		if ctrInParent && total > 0 && pc != ctrBase {
			return hx.Fail("parent-unchanged", "parent's counter changed from %d to %v by increments done on the child", ctrBase, pc)
		}
		if !ctrInParent && pc > 0 {
			return hx.Fail("parent-unchanged", "parent's (shadowed) counter is %v: a child write went to the parent", pc)
		}
		for _, w := range writers {
			if pv := parent.Value(wkey(w)); pv != nil {
				return hx.Fail("parent-unchanged", "parent has %s=%v after plain writes on the child", wkey(w), pv)
			}
		}
		if pd, _ := toInt(parent.Value(keyDirty)); pd > 0 {
			return hx.Fail("parent-unchanged", "parent has the child's section marker %v", pd)
		}
	}
	v := hx.Pass()
	cont := pr.contended.Load()
	v.NonTrivial = onS >= 2 && holders >= 1 && cont > 0
	v.Count("conc_sections", pr.sections.Load())
	v.Count("conc_ops_issued_while_section_open", cont)
	if cont > 0 {
		v.Label("conc:op-issued-while-section-open")
	}
	if holders >= 2 {
		v.Label("conc:>=2-holders")
	}
	if len(writers) > 0 {
		v.Label("conc:plain-writer")
	}
	if c.Target > 0 {
		v.Label("conc:target-is-child")
	} else {
		v.Label("conc:target-is-root")
	}
	if ctrInParent {
		v.Label("conc:counter-starts-in-parent")
	}
	if below != nil {
		v.Label("conc:reader-through-child")
	}
	if issuedParentWrites.Load() > 0 {
		v.Label("conc:parent-writer")
	}
	if c.Via == "scope" {
		v.Label("conc:via-app-scope")
	}
	return v
}
