package c13

import (
	"encoding/json"
	"fmt"
	"testing"

	"verif/harness/hx"
)

func TestMain(m *testing.M) { hx.Main(m, "C13") }

// TestProp: sequential overlay/locker histories against the map-chain model.
func TestProp(t *testing.T) {
	hx.Check(t, "seq", GenSeq, ExecSeq)
	reportHangs(t)
}

// reportHangs makes the process exit non-zero WITHOUT a failing case when seq cases hung:
// the driver then reports the job as inconclusive (exit 2), never as a violation.
func reportHangs(t *testing.T) {
	if n := HungSeqCases.Load(); n > 0 && !t.Failed() {
		t.Errorf("INCONCLUSIVE: %d sequential case(s) did not return (see notes); remaining cases skipped after %d", n, seqMaxHangs)
	}
}

// TestPropConc: locked read-modify-write sections against plain reads/writes/locks.
func TestPropConc(t *testing.T) { hx.Check(t, "conc", GenConc, ExecConc) }

// TestPropGoc: the three get-or-create services under concurrent callers.
func TestPropGoc(t *testing.T) { hx.Check(t, "goc", GenGoc, ExecGoc) }

// TestEnum: every history up to a length bound on a small chain with one key.
func TestEnum(t *testing.T) {
	type cfg struct{ depth, length int }
	cfgs := []cfg{{3, 5}}
	if hx.Thorough() {
		cfgs = []cfg{{3, 6}, {2, 8}}
	}
	sh, n := hx.Shard()
	for _, cf := range cfgs {
		idx, count := 0, int64(0)
		ok := enumSeq(cf.depth, cf.length, func(c SeqCase) bool {
			idx++
			if (idx-1)%n != sh {
				return true
			}
			count++
			return hx.One(t, "seq", c, ExecSeq)
		})
		hx.AddExhaustive(hx.Exhaustive{
			What:     "all applicable single-goroutine histories (every prefix judged) on an initially empty chain",
			Alphabet: fmt.Sprintf("{SetValue, Value, LockData | locker.SetValue, locker.Value, Commit} x %d levels x 1 key", cf.depth),
			Bound:    fmt.Sprintf("length = %d (shard %d/%d)", cf.length, sh, n),
			Count:    count,
		})
		if !ok {
			return
		}
	}
	reportHangs(t)
}

func TestReplay(t *testing.T) {
	hx.Replay(t, map[string]func(json.RawMessage) (hx.Verdict, error){
		"seq": hx.Exec(ExecSeq), "": hx.Exec(ExecSeq), "conc": hx.Exec(ExecConc), "goc": hx.Exec(ExecGoc),
	})
}
