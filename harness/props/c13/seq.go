package c13

import (
	"encoding/json"
	"fmt"
	"sync"
	"sync/atomic"
	"time"

	"github.com/goatcms/goatcore/app"
	"github.com/goatcms/goatcore/app/scope"
	"github.com/goatcms/goatcore/app/scope/datascope"
	"pgregory.net/rapid"
	"verif/harness/hx"
)

// ---------------------------------------------------------------------------------
// (a) sequential histories on a chain of data scopes against a map-chain model
// ---------------------------------------------------------------------------------

type keyT struct{ N string }

// keyPool: data-scope keys are interface{}; strings are what the services use, the other
// kinds make sure nothing depends on the key's dynamic type.
var keyPool = []interface{}{"a", "b", "pipTasks", 7, keyT{"x"}}

// KV is one initial entry of a level (key index into keyPool, value).
type KV struct {
	K int `json:"k"`
	V int `json:"v"`
}

// SeqOp is one step. Ops: set get keys lock (plain, on an unlocked level);
// lset lget lkeys commit (through the open locker of a locked level).
type SeqOp struct {
	Op string `json:"op"`
	L  int    `json:"l"`
	K  int    `json:"k,omitempty"`
	V  int    `json:"v,omitempty"`
}

// SeqCase: Init[i] is the initial content of level i (level 0 = root, level i+1 = child of i).
type SeqCase struct {
	Via  string  `json:"via"` // "data": datascope.New/NewChild; "scope": scope.New/scope.NewChild (app.Scope)
	Init [][]KV  `json:"init"`
	Ops  []SeqOp `json:"ops"`
}

// val maps a case value to the stored value: 0 stands for an explicit nil.
func val(v int) interface{} {
	if v == 0 {
		return nil
	}
	return v
}

// Whether a level that holds an EXPLICIT nil for a key "has a value" (and hides the parent's)
// is not spelled out by the statement; what the statement does fix is that every way of reading
// follows one rule. The rule is measured once on the code under test with plain reads
// (nilUnknown: the ways of storing a nil disagree - then no explicit nil is used at all).
const (
	nilUnknown = iota
	nilHides
	nilFallsThrough
)

var (
	nilOnce sync.Once
	nilRule int
)

func nilPolicy() int {
	nilOnce.Do(func() {
		defer func() {
			if recover() != nil {
				nilRule = nilUnknown
			}
		}()
		k := keyPool[0]
		p1 := datascope.New(map[interface{}]interface{}{k: 5})
		c1 := datascope.NewChild(p1, map[interface{}]interface{}{})
		c1.SetValue(k, nil)
		a := c1.Value(k) == nil
		c2 := datascope.NewChild(p1, map[interface{}]interface{}{k: nil})
		b := c2.Value(k) == nil
		s1 := scope.New(scope.Params{DataScope: datascope.New(map[interface{}]interface{}{k: 5})})
		s2 := scope.NewChild(s1, scope.ChildParams{})
		s2.SetValue(k, nil)
		c := s2.Value(k) == nil
		switch {
		case a && b && c:
			nilRule = nilHides
		case !a && !b && !c:
			nilRule = nilFallsThrough
		default:
			nilRule = nilUnknown
		}
		hx.Note("explicit nil stored in a child data scope: rule measured on the code under test = %s",
			[]string{"not uniform (explicit nil not used)", "hides the parent's value", "falls through to the parent"}[nilRule])
	})
	return nilRule
}

// seqModel is the reference: one map per level plus which levels are locked.
type seqModel struct {
	lv     []map[int]int
	locked []bool
}

func newSeqModel(init [][]KV) *seqModel {
	m := &seqModel{}
	for _, l := range init {
		mp := map[int]int{}
		for _, kv := range l {
			if kv.K >= 0 && kv.K < len(keyPool) {
				mp[kv.K] = kv.V
			}
		}
		m.lv = append(m.lv, mp)
		m.locked = append(m.locked, false)
	}
	return m
}

// resolve says what a read of key k at level l must return: the level's own value when it
// has one, otherwise the parent's current value (recursively), nil at the top. viaLocker:
// the read goes through l's open locker. blocked: the real read would have to wait for a
// locked level (single goroutine: never issued).
func (m *seqModel) resolve(l, k int, viaLocker bool) (val int, found bool, at int, blocked bool) {
	if viaLocker != m.locked[l] {
		return 0, false, 0, true
	}
	for i := l; i >= 0; i-- {
		if i != l && m.locked[i] {
			return 0, false, 0, true
		}
		if v, ok := m.lv[i][k]; ok {
			if v == 0 && nilPolicy() != nilHides {
				continue // an explicit nil that does not count as a value
			}
			return v, true, i, false
		}
	}
	return 0, false, -1, false
}

func (m *seqModel) presentLevels(k int) int {
	n := 0
	for _, mp := range m.lv {
		if _, ok := mp[k]; ok {
			n++
		}
	}
	return n
}

// applicable reports whether op can be issued by a single goroutine without blocking
// forever and within the locker protocol.
func (m *seqModel) applicable(op SeqOp) bool {
	if op.L < 0 || op.L >= len(m.lv) || op.K < 0 || op.K >= len(keyPool) {
		return false
	}
	switch op.Op {
	case "set", "lock":
		return !m.locked[op.L]
	case "keys":
		// Keys is not fixed by the statement: an implementation may enumerate inherited keys too,
		// which reads every level up to the root - on one goroutine that blocks on a locked level
		return !m.lockedUpTo(op.L)
	case "get":
		_, _, _, b := m.resolve(op.L, op.K, false)
		return !b
	case "lset", "commit":
		return m.locked[op.L]
	case "lkeys":
		return m.locked[op.L] && !m.lockedUpTo(op.L - 1)
	case "lget":
		_, _, _, b := m.resolve(op.L, op.K, true)
		return !b
	}
	return false
}

// lockedUpTo: some level 0..l is inside a locked section.
func (m *seqModel) lockedUpTo(l int) bool {
	for i := 0; i <= l && i < len(m.locked); i++ {
		if m.locked[i] {
			return true
		}
	}
	return false
}

// GenSeq draws a sequential case; every op is applicable by construction.
func GenSeq(rt *rapid.T) SeqCase {
	maxOps := 30
	if hx.Thorough() {
		maxOps = 80
	}
	depth := 1 + hx.Uniform(rt, 5, "depth")
	c := SeqCase{Via: []string{"data", "data", "scope"}[hx.Uniform(rt, 3, "via")]}
	uniq := 1000
	for l := 0; l < depth; l++ {
		var kvs []KV
		for k := range keyPool {
			if hx.Chance(rt, 25, "init") {
				uniq++
				kv := KV{K: k, V: uniq}
				if l > 0 && nilPolicy() != nilUnknown && hx.Chance(rt, 10, "initnil") {
					kv.V = 0 // explicit nil
				}
				kvs = append(kvs, kv)
			}
		}
		c.Init = append(c.Init, kvs)
	}
	m := newSeqModel(c.Init)
	n := rapid.IntRange(1, 6).Draw(rt, "nops0") + hx.Uniform(rt, maxOps-5, "nops")
	for i := 0; i < n; i++ {
		l := hx.Uniform(rt, depth, "level")
		k := hx.Uniform(rt, len(keyPool), "key")
		op := SeqOp{L: l, K: k}
		w := hx.Uniform(rt, 100, "opkind")
		if m.locked[l] {
			switch {
			case w < 35:
				op.Op = "lset"
			case w < 75:
				op.Op = "lget"
			case w < 80:
				op.Op = "lkeys"
			default:
				op.Op = "commit"
			}
			if (op.Op == "lget" || op.Op == "lkeys") && !m.applicable(op) {
				op.Op = "lset"
			}
		} else {
			switch {
			case w < 35:
				op.Op = "set"
			case w < 80:
				op.Op = "get"
			case w < 85:
				op.Op = "keys"
			default:
				op.Op = "lock"
			}
			if (op.Op == "get" || op.Op == "keys") && !m.applicable(op) {
				op.Op = "set"
			}
		}
		switch op.Op {
		case "set", "lset":
			op.V = i + 1
			if l > 0 && nilPolicy() != nilUnknown && hx.Chance(rt, 10, "setnil") {
				op.V = 0 // explicit nil
			}
			m.lv[l][k] = op.V
		case "lock":
			op.K = 0
			m.locked[l] = true
		case "commit":
			op.K = 0
			m.locked[l] = false
		case "keys", "lkeys":
			op.K = 0
		}
		c.Ops = append(c.Ops, op)
	}
	return c
}

// ExecSeq runs the history on real data scopes and compares every readable (level, key)
// with the model after every step.
//
// Every generated op is one the model says cannot block, so a case normally takes
// microseconds. The statement promises exclusion, not progress, hence a case that does not
// come back is INCONCLUSIVE (never a violation): it is abandoned after seqWatchdog, counted
// in HungSeqCases (the tests turn a non-zero count into a non-zero exit without a failing
// case = driver exit 2), and after seqMaxHangs such cases the remaining seq cases of this
// process are skipped so that a tree that deadlocks does not cost minutes.
func ExecSeq(c SeqCase) hx.Verdict {
	if HungSeqCases.Load() >= seqMaxHangs {
		v := hx.Pass()
		v.Inconclusive = true
		v.Label("seq:skipped-after-hangs")
		return v
	}
	ch := make(chan hx.Verdict, 1)
	go func() { ch <- hx.Guard(func() hx.Verdict { return runSeq(c) }) }()
	t := time.NewTimer(seqWatchdog)
	defer t.Stop()
	select {
	case v := <-ch:
		return v
	case <-t.C:
		HungSeqCases.Add(1)
		raw, _ := json.Marshal(c)
		hx.Note("seq case did not return within %v (inconclusive): %s", seqWatchdog, raw)
		v := hx.Pass()
		v.Inconclusive = true
		v.Label("seq:watchdog")
		return v
	}
}

const (
	seqWatchdog = 5 * time.Second
	seqMaxHangs = 2
)

// HungSeqCases counts seq cases abandoned by the watchdog in this process.
var HungSeqCases atomic.Int64

func buildChain(via string, init [][]KV) []app.DataScope {
	var chain []app.DataScope
	toMap := func(kvs []KV) map[interface{}]interface{} {
		mp := map[interface{}]interface{}{}
		for _, kv := range kvs {
			if kv.K >= 0 && kv.K < len(keyPool) {
				mp[keyPool[kv.K]] = val(kv.V)
			}
		}
		return mp
	}
	if via == "scope" {
		var prev app.Scope
		for i, kvs := range init {
			var s app.Scope
			if i == 0 {
				s = scope.New(scope.Params{DataScope: datascope.New(toMap(kvs))})
			} else {
				// the production path: scope.NewChild builds the child data scope itself
				s = scope.NewChild(prev, scope.ChildParams{})
				for _, kv := range kvs {
					if kv.K >= 0 && kv.K < len(keyPool) {
						s.SetValue(keyPool[kv.K], val(kv.V))
					}
				}
			}
			chain = append(chain, s)
			prev = s
		}
		return chain
	}
	for i, kvs := range init {
		if i == 0 {
			chain = append(chain, datascope.New(toMap(kvs)))
		} else {
			chain = append(chain, datascope.NewChild(chain[i-1], toMap(kvs)))
		}
	}
	return chain
}

func runSeq(c SeqCase) hx.Verdict {
	if len(c.Init) == 0 || len(c.Init) > 8 {
		return hx.Pass()
	}
	depth := len(c.Init)
	chain := buildChain(c.Via, c.Init)
	m := newSeqModel(c.Init)
	lockers := make([]app.DataScopeLocker, depth)
	v := hx.Pass()
	fail := func(i int, clause, format string, a ...interface{}) hx.Verdict {
		f := hx.Fail(clause, format, a...)
		f.Step = i
		return f
	}
	read := func(l, k int) interface{} {
		if m.locked[l] {
			return lockers[l].Value(keyPool[k])
		}
		return chain[l].Value(keyPool[k])
	}
	describe := func(i int) string {
		if i < 0 || i >= len(c.Ops) {
			return "initial state"
		}
		return fmt.Sprintf("%+v", c.Ops[i])
	}
	// compare one read with the model
	check := func(step, l, k int, got interface{}, what string) *hx.Verdict {
		exp, found, at, _ := m.resolve(l, k, m.locked[l])
		if !found {
			if got != nil {
				f := fail(step, "overlay-absent", "%s after %s: level %d key %v: no level from %d up to the root has the key, expected nil, got %v", what, describe(step), l, keyPool[k], l, got)
				return &f
			}
			return nil
		}
		if exp == 0 {
			if got != nil {
				f := fail(step, "overlay-own", "%s after %s: level %d key %v: level %d holds an explicit nil (which hides the parent's value in a plain read of this implementation), got %v", what, describe(step), l, keyPool[k], at, got)
				return &f
			}
			return nil
		}
		if gi, ok := got.(int); !ok || gi != exp {
			clause := "overlay-own"
			if at < l {
				clause = "overlay-fallthrough"
			}
			f := fail(step, clause, "%s after %s: level %d key %v: expected %d (held by level %d), got %v", what, describe(step), l, keyPool[k], exp, at, got)
			return &f
		}
		return nil
	}
	sweep := func(step int) *hx.Verdict {
		for l := 0; l < depth; l++ {
			for k := range keyPool {
				if _, _, _, blocked := m.resolve(l, k, m.locked[l]); blocked {
					continue
				}
				if f := check(step, l, k, read(l, k), "sweep"); f != nil {
					return f
				}
			}
		}
		return nil
	}
	if f := sweep(-1); f != nil {
		return *f
	}
	executed, fall, fallOver, lockerReads, lockerFall, sections, parentWriteSeen := 0, 0, 0, 0, 0, 0, 0
	childRead := map[[2]int]bool{} // (level,key) read by fall-through before
	for i, op := range c.Ops {
		if !m.applicable(op) {
			v.Count("seq_skipped_ops", 1)
			continue
		}
		executed++
		key := keyPool[op.K]
		switch op.Op {
		case "set":
			chain[op.L].SetValue(key, val(op.V))
			m.lv[op.L][op.K] = op.V
			for l := op.L + 1; l < depth; l++ {
				if childRead[[2]int{l, op.K}] {
					parentWriteSeen++ // a level that read through here before must now see the new value
				}
			}
		case "lset":
			lockers[op.L].SetValue(key, val(op.V))
			m.lv[op.L][op.K] = op.V
		case "get", "lget":
			var got interface{}
			if op.Op == "get" {
				got = chain[op.L].Value(key)
			} else {
				got = lockers[op.L].Value(key)
				lockerReads++
			}
			if f := check(i, op.L, op.K, got, op.Op); f != nil {
				return *f
			}
			if ev, found, _, _ := m.resolve(op.L, op.K, m.locked[op.L]); found && ev == 0 {
				v.Label("seq:read-of-explicit-nil-own-value")
				if op.Op == "lget" {
					v.Label("seq:locker-read-of-explicit-nil-own-value")
				}
			}
			if _, found, at, _ := m.resolve(op.L, op.K, m.locked[op.L]); found && at < op.L {
				fall++
				childRead[[2]int{op.L, op.K}] = true
				if op.Op == "lget" {
					lockerFall++
				}
				if m.presentLevels(op.K) >= 2 {
					fallOver++
				}
			}
		case "keys":
			_ = chain[op.L].Keys() // content not fixed by the statement; must not disturb anything
		case "lkeys":
			_ = lockers[op.L].Keys()
		case "lock":
			lockers[op.L] = chain[op.L].LockData()
			m.locked[op.L] = true
			sections++
		case "commit":
			if err := lockers[op.L].Commit(); err != nil {
				return fail(i, "commit", "Commit returned %v", err)
			}
			lockers[op.L] = nil
			m.locked[op.L] = false
		}
		if f := sweep(i); f != nil {
			return *f
		}
	}
	// commit what is still open, then everything must be readable and equal to the model
	for l := depth - 1; l >= 0; l-- {
		if m.locked[l] {
			if err := lockers[l].Commit(); err != nil {
				return fail(len(c.Ops), "commit", "Commit returned %v", err)
			}
			m.locked[l] = false
		}
	}
	if f := sweep(len(c.Ops)); f != nil {
		return *f
	}
	v.NonTrivial = fallOver > 0
	if depth >= 3 {
		v.Label("seq:depth>=3")
	}
	if fall > 0 {
		v.Label("seq:fallthrough-read")
	}
	if fallOver > 0 {
		v.Label("seq:fallthrough-with-override-elsewhere")
	}
	if sections > 0 {
		v.Label("seq:locked-section")
	}
	if lockerReads > 0 {
		v.Label("seq:read-through-locker")
	}
	if lockerFall > 0 {
		v.Label("seq:locker-read-falls-to-parent")
	}
	if parentWriteSeen > 0 {
		v.Label("seq:parent-write-after-child-read")
	}
	if c.Via == "scope" {
		v.Label("seq:via-app-scope")
	}
	v.Count("seq_ops_executed", int64(executed))
	return v
}

// enumSeq enumerates every applicable history of exactly `length` ops over the alphabet
// {set, get, lock | lset, lget, commit} x `depth` levels x one key on an initially empty
// chain. Every shorter history is a prefix of an enumerated one and is judged on the way
// (ExecSeq compares the whole readable state with the model after every step).
func enumSeq(depth, length int, visit func(SeqCase) bool) bool {
	init := make([][]KV, depth)
	m := newSeqModel(init)
	ops := make([]SeqOp, 0, length)
	var rec func() bool
	rec = func() bool {
		if len(ops) == length {
			c := SeqCase{Via: "data", Init: init, Ops: append([]SeqOp(nil), ops...)}
			return visit(c)
		}
		for l := 0; l < depth; l++ {
			names := []string{"set", "get", "lock"}
			if m.locked[l] {
				names = []string{"lset", "lget", "commit"}
			}
			for _, name := range names {
				op := SeqOp{Op: name, L: l}
				if !m.applicable(op) {
					continue
				}
				old, had := m.lv[l][0]
				wasLocked := m.locked[l]
				switch name {
				case "set", "lset":
					op.V = len(ops) + 1
					m.lv[l][0] = op.V
				case "lock":
					m.locked[l] = true
				case "commit":
					m.locked[l] = false
				}
				ops = append(ops, op)
				ok := rec()
				ops = ops[:len(ops)-1]
				m.locked[l] = wasLocked
				if had {
					m.lv[l][0] = old
				} else {
					delete(m.lv[l], 0)
				}
				if !ok {
					return false
				}
			}
		}
		return true
	}
	return rec()
}
