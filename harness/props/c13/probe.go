// Package c13: data scopes — a child overlays its parent, locked sections are atomic,
// and the three get-or-create services hand one instance to concurrent callers.
//
// Three case kinds share this package:
//
//	seq  (seq.go)  sequential key/value histories on a parent-child chain vs. a map-chain model
//	conc (conc.go) goroutines doing locked read-modify-write sections, plain reads/writes and
//	               locks on one scope of a chain
//	goc  (goc.go)  goroutines released together into tasks.Unit.FromScope / envs.Unit.Envs /
//	               waits.WaitManager.ForScope
//
// This file holds the harness-side instrumentation shared by conc and goc: a wrapper
// around the real scope that (1) inserts the generated delays and (2) records, with
// atomics only, which locked section was open when an operation was issued. The wrapper
// never changes what the real scope does; it delegates every call.
package c13

import (
	"fmt"
	"runtime"
	"sync"
	"sync/atomic"
	"time"

	"github.com/goatcms/goatcore/app"
)

// pause executes one generated delay: 0 none, 1..4 that many Gosched, 5..8 a short sleep.
func pause(d int) {
	switch {
	case d <= 0:
	case d <= 4:
		for i := 0; i < d; i++ {
			runtime.Gosched()
		}
	default:
		if d > 8 {
			d = 8
		}
		time.Sleep(time.Duration(d-4) * 15 * time.Microsecond)
	}
}

// delayer hands out the delays of one goroutine's plan cyclically (not shared).
type delayer struct {
	plan []int
	i    int
}

func (d *delayer) pause() {
	if d == nil || len(d.plan) == 0 {
		return
	}
	v := d.plan[d.i%len(d.plan)]
	d.i++
	pause(v)
}

// failbox keeps the first violation reported by any goroutine of a case.
type failbox struct {
	mu     sync.Mutex
	clause string
	detail string
	set    atomic.Bool
}

func (f *failbox) fail(clause, format string, a ...interface{}) {
	f.mu.Lock()
	if f.clause == "" {
		f.clause, f.detail = clause, fmt.Sprintf(format, a...)
		f.set.Store(true)
	}
	f.mu.Unlock()
}

func (f *failbox) failed() bool { return f.set.Load() }

// probe is the per-scope record of locked sections.
//
// Protocol (all harness-side): a goroutine that got a locker from the real LockData calls
// enter() -> section id; immediately before the real Commit it calls leave(id). Any
// goroutine about to issue a plain read / write / lock on that scope calls before() and,
// after the real call returned, after(h, ...). If before() saw section h open, the real call
// was issued between h's lock and h's commit, so by the property it may take effect — and
// therefore return — only after h's Commit, at which point fin[h] is already set. This is an
// order check on atomics, not a timing check: with a working lock it cannot fail at any
// speed, because leave(h) precedes Commit(h) in program order and Commit(h) happens-before
// the blocked call returns.
type probe struct {
	name      string
	held      atomic.Int64
	next      atomic.Int64
	fin       []atomic.Bool
	contended atomic.Int64 // ops issued while a section was open
	sections  atomic.Int64
	fb        *failbox
}

func newProbe(name string, maxSections int, fb *failbox) *probe {
	return &probe{name: name, fin: make([]atomic.Bool, maxSections+2), fb: fb}
}

func (p *probe) before() int64 { return p.held.Load() }

func (p *probe) done(h int64) bool {
	if h <= 0 || int(h) >= len(p.fin) {
		return true // outside the table: not judged
	}
	return p.fin[h].Load()
}

func (p *probe) after(h int64, what string) {
	if h == 0 {
		return
	}
	p.contended.Add(1)
	if !p.done(h) {
		p.fb.fail("exclusive-"+what, "%s on scope %s was issued while locked section #%d was open and returned before that section committed", what, p.name, h)
	}
}

// enter is called right after the real LockData returned.
func (p *probe) enter() int64 {
	sid := p.next.Add(1)
	p.sections.Add(1)
	if old := p.held.Swap(sid); old != 0 && !p.done(old) {
		p.fb.fail("exclusive-lock", "LockData on scope %s returned (section #%d) while section #%d was still between its lock and its commit", p.name, sid, old)
	}
	return sid
}

// leave is called right before the real Commit.
func (p *probe) leave(sid int64) {
	if sid > 0 && int(sid) < len(p.fin) {
		p.fin[sid].Store(true)
	}
	p.held.CompareAndSwap(sid, 0)
}

// pData wraps a real data scope for ONE goroutine (own delayer, shared probe).
type pData struct {
	inner app.DataScope
	p     *probe
	dl    *delayer // nil: no automatic delays
}

func (s *pData) Value(key interface{}) interface{} {
	h := s.p.before()
	v := s.inner.Value(key)
	s.p.after(h, "read")
	s.dl.pause()
	return v
}

func (s *pData) SetValue(key interface{}, v interface{}) {
	s.dl.pause() // widens a check-then-act window in front of a plain write
	h := s.p.before()
	s.inner.SetValue(key, v)
	s.p.after(h, "write")
	s.dl.pause()
}

func (s *pData) Keys() []interface{} {
	h := s.p.before()
	k := s.inner.Keys()
	s.p.after(h, "read")
	return k
}

func (s *pData) LockData() app.DataScopeLocker {
	h := s.p.before()
	lk := s.inner.LockData()
	s.p.after(h, "lock")
	sid := s.p.enter()
	s.dl.pause()
	return &pLocker{inner: lk, p: s.p, sid: sid, dl: s.dl}
}

// pLocker wraps the real locker of one section.
type pLocker struct {
	inner app.DataScopeLocker
	p     *probe
	sid   int64
	dl    *delayer
}

func (l *pLocker) Value(key interface{}) interface{} {
	v := l.inner.Value(key)
	l.dl.pause()
	return v
}

func (l *pLocker) SetValue(key interface{}, v interface{}) {
	l.inner.SetValue(key, v)
	l.dl.pause()
}

func (l *pLocker) Keys() []interface{}           { return l.inner.Keys() }
func (l *pLocker) LockData() app.DataScopeLocker { return l.inner.LockData() }

func (l *pLocker) Commit() error {
	l.p.leave(l.sid)
	err := l.inner.Commit()
	l.dl.pause() // widens the window behind a section that committed too early
	return err
}

// pScope is an app.Scope whose data-scope methods go through a pData wrapper; everything
// else is the real scope. The services under test only use the data-scope part.
type pScope struct {
	app.Scope
	pd *pData
}

func (s *pScope) Value(key interface{}) interface{}       { return s.pd.Value(key) }
func (s *pScope) SetValue(key interface{}, v interface{}) { s.pd.SetValue(key, v) }
func (s *pScope) Keys() []interface{}                     { return s.pd.Keys() }
func (s *pScope) LockData() app.DataScopeLocker           { return s.pd.LockData() }

// withProcs sets GOMAXPROCS for the duration of a case (0 = leave unchanged).
func withProcs(n int) func() {
	if n <= 0 {
		return func() {}
	}
	old := runtime.GOMAXPROCS(n)
	return func() { runtime.GOMAXPROCS(old) }
}

func toInt(v interface{}) (int, bool) {
	if v == nil {
		return 0, true
	}
	i, ok := v.(int)
	return i, ok
}
