// Package c07: the cache view reflects its own pending operations (read-your-writes).
package c07

import (
	"fmt"
	"os"
	"strings"

	"github.com/goatcms/goatcore/filesystem/filespace/diskfs"
	"github.com/goatcms/goatcore/filesystem/filespace/memfs"
	"github.com/goatcms/goatcore/filesystem/fscache"
	"pgregory.net/rapid"
	"verif/harness/fsmodel"
	"verif/harness/hx"
)

// Case: an initial remote tree and a history of cache operations (no Commit).
type Case struct {
	Remote []fsmodel.TNode `json:"remote"`
	Ops    []fsmodel.Op    `json:"ops"`
	Disk   bool            `json:"disk,omitempty"` // the remote is a disk filespace in a temp dir instead of memfs
}

// Excluded generator classes (open known findings), see known_findings.json.
const (
	ExRemoveRemote = "c07.removeOfRemoteNode" // Remove/RemoveAll of a node that exists in the remote
)

// touchesRemote: the op removes a node that exists in the initial remote tree.
func removesRemoteNode(remote *fsmodel.Node, m *fsmodel.Model, op *fsmodel.Op) bool {
	if op.Op != "Remove" && op.Op != "RemoveAll" {
		return false
	}
	rel, esc := fsmodel.Resolve(op.Path)
	if esc || op.Recv >= len(m.Views) || m.Views[op.Recv] == nil {
		return false
	}
	p := fsmodel.Join(m.Views[op.Recv], rel)
	// the node itself or anything below it exists in the remote
	return remote.Lookup(p) != nil
}

// Gen draws a case.
func Gen(rt *rapid.T) Case {
	remote := fsmodel.GenTree(rt, 10, true)
	max := 25
	if hx.Thorough() {
		max = 50
	}
	c := Case{Remote: fsmodel.Flatten(remote), Disk: hx.Chance(rt, 8, "disk")}
	c.Ops = fsmodel.GenHistory(rt, fsmodel.GenCfg{MinOps: 1, MaxOps: max, Views: true, OddNames: true, NoisyPaths: true, Initial: remote, Prefix: widePrefix(rt, remote),
		DropFailingMutations: true, KeepFailingPct: 35,
		Weights: map[string]int{"Remove": 10, "RemoveAll": 8, "ReadDir": 10, "IsExist": 6, "IsDir": 5, "IsFile": 5},
		Hook: func(m *fsmodel.Model, op *fsmodel.Op) bool {
			if hx.Excluded(ExRemoveRemote) && removesRemoteNode(remote, m, op) {
				hx.CountExcluded(ExRemoveRemote)
				return false
			}
			return true
		}})
	return c
}

// widePrefix (12% of the cases): a burst of 8-60 pending creations in ONE directory that also has
// remote children, one of which is removed through the cache before or after the burst, then a
// listing. The name pool of the drawn history gives a directory at most 16 entries; a merge of
// buffer and remote entries that changes strategy with the number of pending nodes is never
// reached by it.
func widePrefix(rt *rapid.T, remote *fsmodel.Node) []fsmodel.Op {
	if !hx.Chance(rt, 12, "wide") {
		return nil
	}
	dirs := []string{""}
	for _, n := range fsmodel.Flatten(remote) {
		if n.Dir {
			dirs = append(dirs, n.Path)
		}
	}
	d := dirs[hx.Uniform(rt, len(dirs), "widedir")]
	var kids []string
	for _, n := range fsmodel.Flatten(remote) {
		if n.Path != d && parentOf(n.Path) == d {
			kids = append(kids, n.Path)
		}
	}
	join := func(n string) string {
		if d == "" {
			return n
		}
		return d + "/" + n
	}
	var ops []fsmodel.Op
	rm := func() {
		if len(kids) == 0 {
			return
		}
		k := kids[hx.Uniform(rt, len(kids), "widekid")]
		ops = append(ops, fsmodel.Op{Op: []string{"Remove", "RemoveAll"}[hx.Uniform(rt, 2, "widerm")], Path: k})
	}
	before := hx.Chance(rt, 50, "widebefore")
	if before {
		rm()
	}
	n := 8 + hx.Uniform(rt, 53, "widen")
	for i := 0; i < n; i++ {
		name := join(fmt.Sprintf("n%d", i))
		if hx.Chance(rt, 25, "widemk") {
			ops = append(ops, fsmodel.Op{Op: "MkdirAll", Path: name})
		} else {
			ops = append(ops, fsmodel.Op{Op: "WriteFile", Path: name, Data: []byte{byte('0' + i%10)}})
		}
	}
	if !before {
		rm()
	}
	ops = append(ops, fsmodel.Op{Op: "ReadDir", Path: d})
	return ops
}

func parentOf(p string) string {
	if i := strings.LastIndex(p, "/"); i >= 0 {
		return p[:i]
	}
	return ""
}

// Exec runs the history against a cache over a populated remote and the merged model.
func Exec(c Case) hx.Verdict { return hx.Guard(func() hx.Verdict { return run(c) }) }

func run(c Case) hx.Verdict {
	var remoteFS fsmodel.FS
	var err error
	if c.Disk {
		dir, derr := os.MkdirTemp("", "c07-")
		if derr != nil {
			v := hx.Pass()
			v.Inconclusive = true
			return v
		}
		defer os.RemoveAll(dir)
		remoteFS, err = diskfs.NewFilespace(dir)
	} else {
		remoteFS, err = memfs.NewFilespace()
	}
	if err != nil {
		return hx.Fail("setup", "%v", err)
	}
	if err := fsmodel.Populate(remoteFS, c.Remote); err != nil {
		return hx.Fail("setup", "populate remote: %v", err)
	}
	cache, err := fscache.NewMemCache(remoteFS)
	if err != nil {
		return hx.Fail("setup", "%v", err)
	}
	initial := fsmodel.Build(c.Remote)
	m := fsmodel.NewModel(fsmodel.Options{})
	m.Root = initial.Clone()
	b := fsmodel.NewBackend("cache", cache)
	v := hx.Pass()
	if c.Disk {
		v.Label("remote-on-disk")
	}
	wide := 0
	for _, op := range c.Ops {
		if (op.Op == "WriteFile" || op.Op == "MkdirAll") && len(op.Path) > 1 && strings.HasPrefix(op.Path[strings.LastIndex(op.Path, "/")+1:], "n") {
			wide++
		}
	}
	if wide > 16 {
		v.Label("more-than-16-pending-creations-in-one-directory")
	}
	fail := func(i int, clause, detail string) hx.Verdict {
		f := hx.Fail(clause, "%s", detail)
		f.Step = i
		return f
	}
	mutated := map[string]bool{} // absolute paths (joined) whose presence differs between remote and merged model
	for i, op := range c.Ops {
		nviews := len(m.Views)
		refused := false
		if fsmodel.Mutating(op.Op) {
			// operations that are valid on the merged view are applied to the model; operations the
			// model refuses (remove of a non-empty directory, write below a file, ...) are in the domain
			// only when the cache refuses them too: then nothing it shows may change
			probe := &fsmodel.Model{Root: m.Root.Clone(), Views: append([][]string{}, m.Views...), Opt: m.Opt}
			pe := probe.Apply(op)
			if pe.Skip || pe.Err == fsmodel.Either {
				v.Count("skipped_ops", 1)
				continue
			}
			refused = pe.Err == fsmodel.Yes
		}
		var e fsmodel.Expect
		var savedRoot *fsmodel.Node
		var savedViews [][]string
		if !refused {
			if fsmodel.Mutating(op.Op) && !canonicalSpelling(op) {
				savedRoot, savedViews = m.Root.Clone(), append([][]string{}, m.Views...)
			}
			e = m.Apply(op)
			if e.Skip {
				v.Count("skipped_ops", 1)
				continue
			}
		}
		o := b.Run(op)
		if savedRoot != nil && e.Err == fsmodel.No && o.Err != nil && o.Panic == "" {
			// a mutation under an unusual spelling of its path (trailing slash, dot segments, doubled
			// slashes) that the cache refuses: the statement is about read answers after the PENDING
			// operations; a refused one is not pending - nothing the cache shows may have changed
			m.Root, m.Views = savedRoot, savedViews
			v.Label("cache-refused-unusual-spelling-of-a-valid-mutation")
			refused = true
		}
		if refused {
			if o.Panic != "" {
				return fail(i, "result", fmt.Sprintf("%s panicked: %s", op, o.Panic))
			}
			if o.Err == nil && savedRoot == nil {
				// the cache is more permissive than the tree model here; the statement fixes nothing
				v.Label("cache-accepted-op-the-model-refuses")
				return v
			}
			if savedRoot == nil {
				v.Label("refused-mutation")
			}
		} else if d := fsmodel.Compare(op, e, o); d != "" {
			return fail(i, "result", d)
		}
		if len(m.Views) > nviews && b.Recvs[len(b.Recvs)-1] == nil {
			m.Views[len(m.Views)-1] = nil
		}
		got, prob := fsmodel.Walk(cache, i == len(c.Ops)-1)
		if prob != "" {
			return fail(i, "merged-view", fmt.Sprintf("after %s: %s", op, prob))
		}
		if d := fsmodel.Diff(m.Root, got, ""); d != "" {
			return fail(i, "merged-view", fmt.Sprintf("after %s the cache shows a tree that differs from remote+pending ops: %s", op, d))
		}
		for vi := 1; vi < len(m.Views); vi++ {
			if m.Views[vi] == nil || b.Recvs[vi] == nil {
				continue
			}
			sub := m.Root.Lookup(m.Views[vi])
			if sub == nil || !sub.Dir {
				continue
			}
			gv, prob := fsmodel.Walk(b.Recvs[vi], false)
			if prob != "" {
				return fail(i, "view-merged-view", fmt.Sprintf("after %s, child view %d (base %v): %s", op, vi, m.Views[vi], prob))
			}
			if d := fsmodel.Diff(sub, gv, ""); d != "" {
				return fail(i, "view-merged-view", fmt.Sprintf("after %s, child view %d (base %v): %s", op, vi, m.Views[vi], d))
			}
			v.Label("via-child-view")
		}
		b.DropKept()
		rel, _ := fsmodel.Resolve(op.Path)
		abs := fsmodel.Join(m.Views[op.Recv], rel)
		if fsmodel.Mutating(op.Op) {
			if (initial.Lookup(abs) != nil) != (m.Root.Lookup(abs) != nil) {
				mutated[fmt.Sprint(abs)] = true
			}
			switch op.Op {
			case "Remove", "RemoveAll":
				if initial.Lookup(abs) != nil {
					v.Label("remove-of-remote-node")
				}
			case "CopyDirectory":
				v.Label("dir-copy")
			}
		} else {
			for k := 0; k <= len(abs); k++ {
				if mutated[fmt.Sprint(abs[:k])] {
					v.NonTrivial = true
				}
			}
		}
	}
	// the whole-tree walk after every step is itself a read of every path
	if len(mutated) > 0 {
		v.NonTrivial = true
	}
	return v
}

// canonicalSpelling: every path of the op is its own cleaned form (one leading slash allowed).
func canonicalSpelling(op fsmodel.Op) bool {
	ok := func(p string) bool {
		segs, esc := fsmodel.Resolve(p)
		if esc {
			return false
		}
		return strings.TrimPrefix(p, "/") == strings.Join(segs, "/")
	}
	if !ok(op.Path) {
		return false
	}
	switch op.Op {
	case "Copy", "CopyFile", "CopyDirectory":
		return ok(op.Path2)
	}
	return true
}
