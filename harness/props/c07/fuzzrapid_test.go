package c07

import (
	"testing"

	"verif/harness/hx"
)

// Native fuzz targets over the rapid generators (thorough tier): the fuzzer's bytes are the bit
// stream the generator draws from, so coverage feedback steers the case space TestProp samples.
func FuzzCacheHistory(f *testing.F) { hx.FuzzRapid(f, "cache-history", Gen, Exec) }
