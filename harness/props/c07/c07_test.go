package c07

import (
	"encoding/json"
	"testing"

	"verif/harness/hx"
)

func TestMain(m *testing.M) { hx.Main(m, "C07") }

func TestProp(t *testing.T) { hx.Check(t, "cache-history", Gen, Exec) }

func TestReplay(t *testing.T) {
	hx.Replay(t, map[string]func(json.RawMessage) (hx.Verdict, error){"cache-history": hx.Exec(Exec), "": hx.Exec(Exec)})
}
