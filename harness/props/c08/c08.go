// Package c08: the concurrent filespace loop visits every selected node exactly once,
// respects the consumer limit, and Wait returns only after the last callback.
package c08

import (
	"fmt"
	"hash/fnv"
	"os"
	"runtime"
	"sort"
	"strings"
	"sync"
	"sync/atomic"
	"time"

	"github.com/goatcms/goatcore/filesystem"
	"github.com/goatcms/goatcore/filesystem/filespace/memfs"
	"github.com/goatcms/goatcore/filesystem/fsloop"
	"github.com/goatcms/goatcore/varutil/verifhook"
	"github.com/goatcms/goatcore/workers"
	"pgregory.net/rapid"
	"verif/harness/fsmodel"
	"verif/harness/hx"
)

// Filter is a serialisable predicate on the path string the loop passes.
type Filter struct {
	Mode string `json:"mode"` // nil | all | none | hash
	Salt uint32 `json:"salt,omitempty"`
	Mod  uint32 `json:"mod,omitempty"`
}

func h32(s string, salt uint32) uint32 {
	h := fnv.New32a()
	h.Write([]byte(s))
	return h.Sum32() + salt*2654435761
}

func (f Filter) accept(p string) bool {
	switch f.Mode {
	case "nil", "all", "":
		return true
	case "none":
		return false
	}
	m := f.Mod
	if m < 2 {
		m = 2
	}
	return h32(p, f.Salt)%m != 0
}

func (f Filter) fn() filesystem.LoopFilter {
	if f.Mode == "nil" || f.Mode == "" {
		return nil
	}
	return func(_ filesystem.Filespace, p string) bool { return f.accept(p) }
}

// Plan is the generated schedule: what the verif yield points and the gated source do.
type Plan struct {
	HoldGap  bool   `json:"hold_gap"`  // a consumer arriving in the gap waits for the close announcement
	HoldMs   int    `json:"hold_ms"`   // ... at most this long
	Gate     bool   `json:"gate"`      // delay one directory listing until consumers are parked in the gap
	GateDir  string `json:"gate_dir"`  // cleaned path of that directory ("" = root)
	GateNeed int    `json:"gate_need"` // number of consumers that must be parked
	GateMs   int    `json:"gate_ms"`
}

// Case is one loop run.
type Case struct {
	Tree       []fsmodel.TNode `json:"tree"`
	WideDir    string          `json:"wide_dir,omitempty"` // directory that additionally receives WideN generated files
	WideN      int             `json:"wide_n,omitempty"`
	DirFilter  Filter          `json:"dir_filter"`
	FileFilter Filter          `json:"file_filter"`
	OnDir      bool            `json:"on_dir"`
	OnFile     bool            `json:"on_file"`
	Producents int             `json:"producents"`
	Consumers  int             `json:"consumers"`
	DelayUs    int             `json:"delay_us"`
	DelayMod   int             `json:"delay_mod"`
	ErrAt      int             `json:"err_at"` // -1: none; else the k-th callback invocation fails
	// Err2: the callback invocation after the ErrAt-th fails too, a little later, after it has
	// read loop.Errors() itself (somebody polling the error list while the loop is being torn
	// down); both errors must be in the final list.
	Err2 bool `json:"err2,omitempty"`
	// Poll: every callback reads loop.Errors() when it begins (a monitor polling the list).
	Poll bool `json:"poll,omitempty"`
	// ErrAll: every callback invocation after the ErrAt-th fails with an error of its own (all the
	// callbacks that are in flight when the loop is stopped fail); each of them must be in the list.
	ErrAll     bool   `json:"err_all,omitempty"`
	ReadDirErr string `json:"readdir_err"` // "-": none; else listing this (cleaned) directory fails
	Gomaxprocs int    `json:"gomaxprocs"`
	GraceUs    int    `json:"grace_us"`
	Plan       Plan   `json:"plan"`
}

func cleanLoopPath(p string) string {
	p = strings.TrimPrefix(p, "./")
	p = strings.TrimSuffix(p, "/")
	if p == "." {
		p = ""
	}
	return p
}

// ---------------------------------------------------------------- generator

func genFilter(rt *rapid.T, label string) Filter {
	switch hx.Uniform(rt, 10, label) {
	case 0, 1, 2:
		return Filter{Mode: "nil"}
	case 3, 4:
		return Filter{Mode: "all"}
	case 5:
		return Filter{Mode: "none"}
	}
	return Filter{Mode: "hash", Salt: uint32(hx.Uniform(rt, 1000, label+"s")), Mod: uint32(2 + hx.Uniform(rt, 4, label+"m"))}
}

// Gen draws a case.
func Gen(rt *rapid.T) Case {
	c := Case{ErrAt: -1, ReadDirErr: "-"}
	var tree *fsmodel.Node
	switch hx.Uniform(rt, 10, "shape") {
	case 0:
		tree = fsmodel.NewDir() // empty
	case 1: // deep chain
		tree = fsmodel.NewDir()
		cur := tree
		d := 2 + hx.Uniform(rt, 7, "depth")
		for i := 0; i < d; i++ {
			nx := fsmodel.NewDir()
			cur.Kids["d"] = nx
			if hx.Chance(rt, 60, "df") {
				cur.Kids["f"] = fsmodel.NewFile([]byte("x"))
			}
			cur = nx
		}
		cur.Kids["leaf"] = fsmodel.NewFile([]byte("x"))
	case 2: // the minimal shape that matters for the exit window: very few files
		tree = fsmodel.NewDir()
		tree.Kids["only"] = fsmodel.NewFile([]byte("x"))
		if hx.Chance(rt, 50, "sub") {
			d := fsmodel.NewDir()
			d.Kids["late"] = fsmodel.NewFile([]byte("y"))
			tree.Kids["sub"] = d
		}
	default:
		tree = fsmodel.GenTree(rt, 25, true)
	}
	c.Tree = fsmodel.Flatten(tree)
	var dirs []string
	for _, t := range c.Tree {
		if t.Dir {
			dirs = append(dirs, t.Path)
		}
	}
	wideChance := 3
	if hx.Thorough() {
		wideChance = 8
	}
	if hx.Chance(rt, wideChance, "wide") {
		c.WideN = 1001 + hx.Uniform(rt, 1500, "widen")
		if len(dirs) > 0 && hx.Chance(rt, 50, "wided") {
			c.WideDir = dirs[hx.Uniform(rt, len(dirs), "widedi")]
		}
	}
	c.DirFilter, c.FileFilter = genFilter(rt, "dfil"), genFilter(rt, "ffil")
	c.OnDir, c.OnFile = hx.Chance(rt, 80, "ondir"), hx.Chance(rt, 92, "onfile")
	ncpu := runtime.NumCPU()
	pick := func(label string) int {
		switch hx.Uniform(rt, 6, label) {
		case 0, 1:
			return 1
		case 2:
			return 2
		case 3:
			return 0 // "use the maximum"
		}
		return 1 + hx.Uniform(rt, ncpu, label+"n")
	}
	c.Producents, c.Consumers = pick("prod"), pick("cons")
	if hx.Chance(rt, 40, "delay") {
		c.DelayUs = 1 + hx.Uniform(rt, 300, "delayus")
		c.DelayMod = 1 + hx.Uniform(rt, 4, "delaymod")
	}
	c.Poll = hx.Chance(rt, 30, "poll")
	if hx.Chance(rt, 14, "cberr") {
		c.ErrAt = hx.Uniform(rt, 6, "errat")
		c.Err2 = hx.Chance(rt, 45, "err2")
		if !c.Err2 && hx.Chance(rt, 40, "errall") {
			c.ErrAll = true
			c.Poll = true
		}
	} else if hx.Chance(rt, 8, "rderr") {
		c.ReadDirErr = ""
		if len(dirs) > 0 && hx.Chance(rt, 70, "rdd") {
			c.ReadDirErr = dirs[hx.Uniform(rt, len(dirs), "rddi")]
		}
	}
	c.Gomaxprocs = []int{1, 2, 4, 16}[hx.Uniform(rt, 4, "gmp")]
	if hx.Chance(rt, 15, "grace") {
		c.GraceUs = 100 + hx.Uniform(rt, 900, "graceus")
	}
	if hx.Chance(rt, 55, "hold") {
		c.Plan.HoldGap = true
		c.Plan.HoldMs = 2 + hx.Uniform(rt, 12, "holdms")
		if hx.Chance(rt, 75, "gate") {
			c.Plan.Gate = true
			if len(dirs) > 0 && hx.Chance(rt, 50, "gated") {
				c.Plan.GateDir = dirs[hx.Uniform(rt, len(dirs), "gatedi")]
			}
			c.Plan.GateNeed = 1
			if hx.Chance(rt, 50, "needall") {
				c.Plan.GateNeed = effConsumers(c.Consumers)
			}
			c.Plan.GateMs = 3 + hx.Uniform(rt, 20, "gatems")
		}
	}
	return c
}

func effConsumers(n int) int {
	if n == 0 || n > workers.MaxJob {
		return workers.MaxJob
	}
	return n
}

// ---------------------------------------------------------------- gated source

type srcFS struct {
	fsmodel.FS
	c        *Case
	ctl      *controller
	rdErrHit int32
}

type injected struct{ tag string }

func (e *injected) Error() string { return e.tag }

func (s *srcFS) ReadDir(p string) ([]os.FileInfo, error) {
	cp := cleanLoopPath(p)
	if s.c.Plan.Gate && cp == s.c.Plan.GateDir {
		s.ctl.gateWait()
	}
	if s.c.ReadDirErr != "-" && cp == s.c.ReadDirErr {
		atomic.AddInt32(&s.rdErrHit, 1)
		return nil, &injected{"INJECTED-READDIR-ERROR"}
	}
	return s.FS.ReadDir(p)
}

// ---------------------------------------------------------------- hook controller

type controller struct {
	c             *Case
	mu            sync.Mutex
	parked        int
	parkedCh      chan struct{} // closed when GateNeed consumers are parked
	parkedOnce    sync.Once
	closeCh       chan struct{} // closed when the loop announced close
	closeOnce     sync.Once
	gapVisits     int64
	holds         int64
	holdsTilClose int64
	gateWaits     int64
	gateReleased  int64
	closeSeen     int64
}

func newController(c *Case) *controller {
	return &controller{c: c, parkedCh: make(chan struct{}), closeCh: make(chan struct{})}
}

func (k *controller) hook(point string) {
	switch point {
	case "fsloop.close.announced":
		atomic.AddInt64(&k.closeSeen, 1)
		k.closeOnce.Do(func() { close(k.closeCh) })
	case "fsloop.consumer.gap":
		atomic.AddInt64(&k.gapVisits, 1)
		if !k.c.Plan.HoldGap {
			return
		}
		select {
		case <-k.closeCh:
			return // close already announced: nothing to wait for
		default:
		}
		need := k.c.Plan.GateNeed
		if need < 1 {
			need = 1
		}
		k.mu.Lock()
		k.parked++
		if k.parked >= need {
			k.parkedOnce.Do(func() { close(k.parkedCh) })
		}
		k.mu.Unlock()
		atomic.AddInt64(&k.holds, 1)
		t := time.NewTimer(time.Duration(k.c.Plan.HoldMs) * time.Millisecond)
		select {
		case <-k.closeCh:
			atomic.AddInt64(&k.holdsTilClose, 1)
		case <-t.C:
		}
		t.Stop()
		k.mu.Lock()
		k.parked--
		k.mu.Unlock()
	}
}

func (k *controller) gateWait() {
	atomic.AddInt64(&k.gateWaits, 1)
	t := time.NewTimer(time.Duration(k.c.Plan.GateMs) * time.Millisecond)
	select {
	case <-k.parkedCh:
		atomic.AddInt64(&k.gateReleased, 1)
	case <-t.C:
	}
	t.Stop()
}

// ---------------------------------------------------------------- executor

var execMu sync.Mutex // the hook controller and GOMAXPROCS are process-global

// Exec runs the case.
func Exec(c Case) hx.Verdict {
	execMu.Lock()
	defer execMu.Unlock()
	return hx.Guard(func() hx.Verdict { return run(c) })
}

type event struct {
	kind string
	path string
}

func run(c Case) hx.Verdict {
	mem, err := memfs.NewFilespace()
	if err != nil {
		return hx.Fail("setup", "%v", err)
	}
	if err := fsmodel.Populate(mem, c.Tree); err != nil {
		return hx.Fail("setup", "populate: %v", err)
	}
	model := fsmodel.Build(c.Tree)
	if c.WideN > 0 {
		segs, _ := fsmodel.Resolve(c.WideDir)
		dn := model.Lookup(segs)
		if dn != nil && dn.Dir {
			for i := 0; i < c.WideN; i++ {
				name := fmt.Sprintf("w%05d", i)
				dn.Kids[name] = fsmodel.NewFile([]byte("w"))
				p := name
				if c.WideDir != "" {
					p = c.WideDir + "/" + name
				}
				if err := mem.WriteFile(p, []byte("w"), 0644); err != nil {
					return hx.Fail("setup", "wide: %v", err)
				}
			}
		}
	}
	// expected callbacks
	expect := map[event]int{}
	rdErrReachable := false
	var walk func(n *fsmodel.Node, base string)
	walk = func(n *fsmodel.Node, base string) {
		if c.ReadDirErr != "-" && cleanLoopPath(base) == c.ReadDirErr {
			rdErrReachable = true
		}
		for _, k := range n.Names() {
			p := base + k
			kid := n.Kids[k]
			if kid.Dir {
				if !c.DirFilter.accept(p) {
					continue
				}
				if c.OnDir {
					expect[event{"dir", p}]++
				}
				walk(kid, p+"/")
			} else if c.OnFile && c.FileFilter.accept(p) {
				expect[event{"file", p}]++
			}
		}
	}
	walk(model, "./")
	nExpect := 0
	for _, n := range expect {
		nExpect += n
	}
	rejected := false
	{
		var all func(n *fsmodel.Node, base string)
		all = func(n *fsmodel.Node, base string) {
			for _, k := range n.Names() {
				p := base + k
				if n.Kids[k].Dir {
					if !c.DirFilter.accept(p) {
						rejected = true
					}
					all(n.Kids[k], p+"/")
				} else if !c.FileFilter.accept(p) {
					rejected = true
				}
			}
		}
		all(model, "./")
	}

	ctl := newController(&c)
	src := &srcFS{FS: mem, c: &c, ctl: ctl}
	var (
		mu        sync.Mutex
		seen      = map[event]int{}
		order     []event
		inflight  int32
		maxIn     int32
		calls     int32
		afterWait int32
		lateCalls int32
		cbErr     = &injected{"INJECTED-CALLBACK-ERROR"}
		cbErr2    = &injected{"INJECTED-SECOND-CALLBACK-ERROR"}
		cbErrHit  int32
		cbErr2Hit int32
		allErrs   []string     // tags of the errors returned in ErrAll mode
		loopRef   atomic.Value // *fsloop.Loop once it exists
	)
	poll := func() {
		if l, ok := loopRef.Load().(interface{ Errors() []error }); ok && l != nil {
			_ = l.Errors()
		}
	}
	cb := func(kind string) filesystem.LoopOn {
		return func(_ filesystem.Filespace, p string) error {
			if atomic.LoadInt32(&afterWait) == 1 {
				atomic.AddInt32(&lateCalls, 1)
			}
			cur := atomic.AddInt32(&inflight, 1)
			for {
				m := atomic.LoadInt32(&maxIn)
				if cur <= m || atomic.CompareAndSwapInt32(&maxIn, m, cur) {
					break
				}
			}
			k := atomic.AddInt32(&calls, 1) - 1
			if c.Poll {
				poll()
			}
			mu.Lock()
			seen[event{kind, p}]++
			if len(order) < 64 {
				order = append(order, event{kind, p})
			}
			mu.Unlock()
			if c.DelayUs > 0 && c.DelayMod > 0 && int(h32(p, 7))%c.DelayMod == 0 {
				time.Sleep(time.Duration(c.DelayUs) * time.Microsecond)
			}
			var err error
			if c.ErrAt >= 0 && int(k) == c.ErrAt {
				atomic.AddInt32(&cbErrHit, 1)
				err = cbErr
				if c.Err2 {
					time.Sleep(120 * time.Microsecond) // give the next callback time to begin
				}
			}
			if c.ErrAt >= 0 && c.ErrAll && int(k) > c.ErrAt {
				tag := fmt.Sprintf("INJECTED-ERROR-OF-CALLBACK-%d", k)
				poll()
				mu.Lock()
				allErrs = append(allErrs, tag)
				mu.Unlock()
				err = &injected{tag}
				poll()
			}
			if c.ErrAt >= 0 && c.Err2 && int(k) == c.ErrAt+1 {
				time.Sleep(500 * time.Microsecond) // the first failure is recorded meanwhile
				poll()
				atomic.AddInt32(&cbErr2Hit, 1)
				err = cbErr2
			}
			atomic.AddInt32(&inflight, -1)
			return err
		}
	}
	ld := &fsloop.LoopData{Filespace: src, DirFilter: c.DirFilter.fn(), FileFilter: c.FileFilter.fn(),
		Consumers: c.Consumers, Producents: c.Producents}
	if c.OnDir {
		ld.OnDir = cb("dir")
	}
	if c.OnFile {
		ld.OnFile = cb("file")
	}
	if c.Gomaxprocs > 0 {
		old := runtime.GOMAXPROCS(c.Gomaxprocs)
		defer runtime.GOMAXPROCS(old)
	}
	verifhook.Set(ctl.hook)
	defer verifhook.Set(nil)

	loop := fsloop.NewLoop(ld, nil)
	loopRef.Store(loop)
	done := make(chan struct{})
	var errs []error
	var inAtWait int32
	go func() {
		loop.Run("")
		loop.Wait()
		inAtWait = atomic.LoadInt32(&inflight)
		atomic.StoreInt32(&afterWait, 1)
		errs = loop.Errors()
		close(done)
	}()
	v := hx.Pass()
	select {
	case <-done:
	case <-time.After(30 * time.Second):
		v.Inconclusive = true
		v.Label("wait-timeout")
		return v
	}
	if c.GraceUs > 0 {
		time.Sleep(time.Duration(c.GraceUs) * time.Microsecond)
	}
	v.Count("hook_gap_visits", atomic.LoadInt64(&ctl.gapVisits))
	v.Count("hook_close_seen", atomic.LoadInt64(&ctl.closeSeen))
	v.Count("hook_holds", atomic.LoadInt64(&ctl.holds))
	v.Count("hook_holds_until_close", atomic.LoadInt64(&ctl.holdsTilClose))
	v.Count("gate_released_by_parked_consumers", atomic.LoadInt64(&ctl.gateReleased))
	if ctl.holdsTilClose > 0 {
		v.Label("held-in-gap-until-close")
	}
	if ctl.gateReleased > 0 {
		v.Label("producer-released-while-consumers-parked")
	}
	if c.WideN > 0 {
		v.Label("wide>chan")
	}
	v.Label(fmt.Sprintf("consumers=%s", bucket(effConsumers(c.Consumers))))

	if inAtWait != 0 {
		return hx.Fail("wait-early", "Wait returned while %d callback(s) were still running", inAtWait)
	}
	if n := atomic.LoadInt32(&lateCalls); n > 0 {
		return hx.Fail("callback-after-wait", "%d callback(s) began after Wait had returned", n)
	}
	if lim := int32(effConsumers(c.Consumers)); maxIn > lim {
		return hx.Fail("consumer-limit", "%d callbacks ran at once, configured consumers = %d (effective %d)", maxIn, c.Consumers, lim)
	}
	mu.Lock()
	defer mu.Unlock()
	for e, n := range seen {
		if n > 1 {
			return hx.Fail("repeated", "%s callback for %q ran %d times", e.kind, e.path, n)
		}
		if expect[e] == 0 {
			return hx.Fail("unselected", "%s callback ran for %q which the filters do not select (or does not exist)", e.kind, e.path)
		}
	}
	injectedErr := cbErrHit > 0 || cbErr2Hit > 0 || src.rdErrHit > 0 || len(allErrs) > 0
	hasTag := func(tag string) bool {
		for _, e := range errs {
			if e != nil && strings.Contains(e.Error(), tag) {
				return true
			}
		}
		return false
	}
	if cbErrHit > 0 && !hasTag("INJECTED-CALLBACK-ERROR") {
		return hx.Fail("error-lost", "a callback returned an error but Errors() = %v", errs)
	}
	if cbErr2Hit > 0 && !hasTag("INJECTED-SECOND-CALLBACK-ERROR") {
		return hx.Fail("error-lost", "two callbacks returned an error (the second one after the error list had been read while the loop was being stopped) but the second is not in Errors() = %v", errs)
	}
	if cbErr2Hit > 0 && cbErrHit > 0 {
		v.Label("two-callback-errors-with-a-read-of-the-list-between")
	}
	for _, tag := range allErrs {
		if !hasTag(tag) {
			return hx.Fail("error-lost", "%d callbacks that were in flight when the loop was stopped returned an error each while the error list was being read; the error %s is not in Errors() (%d entries)", len(allErrs)+1, tag, len(errs))
		}
	}
	if len(allErrs) >= 2 {
		v.Label("many-callback-errors-while-the-list-is-read")
	}
	if c.Poll {
		v.Label("error-list-polled-during-the-walk")
	}
	if src.rdErrHit > 0 && !hasTag("INJECTED-READDIR-ERROR") {
		return hx.Fail("error-lost", "a directory listing failed but Errors() = %v", errs)
	}
	if injectedErr {
		v.Label("injected-error")
		v.NonTrivial = nExpect >= 3
		return v
	}
	_ = rdErrReachable
	if len(errs) > 0 {
		return hx.Fail("spurious-error", "no error was injected but Errors() = %v", errs)
	}
	if len(seen) != len(expect) {
		var missing []string
		for e := range expect {
			if seen[e] == 0 {
				missing = append(missing, e.kind+":"+e.path)
			}
		}
		sort.Strings(missing)
		if len(missing) > 6 {
			missing = append(missing[:6], fmt.Sprintf("... (%d more)", len(missing)-6))
		}
		return hx.Fail("skipped", "%d of %d selected nodes never got their callback although Errors() is empty: %v (consumers=%d, holds until close=%d, gate released=%d)",
			len(expect)-len(seen), len(expect), missing, c.Consumers, ctl.holdsTilClose, ctl.gateReleased)
	}
	v.NonTrivial = nExpect >= 3 && (ctl.holds > 0 || effConsumers(c.Consumers) >= 2 || rejected)
	return v
}

func bucket(n int) string {
	switch {
	case n == 1:
		return "1"
	case n == 2:
		return "2"
	case n <= 4:
		return "3-4"
	}
	return "5+"
}
