package c08

import (
	"encoding/json"
	"testing"

	"verif/harness/hx"
)

func TestMain(m *testing.M) { hx.Main(m, "C08") }

func TestProp(t *testing.T) { hx.Check(t, "loop", Gen, Exec) }

// TestPropErrList: the loop's error list object under concurrent failing callbacks and readers.
func TestPropErrList(t *testing.T) { hx.Check(t, "errlist", GenErrList, ExecErrList) }

func TestReplay(t *testing.T) {
	hx.Replay(t, map[string]func(json.RawMessage) (hx.Verdict, error){"loop": hx.Exec(Exec), "": hx.Exec(Exec), "errlist": hx.Exec(ExecErrList)})
}
