package c08

import (
	"fmt"
	"runtime"
	"strings"
	"sync"
	"sync/atomic"
	"time"

	"github.com/goatcms/goatcore/workers/jobsync"
	"pgregory.net/rapid"
	"verif/harness/hx"
)

// ErrListCase drives the loop's error list object (jobsync.Lifecycle, which every fsloop.Loop
// owns and whose Errors() is what Loop.Errors() returns) the way a busy loop does: Reporters
// goroutines record one error each (callbacks and listings failing at about the same time)
// while Pollers goroutines read and print the list. "A callback or listing error always appears
// in the loop's error list": after all reporters have returned, every recorded error is there.
type ErrListCase struct {
	Rounds     int  `json:"rounds"`
	Reporters  int  `json:"reporters"`
	Pollers    int  `json:"pollers"`
	Strict     bool `json:"strict"` // the first error kills the lifecycle (what fsloop uses)
	Gomaxprocs int  `json:"gomaxprocs"`
}

// GenErrList draws a case.
func GenErrList(rt *rapid.T) ErrListCase {
	return ErrListCase{
		Rounds:     50 + hx.Uniform(rt, 400, "rounds"),
		Reporters:  2 + hx.Uniform(rt, 10, "reporters"),
		Pollers:    1 + hx.Uniform(rt, 3, "pollers"),
		Strict:     hx.Chance(rt, 75, "strict"),
		Gomaxprocs: []int{2, 4, 16}[hx.Uniform(rt, 3, "gmp")],
	}
}

// ExecErrList runs a case.
func ExecErrList(c ErrListCase) hx.Verdict {
	hx.PersistCurrent("errlist", c)
	defer hx.ClearCurrent()
	return hx.Guard(func() hx.Verdict { return runErrList(c) })
}

func runErrList(c ErrListCase) hx.Verdict {
	v := hx.Pass()
	v.Label("errlist")
	if c.Rounds < 1 || c.Rounds > 100000 || c.Reporters < 1 || c.Reporters > 64 || c.Pollers < 0 || c.Pollers > 16 {
		v.Inconclusive = true
		return v
	}
	if c.Gomaxprocs > 0 {
		defer runtime.GOMAXPROCS(runtime.GOMAXPROCS(c.Gomaxprocs))
	}
	deadline := time.Now().Add(30 * time.Second)
	var polls int64
	for r := 0; r < c.Rounds; r++ {
		lc := jobsync.NewLifecycle(time.Minute, c.Strict)
		var wg, pw sync.WaitGroup
		var stop int32
		pans := make([]string, c.Pollers+c.Reporters)
		for p := 0; p < c.Pollers; p++ {
			p := p
			pw.Add(1)
			go func() {
				defer pw.Done()
				defer func() {
					if x := recover(); x != nil {
						pans[p] = fmt.Sprint(x)
					}
				}()
				for atomic.LoadInt32(&stop) == 0 {
					for _, e := range lc.Errors() {
						if e != nil {
							_ = e.Error()
						}
					}
					atomic.AddInt64(&polls, 1)
					runtime.Gosched()
				}
			}()
		}
		for i := 0; i < c.Reporters; i++ {
			i := i
			wg.Add(1)
			go func() {
				defer wg.Done()
				defer func() {
					if x := recover(); x != nil {
						pans[c.Pollers+i] = fmt.Sprint(x)
					}
				}()
				lc.Error(fmt.Errorf("ERR-%d-OF-ROUND", i))
			}()
		}
		wg.Wait()
		atomic.StoreInt32(&stop, 1)
		pw.Wait()
		for _, p := range pans {
			if p != "" {
				return hx.Fail("panic", "reading or recording the loop's error list panicked while %d callbacks failed at once: %s", c.Reporters, strings.SplitN(p, "\n", 2)[0])
			}
		}
		var all strings.Builder
		errs := lc.Errors()
		for _, e := range errs {
			if e != nil {
				all.WriteString(e.Error() + ";")
			}
		}
		for i := 0; i < c.Reporters; i++ {
			if !strings.Contains(all.String(), fmt.Sprintf("ERR-%d-OF-ROUND;", i)) {
				return hx.Fail("error-lost", "%d callbacks failed at about the same time while the error list was being read by %d goroutine(s) (strict=%v): the error of callback %d is not in the list afterwards: %s",
					c.Reporters, c.Pollers, c.Strict, i, all.String())
			}
		}
		if time.Now().After(deadline) {
			break
		}
	}
	v.Count("errlist_rounds", int64(c.Rounds))
	v.Count("errlist_polls", atomic.LoadInt64(&polls))
	v.NonTrivial = c.Reporters >= 3 && polls > 0
	if c.Strict {
		v.Label("errlist:strict")
	}
	return v
}
