// Package c12: scope failure signalling is safe from any number of goroutines.
package c12

import (
	"fmt"
	"runtime"
	"sort"
	"strings"
	"sync"
	"sync/atomic"
	"time"

	"github.com/goatcms/goatcore/app"
	"github.com/goatcms/goatcore/app/scope"
	"github.com/goatcms/goatcore/app/scope/contextscope"
	"github.com/goatcms/goatcore/varutil/verifhook"
	"pgregory.net/rapid"
	"verif/harness/hx"
)

// Case: one context/scope of a given kind, hammered by goroutines running action lists,
// optionally followed (or accompanied) by "late child" creation on the then-done scope.
type Case struct {
	Kind       string     `json:"kind"` // plain | isolated | scope | child | isochild
	Actions    [][]string `json:"actions"`
	Gomaxprocs int        `json:"gomaxprocs"`
	Rendezvous bool       `json:"rendezvous"`  // pair goroutines up inside the check-then-close gap of Stop
	WaitMs     int        `json:"wait_ms"`     // how long the first arrival waits for a partner
	LateChild  int        `json:"late_child"`  // number of children created+closed after the scope is done (scope kinds)
	LateIso    bool       `json:"late_iso"`    // late children get an isolated context
	RaceChild  bool       `json:"race_child"`  // one more goroutine creates+closes children while the others signal
	ParentStop string     `json:"parent_stop"` // isolated kinds: "", "stop", "kill": the parent ends concurrently
	ParentPre  int        `json:"parent_pre"`  // isolated kinds: errors appended to the parent BEFORE the isolated context is created
	PostAppend string     `json:"post_append"` // isolated kinds: after the run append one more error to "" | "child-then-parent" | "parent-then-child"
}

var actionKinds = []string{"append", "append", "appendmany", "kill", "stop", "stop", "isdone", "err", "errors"}

// Gen draws a case.
func Gen(rt *rapid.T) Case {
	c := Case{Kind: []string{"plain", "isolated", "scope", "child", "isochild"}[hx.Uniform(rt, 5, "kind")]}
	n := 2 + hx.Uniform(rt, 7, "ngo")
	if hx.Chance(rt, 15, "many") {
		n = 9 + hx.Uniform(rt, 8, "ngo2")
	}
	stopHeavy := hx.Chance(rt, 50, "stopheavy")
	for g := 0; g < n; g++ {
		k := 1 + hx.Uniform(rt, 5, "nact")
		var acts []string
		for i := 0; i < k; i++ {
			a := actionKinds[hx.Uniform(rt, len(actionKinds), "act")]
			if stopHeavy && i == 0 {
				a = []string{"stop", "kill", "append", "appendmany"}[hx.Uniform(rt, 4, "first")]
			}
			acts = append(acts, a)
		}
		c.Actions = append(c.Actions, acts)
	}
	c.Gomaxprocs = []int{1, 2, 4, 16}[hx.Uniform(rt, 4, "gmp")]
	if hx.Chance(rt, 65, "rdv") {
		c.Rendezvous = true
		c.WaitMs = 1 + hx.Uniform(rt, 10, "waitms")
	}
	if c.Kind == "scope" || c.Kind == "child" || c.Kind == "isochild" {
		if hx.Chance(rt, 50, "late") {
			c.LateChild = 1 + hx.Uniform(rt, 3, "nlate")
			c.LateIso = hx.Chance(rt, 30, "lateiso")
		}
		c.RaceChild = hx.Chance(rt, 25, "racechild")
	}
	if c.Kind == "isolated" || c.Kind == "isochild" {
		c.ParentStop = []string{"", "", "stop", "kill"}[hx.Uniform(rt, 4, "pstop")]
		if hx.Chance(rt, 40, "ppre") {
			c.ParentPre = 1 + hx.Uniform(rt, 10, "npre")
		}
		c.PostAppend = []string{"", "child-then-parent", "parent-then-child"}[hx.Uniform(rt, 3, "post")]
	}
	return c
}

// rendezvous controller for the verif yield point in Stop
type rdv struct {
	mu      sync.Mutex
	waiting chan struct{}
	waitMs  int
	visits  int64
	pairs   int64
}

func (r *rdv) hook(point string) {
	if point != "contextscope.stop.gap" {
		return
	}
	atomic.AddInt64(&r.visits, 1)
	r.mu.Lock()
	if r.waiting != nil {
		// second arrival: release the first, both proceed to close()
		close(r.waiting)
		r.waiting = nil
		r.mu.Unlock()
		atomic.AddInt64(&r.pairs, 1)
		return
	}
	ch := make(chan struct{})
	r.waiting = ch
	r.mu.Unlock()
	t := time.NewTimer(time.Duration(r.waitMs) * time.Millisecond)
	select {
	case <-ch:
	case <-t.C:
		r.mu.Lock()
		if r.waiting == ch {
			r.waiting = nil
		}
		r.mu.Unlock()
	}
	t.Stop()
}

var execMu sync.Mutex

// Exec runs the case.
func Exec(c Case) hx.Verdict {
	execMu.Lock()
	defer execMu.Unlock()
	hx.PersistCurrent("signal", c)
	defer hx.ClearCurrent()
	return hx.Guard(func() hx.Verdict { return run(c) })
}

type sigTarget interface {
	AppendError(errs ...error)
	Kill()
	Stop()
	IsDone() bool
	Err() error
	Errors() []error
	Done() <-chan struct{}
}

func run(c Case) hx.Verdict {
	if c.Gomaxprocs > 0 {
		old := runtime.GOMAXPROCS(c.Gomaxprocs)
		defer runtime.GOMAXPROCS(old)
	}
	var (
		target         sigTarget
		parentCtx      app.ContextScope
		root           app.Scope // scope kinds: the outermost scope (closed last)
		scp            app.Scope // scope kinds: the scope under test
		parentAppended []error
	)
	switch c.Kind {
	case "plain":
		target = contextscope.New()
	case "isolated":
		parentCtx = contextscope.New()
		for i := 0; i < c.ParentPre; i++ {
			e := fmt.Errorf("P-pre-%d", i)
			parentAppended = append(parentAppended, e)
			parentCtx.AppendError(e)
		}
		target = contextscope.NewIsolated(parentCtx)
	case "scope":
		root = scope.New(scope.Params{})
		scp = root
		target = scp
	case "child":
		root = scope.New(scope.Params{})
		scp = scope.NewChild(root, scope.ChildParams{})
		target = scp
	case "isochild":
		root = scope.New(scope.Params{})
		parentCtx = root.BaseContextScope()
		for i := 0; i < c.ParentPre; i++ {
			e := fmt.Errorf("P-pre-%d", i)
			parentAppended = append(parentAppended, e)
			parentCtx.AppendError(e)
		}
		scp = scope.NewChild(root, scope.ChildParams{ContextScope: contextscope.NewIsolated(root.BaseContextScope())})
		target = scp
	default:
		v := hx.Pass()
		v.Inconclusive = true
		return v
	}
	r := &rdv{waitMs: c.WaitMs}
	if c.Rendezvous {
		verifhook.Set(r.hook)
		defer verifhook.Set(nil)
	}
	var (
		wg        sync.WaitGroup
		start     = make(chan struct{})
		panics    []string
		pmu       sync.Mutex
		appended  []error
		amu       sync.Mutex
		kills     int64
		stoppers  int64
		anySignal int64
		serial    int64
		manyUsed  int64
	)
	guard := func(g int, what string) {
		if rec := recover(); rec != nil {
			pmu.Lock()
			_ = g
			panics = append(panics, fmt.Sprintf("%s: %v [at %s]", strings.SplitN(what, " ", 2)[0], rec, hx.PanicStack()))
			pmu.Unlock()
		}
	}
	for g, acts := range c.Actions {
		wg.Add(1)
		go func(g int, acts []string) {
			defer wg.Done()
			<-start
			for _, a := range acts {
				func() {
					defer guard(g, a)
					switch a {
					case "append":
						n := atomic.AddInt64(&serial, 1)
						var e error = fmt.Errorf("E-%d-%d", g, n)
						if n%4 == 0 {
							// an error value of a slice type (a list of field errors): a perfectly good
							// error that can be neither hashed nor compared with ==
							e = listErr{fmt.Sprintf("L-%d-%d", g, n), "second-line"}
						}
						amu.Lock()
						appended = append(appended, e)
						amu.Unlock()
						atomic.AddInt64(&stoppers, 1)
						atomic.StoreInt64(&anySignal, 1)
						target.AppendError(e)
					case "appendmany":
						// the caller reports a list it owns (a slice with spare capacity) and re-uses that
						// buffer afterwards: the scope must have kept its own record of the errors
						n := 2 + int(atomic.AddInt64(&serial, 1)%3)
						buf := make([]error, 0, n+4)
						for k := 0; k < n; k++ {
							buf = append(buf, fmt.Errorf("M-%d-%d", g, atomic.AddInt64(&serial, 1)))
						}
						amu.Lock()
						appended = append(appended, buf...)
						amu.Unlock()
						atomic.AddInt64(&stoppers, 1)
						atomic.StoreInt64(&anySignal, 1)
						target.AppendError(buf...)
						for k := range buf {
							buf[k] = fmt.Errorf("caller-reused-its-buffer-%d", k)
						}
						buf = append(buf, fmt.Errorf("caller-appended-to-its-own-buffer"), fmt.Errorf("caller-appended-again"))
						_ = buf
						atomic.StoreInt64(&manyUsed, 1)
					case "kill":
						atomic.AddInt64(&kills, 1)
						atomic.AddInt64(&stoppers, 1)
						atomic.StoreInt64(&anySignal, 1)
						target.Kill()
					case "stop":
						atomic.AddInt64(&stoppers, 1)
						atomic.StoreInt64(&anySignal, 1)
						target.Stop()
					case "isdone":
						target.IsDone()
					case "err":
						// the caller looks at what it got (a log line): an error object built from a
						// half-updated error list only shows when it is read
						if e := target.Err(); e != nil {
							_ = e.Error()
						}
					case "errors":
						for _, e := range target.Errors() {
							if e != nil {
								_ = e.Error()
							}
						}
					}
				}()
			}
		}(g, acts)
	}
	if c.ParentStop != "" && parentCtx != nil {
		wg.Add(1)
		go func() {
			defer wg.Done()
			defer guard(-1, "parent-"+c.ParentStop)
			<-start
			if c.ParentStop == "kill" {
				parentCtx.Kill()
			} else {
				parentCtx.Stop()
			}
		}()
	}
	raceChildren := 0
	if c.RaceChild && scp != nil {
		wg.Add(1)
		go func() {
			defer wg.Done()
			<-start
			for i := 0; i < 6; i++ {
				func() {
					defer guard(-2, "race-child create+close")
					ch := scope.NewChild(scp, scope.ChildParams{})
					raceChildren++
					ch.Close()
				}()
				runtime.Gosched()
			}
		}()
	}
	close(start)
	done := make(chan struct{})
	go func() { wg.Wait(); close(done) }()
	v := hx.Pass()
	select {
	case <-done:
	case <-time.After(30 * time.Second):
		return hx.Fail("blocked", "signalling goroutines did not finish within 30 s (kind %s)", c.Kind)
	}
	v.Label("kind:" + c.Kind)
	if atomic.LoadInt64(&manyUsed) == 1 {
		v.Label("caller-owned-error-list-reused")
	}
	v.Count("hook_stop_gap_visits", atomic.LoadInt64(&r.visits))
	v.Count("hook_rendezvous_pairs", atomic.LoadInt64(&r.pairs))
	if r.pairs > 0 {
		v.Label("rendezvous-in-stop-gap")
	}
	if len(panics) > 0 {
		sort.Strings(panics)
		vals := map[string]bool{}
		for _, p := range panics {
			if i := strings.Index(p, ": "); i >= 0 {
				vals[firstLine(p[i+2:])] = true
			}
		}
		var uniq []string
		for k := range vals {
			uniq = append(uniq, k)
		}
		sort.Strings(uniq)
		return hx.Fail("panic", "a signalling call panicked: %s", strings.Join(uniq, " | "))
	}
	if parentCtx != nil && c.PostAppend != "" {
		eT, eP := fmt.Errorf("T-post"), fmt.Errorf("P-post")
		perr := ""
		func() {
			defer func() {
				if rec := recover(); rec != nil {
					perr = fmt.Sprint(rec)
				}
			}()
			if c.PostAppend == "child-then-parent" {
				target.AppendError(eT)
				parentCtx.AppendError(eP)
			} else {
				parentCtx.AppendError(eP)
				target.AppendError(eT)
			}
		}()
		if perr != "" {
			return hx.Fail("panic", "a signalling call panicked: %s", firstLine(perr))
		}
		appended = append(appended, eT)
		parentAppended = append(parentAppended, eP)
		v.Label("post-append-on-isolated-and-parent")
	}
	if parentCtx != nil {
		pgot := parentCtx.Errors()
		for _, e := range parentAppended {
			found := false
			for _, g := range pgot {
				if g == e {
					found = true
					break
				}
			}
			if !found {
				return hx.Fail("error-lost", "error %v appended to the PARENT context is not in its Errors() any more (%d held, %d appended) after errors were appended to its isolated child", e, len(pgot), len(parentAppended))
			}
		}
		if c.ParentPre > 0 {
			v.Label("isolated-of-done-parent")
		}
	}
	// every appended error is retained and reported
	got := target.Errors()
	for _, e := range appended {
		found := false
		for _, g := range got {
			if sameErr(g, e) {
				found = true
				break
			}
		}
		if !found {
			return hx.Fail("error-lost", "appended error %v is not in Errors() (%d errors held, %d appended)", e, len(got), len(appended))
		}
	}
	// ... and by Err(): its text lists every retained error
	if ee := target.Err(); ee != nil && len(appended) > 0 {
		txt := ee.Error()
		for _, e := range appended {
			if !strings.Contains(txt, e.Error()) {
				return hx.Fail("err-accessor", "Err() does not report the appended error %v although Errors() holds it (%d errors held)", e, len(got))
			}
		}
	}
	// Kill is not an appended error: how many cancellation errors N kills leave is not fixed by the
	// statement (one per call today; once per scope is as good). Only "a killed scope holds an
	// error" is required, below.
	parentKilled := c.ParentStop == "kill" || c.ParentPre > 0
	wantErr := len(appended) > 0 || kills > 0
	if (target.Err() != nil) != wantErr && !(parentKilled && target.Err() != nil) {
		return hx.Fail("err-accessor", "Err()=%v but %d errors were appended and %d kills issued", target.Err(), len(appended), kills)
	}
	if atomic.LoadInt64(&anySignal) == 1 {
		if !target.IsDone() {
			return hx.Fail("done-signal", "a stopping call returned but IsDone() is false")
		}
		select {
		case <-target.Done():
		default:
			return hx.Fail("done-signal", "a stopping call returned but Done() is not closed")
		}
	}
	// late children of the (now possibly done) scope, then Wait/Close of everything
	if scp != nil {
		lateErr := ""
		for i := 0; i < c.LateChild; i++ {
			func() {
				defer func() {
					if rec := recover(); rec != nil {
						lateErr = fmt.Sprintf("creating/closing child %d of a scope with IsDone()=%v panicked: %v", i, scp.IsDone(), rec)
					}
				}()
				p := scope.ChildParams{}
				if c.LateIso {
					p.ContextScope = contextscope.NewIsolated(scp.BaseContextScope())
				}
				ch := scope.NewChild(scp, p)
				ch.Close()
			}()
			if lateErr != "" {
				return hx.Fail("late-child", "%s", firstLine(lateErr))
			}
		}
		if c.LateChild > 0 && scp.IsDone() {
			v.Label("late-child-of-done-scope")
		}
		if c.RaceChild {
			v.Label("child-creation-racing-signals")
		}
		type res struct {
			err      error
			panicked string
		}
		closeAll := make(chan res, 1)
		go func() {
			var out res
			defer func() {
				if rec := recover(); rec != nil {
					out.panicked = fmt.Sprint(rec)
				}
				closeAll <- out
			}()
			werr := scp.Wait()
			if (werr != nil) != (len(scp.Errors()) > 0) {
				out.panicked = fmt.Sprintf("Wait()=%v but scope holds %d errors", werr, len(scp.Errors()))
				return
			}
			out.err = scp.Close()
			if root != scp {
				root.Close()
			}
		}()
		select {
		case o := <-closeAll:
			if o.panicked != "" {
				return hx.Fail("close", "waiting on / closing the scope after the signalling: %s", firstLine(o.panicked))
			}
			// isolated child: parent errors do not count, its own do
			if (o.err != nil) != (wantErr || (parentKilled && c.Kind == "isochild")) && !(parentKilled) {
				return hx.Fail("close-result", "Close()=%v but %d errors were appended and %d kills issued", o.err, len(appended), kills)
			}
		case <-time.After(20 * time.Second):
			return hx.Fail("wait-blocked", "Wait/Close of the scope did not return within 20 s after %d late and %d racing children were created and closed", c.LateChild, raceChildren)
		}
	}
	stopGoroutines := 0
	for _, acts := range c.Actions {
		for _, a := range acts {
			if a == "stop" || a == "kill" || a == "append" || a == "appendmany" {
				stopGoroutines++
				break
			}
		}
	}
	v.NonTrivial = (len(c.Actions) >= 2 && stopGoroutines >= 2 && r.pairs > 0) || (c.LateChild > 0) || c.RaceChild
	return v
}

// listErr is an error whose dynamic type is a slice (uncomparable, unhashable).
type listErr []string

func (l listErr) Error() string { return strings.Join(l, "; ") }

// sameErr compares two error values without == on uncomparable dynamic types.
func sameErr(a, b error) bool {
	la, oka := a.(listErr)
	lb, okb := b.(listErr)
	if oka || okb {
		return oka && okb && len(la) > 0 && len(lb) > 0 && &la[0] == &lb[0]
	}
	return a == b
}

func firstLine(s string) string {
	if i := strings.IndexByte(s, '\n'); i >= 0 {
		s = s[:i]
	}
	if len(s) > 300 {
		s = s[:300]
	}
	return s
}
