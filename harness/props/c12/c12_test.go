package c12

import (
	"encoding/json"
	"testing"

	"verif/harness/hx"
)

func TestMain(m *testing.M) { hx.Main(m, "C12") }

func TestProp(t *testing.T) { hx.Check(t, "signal", Gen, Exec) }

// TestPropChildRace: child creation swept against the parent's end (two goroutines per round).
func TestPropChildRace(t *testing.T) { hx.Check(t, "childrace", GenRace, ExecRace) }

// TestPropTaskClose: registered tasks signalling their failure while the owner is in Close (taskclose.go).
func TestPropTaskClose(t *testing.T) { hx.Check(t, "taskclose", GenTaskClose, ExecTaskClose) }

func TestReplay(t *testing.T) {
	hx.Replay(t, map[string]func(json.RawMessage) (hx.Verdict, error){"signal": hx.Exec(Exec), "": hx.Exec(Exec), "childrace": hx.Exec(ExecRace), "taskclose": hx.Exec(ExecTaskClose)})
}
