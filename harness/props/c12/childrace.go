package c12

import (
	"fmt"
	"runtime"
	"sync"
	"sync/atomic"
	"time"

	"github.com/goatcms/goatcore/app"
	"github.com/goatcms/goatcore/app/scope"
	"github.com/goatcms/goatcore/app/scope/contextscope"
	"pgregory.net/rapid"
	"verif/harness/hx"
)

// RaceCase: "child creation racing with the parent's end" as a swept two-goroutine race. Every
// round takes a fresh parent scope; one goroutine creates a child of it and closes the child,
// the other ends the parent (kill / stop / append-error) after a spin delay that sweeps over
// the duration of NewChild, so that the end lands inside every instruction window of the
// creation in some round. Clauses: no call panics; the parent's Close returns afterwards (a
// child that signed on is signed off exactly once); an appended error is retained.
type RaceCase struct {
	Rounds     int    `json:"rounds"`
	End        string `json:"end"`      // kill | stop | append
	MaxSpin    int    `json:"max_spin"` // the delay sweeps 0..MaxSpin spin iterations
	Iso        bool   `json:"iso,omitempty"`
	Gomaxprocs int    `json:"gomaxprocs"`
}

// GenRace draws a race case.
func GenRace(rt *rapid.T) RaceCase {
	return RaceCase{
		Rounds:     2000 + hx.Uniform(rt, 6000, "rounds"),
		End:        []string{"kill", "stop", "append"}[hx.Uniform(rt, 3, "end")],
		MaxSpin:    []int{40, 150, 400, 1200}[hx.Uniform(rt, 4, "maxspin")],
		Iso:        hx.Chance(rt, 20, "iso"),
		Gomaxprocs: []int{2, 4, 16}[hx.Uniform(rt, 3, "gmp")],
	}
}

var spinSink int32

// ExecRace runs a race case.
func ExecRace(c RaceCase) hx.Verdict {
	execMu.Lock()
	defer execMu.Unlock()
	hx.PersistCurrent("childrace", c)
	defer hx.ClearCurrent()
	v := hx.Pass()
	v.Label("childrace")
	v.Label("childrace:" + c.End)
	if c.Rounds < 1 || c.Rounds > 100000 || c.MaxSpin < 0 {
		v.Inconclusive = true
		return v
	}
	if c.Gomaxprocs > 0 {
		defer runtime.GOMAXPROCS(runtime.GOMAXPROCS(c.Gomaxprocs))
	}
	appended := fmt.Errorf("appended by the racing goroutine")
	var bothSides int64 // rounds in which the child was created on a parent that was not yet done and closed after it was
	deadline := time.Now().Add(40 * time.Second)
	for r := 0; r < c.Rounds; r++ {
		parent := scope.New(scope.Params{})
		var ready int32
		var wg sync.WaitGroup
		var panA, panB string
		var notDoneBefore, doneAfter bool
		delay := 0
		if c.MaxSpin > 0 {
			delay = r % (c.MaxSpin + 1)
		}
		wg.Add(2)
		go func() {
			defer wg.Done()
			panA = try(func() {
				atomic.AddInt32(&ready, 1)
				for atomic.LoadInt32(&ready) < 2 {
					runtime.Gosched()
				}
				notDoneBefore = !parent.IsDone()
				p := scope.ChildParams{}
				if c.Iso {
					p.ContextScope = contextscope.NewIsolated(parent)
				}
				var ch app.Scope = scope.NewChild(parent, p)
				doneAfter = parent.IsDone()
				ch.Close()
			})
		}()
		go func() {
			defer wg.Done()
			panB = try(func() {
				atomic.AddInt32(&ready, 1)
				for atomic.LoadInt32(&ready) < 2 {
					runtime.Gosched()
				}
				for i := 0; i < delay; i++ {
					atomic.AddInt32(&spinSink, 1)
				}
				switch c.End {
				case "kill":
					parent.Kill()
				case "stop":
					parent.Stop()
				default:
					parent.AppendError(appended)
				}
			})
		}()
		wg.Wait()
		if panA != "" {
			return hx.Fail("panic", "creating and closing a child while the parent is ended by %s panicked: %s", c.End, panA)
		}
		if panB != "" {
			return hx.Fail("panic", "%s on a parent while a child is being created panicked: %s", c.End, panB)
		}
		if notDoneBefore && doneAfter {
			bothSides++
		}
		// the parent must be closable: every child that signed on has signed off
		res := make(chan string, 1)
		go func() {
			res <- try(func() { parent.Close() })
		}()
		select {
		case pan := <-res:
			if pan != "" {
				return hx.Fail("panic", "Close of the parent after the race (%s) panicked: %s", c.End, pan)
			}
		case <-time.After(20 * time.Second):
			return hx.Fail("wait-blocked", "Close of the parent did not return within 20 s after a child was created and closed while the parent was ended by %s", c.End)
		}
		if c.End == "append" {
			found := false
			for _, e := range parent.Errors() {
				if e == appended {
					found = true
				}
			}
			if !found {
				return hx.Fail("error-lost", "the error appended while a child was being created is not in Errors()")
			}
		}
		if time.Now().After(deadline) {
			v.Count("childrace_rounds_cut_by_budget", int64(c.Rounds-r-1))
			break
		}
	}
	v.Count("childrace_rounds", int64(c.Rounds))
	v.Count("childrace_end_landed_during_creation", bothSides)
	if bothSides > 0 {
		v.Label("childrace:end-landed-during-creation")
		v.NonTrivial = true
	}
	return v
}

// try runs f and returns the text of a panic ("" if none).
func try(f func()) (pan string) {
	defer func() {
		if r := recover(); r != nil {
			pan = firstLine(fmt.Sprint(r)) + " [at " + hx.PanicStack() + "]"
		}
	}()
	f()
	return ""
}
