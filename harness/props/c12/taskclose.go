package c12

import (
	"fmt"
	"runtime"
	"sync/atomic"
	"time"

	"github.com/goatcms/goatcore/app"
	"github.com/goatcms/goatcore/app/scope"
	"github.com/goatcms/goatcore/app/scope/contextscope"
	"pgregory.net/rapid"
	"verif/harness/hx"
)

// TaskCloseCase: tasks that fail while their scope is being closed - "the normal case in a
// pipeline": the owner registers N tasks (AddTasks), starts them and calls Close, which waits
// for them; every task signals (AppendError / Kill / Stop, reads of Err / Errors / IsDone in
// between) and then reports DoneTask. The delay of every task sweeps over the rounds, so the
// signals land before Close is entered, while it runs its before-close listeners and while it
// waits. Clauses: no call panics; Close returns (every task reports DoneTask, so a Close that
// does not return means a signalling call never came back); every appended error is in
// Errors() afterwards and Close reports an error exactly when one was appended or a kill issued.
type TaskCloseCase struct {
	Kind       string     `json:"kind"` // scope | child | isochild
	Rounds     int        `json:"rounds"`
	Tasks      [][]string `json:"tasks"` // per task: append | appendmany | kill | stop | err | errors | isdone
	MaxSpin    int        `json:"max_spin"`
	SleepUs    int        `json:"sleep_us"` // every 8th round the tasks additionally sleep this long (well inside Close's wait)
	Gomaxprocs int        `json:"gomaxprocs"`
}

var taskActs = []string{"append", "append", "appendmany", "kill", "stop", "err", "errors", "isdone", "append"}

// GenTaskClose draws a case.
func GenTaskClose(rt *rapid.T) TaskCloseCase {
	c := TaskCloseCase{
		Kind:       []string{"scope", "child", "isochild"}[hx.Uniform(rt, 3, "kind")],
		Rounds:     200 + hx.Uniform(rt, 800, "rounds"),
		MaxSpin:    []int{30, 200, 1000, 5000}[hx.Uniform(rt, 4, "maxspin")],
		SleepUs:    []int{0, 50, 500}[hx.Uniform(rt, 3, "sleep")],
		Gomaxprocs: []int{2, 4, 16}[hx.Uniform(rt, 3, "gmp")],
	}
	n := 1 + hx.Uniform(rt, 4, "ntasks")
	for i := 0; i < n; i++ {
		k := 1 + hx.Uniform(rt, 3, "nact")
		var acts []string
		for j := 0; j < k; j++ {
			acts = append(acts, taskActs[hx.Uniform(rt, len(taskActs), "act")])
		}
		c.Tasks = append(c.Tasks, acts)
	}
	return c
}

// ExecTaskClose runs a case.
func ExecTaskClose(c TaskCloseCase) hx.Verdict {
	execMu.Lock()
	defer execMu.Unlock()
	hx.PersistCurrent("taskclose", c)
	defer hx.ClearCurrent()
	v := hx.Pass()
	v.Label("taskclose")
	v.Label("taskclose:" + c.Kind)
	if c.Rounds < 1 || c.Rounds > 100000 || len(c.Tasks) < 1 || len(c.Tasks) > 16 || c.MaxSpin < 0 || c.SleepUs < 0 || c.SleepUs > 100000 {
		v.Inconclusive = true
		return v
	}
	for _, acts := range c.Tasks {
		for _, a := range acts {
			ok := false
			for _, k := range taskActs {
				ok = ok || k == a
			}
			if !ok {
				v.Inconclusive = true
				return v
			}
		}
	}
	if c.Gomaxprocs > 0 {
		defer runtime.GOMAXPROCS(runtime.GOMAXPROCS(c.Gomaxprocs))
	}
	deadline := time.Now().Add(40 * time.Second)
	var duringClose int64 // rounds in which a task signalled after Close had been entered and before it returned
	for r := 0; r < c.Rounds; r++ {
		root := scope.New(scope.Params{})
		var scp app.Scope = root
		switch c.Kind {
		case "scope":
		case "child":
			scp = scope.NewChild(root, scope.ChildParams{})
		case "isochild":
			scp = scope.NewChild(root, scope.ChildParams{ContextScope: contextscope.NewIsolated(root.BaseContextScope())})
		default:
			v.Inconclusive = true
			return v
		}
		n := len(c.Tasks)
		scp.AddTasks(n)
		var started, closeEntered, closeReturned int32
		var sawDuring int32
		var kills int64
		appendedCh := make(chan error, 64)
		pans := make(chan string, n+1)
		var phases = make([]atomic.Value, n)
		for ti := range c.Tasks {
			ti := ti
			phases[ti].Store("waiting for the start")
			delay := 0
			if c.MaxSpin > 0 {
				delay = (r*(ti+1) + ti*7) % (c.MaxSpin + 1)
			}
			go func() {
				pan := try(func() {
					for atomic.LoadInt32(&started) == 0 {
						runtime.Gosched()
					}
					for i := 0; i < delay; i++ {
						atomic.AddInt32(&spinSink, 1)
					}
					if c.SleepUs > 0 && r%8 == 7 {
						time.Sleep(time.Duration(c.SleepUs) * time.Microsecond)
					}
					for ai, a := range c.Tasks[ti] {
						phases[ti].Store(a)
						if atomic.LoadInt32(&closeEntered) == 1 && atomic.LoadInt32(&closeReturned) == 0 {
							atomic.StoreInt32(&sawDuring, 1)
						}
						switch a {
						case "append":
							e := fmt.Errorf("task %d action %d failed", ti, ai)
							appendedCh <- e
							scp.AppendError(e)
						case "appendmany":
							e1, e2 := fmt.Errorf("task %d action %d failed (1)", ti, ai), listErr{fmt.Sprintf("task %d action %d failed (2)", ti, ai)}
							appendedCh <- e1
							appendedCh <- e2
							scp.AppendError(e1, nil, e2)
						case "kill":
							atomic.AddInt64(&kills, 1)
							scp.Kill()
						case "stop":
							scp.Stop()
						case "err":
							if e := scp.Err(); e != nil {
								_ = e.Error()
							}
						case "errors":
							for _, e := range scp.Errors() {
								_ = e.Error()
							}
						default:
							scp.IsDone()
						}
					}
					phases[ti].Store("DoneTask")
					scp.DoneTask()
					phases[ti].Store("returned")
				})
				pans <- pan
			}()
		}
		closeRes := make(chan error, 1)
		go func() {
			var err error
			pan := try(func() {
				atomic.StoreInt32(&started, 1)
				for i := 0; i < (r*3)%(c.MaxSpin/2+1); i++ {
					atomic.AddInt32(&spinSink, 1)
				}
				atomic.StoreInt32(&closeEntered, 1)
				err = scp.Close()
				atomic.StoreInt32(&closeReturned, 1)
			})
			pans <- pan
			closeRes <- err
		}()
		watch := time.After(20 * time.Second)
		for k := 0; k < n+1; k++ {
			select {
			case pan := <-pans:
				if pan != "" {
					return hx.Fail("panic", "tasks signalling their failure while the scope is being closed (every task signals, then DoneTask): %s", pan)
				}
			case <-watch:
				where := ""
				for ti := range c.Tasks {
					where += fmt.Sprintf(" task%d:%v", ti, phases[ti].Load())
				}
				return hx.Fail("wait-blocked", "the owner registered %d tasks and called Close; every task signals and then reports DoneTask, but after 20 s %d goroutines have not returned (tasks are in:%s)", n, n+1-k, where)
			}
		}
		cerr := <-closeRes
		close(appendedCh)
		var appended []error
		for e := range appendedCh {
			appended = append(appended, e)
		}
		if sawDuring == 1 {
			duringClose++
		}
		errs := scp.Errors()
		for _, want := range appended {
			found := false
			for _, e := range errs {
				if sameErr(e, want) {
					found = true
				}
			}
			if !found {
				return hx.Fail("error-lost", "an error appended by a registered task before its DoneTask is not in Errors() after Close (%d appended, %d in Errors())", len(appended), len(errs))
			}
		}
		if (len(appended) > 0 || kills > 0) && cerr == nil {
			return hx.Fail("close-result", "Close() returned nil although its tasks appended %d errors and issued %d kills before their DoneTask", len(appended), kills)
		}
		if len(appended) == 0 && kills == 0 && cerr != nil {
			return hx.Fail("close-result", "Close() returned %q although no task appended an error or killed", firstLine(cerr.Error()))
		}
		if scp != root {
			if pan := try(func() { root.Close() }); pan != "" {
				return hx.Fail("panic", "Close of the parent afterwards panicked: %s", pan)
			}
		}
		if time.Now().After(deadline) {
			v.Count("taskclose_rounds_cut_by_budget", int64(c.Rounds-r-1))
			break
		}
	}
	v.Count("taskclose_rounds", int64(c.Rounds))
	v.Count("taskclose_rounds_signal_during_close", duringClose)
	if duringClose > 0 {
		v.Label("taskclose:signal-while-close-is-running")
		v.NonTrivial = true
	}
	return v
}
