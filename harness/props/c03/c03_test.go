package c03

import (
	"encoding/json"
	"strings"
	"testing"

	"pgregory.net/rapid"
	"verif/harness/fsmodel"
	"verif/harness/hx"
)

func TestMain(m *testing.M) {
	defer CloseFixtures()
	hx.Main(m, "C03")
}

func kindsFor(disk bool) []string {
	if disk {
		return DiskKinds
	}
	return MemKinds
}

// TestEnum: every path up to the depth bound x every op form x every view kind.
func TestEnum(t *testing.T) {
	defer CloseFixtures()
	memDepth, diskDepth := 4, 3
	if hx.Thorough() {
		memDepth, diskDepth = 5, 4
	}
	sh, n := hx.Shard()
	var total int64
	idx := 0
	for _, disk := range []bool{false, true} {
		depth := memDepth
		if disk {
			depth = diskDepth
		}
		paths := Paths(depth)
		for _, kind := range kindsFor(disk) {
			sibDepth := 3
			if hx.Thorough() {
				sibDepth = depth - 1
			}
			for _, p := range append(append(append([]string{}, paths...), PathsSib(sibDepth, SibOf(kind))...), ProvisionedPaths...) {
				idx++
				if idx%n != sh {
					continue
				}
				for _, op := range Forms(p) {
					total++
					if !hx.One(t, "enum", Case{Kind: kind, Ops: []fsmodel.Op{op}}, Exec) {
						return
					}
				}
			}
		}
	}
	hx.AddExhaustive(hx.Exhaustive{What: "paths x 22 op forms x view kinds (this shard)", Alphabet: "in out . .. '' with/without leading /",
		Bound: "mem kinds <= " + itoa(memDepth) + " segments, disk kinds <= " + itoa(diskDepth), Count: total})
}

func itoa(i int) string { return string(rune('0' + i)) }

var segAlpha = []string{"in", "out", ".", "..", "", "in", "..", "new", "v", "w", "vx", "wx", "..", "cp", "cpd"}

func genPath(rt *rapid.T, maxSeg int) string {
	n := 1 + hx.Uniform(rt, maxSeg, "nseg")
	segs := make([]string, n)
	for i := range segs {
		segs[i] = segAlpha[hx.Uniform(rt, len(segAlpha), "seg")]
	}
	if hx.Chance(rt, 18, "climb") {
		// constructed climbs: k names down, then k+j times "..", so that the path ends exactly at
		// the root (j=0) or exactly one/two levels above it, with '.' and '' sprinkled in and
		// optionally a name after the climb. Random segments almost never balance like this, and
		// the depth goes well beyond the random class (a reduction with a fixed-size fast path
		// has its boundary somewhere there).
		k := hx.Uniform(rt, 4*maxSeg, "down")
		j := hx.Uniform(rt, 3, "over")
		segs = segs[:0]
		names := []string{"in", "new", "v", "w", "out"}
		for i := 0; i < k; i++ {
			segs = append(segs, names[hx.Uniform(rt, len(names), "dn")])
			if hx.Chance(rt, 10, "dot") {
				segs = append(segs, []string{".", ""}[hx.Uniform(rt, 2, "dk")])
			}
		}
		for i := 0; i < k+j; i++ {
			segs = append(segs, "..")
			if hx.Chance(rt, 6, "dot2") {
				segs = append(segs, ".")
			}
		}
		if hx.Chance(rt, 35, "tail") {
			segs = append(segs, []string{"out", "in", "new"}[hx.Uniform(rt, 3, "tn")])
		}
		if len(segs) == 0 {
			segs = append(segs, "..")
		}
	}
	p := strings.Join(segs, "/")
	// Windows-style spellings: on this platform a backslash is an ordinary character of a name,
	// so "..\\out\\out" names a node INSIDE the view; a layer that treats it as a separator on the
	// way down climbs out of the root
	switch w := hx.Uniform(rt, 100, "sepstyle"); {
	case w >= 90:
		p = strings.Join(segs, "\\")
	case w >= 82:
		var b strings.Builder
		for i, sg := range segs {
			if i > 0 {
				if hx.Chance(rt, 50, "bs") {
					b.WriteString("\\")
				} else {
					b.WriteString("/")
				}
			}
			b.WriteString(sg)
		}
		p = b.String()
	}
	if hx.Chance(rt, 30, "lead") {
		p = "/" + p
	}
	return p
}

func allKinds() []string { return append(append([]string{}, MemKinds...), DiskKinds...) }

// GenLong draws one call with a long random path.
func GenLong(rt *rapid.T) Case {
	ks := allKinds()
	kind := ks[hx.Uniform(rt, len(ks), "kind")]
	forms := Forms(genPath(rt, 12))
	op := forms[hx.Uniform(rt, len(forms), "form")]
	if op.Path2 != "" && hx.Chance(rt, 40, "p2") {
		op.Path2 = genPath(rt, 12)
	}
	return Case{Kind: kind, Ops: []fsmodel.Op{op}}
}

// GenSeq draws a sequence of calls mixing inside and escaping paths on one fixture.
func GenSeq(rt *rapid.T) Case {
	ks := allKinds()
	kind := ks[hx.Uniform(rt, len(ks), "kind")]
	n := 2 + hx.Uniform(rt, 10, "nops")
	c := Case{Kind: kind}
	for i := 0; i < n; i++ {
		forms := Forms(genPath(rt, 6))
		op := forms[hx.Uniform(rt, len(forms), "form")]
		if op.Path2 != "" && hx.Chance(rt, 40, "p2") {
			op.Path2 = genPath(rt, 6)
		}
		c.Ops = append(c.Ops, op)
	}
	return c
}

func TestPropLong(t *testing.T) { hx.Check(t, "long-path", GenLong, Exec) }
func TestPropSeq(t *testing.T)  { hx.Check(t, "sequence", GenSeq, Exec) }

func TestReplay(t *testing.T) {
	defer CloseFixtures()
	e := hx.Exec(Exec)
	hx.Replay(t, map[string]func(json.RawMessage) (hx.Verdict, error){"enum": e, "long-path": e, "sequence": e, "fuzz": e, "": e})
}

// FuzzCall decodes bytes into (view kind, op form, path, path2) and applies the single-call oracle.
func FuzzCall(f *testing.F) {
	f.Add([]byte{0, 7, 3, 3, 1})
	f.Add([]byte{2, 5, 0, 3, 3, 1, 1})
	f.Add([]byte{9, 20, 3, 0, 3, 1})
	f.Fuzz(func(t *testing.T, b []byte) {
		if len(b) < 3 {
			return
		}
		ks := allKinds()
		kind := ks[int(b[0])%len(ks)]
		segs := []string{}
		for _, x := range b[2:] {
			if len(segs) >= 14 {
				break
			}
			segs = append(segs, segAlpha[int(x&0x0f)%len(segAlpha)])
		}
		p := strings.Join(segs, "/")
		if b[1]&0x80 != 0 {
			p = "/" + p
		}
		forms := Forms(p)
		op := forms[int(b[1]&0x7f)%len(forms)]
		c := Case{Kind: kind, Ops: []fsmodel.Op{op}}
		v := Exec(c)
		hx.Record("fuzz", c, v)
		if !v.OK {
			hx.ReportFailure("fuzz", c, v)
			t.Fatalf("VIOLATION clause=%s: %s", v.Clause, v.Detail)
		}
	})
}
