// Package c03: a filespace never reaches outside its root, whatever path it is given.
package c03

import (
	"bytes"
	"fmt"
	"os"
	"path/filepath"
	"strings"
	"time"

	"github.com/goatcms/goatcore/filesystem"
	"github.com/goatcms/goatcore/filesystem/filespace/diskfs"
	"github.com/goatcms/goatcore/filesystem/filespace/encryptfs"
	"github.com/goatcms/goatcore/filesystem/filespace/encryptfs/cipherfs/aesgcm256cfs"
	"github.com/goatcms/goatcore/filesystem/filespace/memfs"
	"github.com/goatcms/goatcore/filesystem/fscache"
	"github.com/goatcms/goatcore/filesystem/fshelper"
	"verif/harness/fsmodel"
	"verif/harness/hx"
)

// Case: one view kind and one or more operations on a fresh fixture.
type Case struct {
	Kind string       `json:"kind"`
	Ops  []fsmodel.Op `json:"ops"`
}

const (
	outMarker  = "OUTSIDE-MARKER-0123456789-outside-of-the-view-root-OUTSIDE-MARKER"
	inMarker   = "INSIDE-marker-abcdefghijklmnopqrstuvwxyz-inside-the-view-INSIDE"
	provMarker = "PROVISIONED-content-copied-by-the-parent-into-the-view-0123456789-PROVISIONED"
)

// MemKinds and DiskKinds are the view kinds under test. The list after the colon is the
// chain of directory names from the parent root to the view root.
var MemKinds = []string{"mem-child", "mem-child2", "subfs-mem", "subfs-subfs-mem", "ro-mem", "ro-child-mem",
	"enc-mem", "enc-child-mem", "cache-mem", "cache-child-mem", "mem-child-of-subfs", "subfs-of-mem-child"}
var DiskKinds = []string{"disk-root", "disk-child", "subfs-disk", "ro-child-disk", "cache-child-disk", "enc-disk-child"}

func chainOf(kind string) []string {
	switch kind {
	case "mem-child", "subfs-mem", "ro-mem", "enc-mem", "cache-mem", "disk-root", "subfs-disk":
		return []string{"v"}
	}
	return []string{"v", "w"}
}

var encSettings = encryptfs.Settings{Secret: []byte("c03-secret"), Salt: []byte("c03-salt"), Cipher: aesgcm256cfs.NewCipher()}

// fixture is a parent filespace P with content outside the view root, and the view.
type fixture struct {
	kind     string
	host     string // disk kinds: temp dir that is P's root
	p        fsmodel.FS
	chain    []string
	view     fsmodel.FS
	cache    *fscache.Cache
	pristine *fsmodel.Node
	enc      bool
}

func (f *fixture) close() {
	if f.host != "" {
		os.RemoveAll(f.host)
	}
}

func newFixture(kind string) (*fixture, error) {
	f := &fixture{kind: kind, chain: chainOf(kind), enc: strings.HasPrefix(kind, "enc-")}
	var err error
	if strings.Contains(kind, "disk") {
		if f.host, err = os.MkdirTemp("", "c03-"); err != nil {
			return nil, err
		}
	}
	if err = f.populate(); err != nil {
		f.close()
		return nil, err
	}
	return f, nil
}

// populate (re)creates P's content and the view object.
func (f *fixture) populate() (err error) {
	if f.host != "" {
		ents, _ := os.ReadDir(f.host)
		for _, e := range ents {
			os.RemoveAll(filepath.Join(f.host, e.Name()))
		}
		if f.p, err = diskfs.NewFilespace(f.host); err != nil {
			return err
		}
	} else if f.p, err = memfs.NewFilespace(); err != nil {
		return err
	}
	w := f.p
	if f.enc {
		if w, err = encryptfs.NewEncryptFS(f.p, encSettings); err != nil {
			return err
		}
	}
	dir := ""
	for _, seg := range f.chain {
		if err = w.WriteFile(dir+"out/out", []byte(outMarker), 0644); err != nil {
			return err
		}
		// a sibling whose name extends the name of the next directory on the chain ("v" next to "vx"):
		// a containment test without a separator boundary would let it through
		if err = w.WriteFile(dir+seg+"x/out", []byte(outMarker), 0644); err != nil {
			return err
		}
		dir += seg + "/"
	}
	if err = w.WriteFile(dir+"in/in", []byte(inMarker), 0644); err != nil {
		return err
	}
	// provisioned copies: the parent copies a file and a directory from OUTSIDE the view into it;
	// a copy that shares storage with its source (shared byte slice, hard link) would let the view
	// rewrite the parent's original through its own copy
	last := strings.Join(f.chain[:len(f.chain)-1], "/")
	if last != "" {
		last += "/"
	}
	// (their content is not the outside marker: reading one's own copy is no leak)
	if err = w.WriteFile(last+"prov", []byte(provMarker), 0644); err != nil {
		return err
	}
	if err = w.WriteFile(last+"provd/p", []byte(provMarker), 0644); err != nil {
		return err
	}
	if err = f.p.Copy(last+"prov", dir+"in/cp"); err != nil {
		return err
	}
	if err = f.p.CopyDirectory(last+"provd", dir+"in/cpd"); err != nil {
		return err
	}
	var prob string
	if f.pristine, prob = fsmodel.Walk(f.p, false); prob != "" {
		return fmt.Errorf("fixture walk: %s", prob)
	}
	return f.mkView()
}

func (f *fixture) mkView() (err error) {
	p := f.p
	f.cache = nil
	switch f.kind {
	case "mem-child":
		f.view, err = p.Filespace("v")
	case "mem-child2", "disk-child":
		if f.kind == "disk-child" {
			if p, err = diskfs.NewFilespace(filepath.Join(f.host, "v")); err != nil {
				return err
			}
			f.view, err = p.Filespace("w")
		} else {
			f.view, err = sub(p.Filespace("v"))("w")
		}
	case "subfs-mem", "subfs-disk":
		f.view = fshelper.NewSubFS(p, "v")
	case "subfs-subfs-mem":
		f.view, err = fshelper.NewSubFS(p, "v").Filespace("w")
	case "mem-child-of-subfs":
		// a memfs wrapper view taken on top of a SubFS
		f.view, err = memfs.NewFilespaceWrapper(fshelper.NewSubFS(p, "v"), "w")
	case "subfs-of-mem-child":
		var v fsmodel.FS
		if v, err = p.Filespace("v"); err == nil {
			f.view = fshelper.NewSubFS(v, "w")
		}
	case "ro-mem":
		var v fsmodel.FS
		if v, err = p.Filespace("v"); err == nil {
			f.view = fshelper.NewReadonlyFS(v)
		}
	case "ro-child-mem":
		var v fsmodel.FS
		if v, err = p.Filespace("v"); err == nil {
			f.view, err = fshelper.NewReadonlyFS(v).Filespace("w")
		}
	case "ro-child-disk":
		var v fsmodel.FS
		if v, err = diskfs.NewFilespace(filepath.Join(f.host, "v")); err == nil {
			f.view, err = fshelper.NewReadonlyFS(v).Filespace("w")
		}
	case "enc-mem":
		var v fsmodel.FS
		if v, err = p.Filespace("v"); err == nil {
			f.view, err = encryptfs.NewEncryptFS(v, encSettings)
		}
	case "enc-child-mem":
		var v, e fsmodel.FS
		if v, err = p.Filespace("v"); err == nil {
			if e, err = encryptfs.NewEncryptFS(v, encSettings); err == nil {
				f.view, err = e.Filespace("w")
			}
		}
	case "enc-disk-child":
		var v, e fsmodel.FS
		if v, err = diskfs.NewFilespace(filepath.Join(f.host, "v")); err == nil {
			if e, err = encryptfs.NewEncryptFS(v, encSettings); err == nil {
				f.view, err = e.Filespace("w")
			}
		}
	case "cache-mem":
		var v fsmodel.FS
		if v, err = p.Filespace("v"); err == nil {
			if f.cache, err = fscache.NewMemCache(v); err == nil {
				f.view = f.cache
			}
		}
	case "cache-child-mem":
		var v fsmodel.FS
		if v, err = p.Filespace("v"); err == nil {
			if f.cache, err = fscache.NewMemCache(v); err == nil {
				f.view, err = f.cache.Filespace("w")
			}
		}
	case "cache-child-disk":
		var v fsmodel.FS
		if v, err = diskfs.NewFilespace(filepath.Join(f.host, "v")); err == nil {
			if f.cache, err = fscache.NewMemCache(v); err == nil {
				f.view, err = f.cache.Filespace("w")
			}
		}
	case "disk-root":
		f.view, err = diskfs.NewFilespace(filepath.Join(f.host, "v"))
	default:
		err = fmt.Errorf("unknown view kind %q", f.kind)
	}
	if err == nil && f.view == nil {
		err = fmt.Errorf("nil view for %s", f.kind)
	}
	return err
}

func sub(fs fsmodel.FS, e error) func(string) (fsmodel.FS, error) {
	return func(name string) (fsmodel.FS, error) {
		if e != nil {
			return nil, e
		}
		return fs.Filespace(name)
	}
}

// outsideOf returns a copy of tree t with the subtree at chain removed.
func outsideOf(t *fsmodel.Node, chain []string) *fsmodel.Node {
	c := t.Clone()
	par := c.Lookup(chain[:len(chain)-1])
	if par != nil && par.Dir {
		delete(par.Kids, chain[len(chain)-1])
	}
	return c
}

// settle commits a cache and walks P; returns the violation text when the outside changed.
// It re-populates the fixture when anything (inside or outside) changed.
func (f *fixture) settle() string {
	if f.cache != nil {
		func() {
			defer func() { recover() }()
			f.cache.Commit()
		}()
	}
	now, prob := fsmodel.Walk(f.p, false)
	if prob != "" {
		// a phantom, unreadable or very deep node: judge only the part outside the view root
		out, prob2 := fsmodel.WalkSkip(f.p, strings.Join(f.chain, "/"))
		res := ""
		if prob2 != "" {
			res = "parent tree outside the view root can no longer be walked: " + prob2
		} else if d := fsmodel.Diff(outsideOf(f.pristine, f.chain), outsideOf(out, f.chain), ""); d != "" {
			res = "the parent tree outside the view root changed: " + d
		}
		f.populate()
		return res
	}
	res := ""
	if d := fsmodel.Diff(outsideOf(f.pristine, f.chain), outsideOf(now, f.chain), ""); d != "" {
		res = "the parent tree outside the view root changed: " + d
	}
	if res != "" || !now.Equal(f.pristine) || f.cache != nil {
		if err := f.populate(); err != nil {
			return res
		}
	}
	return res
}

var outsideNames = map[string]bool{"out": true, "vx": true, "wx": true}

func lastSeg(p string) string {
	segs := strings.Split(p, "/")
	for i := len(segs) - 1; i >= 0; i-- {
		if segs[i] != "" && segs[i] != "." {
			return segs[i]
		}
	}
	return ""
}

// judge applies the per-call clauses to an observation. strict: the fixture is fresh,
// so the name "out" exists only outside the view.
func judge(op fsmodel.Op, o fsmodel.Obs, strict bool) string {
	if o.Panic != "" {
		return fmt.Sprintf("%s panicked: %s", op, o.Panic)
	}
	if bytes.Contains(o.Data, []byte(outMarker)) {
		return fmt.Sprintf("%s returned the content of a file outside the view root", op)
	}
	if !strict {
		return ""
	}
	for _, e := range o.List {
		if outsideNames[e.Name] {
			return fmt.Sprintf("%s listed %q, a name that exists only outside the view root (listing %v)", op, e.Name, o.List)
		}
	}
	switch op.Op {
	case "IsExist", "IsFile", "IsDir":
		if o.Bool && outsideNames[lastSeg(op.Path)] {
			return fmt.Sprintf("%s = true although that name exists only outside the view root", op)
		}
	case "Lstat":
		if o.Err == nil && outsideNames[o.Name] {
			return fmt.Sprintf("%s returned the FileInfo of %q which exists only outside the view root", op, o.Name)
		}
	}
	return ""
}

var fixtures = map[string]*fixture{}

func getFixture(kind string) (*fixture, error) {
	if f, ok := fixtures[kind]; ok {
		return f, nil
	}
	f, err := newFixture(kind)
	if err != nil {
		return nil, err
	}
	fixtures[kind] = f
	return f, nil
}

// CloseFixtures removes temp dirs (call from TestMain).
func CloseFixtures() {
	for _, f := range fixtures {
		f.close()
	}
	fixtures = map[string]*fixture{}
}

// Exec runs the case on the (reset) fixture of its kind.
func Exec(c Case) hx.Verdict {
	return hx.Guard(func() hx.Verdict { return run(c) })
}

func run(c Case) hx.Verdict {
	f, err := getFixture(c.Kind)
	if err != nil {
		v := hx.Fail("fixture", "cannot build fixture %s: %v", c.Kind, err)
		if strings.Contains(err.Error(), "unknown view kind") {
			v = hx.Pass()
			v.Inconclusive = true
		}
		return v
	}
	strict := len(c.Ops) == 1
	v := hx.Pass()
	v.Label("kind:" + c.Kind)
	b := fsmodel.NewBackend(c.Kind, f.view)
	escaped := false
	fail := func(i int, clause, detail string) hx.Verdict {
		f.populate()
		x := hx.Fail(clause, "[%s] %s", c.Kind, detail)
		x.Step = i
		return x
	}
	for i, op := range c.Ops {
		op.Recv = 0
		_, e1 := fsmodel.Resolve(op.Path)
		e2 := false
		if op.Path2 != "" || op.Op == "Copy" || op.Op == "CopyFile" || op.Op == "CopyDirectory" {
			_, e2 = fsmodel.Resolve(op.Path2)
		}
		if e1 || e2 {
			escaped = true
		}
		if !strict && op.Path2 != "" {
			// a stream copy of a file onto itself blocks inside memfs (reader and writer of the
			// same file); that is outside every listed property and would wedge the run
			r1, _ := fsmodel.Resolve(op.Path)
			r2, _ := fsmodel.Resolve(op.Path2)
			if strings.Join(r1, "/") == strings.Join(r2, "/") {
				v.Count("skipped_self_copy", 1)
				continue
			}
		}
		// a call that does not return (not a C03 matter) must not wedge the whole enumeration:
		// after 20 s the case is inconclusive and the fixture is abandoned
		och := make(chan fsmodel.Obs, 1)
		go func(b *fsmodel.Backend, op fsmodel.Op) { och <- b.Run(op) }(b, op)
		var o fsmodel.Obs
		select {
		case o = <-och:
		case <-time.After(20 * time.Second):
			delete(fixtures, c.Kind)
			v.Inconclusive = true
			v.Label("call-did-not-return")
			hx.Note("a call did not return within 20 s: [%s] %s", c.Kind, op)
			return v
		}
		b.DropKept()
		if d := judge(op, o, strict); d != "" {
			return fail(i, "leak", d)
		}
		if op.Op == "Filespace" && o.View != nil {
			// a view handed out for an escaping path is only harmful when used: probe it
			gb := fsmodel.NewBackend(c.Kind+"/grandchild", o.View)
			for _, pr := range []fsmodel.Op{{Op: "ReadDir", Path: ""}, {Op: "IsExist", Path: "out"}, {Op: "ReadFile", Path: "out"},
				{Op: "ReadFile", Path: "out/out"}, {Op: "Lstat", Path: "out"}, {Op: "WriteFile", Path: "probe", Data: []byte("probe")},
				{Op: "MkdirAll", Path: "probedir"}, {Op: "RemoveAll", Path: "out"}, {Op: "Remove", Path: "probe"}} {
				po := gb.Run(pr)
				gb.DropKept()
				if d := judge(pr, po, strict); d != "" {
					return fail(i, "leak-via-returned-view", fmt.Sprintf("view returned by %s: %s", op, d))
				}
				if bytes.Contains(po.Data, []byte(outMarker)) {
					return fail(i, "leak-via-returned-view", fmt.Sprintf("view returned by %s: %s returned outside content", op, pr))
				}
			}
		}
		if strict || i == len(c.Ops)-1 || f.cache == nil {
			if d := f.settle(); d != "" {
				return fail(i, "outside-changed", fmt.Sprintf("after %s: %s", op, d))
			}
			if strict || f.cache != nil {
				b = fsmodel.NewBackend(c.Kind, f.view)
			}
		}
	}
	if escaped {
		v.NonTrivial = true
		v.Label("escaping")
	} else {
		v.Label("inside-control")
	}
	return v
}

// Forms enumerates the op forms applied to one path: the 13 single-path ops and the
// three copy ops with the path as first, as second and as both arguments.
func Forms(p string) []fsmodel.Op {
	out := []fsmodel.Op{
		{Op: "ReadDir", Path: p}, {Op: "IsExist", Path: p}, {Op: "IsFile", Path: p}, {Op: "IsDir", Path: p},
		{Op: "MkdirAll", Path: p}, {Op: "ReadFile", Path: p}, {Op: "WriteFile", Path: p, Data: []byte("written-by-the-view")},
		{Op: "Filespace", Path: p}, {Op: "Reader", Path: p, Bufs: []int{16}}, {Op: "Writer", Path: p, Chunks: [][]byte{[]byte("streamed-"), []byte("by-the-view")}},
		{Op: "Remove", Path: p}, {Op: "RemoveAll", Path: p}, {Op: "Lstat", Path: p},
	}
	for _, cop := range []string{"Copy", "CopyFile", "CopyDirectory"} {
		src := "in/in"
		if cop == "CopyDirectory" {
			src = "in"
		}
		out = append(out, fsmodel.Op{Op: cop, Path: p, Path2: "new"}, fsmodel.Op{Op: cop, Path: src, Path2: p}, fsmodel.Op{Op: cop, Path: p, Path2: p})
	}
	return out
}

// SibOf returns the name of the sibling directory that extends the view root's own name.
func SibOf(kind string) string {
	c := chainOf(kind)
	return c[len(c)-1] + "x"
}

// PathsSib enumerates all paths of 1..depth segments over the alphabet plus the sibling
// name that contain the sibling name at least once.
func PathsSib(depth int, sib string) []string {
	alpha := []string{"in", "out", ".", "..", "", sib}
	var out []string
	var rec func(prefix []string, d int, has bool)
	rec = func(prefix []string, d int, has bool) {
		if len(prefix) > 0 && has {
			p := strings.Join(prefix, "/")
			out = append(out, p, "/"+p)
		}
		if d == 0 {
			return
		}
		for _, a := range alpha {
			rec(append(append([]string{}, prefix...), a), d-1, has || a == sib)
		}
	}
	rec(nil, depth, false)
	return out
}

// ProvisionedPaths are the copies the parent placed inside the view (see populate).
var ProvisionedPaths = []string{"in/cp", "in/cpd/p", "in/cpd", "/in/./cp"}

// Paths enumerates all paths of 1..depth segments over the alphabet, with and without a leading '/'.
func Paths(depth int) []string {
	alpha := []string{"in", "out", ".", "..", ""}
	var out []string
	var rec func(prefix []string, d int)
	rec = func(prefix []string, d int) {
		if len(prefix) > 0 {
			p := strings.Join(prefix, "/")
			out = append(out, p, "/"+p)
		}
		if d == 0 {
			return
		}
		for _, a := range alpha {
			rec(append(append([]string{}, prefix...), a), d-1)
		}
	}
	rec(nil, depth)
	return out
}

var _ = filesystem.DefaultUnixDirMode
