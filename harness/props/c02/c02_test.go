package c02

import (
	"encoding/json"
	"testing"

	"verif/harness/hx"
)

func TestMain(m *testing.M) { hx.Main(m, "C02") }

func TestProp(t *testing.T) { hx.Check(t, "pair-history", Gen, Exec) }

func TestReplay(t *testing.T) {
	hx.Replay(t, map[string]func(json.RawMessage) (hx.Verdict, error){"pair-history": hx.Exec(Exec), "": hx.Exec(Exec)})
}
