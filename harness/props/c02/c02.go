// Package c02: a disk filespace obeys the same contract as the in-memory one.
package c02

import (
	"bytes"
	"fmt"
	"os"
	"path/filepath"
	"sort"
	"strings"

	"github.com/goatcms/goatcore/filesystem/filespace/diskfs"
	"github.com/goatcms/goatcore/filesystem/filespace/memfs"
	"pgregory.net/rapid"
	"verif/harness/fsmodel"
	"verif/harness/hx"
)

// Case: a history inside the preconditions run in lock-step on two backends, optionally
// followed by one op outside the preconditions.
type Case struct {
	A       string       `json:"a"` // mem | disk | memview | diskview
	B       string       `json:"b"`
	Ops     []fsmodel.Op `json:"ops"`
	Outside *fsmodel.Op  `json:"outside,omitempty"`
}

var kinds = []string{"mem", "disk", "memview", "diskview"}

var pairs = [][2]string{{"mem", "disk"}, {"mem", "disk"}, {"memview", "disk"}, {"mem", "diskview"}, {"memview", "diskview"}, {"disk", "diskview"}, {"mem", "memview"}}

// Gen draws a case.
func Gen(rt *rapid.T) Case {
	max := 25
	if hx.Thorough() {
		max = 60
	}
	p := pairs[hx.Uniform(rt, len(pairs), "pair")]
	c := Case{A: p[0], B: p[1]}
	var final *fsmodel.Model
	c.Ops = fsmodel.GenHistory(rt, fsmodel.GenCfg{MinOps: 1, MaxOps: max, Opt: fsmodel.Options{StrictPre: true}, Views: true,
		OddNames: true, NoisyPaths: true, BigData: true, Hook: func(m *fsmodel.Model, op *fsmodel.Op) bool { final = m; return true }})
	if final != nil && hx.Chance(rt, 35, "outside") {
		c.Outside = genOutside(rt, final)
	}
	return c
}

// genOutside draws an op that violates a precondition in the final model state.
func genOutside(rt *rapid.T, m *fsmodel.Model) *fsmodel.Op {
	var files, dirs []string
	var walk func(n *fsmodel.Node, p string)
	walk = func(n *fsmodel.Node, p string) {
		for _, k := range n.Names() {
			q := k
			if p != "" {
				q = p + "/" + k
			}
			if n.Kids[k].Dir {
				dirs = append(dirs, q)
				walk(n.Kids[k], q)
			} else {
				files = append(files, q)
			}
		}
	}
	walk(m.Root, "")
	pick := func(l []string, lab string) string {
		if len(l) == 0 {
			return "zz"
		}
		return l[hx.Uniform(rt, len(l), lab)]
	}
	missing := func() string {
		base := ""
		if len(dirs) > 0 && rapid.Bool().Draw(rt, "md") {
			base = pick(dirs, "mdd") + "/"
		}
		return base + "zz" + fmt.Sprint(rapid.IntRange(0, 3).Draw(rt, "mz"))
	}
	any := append(append([]string{}, files...), dirs...)
	op := &fsmodel.Op{}
	switch hx.Uniform(rt, 12, "ok") {
	case 0: // copy onto an existing destination (never onto itself: a self-copy can loop on disk)
		op.Op, op.Path, op.Path2 = []string{"Copy", "CopyFile", "CopyDirectory"}[hx.Uniform(rt, 3, "ck")], pick(any, "s"), pick(any, "d")
		if op.Path == op.Path2 {
			op.Op, op.Path = "Remove", missing()
			op.Path2 = ""
		}
	case 1: // missing source
		op.Op, op.Path, op.Path2 = []string{"Copy", "CopyFile", "CopyDirectory"}[hx.Uniform(rt, 3, "ck")], missing(), "new1"
	case 2: // destination parent missing
		op.Op, op.Path, op.Path2 = []string{"Copy", "CopyFile", "CopyDirectory"}[hx.Uniform(rt, 3, "ck")], pick(any, "s"), missing()+"/x/y"
	case 3:
		op.Op, op.Path = "Remove", missing()
	case 4:
		op.Op, op.Path = "RemoveAll", missing()
	case 5: // wrong source kind
		op.Op, op.Path, op.Path2 = "CopyFile", pick(dirs, "s"), "new2"
	case 6:
		op.Op, op.Path, op.Path2 = "CopyDirectory", pick(files, "s"), "new3"
	case 7:
		op.Op, op.Path = "Filespace", pick(files, "s")
	case 8:
		op.Op, op.Path = "Filespace", missing()
	case 9: // write below a file / without parent
		op.Op, op.Path, op.Data = "WriteFile", pick(files, "s")+"/sub", []byte("x")
	case 10:
		op.Op, op.Path, op.Chunks = "Writer", missing()+"/deep/f", [][]byte{[]byte("x")}
	case 11: // copy into itself
		op.Op, op.Path = "CopyDirectory", pick(dirs, "s")
		op.Path2 = op.Path + "/in"
	}
	return op
}

type backend struct {
	kind string
	b    *fsmodel.Backend
	host string // temp dir of a disk backend ("" for mem)
}

const sentinelData = "SENTINEL-outside-the-filespace"

func mk(kind string) (*backend, error) {
	be := &backend{kind: kind}
	var root fsmodel.FS
	var err error
	if strings.HasPrefix(kind, "disk") {
		if be.host, err = os.MkdirTemp("", "c02-"); err != nil {
			return nil, err
		}
		os.WriteFile(filepath.Join(be.host, "sentinel.txt"), []byte(sentinelData), 0644)
		os.MkdirAll(filepath.Join(be.host, "sentineldir"), 0755)
		os.WriteFile(filepath.Join(be.host, "sentineldir", "s2"), []byte(sentinelData), 0644)
		if err = os.MkdirAll(filepath.Join(be.host, "fsroot"), 0755); err != nil {
			return nil, err
		}
		root, err = diskfs.NewFilespace(filepath.Join(be.host, "fsroot"))
	} else {
		root, err = memfs.NewFilespace()
	}
	if err != nil {
		return nil, err
	}
	if strings.HasSuffix(kind, "view") {
		if err = root.MkdirAll("base/dir", 0777); err != nil {
			return nil, err
		}
		root.WriteFile("base/outside.txt", []byte(sentinelData), 0644)
		if root, err = root.Filespace("base/dir"); err != nil {
			return nil, err
		}
	}
	be.b = fsmodel.NewBackend(kind, root)
	return be, nil
}

func (be *backend) cleanup() {
	if be.host != "" {
		os.RemoveAll(be.host)
	}
}

// hostIntact verifies that nothing next to the filespace root changed.
func (be *backend) hostIntact() string {
	if be.host == "" {
		return ""
	}
	ents, err := os.ReadDir(be.host)
	if err != nil {
		return "host dir unreadable: " + err.Error()
	}
	names := []string{}
	for _, e := range ents {
		names = append(names, e.Name())
	}
	sort.Strings(names)
	if strings.Join(names, ",") != "fsroot,sentinel.txt,sentineldir" {
		return fmt.Sprintf("host directory next to the filespace root changed: %v", names)
	}
	if b, _ := os.ReadFile(filepath.Join(be.host, "sentinel.txt")); string(b) != sentinelData {
		return "sentinel file outside the filespace root changed"
	}
	if b, _ := os.ReadFile(filepath.Join(be.host, "sentineldir", "s2")); string(b) != sentinelData {
		return "sentinel file outside the filespace root changed"
	}
	if e2, _ := os.ReadDir(filepath.Join(be.host, "sentineldir")); len(e2) != 1 {
		return "sentinel directory outside the filespace root changed"
	}
	if strings.HasSuffix(be.kind, "view") {
		if b, _ := os.ReadFile(filepath.Join(be.host, "fsroot", "base", "outside.txt")); string(b) != sentinelData {
			return "file next to the view root changed"
		}
		if e2, _ := os.ReadDir(filepath.Join(be.host, "fsroot", "base")); len(e2) != 2 {
			return "directory above the view root changed"
		}
		if e2, _ := os.ReadDir(filepath.Join(be.host, "fsroot")); len(e2) != 1 {
			return "filespace root above the view changed"
		}
	}
	return ""
}

func diffObs(op fsmodel.Op, rootRel bool, a, b fsmodel.Obs) string {
	if (a.Err == nil) != (b.Err == nil) {
		return fmt.Sprintf("%s: error presence differs: %v vs %v", op, errs(a.Err), errs(b.Err))
	}
	if a.Err != nil {
		return ""
	}
	switch op.Op {
	case "IsExist", "IsFile", "IsDir":
		if a.Bool != b.Bool {
			return fmt.Sprintf("%s: %v vs %v", op, a.Bool, b.Bool)
		}
	case "ReadFile", "Reader":
		if !bytes.Equal(a.Data, b.Data) {
			return fmt.Sprintf("%s: %d bytes vs %d bytes", op, len(a.Data), len(b.Data))
		}
	case "ReadDir":
		if fmt.Sprint(a.List) != fmt.Sprint(b.List) {
			return fmt.Sprintf("%s: listing sets differ: %v vs %v", op, a.List, b.List)
		}
	case "Lstat":
		if a.IsDir != b.IsDir || (!a.IsDir && a.Size != b.Size) || (!rootRel && a.Name != b.Name) {
			return fmt.Sprintf("%s: (dir=%v size=%d name=%q) vs (dir=%v size=%d name=%q)", op, a.IsDir, a.Size, a.Name, b.IsDir, b.Size, b.Name)
		}
	}
	return ""
}

func errs(e error) string {
	if e == nil {
		return "nil"
	}
	s := e.Error()
	if i := strings.IndexByte(s, '\n'); i >= 0 {
		s = s[:i]
	}
	if len(s) > 160 {
		s = s[:160]
	}
	return "error(" + s + ")"
}

// Exec runs the case.
func Exec(c Case) hx.Verdict {
	return hx.Guard(func() hx.Verdict { return run(c) })
}

func run(c Case) hx.Verdict {
	A, err := mk(c.A)
	if err != nil {
		v := hx.Pass()
		v.Inconclusive = true
		return v
	}
	defer A.cleanup()
	B, err := mk(c.B)
	if err != nil {
		v := hx.Pass()
		v.Inconclusive = true
		return v
	}
	defer B.cleanup()
	m := fsmodel.NewModel(fsmodel.Options{StrictPre: true})
	v := hx.Pass()
	v.Label("pair:" + c.A + "/" + c.B)
	fail := func(i int, clause, format string, a ...interface{}) hx.Verdict {
		f := hx.Fail(clause, format, a...)
		f.Step = i
		return f
	}
	diskMutated := map[string]bool{}
	readAfter, copyOrRemove := false, false
	for i, op := range c.Ops {
		nviews := len(m.Views)
		e := m.Apply(op)
		if e.Skip {
			v.Count("skipped_ops", 1)
			continue
		}
		oa, ob := A.b.Run(op), B.b.Run(op)
		if oa.Panic != "" {
			return fail(i, "panic", "[%s] %s panicked: %s", c.A, op, oa.Panic)
		}
		if ob.Panic != "" {
			return fail(i, "panic", "[%s] %s panicked: %s", c.B, op, ob.Panic)
		}
		rel, _ := fsmodel.Resolve(op.Path)
		if d := diffObs(op, len(rel) == 0, oa, ob); d != "" {
			return fail(i, "differential-result", "%s vs %s: %s", c.A, c.B, d)
		}
		ta, pa := fsmodel.Walk(A.b.Recvs[0], false)
		tb, pb := fsmodel.Walk(B.b.Recvs[0], false)
		if pa != "" || pb != "" {
			if pa != pb {
				return fail(i, "differential-tree", "after %s: walk problems differ: [%s] %q vs [%s] %q", op, c.A, pa, c.B, pb)
			}
		} else if d := fsmodel.Diff(ta, tb, ""); d != "" {
			return fail(i, "differential-tree", "after %s: %s tree vs %s tree: %s", op, c.A, c.B, d)
		}
		// both agree; if they disagree with the model the rest of the history can no longer be gated
		if fsmodel.Compare(op, e, oa) != "" || (ta != nil && fsmodel.Diff(m.Root, ta, "") != "") {
			v.Count("model_divergence_cases", 1)
			v.Label("model-divergence")
			return v
		}
		if len(m.Views) > nviews && (A.b.Recvs[len(A.b.Recvs)-1] == nil) {
			m.Views[len(m.Views)-1] = nil
		}
		if d := A.b.CheckKept(); d != "" {
			return fail(i, "snapshot", "%s", d)
		}
		if d := B.b.CheckKept(); d != "" {
			return fail(i, "snapshot", "%s", d)
		}
		abs := strings.Join(fsmodel.Join(m.Views[op.Recv], rel), "/")
		if fsmodel.Mutating(op.Op) && oa.Err == nil {
			diskMutated[abs] = true
			if op.Op != "WriteFile" && op.Op != "Writer" && op.Op != "MkdirAll" {
				copyOrRemove = true
			}
		} else if (op.Op == "ReadFile" || op.Op == "Reader" || op.Op == "ReadDir" || op.Op == "Lstat") && diskMutated[abs] {
			readAfter = true
		}
		switch op.Op {
		case "CopyDirectory":
			v.Label("has-CopyDirectory")
		case "Writer":
			v.Label("has-Writer")
		}
		if op.Recv != 0 {
			v.Label("via-child-view")
		}
	}
	if c.Outside != nil && c.Outside.Path2 != "" {
		r1, _ := fsmodel.Resolve(c.Outside.Path)
		r2, _ := fsmodel.Resolve(c.Outside.Path2)
		if strings.Join(r1, "/") == strings.Join(r2, "/") {
			c.Outside = nil
		}
	}
	if c.Outside != nil {
		v.Label("has-outside-precondition-op")
		for _, be := range []*backend{A, B} {
			before, p1 := fsmodel.Walk(be.b.Recvs[0], false)
			o := be.b.Run(*c.Outside)
			if o.Panic != "" {
				return fail(len(c.Ops), "outside-panic", "[%s] %s panicked: %s", be.kind, *c.Outside, o.Panic)
			}
			after, p2 := fsmodel.Walk(be.b.Recvs[0], false)
			if p1 != "" || p2 != "" {
				if p2 != "" && p1 == "" {
					return fail(len(c.Ops), "outside-tree", "[%s] after %s: %s", be.kind, *c.Outside, p2)
				}
				continue
			}
			base := []string{}
			if c.Outside.Recv < len(m.Views) && m.Views[c.Outside.Recv] != nil {
				base = m.Views[c.Outside.Recv]
			}
			addr := [][]string{}
			for _, p := range []string{c.Outside.Path, c.Outside.Path2} {
				if p == "" && c.Outside.Path2 == "" && p != c.Outside.Path {
					continue
				}
				if r, esc := fsmodel.Resolve(p); !esc {
					addr = append(addr, fsmodel.Join(base, r))
				}
			}
			if d := confined(before, after, nil, addr); d != "" {
				return fail(len(c.Ops), "outside-change", "[%s] failing-or-undefined op %s changed something outside the addressed paths: %s", be.kind, *c.Outside, d)
			}
		}
	}
	for _, be := range []*backend{A, B} {
		if d := be.hostIntact(); d != "" {
			return fail(len(c.Ops), "host-containment", "[%s] %s", be.kind, d)
		}
	}
	v.NonTrivial = readAfter && copyOrRemove && (strings.HasPrefix(c.A, "disk") || strings.HasPrefix(c.B, "disk"))
	return v
}

func pre(a, b []string) bool {
	if len(a) > len(b) {
		return false
	}
	for i := range a {
		if a[i] != b[i] {
			return false
		}
	}
	return true
}

// confined reports a changed node that is neither under an addressed path nor a newly
// created parent of one.
func confined(before, after *fsmodel.Node, at []string, addr [][]string) string {
	under, parent := false, false
	for _, a := range addr {
		if pre(a, at) {
			under = true
		}
		if pre(at, a) {
			parent = true
		}
	}
	if under {
		return ""
	}
	switch {
	case before == nil && after == nil:
		return ""
	case before == nil:
		if parent && after.Dir {
			// newly created parent: everything below must again be confined
			for _, k := range after.Names() {
				if d := confined(nil, after.Kids[k], append(append([]string{}, at...), k), addr); d != "" {
					return d
				}
			}
			return ""
		}
		return fmt.Sprintf("/%s appeared", strings.Join(at, "/"))
	case after == nil:
		return fmt.Sprintf("/%s disappeared", strings.Join(at, "/"))
	case before.Dir != after.Dir:
		return fmt.Sprintf("/%s changed kind", strings.Join(at, "/"))
	case !before.Dir:
		if !bytes.Equal(before.Data, after.Data) {
			return fmt.Sprintf("/%s changed content", strings.Join(at, "/"))
		}
		return ""
	}
	names := map[string]bool{}
	for k := range before.Kids {
		names[k] = true
	}
	for k := range after.Kids {
		names[k] = true
	}
	for k := range names {
		if d := confined(before.Kids[k], after.Kids[k], append(append([]string{}, at...), k), addr); d != "" {
			return d
		}
	}
	return ""
}
