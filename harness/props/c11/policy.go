package c11

import (
	"fmt"
	"sync"

	"github.com/goatcms/goatcore/app"
	"github.com/goatcms/goatcore/app/scope"
	"verif/harness/hx"
)

// The statement fixes which EVENTS a Close fires, how often and in which order; it does not
// fix how one event is delivered to the listeners registered for it: whether inherited
// (ancestor) listeners run before or after the scope's own, in which order the listeners of one
// scope run, and whether the listeners behind a failing one still run. The model needs the
// exact delivery to know when a trigger is over, so it is parametrised by that policy and the
// policy is MEASURED once per process on two tiny scope trees of the code under test (no
// generated input involved). A delivery that is none of the recognised combinations (level order x registration order x what follows a failure, or one global
// registration order)
// leaves every case unjudged (inconclusive), never a violation.
type dispatchPolicy struct {
	known bool
	// global: all listeners on the chain (own and inherited) run in the order in which they were
	// registered, whatever scope they were registered on (ownFirst/lifo are then meaningless)
	global   bool
	ownFirst bool // the scope's own listeners run before the inherited ones (nearest ancestor next)
	lifo     bool // within one scope: last registered first
	// after a failing listener: stopAll = nothing else runs; stopLevel = the remaining listeners of
	// that scope are skipped, the next level still runs; runAll = everything runs
	after int
	why   string
}

const (
	stopAll = iota
	stopLevel
	runAll
)

var afterNames = []string{"nothing else runs", "the rest of that scope's listeners is skipped, other levels still run", "all listeners still run"}

var (
	polOnce sync.Once
	pol     dispatchPolicy
)

func policy() dispatchPolicy {
	polOnce.Do(func() {
		pol = calibrate()
		if pol.known {
			hx.Note("listener delivery measured on the code under test: global-registration-order=%v own-first=%v last-registered-first=%v after-a-failing-listener: %s",
				pol.global, pol.ownFirst, pol.lifo, afterNames[pol.after])
		} else {
			hx.Note("listener delivery of the code under test not recognised (%s): every case is left unjudged", pol.why)
		}
	})
	return pol
}

// probeTree builds root > mid > leaf with the given listeners (level, fails) registered for
// before-close in slice order, closes the leaf and returns the ids (slice indices) of the
// listeners that saw before-close of the leaf, in the order they ran.
func probeTree(ls []struct {
	level int
	fail  bool
}, late ...int) (seen []int, err error) {
	defer func() {
		if p := recover(); p != nil {
			err = fmt.Errorf("panic: %v", p)
		}
	}()
	// every scope gets its listeners before its child is created (the measurement must not depend
	// on how listeners registered later reach scopes that already exist: that is the check's job)
	var mu sync.Mutex
	var leaf app.Scope
	levels := make([]app.Scope, 3)
	for lv := 0; lv < 3; lv++ {
		switch lv {
		case 0:
			levels[0] = scope.New(scope.Params{})
		default:
			levels[lv] = scope.NewChild(levels[lv-1], scope.ChildParams{})
		}
		for i, l := range ls {
			if l.level != lv {
				continue
			}
			i, l := i, l
			levels[lv].On(app.BeforeCloseEvent, func(data interface{}) error {
				mu.Lock()
				isLeaf := leaf != nil
				if sc, ok := data.(app.Scope); !ok || !isLeaf || sc != leaf {
					mu.Unlock()
					return nil
				}
				seen = append(seen, i)
				mu.Unlock()
				if l.fail {
					return fmt.Errorf("calibration listener %d refuses", i)
				}
				return nil
			})
		}
	}
	root, mid := levels[0], levels[1]
	// late listeners: registered on a level (that already has listeners) after the whole chain exists;
	// they are numbered len(ls), len(ls)+1, ...
	for k, lv := range late {
		id := len(ls) + k
		levels[lv].On(app.BeforeCloseEvent, func(data interface{}) error {
			mu.Lock()
			defer mu.Unlock()
			if sc, ok := data.(app.Scope); ok && leaf != nil && sc == leaf {
				seen = append(seen, id)
			}
			return nil
		})
	}
	mu.Lock()
	leaf = levels[2]
	mu.Unlock()
	leaf.Close()
	mid.Close()
	root.Close()
	mu.Lock()
	defer mu.Unlock()
	return append([]int(nil), seen...), nil
}

func orderFor(ownFirst, lifo bool, ls []struct {
	level int
	fail  bool
}, after int) []int {
	var out []int
	lv := []int{0, 1, 2}
	if ownFirst {
		lv = []int{2, 1, 0}
	}
	for _, l := range lv {
		var ids []int
		for i, x := range ls {
			if x.level == l {
				ids = append(ids, i)
			}
		}
		if lifo {
			for i, j := 0, len(ids)-1; i < j; i, j = i+1, j-1 {
				ids[i], ids[j] = ids[j], ids[i]
			}
		}
		for _, id := range ids {
			out = append(out, id)
			if ls[id].fail && after == stopAll {
				return out
			}
			if ls[id].fail && after == stopLevel {
				break
			}
		}
	}
	return out
}

func sameInts(a, b []int) bool {
	if len(a) != len(b) {
		return false
	}
	for i := range a {
		if a[i] != b[i] {
			return false
		}
	}
	return true
}

func calibrate() dispatchPolicy {
	type L = struct {
		level int
		fail  bool
	}
	// probe 1: order (no failing listener); two listeners per level, registered interleaved
	p1 := []L{{0, false}, {1, false}, {2, false}, {2, false}, {1, false}, {0, false}}
	got1, err := probeTree(p1)
	if err != nil {
		return dispatchPolicy{why: "order probe: " + err.Error()}
	}
	var p dispatchPolicy
	found := false
	for _, own := range []bool{false, true} {
		for _, lifo := range []bool{false, true} {
			if sameInts(got1, orderFor(own, lifo, p1, runAll)) {
				p.ownFirst, p.lifo, found = own, lifo, true
			}
		}
	}
	if !found {
		return dispatchPolicy{why: fmt.Sprintf("order probe saw listeners %v", got1)}
	}
	// probe 2: what follows a failing listener (one failing listener in the middle of every level)
	p2 := []L{{0, false}, {0, true}, {0, false}, {1, false}, {1, true}, {1, false}, {2, false}, {2, true}, {2, false}}
	got2, err := probeTree(p2)
	if err != nil {
		return dispatchPolicy{why: "failure probe: " + err.Error()}
	}
	found = false
	for _, a := range []int{stopAll, stopLevel, runAll} {
		if sameInts(got2, orderFor(p.ownFirst, p.lifo, p2, a)) {
			p.after, found = a, true
			break
		}
	}
	if !found {
		return dispatchPolicy{why: fmt.Sprintf("failure probe saw listeners %v", got2)}
	}
	// probe 3: listeners registered late on the root and on the middle scope. Level by level they run
	// with their level; in a global registration order they run after everything registered earlier.
	p3 := []L{{0, false}, {1, false}, {2, false}}
	got3, err := probeTree(p3, 0, 1) // ids: 0 root, 1 mid, 2 leaf, 3 late root, 4 late mid
	if err != nil {
		return dispatchPolicy{why: "late-listener probe: " + err.Error()}
	}
	var levelWise []int
	switch {
	case !p.ownFirst && !p.lifo:
		levelWise = []int{0, 3, 1, 4, 2}
	case !p.ownFirst && p.lifo:
		levelWise = []int{3, 0, 4, 1, 2}
	case p.ownFirst && !p.lifo:
		levelWise = []int{2, 1, 4, 0, 3}
	default:
		levelWise = []int{2, 4, 1, 3, 0}
	}
	switch {
	case sameInts(got3, levelWise):
	case !p.ownFirst && !p.lifo && sameInts(got3, []int{0, 1, 2, 3, 4}):
		p.global = true
		if p.after == stopLevel {
			return dispatchPolicy{why: "global registration order with a per-level stop rule"}
		}
	default:
		return dispatchPolicy{why: fmt.Sprintf("late-listener probe saw listeners %v", got3)}
	}
	// the measurement must be repeatable (a randomised delivery is not recognised)
	for i := 0; i < 3; i++ {
		a, e1 := probeTree(p1)
		b, e2 := probeTree(p2)
		if e1 != nil || e2 != nil || !sameInts(a, got1) || !sameInts(b, got2) {
			return dispatchPolicy{why: "delivery order differs between identical runs"}
		}
	}
	p.known = true
	return p
}
