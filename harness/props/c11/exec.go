package c11

import (
	"fmt"
	"runtime"
	"strings"
	"sync"
	"sync/atomic"
	"time"

	"github.com/goatcms/goatcore/app"
	"github.com/goatcms/goatcore/app/gio"
	"github.com/goatcms/goatcore/app/scope"
	"github.com/goatcms/goatcore/app/scope/contextscope"
	"github.com/goatcms/goatcore/filesystem/filespace/memfs"
	"verif/harness/hx"
)

var evIDs = [nEv]int{app.KillEvent, app.StopEvent, app.ErrorEvent, app.BeforeCommitEvent, app.CommitEvent,
	app.AfterCommitEvent, app.BeforeRollbackEvent, app.RollbackEvent, app.AfterRollbackEvent,
	app.BeforeCloseEvent, app.AfterCloseEvent}

// watchdog: how long an operation that the model calls unblocked may take (DESIGN 2.5: >= 20 s
// for work that takes microseconds). Once it has expired in this process a violation is
// established at the full length; rapid generates no new cases after that, it only re-runs
// shrink candidates, and those use a shorter limit so that minimising does not take minutes.
var (
	watchdogFull  = time.Duration(hx.EnvInt("VERIF_C11_WATCHDOG_MS", 20000)) * time.Millisecond
	watchdogAfter = 5 * time.Second
	expired       atomic.Bool
)

func wd() time.Duration {
	if expired.Load() && watchdogAfter < watchdogFull {
		return watchdogAfter
	}
	return watchdogFull
}

// ---------------------------------------------------------------------------------------
// the one sequence-numbered log
// ---------------------------------------------------------------------------------------

const (
	eListener = iota // a listener ran: lid, ev, subj (index of the scope passed as data, -1 if none)
	eTask            // harness marker written just before S.DoneTask(): scope
)

type entry struct {
	kind  int
	lid   int
	ev    int
	subj  int
	scope int
}

type evlog struct {
	mu  sync.Mutex
	e   []entry
	idx map[app.Scope]int
	ch  chan struct{}
}

func newLog() *evlog { return &evlog{idx: map[app.Scope]int{}, ch: make(chan struct{}, 1)} }

func (l *evlog) listener(lid, ev int, data interface{}) {
	l.mu.Lock()
	subj := -1
	if sc, ok := data.(app.Scope); ok {
		if i, ok := l.idx[sc]; ok {
			subj = i
		}
	}
	l.e = append(l.e, entry{kind: eListener, lid: lid, ev: ev, subj: subj})
	l.mu.Unlock()
	select {
	case l.ch <- struct{}{}:
	default:
	}
}

func (l *evlog) marker(s int) {
	l.mu.Lock()
	l.e = append(l.e, entry{kind: eTask, scope: s, subj: -1})
	l.mu.Unlock()
}

func (l *evlog) register(sc app.Scope, i int) {
	l.mu.Lock()
	l.idx[sc] = i
	l.mu.Unlock()
}

func (l *evlog) length() int {
	l.mu.Lock()
	defer l.mu.Unlock()
	return len(l.e)
}

func (l *evlog) snapshot() []entry {
	l.mu.Lock()
	defer l.mu.Unlock()
	return append([]entry(nil), l.e...)
}

// wait until cond holds on the log (checked under the lock) or d elapsed.
func (l *evlog) wait(cond func([]entry) bool, d time.Duration) bool {
	var timer *time.Timer
	for {
		l.mu.Lock()
		ok := cond(l.e)
		l.mu.Unlock()
		if ok {
			if timer != nil {
				timer.Stop()
			}
			return true
		}
		if timer == nil {
			timer = time.NewTimer(d)
		}
		select {
		case <-l.ch:
		case <-timer.C:
			l.mu.Lock()
			ok := cond(l.e)
			l.mu.Unlock()
			return ok
		}
	}
}

// ---------------------------------------------------------------------------------------
// actions run in fresh goroutines
// ---------------------------------------------------------------------------------------

type actRes struct {
	err      error
	panicked bool
	pmsg     string
}

func run(f func() error) chan actRes {
	ch := make(chan actRes, 1)
	go func() {
		var r actRes
		defer func() {
			if p := recover(); p != nil {
				r.panicked = true
				r.pmsg = panicText(p)
			}
			ch <- r
		}()
		r.err = f()
	}()
	return ch
}

// panicText renders a panic value without ids/stacks (violation details must be deterministic).
func panicText(p interface{}) string {
	s := fmt.Sprint(p)
	switch {
	case strings.Contains(s, "is closed at"):
		return "scope is closed (closed-scope guard)"
	case strings.Contains(s, "negative WaitGroup counter"):
		return "sync: negative WaitGroup counter"
	case strings.Contains(s, "nil pointer"):
		return "nil pointer dereference"
	case strings.Contains(s, "close of closed channel"):
		return "close of closed channel"
	case strings.Contains(s, "WaitGroup"):
		return "sync: WaitGroup misuse"
	}
	if i := strings.IndexByte(s, '\n'); i >= 0 {
		s = s[:i]
	}
	if len(s) > 60 {
		s = s[:60]
	}
	return s
}

func waitRes(ch chan actRes, d time.Duration) (actRes, bool) {
	select {
	case r := <-ch:
		return r, true
	default:
	}
	t := time.NewTimer(d)
	defer t.Stop()
	select {
	case r := <-ch:
		return r, true
	case <-t.C:
		return actRes{}, false
	}
}

// ---------------------------------------------------------------------------------------
// executor
// ---------------------------------------------------------------------------------------

type closeRec struct {
	ch       chan actRes
	expected []trig // triggers with subject s verified so far (before-close first)
	nExp     int    // number of listener entries in expected
	waited   bool   // the model called it blocked when it was issued (or after its batch)
	startLen int    // log length when it was issued
	probeUs  int
	// optional: before-close listeners registered on the path of the scope while its Close was
	// pending. Whether the before-close trigger (which may still be walking levels that had no
	// listener when its last expected listener ran) picks them up is not fixed: either.
	optional map[int]bool
}

// nOptional: optional entries present among the close entries of the scope.
func (r *closeRec) nOptional(got []entry) int {
	n := 0
	for _, en := range got {
		if en.ev == evBeforeClose && r.optional[en.lid] {
			n++
		}
	}
	return n
}

type exec struct {
	m      *model
	log    *evlog
	sc     []app.Scope
	ioc    []app.IOContext // parallel to sc when the case goes through gio.IOContext, else nil
	cx     []app.ContextScope
	cl     map[int]*closeRec
	v      hx.Verdict
	labels map[string]bool
	step   int
	inc    string // set: the case cannot be judged
	// returned an error although the model said "no error" when its own events were over:
	// legitimate only if the error arrived by the end of the same step
	lateErr  []int
	sentinel map[int]bool
	// non-trivial rule
	ntWaited, ntRollback, ntIsoErr bool
}

func (x *exec) label(l string) { x.labels[l] = true }

func (x *exec) fail(clause, format string, a ...interface{}) *hx.Verdict {
	v := hx.Fail(clause, format, a...)
	v.Step = x.step
	return &v
}

func (x *exec) mkListener(id, ev int, fail bool) app.EventCallback {
	var e error
	if fail {
		e = fmt.Errorf("listener %d refuses", id)
	}
	return func(data interface{}) error {
		x.log.listener(id, ev, data)
		return e
	}
}

// Exec runs one case against the real scopes.
func Exec(c Case) hx.Verdict {
	hx.PersistCurrent("history", c)
	defer hx.ClearCurrent()
	if !policy().known {
		v := hx.Pass()
		v.Inconclusive = true
		return v
	}
	x := &exec{m: newModel(), log: newLog(), cl: map[int]*closeRec{}, labels: map[string]bool{}, sentinel: map[int]bool{}}
	x.v = hx.Pass()
	// root + its probe listeners (one per event, registered first), as in newModel()
	root := scope.New(scope.Params{})
	x.sc = append(x.sc, root)
	x.cx = append(x.cx, root.BaseContextScope())
	x.log.register(root, 0)
	if c.ViaIO {
		cwd, err := memfs.NewFilespace()
		if err != nil {
			x.v.Inconclusive = true
			return x.v
		}
		io := gio.NewIO(gio.IOParams{In: gio.NewNilInput(), Out: gio.NewNilOutput(), Err: gio.NewNilOutput(), CWD: cwd})
		x.ioc = append(x.ioc, gio.NewIOContext(root, io))
		x.label("via-iocontext")
	}
	for ev := 0; ev < nEv; ev++ {
		for _, l := range x.m.sc[0].ls[ev] {
			root.On(evIDs[ev], x.mkListener(l.id, ev, l.fail))
		}
	}

	var bad *hx.Verdict
	skipped := 0
	for i, op := range c.Ops {
		x.step = i
		if bad = x.preCheck(); bad != nil {
			break
		}
		if !x.m.applicable(op) {
			skipped++
			continue
		}
		if bad = x.do(op); bad != nil || x.inc != "" {
			break
		}
	}
	// epilogue: finish every outstanding task, close every scope (children first)
	if bad == nil && x.inc == "" {
		x.step = len(c.Ops)
		bad = x.epilogue()
	}
	if bad == nil && x.inc == "" {
		bad = x.finalCheck()
	}
	x.release()

	if bad != nil {
		x.v = *bad
	}
	if x.inc != "" && bad == nil {
		x.v.Inconclusive = true
		hx.Note("inconclusive: %s", x.inc)
	}
	for l := range x.labels {
		x.v.Label(l)
	}
	if skipped > 0 {
		x.v.Count("ops-skipped-not-applicable", int64(skipped))
	}
	if len(x.m.sc) >= 4 {
		x.v.Label("scopes>=4")
	}
	if len(c.Ops) >= 15 {
		x.v.Label("ops>=15")
	}
	x.v.NonTrivial = x.ntWaited || x.ntRollback || x.ntIsoErr
	return x.v
}

// preCheck: a Close that the model calls blocked must not have returned (no timing involved:
// returning early is a violation whenever it is noticed).
func (x *exec) preCheck() *hx.Verdict {
	for s := range x.m.sc {
		r := x.cl[s]
		if r == nil || x.m.sc[s].closed || r.ch == nil {
			continue
		}
		select {
		case res := <-r.ch:
			r.ch = nil
			what := "returned"
			if res.panicked {
				what = "panicked (" + res.pmsg + ")"
			}
			return x.fail("waits-for-tasks-and-children", "Close of scope %d %s while %s", s, what, x.blockers(s))
		default:
		}
	}
	return nil
}

func (x *exec) blockers(s int) string {
	var open []int
	for _, k := range x.m.sc[s].kids {
		if !x.m.sc[k].closed {
			open = append(open, k)
		}
	}
	return fmt.Sprintf("%d task(s) are not done and children %v are not closed", x.m.sc[s].tasks, open)
}

func (x *exec) runSimple(f func() error) (actRes, bool) {
	res, ok := waitRes(run(f), wd())
	if !ok {
		x.inc = "a non-Close operation did not return within the watchdog"
	}
	return res, ok
}

func (x *exec) do(op Op) *hx.Verdict {
	m := x.m
	switch op.K {
	case "on":
		id := m.on(op.S, op.Ev, op.Fail)
		cb := x.mkListener(id, op.Ev, op.Fail)
		res, ok := x.runSimple(func() error { x.sc[op.S].On(evIDs[op.Ev], cb); return nil })
		if !ok {
			return nil
		}
		if res.panicked {
			return x.fail("panic", "On(%s) on open scope %d panicked: %s", evNames[op.Ev], op.S, res.pmsg)
		}
		if op.Fail && isCloseEv(op.Ev) {
			x.label("failing-close-listener-registered")
		}
		if op.Ev == evBeforeClose {
			for s2, r := range x.cl {
				if r == nil || m.sc[s2].closed {
					continue
				}
				for _, a := range m.path(s2) {
					if a == op.S {
						if r.optional == nil {
							r.optional = map[int]bool{}
						}
						r.optional[id] = true
						x.label("before-close-listener-registered-while-close-pending(either)")
					}
				}
			}
		}
		return nil
	case "child":
		var ch app.Scope
		var cs app.ContextScope
		var chIO app.IOContext
		res, ok := x.runSimple(func() error {
			p := scope.ChildParams{}
			if op.Iso {
				if op.Bare {
					cs = contextscope.NewIsolated(x.sc[op.S].BaseContextScope())
				} else {
					cs = contextscope.NewIsolated(x.sc[op.S])
				}
				p.ContextScope = cs
			}
			if x.ioc != nil {
				chIO = gio.NewChildIOContext(x.ioc[op.S], gio.ChildIOContextParams{Scope: p})
				ch = chIO.Scope()
			} else {
				ch = scope.NewChild(x.sc[op.S], p)
			}
			return nil
		})
		if !ok {
			return nil
		}
		if res.panicked {
			return x.fail("panic", "NewChild of open, not-done scope %d panicked: %s", op.S, res.pmsg)
		}
		s := m.child(op.S, op.Iso, op.Bare)
		x.sc = append(x.sc, ch)
		if x.ioc != nil {
			x.ioc = append(x.ioc, chIO)
		}
		if op.Iso {
			x.cx = append(x.cx, cs)
			x.label("isolated-child")
			if op.Bare {
				x.label("isolated-from-bare-parent-context")
			}
			if m.sc[op.S].ctx != 0 {
				x.label("isolated-below-isolated")
				if op.Bare {
					x.label("isolated-chain-from-bare-isolated-context")
				}
			}
		} else {
			x.label("shared-child")
		}
		x.log.register(ch, s)
		if m.sc[s].depth == maxDepth {
			x.label("depth-3")
		}
		return x.after(op)
	case "add":
		wasDone := m.cx[m.sc[op.S].ctx].done
		res, ok := x.runSimple(func() error { return x.sc[op.S].AddTasks(op.N) })
		if !ok {
			return nil
		}
		if res.panicked {
			return x.fail("panic", "AddTasks on scope %d panicked: %s", op.S, res.pmsg)
		}
		// either: a registration is counted iff it was accepted
		if res.err == nil {
			m.sc[op.S].tasks += op.N
		}
		if wasDone {
			x.label("addtasks-on-done-scope")
		}
		if m.sc[op.S].issued && res.err == nil {
			x.label("addtasks-while-close-waits")
		}
		return x.after(op)
	case "done":
		m.sc[op.S].tasks--
		res, ok := x.runSimple(func() error {
			x.log.marker(op.S)
			x.sc[op.S].DoneTask()
			return nil
		})
		if !ok {
			return nil
		}
		if res.panicked {
			return x.fail("panic", "DoneTask of a registered task of scope %d panicked: %s", op.S, res.pmsg)
		}
		return x.after(op)
	case "err", "kill", "stop":
		c := m.sc[op.S].ctx
		either := false
		midWithLeaf, midBare := false, false
		if c != 0 && !m.cx[c].done {
			for _, k := range m.cx[c].kids {
				if !m.cx[k].done {
					midWithLeaf = true
					midBare = midBare || m.cx[k].bare
				}
			}
		}
		switch op.K {
		case "err":
			m.failIn(op.S)
		case "kill":
			m.markErr(c)
			if _, failed := m.chain(op.S, evKill); failed {
				m.failIn(op.S)
			}
		case "stop":
			m.markDone(c)
			if _, failed := m.chain(op.S, evStop); failed {
				// an error returned by a stop listener: the statement does not say what it does
				either = true
			}
		}
		e := fmt.Errorf("appended at step %d", x.step)
		res, ok := x.runSimple(func() error {
			switch op.K {
			case "err":
				x.sc[op.S].AppendError(e)
			case "kill":
				x.sc[op.S].Kill()
			case "stop":
				x.sc[op.S].Stop()
			}
			return nil
		})
		if !ok {
			return nil
		}
		if res.panicked {
			state := "Close not issued"
			if m.sc[op.S].issued {
				state = "its Close is waiting for " + x.blockers(op.S)
			}
			return x.fail("panic", "%s on scope %d (%s) panicked: %s", op.K, op.S, state, res.pmsg)
		}
		if m.sc[op.S].issued {
			x.label(op.K + "-while-close-waits")
			x.label("failure-reported-while-close-waits")
		}
		if midWithLeaf {
			x.label("intermediate-isolated-ended-with-live-isolated-leaf")
			x.label(op.K + "-on-intermediate-isolated")
			if midBare {
				x.label("intermediate-isolated-ended-with-live-bare-leaf")
			}
		}
		if either {
			x.label("stop-listener-error(either)")
			if len(x.cx[c].Errors()) > 0 {
				m.cx[c].err = yes
			}
		}
		if op.K != "stop" {
			if c != 0 {
				x.ntIsoErr = true
				x.label("error-in-isolated-context")
			}
			if !m.sc[op.S].iso && m.sc[op.S].parent >= 0 {
				x.label("error-in-shared-child")
			}
		}
		return x.after(op)
	case "close":
		if bad := x.issueClose(op.S, op.ProbeUs, nil); bad != nil {
			return bad
		}
		if bad := x.syncBlocked([]int{op.S}, true); bad != nil || x.inc != "" {
			return bad
		}
		return x.after(op)
	case "close2":
		return x.secondClose(op.S)
	case "batch":
		return x.batch(op)
	}
	return nil
}

// closer: Close of scope s, directly or through its IOContext.
func (x *exec) closer(s int) func() error {
	if x.ioc != nil {
		return x.ioc[s].Close
	}
	return x.sc[s].Close
}

func (x *exec) addSentinel(s int) {
	sid := x.m.on(s, evBeforeClose, false)
	x.sc[s].On(evIDs[evBeforeClose], x.mkListener(sid, evBeforeClose, false))
	x.sentinel[s] = true
}

// issueClose starts Close(s) in a fresh goroutine (released by start if not nil).
func (x *exec) issueClose(s int, probeUs int, start chan struct{}) *hx.Verdict {
	// Sentinel: one more (non-failing) before-close listener, the last of s's own at this
	// moment. A trigger walks the ancestors' lists and then s's own list, which it reads once:
	// when the sentinel (or a failing listener before it) has run, no listener registered
	// later can still be picked up by this trigger. Without it "the expected entries are in the
	// log" does not mean "the trigger is over" (the levels below the last listener may be
	// empty), and a registration issued next could slip into a trigger that is still walking.
	if !x.sentinel[s] {
		x.addSentinel(s)
	}
	bc, errChain := x.m.issueClose(s)
	r := &closeRec{expected: []trig{bc}, nExp: len(bc.ids), probeUs: probeUs, startLen: x.log.length()}
	x.cl[s] = r
	if len(errChain) > 0 {
		x.label("before-close-listener-error")
	}
	closeIt := x.closer(s)
	r.ch = run(func() error {
		if start != nil {
			<-start
		}
		return closeIt()
	})
	r.waited = !x.m.ready(s)
	return nil
}

func subjEntries(e []entry, s int) []entry {
	var r []entry
	for _, en := range e {
		if en.kind == eListener && en.subj == s && isCloseEv(en.ev) {
			r = append(r, en)
		}
	}
	return r
}

// syncBlocked: for every just-issued Close that the model calls blocked, wait until its
// before-close trigger (and the error event of a failing before-close listener) is in the log,
// i.e. until that Close is parked in its wait. before-close does not wait for anything, so
// not seeing it within the watchdog is a violation of "fires before-close, waits ...".
func (x *exec) syncBlocked(ss []int, serial bool) *hx.Verdict {
	for _, s := range ss {
		r := x.cl[s]
		r.waited = !x.m.ready(s)
		if !r.waited {
			continue
		}
		nBC := r.nExp
		ok := x.log.wait(func(e []entry) bool {
			n := 0
			for _, en := range e {
				if en.kind == eListener && en.subj == s && isCloseEv(en.ev) {
					n++
				}
			}
			return n >= nBC
		}, wd())
		if !ok {
			expired.Store(true)
			got := subjEntries(x.log.snapshot(), s)
			return x.fail("before-close-first", "Close of scope %d (blocked by %s): before-close listeners not run while it waits: saw %s, want %s",
				s, x.blockers(s), fmtEntries(got), fmtTrigs(r.expected))
		}
		if serial {
			// a failing before-close listener: its error is appended (context stops) and the error
			// event fires; wait for that trigger to be over before touching the context again
			if _, failed := x.m.chain(s, evBeforeClose); failed {
				errIDs, _ := x.m.chain(s, evError)
				last := errIDs[len(errIDs)-1]
				if !x.log.wait(func(e []entry) bool {
					for i := len(e) - 1; i >= r.startLen; i-- {
						if e[i].kind == eListener && e[i].ev == evError && e[i].lid == last {
							return true
						}
					}
					return false
				}, 5*time.Second) {
					x.inc = "error event after a failing before-close listener not seen (cannot tell when Close is parked)"
					return nil
				}
			}
		}
	}
	return nil
}

func fmtTrigs(ts []trig) string {
	var b []string
	for _, t := range ts {
		b = append(b, fmt.Sprintf("%s%v", evNames[t.ev], t.ids))
	}
	return strings.Join(b, " ")
}

func fmtEntries(es []entry) string {
	var ts []trig
	for _, e := range es {
		if n := len(ts); n > 0 && ts[n-1].ev == e.ev {
			ts[n-1].ids = append(ts[n-1].ids, e.lid)
		} else {
			ts = append(ts, trig{e.ev, []int{e.lid}})
		}
	}
	if len(ts) == 0 {
		return "(nothing)"
	}
	return fmtTrigs(ts)
}

// after: everything that follows the issuing of an operation: closes the model calls
// unblocked must finish and are judged; isolated contexts follow their parents; blocked
// closes must still be blocked; visible state is compared.
func (x *exec) after(op Op) *hx.Verdict {
	if bad := x.cascade(); bad != nil || x.inc != "" {
		return bad
	}
	if bad := x.settle(); bad != nil {
		return bad
	}
	// schedule nudge + (share of cases) timed probe, then "still blocked"
	probe := 0
	for s, r := range x.cl {
		if r.probeUs > 0 {
			if !x.m.sc[s].closed && r.probeUs > probe {
				probe = r.probeUs
			}
			r.probeUs = 0
		}
	}
	runtime.Gosched()
	if probe > 0 {
		time.Sleep(time.Duration(probe) * time.Microsecond)
		x.label("timed-still-blocked-probe")
	}
	if bad := x.preCheck(); bad != nil {
		return bad
	}
	return x.observe(op)
}

// cascade: judge every pending Close that the model now calls unblocked, children before
// parents; the model follows the observed triple where the statement leaves it open.
func (x *exec) cascade() *hx.Verdict {
	m := x.m
	for {
		s := m.nextReady()
		if s < 0 {
			break
		}
		r := x.cl[s]
		res, ok := waitRes(r.ch, wd())
		r.ch = nil
		if !ok {
			expired.Store(true)
			return x.fail("close-returns-once-unblocked", "Close of scope %d did not return although all its tasks are done and all its children are closed (events so far: %s)",
				s, fmtEntries(subjEntries(x.log.snapshot(), s)))
		}
		if res.panicked {
			return x.fail("panic", "first Close of scope %d panicked: %s", s, res.pmsg)
		}
		all := x.log.snapshot()
		got := subjEntries(all, s)
		c := m.sc[s].ctx
		had := m.errOf(c)
		rollback := had == yes
		if had == maybe {
			x.label("triple-either(orphan-watcher)")
			// model follows the implementation
			for _, en := range got {
				if en.ev != evBeforeClose {
					if en.ev == evBeforeRollback {
						rollback = true
						m.cx[c].err = yes
					}
					break
				}
			}
		}
		post, lerr := m.finishClose(s, rollback)
		r.expected = append(r.expected, post...)
		for _, t := range post {
			r.nExp += len(t.ids)
		}
		if bad := x.compareEvents(s, got, r, had); bad != nil {
			return bad
		}
		// order: the first event of the triple comes after the marker of every task of s and after
		// the last after-close listener of every child of s
		firstTriple := -1
		lastTask, lastKid, lastKidIdx := -1, -1, -1
		for i, en := range all {
			if en.kind == eTask && en.scope == s {
				lastTask = i
			}
			if en.kind != eListener || !isCloseEv(en.ev) {
				continue
			}
			if en.subj == s && en.ev != evBeforeClose && firstTriple < 0 {
				firstTriple = i
			}
			if en.ev == evAfterClose && en.subj >= 0 && en.subj != s && m.sc[en.subj].parent == s {
				lastKid, lastKidIdx = i, en.subj
			}
		}
		if lastTask > firstTriple {
			return x.fail("waits-for-tasks", "scope %d: %s fired before a task of the scope was marked done (log positions %d < %d)",
				s, evNames[post[0].ev], firstTriple, lastTask)
		}
		if lastKid > firstTriple {
			return x.fail("waits-for-children", "scope %d: %s fired before after-close of its child %d",
				s, evNames[post[0].ev], lastKidIdx)
		}
		// return value: error iff the scope holds one at the end
		now := m.errOf(c)
		switch {
		case now == yes && res.err == nil:
			return x.fail("close-reports-error-iff-held", "Close of scope %d returned nil although the scope holds an error (had error before waiting ended: %s, listener error during close: %v)", s, had, lerr)
		case now == no && res.err != nil:
			x.lateErr = append(x.lateErr, s)
		case now == maybe && res.err != nil:
			m.cx[c].err = yes
		}
		if r.waited {
			x.ntWaited = true
			x.label("close-had-to-wait")
		}
		if rollback {
			x.ntRollback = true
			x.label("rollback")
			if lerr {
				x.label("listener-error-during-rollback")
			}
		} else {
			x.label("commit")
			if lerr {
				x.label("listener-error-during-commit")
			}
		}
		if m.sc[s].iso {
			x.label("isolated-child-closed")
		}
	}
	for _, s := range x.lateErr {
		if m.errOf(m.sc[s].ctx) == no {
			return x.fail("close-reports-error-iff-held", "Close of scope %d returned an error although the scope holds none", s)
		}
		x.label("close-return-raced-with-ancestor-close(either)")
	}
	x.lateErr = nil
	return nil
}

func (x *exec) compareEvents(s int, got []entry, r *closeRec, had tri) *hx.Verdict {
	i := 0
	skipOptional := func(ev int) {
		for ev == evBeforeClose && i < len(got) && got[i].ev == ev && r.optional[got[i].lid] {
			i++
		}
	}
	for _, t := range r.expected {
		for _, id := range t.ids {
			skipOptional(t.ev)
			if i >= len(got) || got[i].ev != t.ev || got[i].lid != id {
				return x.fail("close-events", "scope %d (error before the triple: %s): listeners saw %s, protocol gives %s",
					s, had, fmtEntries(got), fmtTrigs(r.expected))
			}
			i++
		}
		skipOptional(t.ev)
	}
	if i != len(got) {
		return x.fail("close-events", "scope %d (error before the triple: %s): extra events: listeners saw %s, protocol gives %s",
			s, had, fmtEntries(got), fmtTrigs(r.expected))
	}
	return nil
}

// settle: isolated contexts whose parent context became done must become done too
// ("still stopped when the parent stops"); whether the watcher also gave them an error is
// read, not judged.
func (x *exec) settle() *hx.Verdict {
	m := x.m
	for c := range m.cx {
		if !m.cx[c].fresh {
			continue
		}
		m.cx[c].fresh = false
		t := time.NewTimer(wd())
		select {
		case <-x.cx[c].Done():
			t.Stop()
		case <-t.C:
			expired.Store(true)
			how := "built from the parent scope"
			if m.cx[c].bare {
				how = "built from the parent's bare context"
			}
			return x.fail("isolated-child-stopped-with-parent", "isolated context %d (%s) is not done although its direct parent context %d (isolated itself: %v) is",
				c, how, m.cx[c].parent, m.cx[c].parent != 0)
		}
		if len(x.cx[c].Errors()) > 0 {
			m.cx[c].err = yes
		} else if m.cx[c].err == yes {
			m.cx[c].err = no
		}
		x.label("parent-stop-reached-isolated-child")
	}
	// an orphan watcher may be about to kill its context: give it room (not a correctness
	// signal; it only keeps the harness' own unsynchronised reads away from that append)
	for c := range m.cx {
		if m.cx[c].err == no && m.errOf(c) == maybe {
			x.label("orphan-watcher(maybe)")
			time.Sleep(200 * time.Microsecond)
			break
		}
	}
	return nil
}

// observe: Err / IsDone of every scope against the model.
func (x *exec) observe(op Op) *hx.Verdict {
	m := x.m
	actx := -1
	if op.K != "batch" && m.has(op.S) {
		actx = m.sc[op.S].ctx
	}
	for s := range m.sc {
		c := m.sc[s].ctx
		hasErr := x.sc[s].Err() != nil
		isDone := x.sc[s].IsDone()
		want := m.errOf(c)
		if want == maybe {
			if hasErr {
				m.cx[c].err = yes
			}
		} else if hasErr != (want == yes) {
			clause := "isolated-child-fails-alone"
			if c == actx {
				clause = "shared-child-fails-parent"
			}
			first := ""
			if es := x.cx[c].Errors(); len(es) > 0 {
				first = fmt.Sprintf(" (first error: %v)", es[0])
			}
			return x.fail(clause, "after %s on scope %d: scope %d (context %d; the operation's context is %d) has error=%v, model says %s%s",
				op.K, op.S, s, c, actx, hasErr, want, first)
		}
		if isDone != m.cx[c].done {
			clause := "isolated-child-fails-alone"
			if c == actx {
				clause = "shared-child-fails-parent"
			} else if isDone == false {
				clause = "isolated-child-stopped-with-parent"
			}
			return x.fail(clause, "after %s on scope %d: scope %d (context %d; the operation's context is %d) IsDone=%v, model says %v",
				op.K, op.S, s, c, actx, isDone, m.cx[c].done)
		}
	}
	return nil
}

// secondClose: a second Close is refused loudly (panics) whether the first has finished or is
// still waiting; that it adds no event is checked by finalCheck.
func (x *exec) secondClose(s int) *hx.Verdict {
	res, ok := waitRes(run(x.closer(s)), wd())
	first := "finished"
	if !x.m.sc[s].closed {
		first = "still waiting"
		x.label("second-close-while-first-waits")
	} else {
		x.label("second-close-after-first-finished")
	}
	if !ok {
		expired.Store(true)
		return x.fail("second-close-refused", "second Close of scope %d (first %s) neither panicked nor returned", s, first)
	}
	if !res.panicked {
		return x.fail("second-close-refused", "second Close of scope %d (first %s) returned (error=%v) instead of panicking", s, first, res.err != nil)
	}
	if bad := x.preCheck(); bad != nil {
		return bad
	}
	return x.checkNoExtra()
}

// checkNoExtra: the close events seen for every scope are exactly the verified ones.
func (x *exec) checkNoExtra() *hx.Verdict {
	all := x.log.snapshot()
	for s := range x.m.sc {
		r := x.cl[s]
		got := subjEntries(all, s)
		want := 0
		if r != nil {
			want = r.nExp + r.nOptional(got)
		}
		if r != nil && !x.m.sc[s].closed && len(got) <= want {
			continue // still waiting; before-close may be under way
		}
		if len(got) != want {
			exp := "(none: Close not issued)"
			if r != nil {
				exp = fmtTrigs(r.expected)
			}
			return x.fail("each-event-once", "scope %d: close events seen %s, protocol gives %s", s, fmtEntries(got), exp)
		}
	}
	return nil
}

func (x *exec) batch(op Op) *hx.Verdict {
	m := x.m
	start := make(chan struct{})
	var plain []chan actRes
	var closes []int
	// all sentinels first: the chains of the batch's closes must be computed on the final listener set
	for _, o := range op.Sub {
		if o.K == "close" {
			x.addSentinel(o.S)
		}
	}
	for _, o := range op.Sub {
		o := o
		switch o.K {
		case "done":
			m.sc[o.S].tasks--
			plain = append(plain, run(func() error {
				<-start
				x.log.marker(o.S)
				x.sc[o.S].DoneTask()
				return nil
			}))
		case "close":
			x.issueClose(o.S, 0, start)
			closes = append(closes, o.S)
		}
	}
	close(start)
	x.label("concurrent-batch")
	for _, ch := range plain {
		res, ok := waitRes(ch, wd())
		if !ok {
			x.inc = "DoneTask did not return within the watchdog"
			return nil
		}
		if res.panicked {
			return x.fail("panic", "DoneTask of a registered task panicked in a batch: %s", res.pmsg)
		}
	}
	if bad := x.syncBlocked(closes, false); bad != nil || x.inc != "" {
		return bad
	}
	return x.after(op)
}

func (x *exec) epilogue() *hx.Verdict {
	m := x.m
	for s := range m.sc {
		for m.sc[s].tasks > 0 {
			if bad := x.preCheck(); bad != nil {
				return bad
			}
			if bad := x.do(Op{K: "done", S: s}); bad != nil || x.inc != "" {
				return bad
			}
		}
	}
	for s := len(m.sc) - 1; s >= 0; s-- {
		if m.sc[s].issued {
			continue
		}
		if bad := x.preCheck(); bad != nil {
			return bad
		}
		if bad := x.do(Op{K: "close", S: s}); bad != nil || x.inc != "" {
			return bad
		}
	}
	return nil
}

func (x *exec) finalCheck() *hx.Verdict {
	for s := range x.m.sc {
		if !x.m.sc[s].closed {
			x.inc = fmt.Sprintf("harness: scope %d not closed after the epilogue", s)
			return nil
		}
	}
	return x.checkNoExtra()
}

// release lets the watcher goroutines of isolated contexts go (not judged).
func (x *exec) release() {
	defer func() { recover() }()
	all := true
	for s := range x.m.sc {
		if !x.m.sc[s].closed {
			all = false
		}
	}
	if !all {
		return // something is still running inside goatcore: do not touch the contexts
	}
	if !x.cx[0].IsDone() {
		x.cx[0].Stop()
	}
	for _, c := range x.cx {
		t := time.NewTimer(2 * time.Second)
		select {
		case <-c.Done():
		case <-t.C:
		}
		t.Stop()
	}
}
