package c11

import (
	"encoding/json"
	"testing"

	"verif/harness/hx"
)

func TestMain(m *testing.M) { hx.Main(m, "C11") }

// TestProp: generated histories on generated scope trees against the protocol model.
func TestProp(t *testing.T) { hx.Check(t, "history", Gen, Exec) }

func TestReplay(t *testing.T) {
	hx.Replay(t, map[string]func(json.RawMessage) (hx.Verdict, error){"history": hx.Exec(Exec), "": hx.Exec(Exec)})
}
