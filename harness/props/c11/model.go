// Package c11 checks property C11 (scope close protocol) of goatcore/app/scope.
//
// model.go: the sequential reference of the protocol. It is used twice: by the generator
// (to draw applicable operations) and by the executor (to predict what the real scopes
// must do). Where the property statement leaves an outcome open the model carries the
// tri-state "maybe" or is told the observed outcome by the executor (model follows the
// implementation, DESIGN 2.5 "either").
package c11

import "sort"

// Event indices used in cases (independent of the numeric values in app/consts.go).
const (
	evKill = iota
	evStop
	evError
	evBeforeCommit
	evCommit
	evAfterCommit
	evBeforeRollback
	evRollback
	evAfterRollback
	evBeforeClose
	evAfterClose
	nEv
)

var evNames = [nEv]string{"kill", "stop", "error", "before-commit", "commit", "after-commit",
	"before-rollback", "rollback", "after-rollback", "before-close", "after-close"}

func isCloseEv(ev int) bool { return ev >= evBeforeCommit && ev <= evAfterClose }

var closeEvs = []int{evBeforeCommit, evCommit, evAfterCommit, evBeforeRollback, evRollback, evAfterRollback, evBeforeClose, evAfterClose}

const (
	maxDepth  = 3
	maxScopes = 9
)

type tri int8

const (
	no tri = iota
	yes
	maybe
)

func (t tri) String() string { return [...]string{"no", "yes", "maybe"}[t] }

type lst struct {
	id   int
	fail bool
}

type mScope struct {
	parent, depth, ctx int
	iso                bool
	kids               []int
	tasks              int  // registered and not yet done
	issued             bool // Close has been issued
	closed             bool // Close has run to its end (after-close fired, signed off at the parent)
	ls                 [nEv][]lst
}

// mCtx is one context object. Scopes created without an own context share their parent's.
type mCtx struct {
	parent int
	kids   []int
	done   bool
	err    tri
	// orphan: this (isolated) context was already done when its parent context became done.
	// Its watcher goroutine may or may not have exited; if it is still there it kills this
	// context whenever it sees errors in the parent. The statement does not fix that.
	orphan bool
	// bare: built from the parent's bare context object (see Op.Bare)
	bare bool
	// fresh: became done through its watcher during the current step; the executor waits
	// for Done and then reads whether the watcher killed or stopped it.
	fresh bool
}

type model struct {
	sc    []mScope
	cx    []mCtx
	nextL int
}

// newModel: one root scope (index 0, context 0) carrying one non-failing probe listener per
// event, registered first. Root listeners run first in every trigger of the tree, so the
// probes see every trigger whatever the generated listeners do.
func newModel() *model {
	m := &model{}
	m.sc = append(m.sc, mScope{parent: -1, ctx: 0})
	m.cx = append(m.cx, mCtx{parent: -1})
	for ev := 0; ev < nEv; ev++ {
		m.on(0, ev, false)
	}
	return m
}

func (m *model) on(s, ev int, fail bool) int {
	id := m.nextL
	m.nextL++
	m.sc[s].ls[ev] = append(m.sc[s].ls[ev], lst{id, fail})
	return id
}

func (m *model) child(p int, iso bool, bare ...bool) int {
	s := len(m.sc)
	c := m.sc[p].ctx
	if iso {
		c = len(m.cx)
		m.cx = append(m.cx, mCtx{parent: m.sc[p].ctx, bare: len(bare) > 0 && bare[0]})
		m.cx[m.sc[p].ctx].kids = append(m.cx[m.sc[p].ctx].kids, c)
	}
	m.sc = append(m.sc, mScope{parent: p, depth: m.sc[p].depth + 1, ctx: c, iso: iso})
	m.sc[p].kids = append(m.sc[p].kids, s)
	return s
}

func (m *model) path(s int) []int {
	var p []int
	for x := s; x >= 0; x = m.sc[x].parent {
		p = append(p, x)
	}
	for i, j := 0, len(p)-1; i < j; i, j = i+1, j-1 {
		p[i], p[j] = p[j], p[i]
	}
	return p
}

// chain: the listeners a trigger of ev on scope s invokes, in order, under the delivery policy
// measured on the code under test (policy.go; today: ancestors first - root-most first -,
// registration order within a scope, ending with the first that fails). failed: a failing
// listener ran.
func (m *model) chain(s, ev int) (ids []int, failed bool) {
	pol := policy()
	if pol.global {
		// every listener on the chain, in registration order (listener ids are handed out in that order)
		var all []lst
		for _, a := range m.path(s) {
			all = append(all, m.sc[a].ls[ev]...)
		}
		sort.Slice(all, func(i, j int) bool { return all[i].id < all[j].id })
		for _, l := range all {
			ids = append(ids, l.id)
			if l.fail {
				failed = true
				if pol.after == stopAll {
					return ids, true
				}
			}
		}
		return ids, failed
	}
	levels := m.path(s)
	if pol.ownFirst {
		for i, j := 0, len(levels)-1; i < j; i, j = i+1, j-1 {
			levels[i], levels[j] = levels[j], levels[i]
		}
	}
	for _, a := range levels {
		ls := m.sc[a].ls[ev]
		for i := range ls {
			l := ls[i]
			if pol.lifo {
				l = ls[len(ls)-1-i]
			}
			ids = append(ids, l.id)
			if l.fail {
				failed = true
				if pol.after == stopAll {
					return ids, true
				}
				if pol.after == stopLevel {
					break
				}
			}
		}
	}
	return ids, failed
}

func (m *model) errOf(c int) tri {
	x := &m.cx[c]
	if x.err == no && x.orphan && x.parent >= 0 && m.errOf(x.parent) != no {
		return maybe
	}
	return x.err
}

// markDone: the context's done channel gets closed now (if it was not).
func (m *model) markDone(c int) {
	if m.cx[c].done {
		return
	}
	m.cx[c].done = true
	for _, k := range m.cx[c].kids {
		if m.cx[k].done {
			m.cx[k].orphan = true
			continue
		}
		// the watcher of k fires: Kill if it sees errors in c, else Stop. Guess for the
		// generator; the executor overwrites it with what it observes.
		m.cx[k].fresh = true
		if m.errOf(c) != no {
			m.cx[k].err = yes
		}
		m.markDone(k)
	}
}

// markErr: an error is appended to the context (which also stops it).
func (m *model) markErr(c int) {
	m.cx[c].err = yes
	m.markDone(c)
}

func (m *model) ready(s int) bool {
	x := &m.sc[s]
	if !x.issued || x.closed || x.tasks > 0 {
		return false
	}
	for _, k := range x.kids {
		if !m.sc[k].closed {
			return false
		}
	}
	return true
}

// nextReady: a scope whose pending Close is unblocked (deepest-first order is implied:
// a parent is never ready before its children are closed).
func (m *model) nextReady() int {
	for s := len(m.sc) - 1; s >= 0; s-- {
		if m.ready(s) {
			return s
		}
	}
	return -1
}

type trig struct {
	ev  int
	ids []int
}

// issueClose: Close(s) starts: it marks the scope and fires before-close. A failing
// listener adds its error to the scope (and fires the error event).
func (m *model) issueClose(s int) (bc trig, errChain []int) {
	m.sc[s].issued = true
	ids, failed := m.chain(s, evBeforeClose)
	bc = trig{evBeforeClose, ids}
	if failed {
		errChain = m.failIn(s)
	}
	return bc, errChain
}

// failIn: a listener error is appended to s: context error + error event on s.
func (m *model) failIn(s int) []int {
	m.markErr(m.sc[s].ctx)
	ids, _ := m.chain(s, evError) // a failing error-listener adds one more error: no change
	return ids
}

// finishClose: the waiting of Close(s) is over. rollback says which triple fires.
func (m *model) finishClose(s int, rollback bool) (post []trig, listenerErr bool) {
	evs := []int{evBeforeCommit, evCommit, evAfterCommit}
	if rollback {
		evs = []int{evBeforeRollback, evRollback, evAfterRollback}
	}
	evs = append(evs, evAfterClose)
	for _, ev := range evs {
		ids, failed := m.chain(s, ev)
		post = append(post, trig{ev, ids})
		if failed {
			listenerErr = true
			m.failIn(s)
		}
	}
	m.sc[s].closed = true
	return post, listenerErr
}

// closeChainsClean: no close-event listener on the path of s fails (whatever the triple).
func (m *model) closeChainsClean(s int) bool {
	for _, ev := range closeEvs {
		if _, failed := m.chain(s, ev); failed {
			return false
		}
	}
	return true
}

// ---------------------------------------------------------------------------------------
// operations
// ---------------------------------------------------------------------------------------

// Op is one action of a case.
//
//	on      register a listener for event Ev on scope S (Fail: it returns an error)
//	child   NewChild of S (Iso: with its own isolated context)
//	add     S.AddTasks(N)
//	done    S.DoneTask()          (only with a registered task outstanding)
//	err     S.AppendError(e)      kill: S.Kill()      stop: S.Stop()
//	close   S.Close(), asynchronously; ProbeUs>0: after issuing, sleep and require that a
//	        Close the model calls blocked has not returned
//	close2  a second S.Close() (first one issued, finished or still blocked)
//	batch   Sub (done / close only) released together from separate goroutines
type Op struct {
	K    string `json:"k"`
	S    int    `json:"s"`
	Ev   int    `json:"ev,omitempty"`
	Fail bool   `json:"fail,omitempty"`
	Iso  bool   `json:"iso,omitempty"`
	// Bare (with Iso): the isolated context is built the way production code below an
	// isolated scope does it, from the parent's BARE context object
	// (contextscope.NewIsolated(parent.BaseContextScope())); otherwise from the parent scope
	// itself (as termc does). Below an isolated parent the bare context is an *Isolated.
	Bare    bool `json:"bare,omitempty"`
	N       int  `json:"n,omitempty"`
	ProbeUs int  `json:"probe_us,omitempty"`
	Sub     []Op `json:"sub,omitempty"`
}

// Case is a history on one scope tree that starts as a single root scope.
type Case struct {
	// ViaIO: scopes are created and closed through gio.IOContext (NewChildIOContext / Close),
	// the way commands and pipelines hold them.
	ViaIO bool `json:"via_io,omitempty"`
	Ops   []Op `json:"ops"`
}

func (m *model) has(s int) bool { return s >= 0 && s < len(m.sc) }

// applicable: the operation lies inside the input domain of the property as this check
// reads it (see REPORT: what is excluded and why).
func (m *model) applicable(op Op) bool {
	if op.K != "batch" && !m.has(op.S) {
		return false
	}
	switch op.K {
	case "on":
		// the event scope of a scope is dropped at the end of Close (a Close that is still
		// waiting has not got there: every unblocked Close is finished before the next step)
		return op.Ev >= 0 && op.Ev < nEv && !m.sc[op.S].closed
	case "child":
		// EXCLUDED (belongs to C12, known hazard): NewChild of a scope that is done or
		// closing/closed — the refused registration unbalances the parent's counter.
		x := &m.sc[op.S]
		return !x.issued && !m.cx[x.ctx].done && x.depth < maxDepth && len(m.sc) < maxScopes
	case "add":
		// also while Close is waiting (a task that starts another task); never once it is over
		return !m.sc[op.S].closed && op.N >= 1 && op.N <= 3
	case "done":
		return m.sc[op.S].tasks > 0
	case "err", "kill", "stop":
		// "in any order": also while Close(S) is waiting for its tasks/children (a task reporting
		// its failure). Once the Close is over the scope refuses them loudly by design; the
		// statement says nothing about that, so it is not generated.
		return !m.sc[op.S].closed
	case "close":
		return !m.sc[op.S].issued && op.ProbeUs >= 0 && op.ProbeUs <= 5000
	case "close2":
		return m.sc[op.S].issued
	case "batch":
		return m.batchOK(op.Sub)
	}
	return false
}

// batchOK: 2..4 done/close sub-operations, applicable one after the other, and such that
// no failing close listener can run during the batch or the closes it unblocks (a failing
// listener appends an error, and concurrent AppendError/Stop belongs to C12).
func (m *model) batchOK(sub []Op) bool {
	if len(sub) < 2 || len(sub) > 4 {
		return false
	}
	tasks := map[int]int{}
	closing := map[int]bool{}
	for _, o := range sub {
		if !m.has(o.S) {
			return false
		}
		switch o.K {
		case "done":
			tasks[o.S]++
			if tasks[o.S] > m.sc[o.S].tasks {
				return false
			}
		case "close":
			if m.sc[o.S].issued || closing[o.S] || o.ProbeUs != 0 {
				return false
			}
			closing[o.S] = true
		default:
			return false
		}
		for _, a := range m.path(o.S) {
			if !m.closeChainsClean(a) {
				return false
			}
		}
	}
	return true
}

// guessCascade runs all unblocked closes in the model (generator side, no observation).
func (m *model) guessCascade() {
	for {
		s := m.nextReady()
		if s < 0 {
			return
		}
		m.finishClose(s, m.errOf(m.sc[s].ctx) != no)
	}
}

// guessSettle: generator side of the executor's settle step.
func (m *model) guessSettle() {
	for c := range m.cx {
		m.cx[c].fresh = false
	}
}

// applyGuess advances the generator's copy of the model over op.
func (m *model) applyGuess(op Op) {
	switch op.K {
	case "on":
		m.on(op.S, op.Ev, op.Fail)
	case "child":
		m.child(op.S, op.Iso, op.Bare)
	case "add":
		if !m.cx[m.sc[op.S].ctx].done {
			m.sc[op.S].tasks += op.N
		}
	case "done":
		m.sc[op.S].tasks--
	case "err":
		m.failIn(op.S)
	case "kill":
		m.markErr(m.sc[op.S].ctx)
		if _, failed := m.chain(op.S, evKill); failed {
			m.failIn(op.S)
		}
	case "stop":
		m.markDone(m.sc[op.S].ctx)
		if _, failed := m.chain(op.S, evStop); failed {
			m.failIn(op.S)
		}
	case "close":
		m.issueClose(op.S)
	case "close2":
	case "batch":
		for _, o := range op.Sub {
			m.applyGuess(o)
		}
		return
	}
	m.guessCascade()
	m.guessSettle()
}

// hasLiveIsoKid: context c has an isolated child context that is not done yet.
func (m *model) hasLiveIsoKid(c int) bool {
	for _, k := range m.cx[c].kids {
		if !m.cx[k].done {
			return true
		}
	}
	return false
}
