package c11

import (
	"pgregory.net/rapid"
	"verif/harness/hx"
)

type kindW struct {
	k string
	w int
}

// Gen draws a history. It keeps a private copy of the model so that (almost) every
// operation is applicable by construction.
func Gen(rt *rapid.T) Case {
	m := newModel()
	// lengths: half of the cases short (rapid's small-biased sizes), half uniform up to 45
	n := 2 + rapid.IntRange(0, 14).Draw(rt, "n")
	if hx.Chance(rt, 70, "long") {
		n = 6 + hx.Uniform(rt, 40, "nlong")
	}
	probeCase := hx.Chance(rt, 25, "probecase")
	var ops []Op
	excl := false
	for len(ops) < n {
		op, ok := genOp(rt, m, probeCase, &excl)
		if !ok {
			break
		}
		ops = append(ops, op)
		m.applyGuess(op)
	}
	if excl {
		// at least once a scope was not offered as NewChild parent only because it was done or
		// closing (the C12 "late child" hazard, excluded here by construction)
		hx.CountExcluded("c11.newChildOfDoneOrClosingScope")
	}
	return Case{Ops: ops, ViaIO: hx.Chance(rt, 25, "via-io")}
}

func scopesWhere(m *model, f func(s int) bool) []int {
	var r []int
	for s := range m.sc {
		if f(s) {
			r = append(r, s)
		}
	}
	return r
}

func genOp(rt *rapid.T, m *model, probeCase bool, excl *bool) (Op, bool) {
	open := scopesWhere(m, func(s int) bool { return !m.sc[s].issued })
	alive := scopesWhere(m, func(s int) bool { return !m.sc[s].closed }) // not issued, or Close still waiting
	parents := scopesWhere(m, func(s int) bool { return m.applicable(Op{K: "child", S: s}) })
	withTasks := scopesWhere(m, func(s int) bool { return m.sc[s].tasks > 0 })
	issued := scopesWhere(m, func(s int) bool { return m.sc[s].issued })
	addable := scopesWhere(m, func(s int) bool { return !m.sc[s].closed && !m.cx[m.sc[s].ctx].done })
	// scopes excluded as NewChild parents only because of the C12 hazard
	if ex := scopesWhere(m, func(s int) bool {
		x := &m.sc[s]
		return (x.issued || m.cx[x.ctx].done) && x.depth < maxDepth && len(m.sc) < maxScopes
	}); len(ex) > 0 {
		*excl = true
	}

	openNonRoot := scopesWhere(m, func(s int) bool { return s != 0 && !m.sc[s].issued })
	var ks []kindW
	if len(alive) > 0 {
		ew := 1 // failures early in a history stop the tree from growing (no NewChild of a done scope)
		if len(m.sc) >= 4 {
			ew = 3
		}
		for c := 1; c < len(m.cx); c++ {
			if !m.cx[c].done && m.hasLiveIsoKid(c) {
				ew = 5 // an isolated chain is standing: end its middle while the leaf is alive
				break
			}
		}
		ks = append(ks, kindW{"on", 14}, kindW{"err", ew}, kindW{"kill", ew}, kindW{"stop", ew})
	}
	if len(open) > 0 {
		cw := 13
		if len(openNonRoot) == 0 {
			cw = 6 // only the root is left: closing it ends most of the history
		}
		ks = append(ks, kindW{"close", cw})
	}
	if len(parents) > 0 {
		w := 16
		if len(m.sc) < 4 {
			w = 36
		}
		ks = append(ks, kindW{"child", w})
	}
	if len(addable) > 0 {
		ks = append(ks, kindW{"add", 10})
	} else if len(alive) > 0 {
		ks = append(ks, kindW{"add", 1}) // refused registration on a done scope: model follows the result
	}
	if len(withTasks) > 0 {
		ks = append(ks, kindW{"done", 13})
	}
	if len(issued) > 0 {
		if len(ks) == 0 {
			// nothing but second closes left: one more, then end the history
			if hx.Chance(rt, 50, "final-close2") {
				return Op{K: "close2", S: issued[hx.Uniform(rt, len(issued), "s")]}, true
			}
			return Op{}, false
		}
		ks = append(ks, kindW{"close2", 3})
	}
	batch, haveBatch := Op{}, false
	if len(withTasks)+len(open) >= 2 {
		ks = append(ks, kindW{"batch", 7})
	}
	if len(ks) == 0 {
		return Op{}, false
	}
	tot := 0
	for _, k := range ks {
		tot += k.w
	}
	r := hx.Uniform(rt, tot, "kind")
	kind := ""
	for _, k := range ks {
		if r < k.w {
			kind = k.k
			break
		}
		r -= k.w
	}
	pick := func(c []int, label string) int { return c[hx.Uniform(rt, len(c), label)] }
	switch kind {
	case "on":
		ev := hx.Uniform(rt, nEv, "ev")
		// a failing listener fails the context of whatever closes below it, after which the tree
		// cannot grow there: fewer of them while the tree is small
		fp := 40
		if len(m.sc) < 4 {
			fp = 12
		}
		return Op{K: "on", S: pick(alive, "s"), Ev: ev, Fail: hx.Chance(rt, fp, "fail")}, true
	case "child":
		// prefer the deepest eligible parent half of the time (depth 3 is otherwise rare)
		p := pick(parents, "s")
		if hx.Chance(rt, 50, "deep") {
			for _, q := range parents {
				if m.sc[q].depth > m.sc[p].depth {
					p = q
				}
			}
		}
		// chains of isolated contexts (isolated child of an isolated child ...): more likely to
		// continue below an isolated parent; 60 % of the isolated contexts are built from the
		// parent's bare context object, the way production code nests them
		ip := 40
		if m.sc[p].ctx != 0 {
			ip = 65
		}
		iso := hx.Chance(rt, ip, "iso")
		return Op{K: "child", S: p, Iso: iso, Bare: iso && hx.Chance(rt, 60, "bare")}, true
	case "add":
		c := addable
		if len(c) == 0 || hx.Chance(rt, 4, "add-on-done") {
			c = alive
		}
		return Op{K: "add", S: pick(c, "s"), N: 1 + hx.Uniform(rt, 2, "n")}, true
	case "done":
		return Op{K: "done", S: pick(withTasks, "s")}, true
	case "err", "kill", "stop":
		// half of the time inside an isolated context when there is one (a failure of the root
		// context ends the growth of everything that shares it)
		// a third of the time on an INTERMEDIATE isolated level: an isolated context that still
		// has a live isolated context below it (the leaf must follow its direct parent)
		mid := scopesWhere(m, func(s int) bool {
			c := m.sc[s].ctx
			return !m.sc[s].closed && c != 0 && !m.cx[c].done && m.hasLiveIsoKid(c)
		})
		if len(mid) > 0 && hx.Chance(rt, 35, "on-mid") {
			return Op{K: kind, S: pick(mid, "s")}, true
		}
		iso := scopesWhere(m, func(s int) bool { return !m.sc[s].closed && m.sc[s].ctx != 0 })
		if len(iso) > 0 && hx.Chance(rt, 50, "in-iso") {
			return Op{K: kind, S: pick(iso, "s")}, true
		}
		return Op{K: kind, S: pick(alive, "s")}, true
	case "close":
		s := pick(open, "s")
		if len(openNonRoot) > 0 && s == 0 && !hx.Chance(rt, 35, "root-early") {
			s = pick(openNonRoot, "s2")
		}
		op := Op{K: "close", S: s}
		if probeCase {
			// would this Close block? (tasks outstanding or a child not closed)
			blocked := m.sc[s].tasks > 0
			for _, k := range m.sc[s].kids {
				if !m.sc[k].closed {
					blocked = true
				}
			}
			if blocked && hx.Chance(rt, 60, "probe") {
				op.ProbeUs = 2000
			}
		}
		return op, true
	case "close2":
		return Op{K: "close2", S: pick(issued, "s")}, true
	case "batch":
		batch, haveBatch = genBatch(rt, m, withTasks, open)
		if haveBatch {
			return batch, true
		}
		// no safe batch here: fall back to a plain operation
		if len(withTasks) > 0 {
			return Op{K: "done", S: pick(withTasks, "s")}, true
		}
		return Op{K: "close", S: pick(open, "s")}, true
	}
	return Op{}, false
}

// genBatch: 2-4 DoneTask / Close operations on scopes whose close chains cannot fail.
func genBatch(rt *rapid.T, m *model, withTasks, open []int) (Op, bool) {
	clean := func(s int) bool {
		for _, a := range m.path(s) {
			if !m.closeChainsClean(a) {
				return false
			}
		}
		return true
	}
	var cand []Op
	for _, s := range withTasks {
		if clean(s) {
			for i := 0; i < m.sc[s].tasks && i < 2; i++ {
				cand = append(cand, Op{K: "done", S: s})
			}
		}
	}
	rootToo := hx.Chance(rt, 25, "batch-root")
	for _, s := range open {
		if clean(s) && (s != 0 || rootToo) {
			cand = append(cand, Op{K: "close", S: s})
		}
	}
	if len(cand) < 2 {
		return Op{}, false
	}
	want := 2 + hx.Uniform(rt, 3, "batchn")
	if want > len(cand) {
		want = len(cand)
	}
	var sub []Op
	for len(sub) < want {
		i := hx.Uniform(rt, len(cand), "b")
		sub = append(sub, cand[i])
		cand = append(cand[:i], cand[i+1:]...)
	}
	op := Op{K: "batch", Sub: sub}
	if !m.applicable(op) {
		return Op{}, false
	}
	return op, true
}
