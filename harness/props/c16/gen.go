package c16

import (
	"pgregory.net/rapid"
	"verif/harness/hx"
)

// often is true with probability pct/100 on HIGH draws, so that shrinking removes structure.
func often(rt *rapid.T, pct int, label string) bool {
	return hx.Uniform(rt, 100, label) >= 100-pct
}

var sleeps = []int{20, 100, 300, 1000, 2500}

type gen struct {
	rt     *rapid.T
	budget int // remaining commands
}

func (g *gen) dur() int {
	switch k := hx.Uniform(g.rt, 10, "dkind"); {
	case k < 4:
		return 0
	case k < 6:
		return -(1 + hx.Uniform(g.rt, 5, "yields"))
	default:
		return sleeps[hx.Uniform(g.rt, len(sleeps), "sleep")]
	}
}

func (g *gen) probe() Cmd {
	g.budget--
	return Cmd{K: "p", D: g.dur()}
}

// script draws n commands; nested constructs only while depth allows.
func (g *gen) script(n, depth int, pRun, pTry int) []Cmd {
	var out []Cmd
	for i := 0; i < n; i++ {
		k := hx.Uniform(g.rt, 100, "cmdkind")
		switch {
		case k >= 100-pTry && depth > 0 && g.budget > 4:
			out = append(out, g.try(depth-1))
		case k >= 100-pTry-pRun && depth > 0 && g.budget > 2:
			g.budget--
			r := Cmd{K: "run", Q: often(g.rt, 30, "quoted"),
				Body: g.script(1+hx.Uniform(g.rt, 3, "runlen"), depth-1, pRun/2, pTry/2)}
			if often(g.rt, 15, "ctlsandbox") {
				r.SB = "ctl"
			}
			out = append(out, r)
		default:
			out = append(out, g.probe())
		}
	}
	return out
}

// leaves collects pointers to the probes whose failure fails the context the script runs in
// (probes inside nested try bodies are contained and therefore not collected; the handlers of
// nested try blocks run in this context and are collected).
func leaves(cmds []Cmd, out *[]*Cmd) {
	for i := range cmds {
		c := &cmds[i]
		switch c.K {
		case "p":
			*out = append(*out, c)
		case "run":
			*out = append(*out, c) // the task itself can fail at sandbox set-up
			leaves(c.Body, out)
		case "try":
			leaves(c.Succ, out)
			leaves(c.Fail, out)
			leaves(c.Fin, out)
		}
	}
}

// injectFailure makes the command at position pos of the script fail the script's context:
// a probe fails itself, a nested task fails at one of its commands, a nested try block fails
// in one of its handlers (or is preceded by nothing: when it has no handler the next probe
// of the script fails instead).
func (g *gen) injectFailure(cmds []Cmd, pos int) {
	for ; pos < len(cmds); pos++ {
		var ls []*Cmd
		leaves(cmds[pos:pos+1], &ls)
		if len(ls) == 0 {
			continue
		}
		l := ls[hx.Uniform(g.rt, len(ls), "failleaf")]
		switch {
		case l.K == "run":
			l.SB = []string{"broken", "container"}[hx.Uniform(g.rt, 2, "sbkind")]
		case often(g.rt, 12, "probe2brokentask"):
			// the failing command becomes a nested task that fails while its sandbox is set up
			*l = Cmd{K: "run", SB: []string{"broken", "container"}[hx.Uniform(g.rt, 2, "sbkind")], Q: often(g.rt, 50, "quoted"),
				Body: []Cmd{{K: "p", D: l.D}}}
		default:
			l.F = true
			// how the command fails: it returns an error (default), gives up explicitly (stops its
			// scope, then returns the error), or fails WITHOUT returning an error: it kills its scope
			// (also after stopping it) or appends an error to it
			switch k := hx.Uniform(g.rt, 100, "failkind"); {
			case k < 50:
			case k < 65:
				l.S = true
			case k < 77:
				l.FK = "stop-kill"
			case k < 90:
				l.FK = "kill"
			default:
				l.FK = "append"
			}
		}
		return
	}
}

func (g *gen) try(depth int) Cmd {
	g.budget--
	t := Cmd{K: "try", Q: often(g.rt, 30, "quoted")}
	t.Body = g.script(1+hx.Uniform(g.rt, 4, "bodylen"), depth, 25, 12)
	if often(g.rt, 55, "bodyfails") {
		g.injectFailure(t.Body, hx.Uniform(g.rt, len(t.Body), "failpos"))
	}
	for sec := secSucc; sec <= secFin; sec++ {
		if !often(g.rt, 65, "defined") {
			continue
		}
		h := g.script(1+hx.Uniform(g.rt, 3, "hlen"), depth, 12, 8)
		if often(g.rt, 18, "handlerfails") {
			g.injectFailure(h, hx.Uniform(g.rt, len(h), "hfailpos"))
			if sec != secFin && often(g.rt, 60, "patient") {
				// the failing command of a success/fail handler waits for the finally handler to begin
				// before it fails (only direct commands of the handler; W is ignored when the try block
				// has no finally handler)
				for i := range h {
					if h[i].K == "p" && h[i].F {
						h[i].W = true
					}
				}
			}
		}
		switch sec {
		case secSucc:
			t.Succ = h
		case secFail:
			t.Fail = h
		case secFin:
			t.Fin = h
		}
	}
	return t
}

// Gen draws a case: optional leading probes, one to three try blocks at the top level with
// optional probes between and after them.
func Gen(rt *rapid.T) Case {
	c := Case{
		Ctx:   []string{"shared", "own", "isolated", "fresh"}[hx.Uniform(rt, 4, "ctx")],
		Procs: []int{1, 2, 4, 8}[hx.Uniform(rt, 4, "procs")],
		Loud:  often(rt, 25, "loud"),
	}
	g := &gen{rt: rt, budget: 22}
	if hx.Thorough() {
		g.budget = 36
	}
	depth := 1
	if often(rt, 35, "deep") {
		depth = 2
	}
	for i, n := 0, hx.Uniform(rt, 3, "pre"); i < n; i++ {
		c.Script = append(c.Script, g.probe())
	}
	ntry := 1
	if often(rt, 25, "twotries") {
		ntry = 2 + hx.Uniform(rt, 2, "threetries")
	}
	for i := 0; i < ntry; i++ {
		c.Script = append(c.Script, g.try(depth))
		for j, n := 0, hx.Uniform(rt, 2, "post"); j < n; j++ {
			p := g.probe()
			p.F = often(rt, 10, "postfails")
			c.Script = append(c.Script, p)
		}
	}
	return c
}

func pr(d int, f bool) Cmd { return Cmd{K: "p", D: d, F: f} }

// EnumBodies lists the body shapes of the exhaustive grid.
func EnumBodies() [][]Cmd {
	return [][]Cmd{
		{pr(0, false)},
		{pr(100, false), pr(0, false)},
		{pr(0, true)},
		{pr(20, false), pr(100, true), pr(0, false)},
		{pr(0, false), {K: "run", Body: []Cmd{pr(300, false), pr(0, false)}}},
		{{K: "run", Body: []Cmd{pr(20, false), pr(100, true)}}, pr(0, false)},
		{pr(0, false), {K: "run", Body: []Cmd{{K: "run", Q: true, Body: []Cmd{pr(300, true)}}}}},
		{{K: "try", Body: []Cmd{pr(0, true)}, Fail: []Cmd{pr(100, false)}}, pr(0, false)},
		{{K: "try", Body: []Cmd{pr(0, false)}, Succ: []Cmd{pr(20, true)}}, pr(0, false)},
		{pr(1000, false), {K: "run", Body: []Cmd{pr(2500, false)}}},
		{pr(0, false), {K: "run", SB: "broken", Body: []Cmd{pr(0, false)}}, pr(0, false)},
		{{K: "run", SB: "container", Q: true, Body: []Cmd{pr(0, false)}}, pr(0, false)},
		{pr(0, false), {K: "run", SB: "ctl", Body: []Cmd{pr(100, false), {K: "run", SB: "broken", Body: []Cmd{pr(0, false)}}}}},
		{{K: "run", SB: "ctl", Body: []Cmd{pr(100, false), pr(0, false)}}, pr(0, false)},
	}
}

// EnumCase builds one grid point.
func EnumCase(subset, body, failing int, ctx string, quoted bool) Case {
	t := Cmd{K: "try", Q: quoted, Body: EnumBodies()[body]}
	h := func(sec int) []Cmd {
		if subset&(1<<(sec-1)) == 0 {
			return nil
		}
		if failing == sec {
			if quoted {
				return []Cmd{pr(0, true)}
			}
			return []Cmd{pr(100, false), pr(0, true), pr(0, false)}
		}
		if sec == secFin {
			return []Cmd{pr(300, false)}
		}
		return []Cmd{pr(0, false), pr(100, false)}
	}
	t.Succ, t.Fail, t.Fin = h(secSucc), h(secFail), h(secFin)
	return Case{Script: []Cmd{pr(0, false), t, pr(0, false)}, Ctx: ctx, Procs: 4}
}
