// Package c16: pip:try runs exactly the matching handler and contains the body's failure.
//
// A generated terminal script (probe commands, nested pip:run tasks, pip:try blocks with any
// subset of success/fail/finally handlers, probes that fail, generated probe durations) is
// run through the real terminal service of a bootstrapped MockupApp on a child scope of the
// application scope. Probe commands write begin/end events with sequence numbers into one
// log; the oracle is a set of validity predicates over that log and the final error state of
// the surrounding scope (see judge).
package c16

import (
	"errors"
	"fmt"
	"os"
	"runtime"
	"strconv"
	"strings"
	"sync"
	"sync/atomic"
	"time"

	"github.com/goatcms/goatcore/app"
	"github.com/goatcms/goatcore/app/bootstrap"
	"github.com/goatcms/goatcore/app/gio"
	"github.com/goatcms/goatcore/app/goatapp"
	"github.com/goatcms/goatcore/app/modules/commonm"
	"github.com/goatcms/goatcore/app/modules/ocm"
	"github.com/goatcms/goatcore/app/modules/ocm/ocservices"
	"github.com/goatcms/goatcore/app/modules/ocm/ocservices/dcmd"
	"github.com/goatcms/goatcore/app/modules/pipelinem"
	"github.com/goatcms/goatcore/app/modules/pipelinem/pipservices"
	"github.com/goatcms/goatcore/app/modules/terminalm"
	"github.com/goatcms/goatcore/app/modules/terminalm/termservices"
	"github.com/goatcms/goatcore/app/scope"
	"github.com/goatcms/goatcore/app/scope/contextscope"
	"github.com/goatcms/goatcore/app/terminal"
	"verif/harness/hx"
)

// Cmd is one command of a generated script.
type Cmd struct {
	K    string `json:"k"`              // "p" probe | "run" nested pip:run | "try" pip:try
	D    int    `json:"d,omitempty"`    // probe: >0 sleep that many microseconds, <0 that many Gosched calls
	F    bool   `json:"f,omitempty"`    // probe: returns an error (after its end event)
	S    bool   `json:"s,omitempty"`    // failing probe: calls Stop() on its scope before it returns the error (a command that gives up)
	FK   string `json:"fk,omitempty"`   // failing probe that returns nil: "kill" = Kill() its scope, "stop-kill" = Stop() then Kill(), "append" = AppendError
	W    bool   `json:"w,omitempty"`    // failing probe of a success/fail handler: before it fails it waits (at most 10 s, or until its scope is done) until the finally handler of the same try block has begun
	Body []Cmd  `json:"body,omitempty"` // run / try: the body script
	Succ []Cmd  `json:"succ,omitempty"` // try: success handler (defined iff non-empty)
	Fail []Cmd  `json:"fail,omitempty"` // try: fail handler
	Fin  []Cmd  `json:"fin,omitempty"`  // try: finally handler
	SB   string `json:"sb,omitempty"`   // run: "" self sandbox | "ctl" harness sandbox that runs the body through the terminal (control) | "broken" harness sandbox whose Run returns an error without touching the scope | "container" container:<image> (the real command line engine refuses the in-memory working directory before it executes anything)
	Q    bool   `json:"q,omitempty"`    // run / try: single-probe sections are spelled "quoted" instead of as here-documents
}

// Case is one script and the environment it runs in.
type Case struct {
	Script []Cmd  `json:"script"`
	Ctx    string `json:"ctx"`   // surrounding scope: "shared" (child sharing the app context) | "own" (child with a fresh context) | "isolated" (child with an isolated context of the app context) | "fresh" (a scope of the caller's own, no child of the application scope)
	Procs  int    `json:"procs"` // GOMAXPROCS
	Loud   bool   `json:"loud"`  // --silent=false: task output is really written
}

const (
	secBody = 0
	secSucc = 1
	secFail = 2
	secFin  = 3
)

var secName = [4]string{"body", "success", "fail", "finally"}

// ---------------------------------------------------------------------------------------
// static index of a case

type ancRef struct{ try, sec int }

type probeInfo struct {
	id    int
	ctx   int
	fail  bool
	stop  bool // failing probe stops its scope before returning the error
	fk    string
	setup bool // pseudo probe: a nested task whose sandbox fails at set-up
	wfin  int  // >= 0: patient failing probe; index of the try whose finally handler it waits for before it fails
	d     int
	anc   []ancRef // enclosing (try, section) pairs, outermost first
}

type tryInfo struct {
	id        int // node id (also in its name t<id>)
	ctxOut    int // context the pip:try command runs in (= context of its handlers)
	ctxBody   int // the fresh context of its body
	def       [4]bool
	bodyCmds  int  // number of direct body commands
	bodyTask  bool // body contains a nested pip:run
	bodyTry   bool // body subtree contains a nested pip:try
	depth     int  // number of enclosing tries
	inHandler bool // located (at any depth) inside a handler section of another try
}

type index struct {
	probes    map[int]*probeInfo
	probeIDs  []int
	tries     []*tryInfo
	ctxParent []int // ctxParent[c] = enclosing context, -1 for the surrounding scope's context 0
	script    string
	nodes     int
	sbKind    map[int]string
	ctl       bool
}

func term(id int) string {
	return "EOF" + string(rune('A'+(id/676)%26)) + string(rune('A'+(id/26)%26)) + string(rune('A'+id%26))
}

type builder struct {
	ix   *index
	next int
	loud bool
}

func (b *builder) newID() int { b.next++; return b.next }

// section renders one script argument (--body= etc.).
func (b *builder) section(sb *strings.Builder, cmds []Cmd, ctx int, anc []ancRef, ownerID int, sec int, quoted bool, indent string) {
	if quoted && len(cmds) == 1 && cmds[0].K == "p" {
		var inner strings.Builder
		b.script(&inner, cmds, ctx, anc, "")
		sb.WriteString("\"" + strings.TrimSpace(inner.String()) + "\"")
		return
	}
	t := term(ownerID*4 + sec)
	sb.WriteString("<<" + t + "\n")
	b.script(sb, cmds, ctx, anc, indent+"  ")
	sb.WriteString(t)
}

func (b *builder) script(sb *strings.Builder, cmds []Cmd, ctx int, anc []ancRef, indent string) {
	silent := "true"
	if b.loud {
		silent = "false"
	}
	for _, c := range cmds {
		id := b.newID()
		switch c.K {
		case "p":
			pi := &probeInfo{id: id, ctx: ctx, fail: c.F, stop: c.F && c.S, fk: c.FK, d: c.D, anc: append([]ancRef(nil), anc...), wfin: -1}
			if c.F && c.W && len(anc) > 0 {
				if a := anc[len(anc)-1]; a.sec == secSucc || a.sec == secFail {
					pi.wfin = a.try // whether that try defines a finally handler is known once it is rendered completely
				}
			}
			b.ix.probes[id] = pi
			b.ix.probeIDs = append(b.ix.probeIDs, id)
			fmt.Fprintf(sb, "%sp --id=%d\n", indent, id)
		case "run":
			sandbox := ""
			switch c.SB {
			case "ctl":
				sandbox = fmt.Sprintf(" --sandbox=c16ctl:%d", id)
			case "broken":
				sandbox = fmt.Sprintf(" --sandbox=c16broken:%d", id)
			case "container":
				sandbox = fmt.Sprintf(" --sandbox=container:c16img%d", id)
			}
			if c.SB == "ctl" {
				b.ix.ctl = true
			}
			if c.SB == "broken" || c.SB == "container" {
				b.ix.sbKind[id] = c.SB
				// the task fails while its sandbox is set up: modelled as a failing command of the
				// enclosing context whose begin/end events are written by the harness sandbox / engine
				b.ix.probes[id] = &probeInfo{id: id, ctx: ctx, fail: true, setup: true, anc: append([]ancRef(nil), anc...), wfin: -1}
				b.ix.probeIDs = append(b.ix.probeIDs, id)
			}
			fmt.Fprintf(sb, "%spip:run --name=r%d --silent=%s%s --body=", indent, id, silent, sandbox)
			b.section(sb, c.Body, ctx, anc, id, secBody, c.Q, indent)
			sb.WriteString("\n")
		case "try":
			ti := &tryInfo{id: id, ctxOut: ctx, ctxBody: len(b.ix.ctxParent), bodyCmds: len(c.Body), depth: 0}
			for _, a := range anc {
				if a.sec != secBody {
					ti.inHandler = true
				}
			}
			ti.depth = len(anc)
			b.ix.ctxParent = append(b.ix.ctxParent, ctx)
			b.ix.tries = append(b.ix.tries, ti)
			tidx := len(b.ix.tries) - 1
			ti.def[secBody] = true
			for _, bc := range c.Body {
				if bc.K == "run" {
					ti.bodyTask = true
				}
			}
			ti.bodyTry = hasTry(c.Body)
			fmt.Fprintf(sb, "%spip:try --name=t%d --silent=%s --body=", indent, id, silent)
			b.section(sb, c.Body, ti.ctxBody, append(append([]ancRef(nil), anc...), ancRef{tidx, secBody}), id, secBody, c.Q, indent)
			for sec, h := range [][]Cmd{nil, c.Succ, c.Fail, c.Fin} {
				if sec == secBody || len(h) == 0 {
					continue
				}
				ti.def[sec] = true
				fmt.Fprintf(sb, " --%s=", secName[sec])
				b.section(sb, h, ctx, append(append([]ancRef(nil), anc...), ancRef{tidx, sec}), id, sec, c.Q, indent)
			}
			sb.WriteString("\n")
		}
	}
}

func hasTry(cmds []Cmd) bool {
	for _, c := range cmds {
		if c.K == "try" || hasTry(c.Body) || hasTry(c.Succ) || hasTry(c.Fail) || hasTry(c.Fin) {
			return true
		}
	}
	return false
}

func buildIndex(c Case) *index {
	ix := &index{probes: map[int]*probeInfo{}, ctxParent: []int{-1}, sbKind: map[int]string{}}
	b := &builder{ix: ix, loud: c.Loud}
	var sb strings.Builder
	b.script(&sb, c.Script, 0, nil, "")
	ix.script = sb.String()
	ix.nodes = b.next
	return ix
}

// wellFormed rejects case files that the renderer cannot express (replay of hand-edited files).
func wellFormed(cmds []Cmd, depth int) bool {
	if depth > 6 {
		return false
	}
	for _, c := range cmds {
		switch c.K {
		case "p":
			if len(c.Body)+len(c.Succ)+len(c.Fail)+len(c.Fin) != 0 || c.D > 50000 || c.D < -1000 {
				return false
			}
		case "run":
			if len(c.Body) == 0 || len(c.Succ)+len(c.Fail)+len(c.Fin) != 0 || !wellFormed(c.Body, depth+1) {
				return false
			}
			if c.SB != "" && c.SB != "ctl" && c.SB != "broken" && c.SB != "container" {
				return false
			}
		case "try":
			if len(c.Body) == 0 || !wellFormed(c.Body, depth+1) || !wellFormed(c.Succ, depth+1) || !wellFormed(c.Fail, depth+1) || !wellFormed(c.Fin, depth+1) {
				return false
			}
		default:
			return false
		}
	}
	return true
}

// ---------------------------------------------------------------------------------------
// event log

type event struct {
	id    int
	begin bool
}

type recorder struct {
	mu     sync.Mutex
	events []event
	bad    int // probe invocations with an unknown id
	ranSB  int // failing sandboxes that did not fail (the container engine really started something)
}

func (r *recorder) add(id int, begin bool) {
	r.mu.Lock()
	r.events = append(r.events, event{id, begin})
	r.mu.Unlock()
}

// sectionBegan: some probe of section sec of try t has begun.
func (r *recorder) sectionBegan(ix *index, t, sec int) bool {
	r.mu.Lock()
	defer r.mu.Unlock()
	for _, e := range r.events {
		if !e.begin {
			continue
		}
		if p := ix.probes[e.id]; p != nil {
			for _, a := range p.anc {
				if a.try == t && a.sec == sec {
					return true
				}
			}
		}
	}
	return false
}

func (r *recorder) snapshot() []event {
	r.mu.Lock()
	defer r.mu.Unlock()
	return append([]event(nil), r.events...)
}

var errProbe = errors.New("probe failure")

// ---------------------------------------------------------------------------------------
// execution

type lockedBuf struct {
	mu sync.Mutex
	b  []byte
}

func (l *lockedBuf) Write(p []byte) (int, error) {
	l.mu.Lock()
	if len(l.b) < 1<<16 {
		l.b = append(l.b, p...)
	}
	l.mu.Unlock()
	return len(p), nil
}

func (l *lockedBuf) String() string {
	l.mu.Lock()
	defer l.mu.Unlock()
	return string(l.b)
}

// harness sandboxes -------------------------------------------------------------------

type sbBuilder struct {
	prefix string
	build  func(id int) pipservices.Sandbox
}

func (b sbBuilder) Is(name string) bool { return strings.HasPrefix(name, b.prefix) }
func (b sbBuilder) Build(name string) (pipservices.Sandbox, error) {
	id, err := strconv.Atoi(name[len(b.prefix):])
	if err != nil {
		return nil, err
	}
	return b.build(id), nil
}

type sbFunc func(ctx app.IOContext) error

func (f sbFunc) Run(ctx app.IOContext) error { return f(ctx) }

// recEngine records the begin/end of a container run and delegates to the real command line engine.
type recEngine struct {
	inner ocservices.Engine
	rec   *recorder
}

func (e recEngine) Run(c ocservices.Container) error {
	id, _ := strconv.Atoi(strings.TrimPrefix(c.Image, "c16img"))
	e.rec.add(id, true)
	err := e.inner.Run(c)
	if err == nil {
		e.rec.mu.Lock()
		e.rec.ranSB++
		e.rec.mu.Unlock()
	}
	e.rec.add(id, false)
	return err
}

func installSandboxes(mapp *goatapp.MockupApp, term termservices.Terminal, rec *recorder) error {
	var deps struct {
		Sandboxes pipservices.SandboxesManager `dependency:"PipSandboxesManager"`
		OCManager ocservices.Manager           `dependency:"OCManager"`
	}
	if err := mapp.DependencyProvider().InjectTo(&deps); err != nil {
		return err
	}
	// control: behaves like the self sandbox
	deps.Sandboxes.Add(sbBuilder{"c16ctl:", func(id int) pipservices.Sandbox {
		return sbFunc(func(ctx app.IOContext) error { return term.RunLoop(ctx, "") })
	}})
	// fails while it is set up: the error is returned to the runner, the scope is not touched
	deps.Sandboxes.Add(sbBuilder{"c16broken:", func(id int) pipservices.Sandbox {
		return sbFunc(func(ctx app.IOContext) error {
			rec.add(id, true)
			rec.add(id, false)
			return errSetup
		})
	}})
	deps.OCManager.SetDefaultEngine(recEngine{inner: dcmd.NewEngine("docker"), rec: rec})
	return nil
}

var errSetup = errors.New("sandbox can not be set up")

func newApp() (mapp *goatapp.MockupApp, term termservices.Terminal, err error) {
	if mapp, err = goatapp.NewMockupApp(goatapp.Params{Name: "c16", Arguments: []string{"c16"}}); err != nil {
		return nil, nil, err
	}
	bs := bootstrap.NewBootstrap(mapp)
	for _, m := range []app.Module{terminalm.NewModule(), commonm.NewModule(), ocm.NewModule(), pipelinem.NewModule()} {
		if err = bs.Register(m); err != nil {
			return nil, nil, err
		}
	}
	if err = bs.Init(); err != nil {
		return nil, nil, err
	}
	var deps struct {
		Terminal termservices.Terminal `dependency:"TerminalService"`
	}
	if err = mapp.DependencyProvider().InjectTo(&deps); err != nil {
		return nil, nil, err
	}
	return mapp, deps.Terminal, nil
}

var execMu sync.Mutex

// HungCases counts cases abandoned by the watchdog in this process.
var HungCases int64

func watchdog() time.Duration {
	if ms := hx.EnvInt("C16_WATCHDOG_MS", 0); ms > 0 {
		return time.Duration(ms) * time.Millisecond
	}
	return 20 * time.Second
}

// Exec runs one case.
func Exec(c Case) hx.Verdict {
	execMu.Lock()
	defer execMu.Unlock()
	hx.PersistCurrent("try", c)
	defer hx.ClearCurrent()
	return hx.Guard(func() hx.Verdict { return run(c) })
}

func inconclusive(label string) hx.Verdict {
	v := hx.Pass()
	v.Inconclusive = true
	v.Label(label)
	return v
}

type outcome struct {
	stage    int32 // 1 RunLoop returned, 2 Wait returned, 3 Close returned
	scopeErr bool
	appErr   bool
}

func run(c Case) hx.Verdict {
	if !wellFormed(c.Script, 0) || (c.Ctx != "shared" && c.Ctx != "own" && c.Ctx != "isolated" && c.Ctx != "fresh") {
		return inconclusive("malformed-case")
	}
	if atomic.LoadInt64(&HungCases) > 8 {
		// too many abandoned goroutine trees in this process: stop judging
		return inconclusive("too-many-hung-cases")
	}
	if c.Procs > 0 {
		old := runtime.GOMAXPROCS(c.Procs)
		defer runtime.GOMAXPROCS(old)
	}
	ix := buildIndex(c)
	mapp, term, err := newApp()
	if err != nil {
		return inconclusive("bootstrap-failed")
	}
	rec := &recorder{}
	if err = installSandboxes(mapp, term, rec); err != nil {
		return inconclusive("bootstrap-failed")
	}
	mapp.Terminal().SetCommand(terminal.NewCommand(terminal.CommandParams{
		Name: "p",
		Help: "harness probe",
		Callback: func(a app.App, ctx app.IOContext) error {
			var deps struct {
				ID string `command:"?id"`
			}
			if err := ctx.Scope().InjectTo(&deps); err != nil {
				return err
			}
			id, _ := strconv.Atoi(deps.ID)
			p := ix.probes[id]
			if p == nil || p.setup {
				rec.mu.Lock()
				rec.bad++
				rec.mu.Unlock()
				return nil
			}
			rec.add(id, true)
			if p.d > 0 {
				time.Sleep(time.Duration(p.d) * time.Microsecond)
			} else {
				for i := 0; i < -p.d; i++ {
					runtime.Gosched()
				}
			}
			ctx.IO().Out().Printf("probe %d\n", id)
			if p.fail && p.wfin >= 0 && ix.tries[p.wfin].def[secFin] {
				// patient failure: let the finally handler of the same try block begin first (it may run
				// beside this handler or after it; if it runs after it, the wait ends by time)
				for t0 := time.Now(); time.Since(t0) < 10*time.Second && !ctx.Scope().IsDone() && !rec.sectionBegan(ix, p.wfin, secFin); {
					time.Sleep(200 * time.Microsecond)
				}
			}
			rec.add(id, false)
			if p.fail {
				switch p.fk {
				case "kill":
					ctx.Scope().Kill()
					return nil
				case "stop-kill":
					ctx.Scope().Stop()
					ctx.Scope().Kill()
					return nil
				case "append":
					ctx.Scope().AppendError(errProbe)
					return nil
				}
				if p.stop {
					ctx.Scope().Stop()
				}
				return errProbe
			}
			return nil
		},
	}))
	appScope := mapp.Scopes().App()
	params := scope.ChildParams{Name: "c16"}
	switch c.Ctx {
	case "own":
		params.ContextScope = contextscope.New()
	case "isolated":
		params.ContextScope = contextscope.NewIsolated(appScope.BaseContextScope())
	}
	var surrounding app.Scope
	if c.Ctx == "fresh" {
		// a caller-owned scope that is no child of the application scope: its data do not show the
		// application's task manager, the first pipeline command creates one for this scope
		surrounding = scope.New(scope.Params{Name: "c16"})
	} else {
		surrounding = scope.NewChild(appScope, params)
	}
	outBuf := &lockedBuf{}
	out := gio.NewOutput(outBuf)
	ioc := gio.NewIOContext(surrounding, gio.NewIO(gio.IOParams{
		In:  gio.NewInput(strings.NewReader(ix.script)),
		Out: out,
		Err: out,
		CWD: mapp.IOContext().IO().CWD(),
	}))
	var (
		oc       outcome
		done     = make(chan struct{})
		panicked = make(chan string, 1)
	)
	go func() {
		defer func() {
			if r := recover(); r != nil {
				panicked <- fmt.Sprintf("%v", r)
			}
		}()
		term.RunLoop(ioc, "")
		atomic.StoreInt32(&oc.stage, 1)
		surrounding.Wait()
		atomic.StoreInt32(&oc.stage, 2)
		oc.scopeErr = surrounding.Err() != nil
		oc.appErr = appScope.Err() != nil
		surrounding.Close()
		atomic.StoreInt32(&oc.stage, 3)
		close(done)
	}()
	complete := false
	t := time.NewTimer(watchdog())
	defer t.Stop()
	select {
	case <-done:
		complete = true
		if c.Ctx == "isolated" {
			// releases the watcher goroutine of the isolated context (the scope is closed already)
			params.ContextScope.Stop()
		}
	case msg := <-panicked:
		return hx.Fail("panic", "panic on the goroutine driving the script: %s", firstLine(msg))
	case <-t.C:
		atomic.AddInt64(&HungCases, 1)
	}
	log := rec.snapshot()
	if os.Getenv("C16_DEBUG") != "" {
		fmt.Printf("---- goroutines=%d\n", runtime.NumGoroutine())
		fmt.Printf("---- script (ctx=%s procs=%d)\n%s---- log %v\n---- complete=%v stage=%d scopeErr=%v appErr=%v\n---- out: %q\n",
			c.Ctx, c.Procs, ix.script, log, complete, atomic.LoadInt32(&oc.stage), oc.scopeErr, oc.appErr, outBuf.String())
	}
	rec.mu.Lock()
	bad, ranSB := rec.bad, rec.ranSB
	rec.mu.Unlock()
	if bad != 0 {
		return inconclusive("unknown-probe-id")
	}
	if ranSB != 0 {
		return inconclusive("container-engine-did-not-refuse")
	}
	v := judge(c, ix, log, complete, oc)
	if !complete {
		v.Label("watchdog:stage" + strconv.Itoa(int(atomic.LoadInt32(&oc.stage))))
		if v.OK {
			v.Inconclusive = true
		}
	}
	return v
}

func firstLine(s string) string {
	if i := strings.IndexByte(s, '\n'); i >= 0 {
		s = s[:i]
	}
	// scope ids are random: keep the message deterministic
	if i := strings.Index(s, "scope ["); i >= 0 {
		if j := strings.Index(s[i:], "]"); j >= 0 {
			s = s[:i] + "scope [..." + s[i+j:]
		}
	}
	return s
}

// ---------------------------------------------------------------------------------------
// oracle

// judge evaluates the clauses of the statement over the event log.
//
//	order        "handlers start only after the body (including tasks it spawned) has finished":
//	             no event of a handler of try T precedes an event of T's body subtree; a handler
//	             never runs when no body command ran.
//	success-iff  "the success handler runs if and only if the body finished without error"
//	fail-iff     "the fail handler runs if and only if it finished with an error"
//	finally-iff  "the finally handler runs in both cases"
//	scope-clean  "a failing body does not mark the surrounding scope as failed": Err()==nil when
//	             no failing command ran in the surrounding context
//	scope-failed "only a failing handler does": Err()!=nil when one ran there
//
// "The body finished with an error" is read off the log: a failing probe whose context is the
// body's context began (it then returns an error, which the terminal appends to that context).
// The must-run direction of the iff-clauses is evaluated only for handlers that are not
// exempt: a handler is exempt when a failing command outside of it began in the context the
// try runs in or in a context enclosing it (the surrounding context is then stopped and a
// sibling that was submitted later may be refused or cut short; DESIGN C16 "Not asserted").
func judge(c Case, ix *index, log []event, complete bool, oc outcome) hx.Verdict {
	v := hx.Pass()
	firstBegin := map[int]int{}
	endSeq := map[int]int{}
	for i, e := range log {
		if e.begin {
			if _, ok := firstBegin[e.id]; !ok {
				firstBegin[e.id] = i
			}
		} else {
			endSeq[e.id] = i
		}
	}
	began := func(id int) bool { _, ok := firstBegin[id]; return ok }
	ended := func(id int) bool { _, ok := endSeq[id]; return ok }

	nctx := len(ix.ctxParent)
	ctxFailedBegan := make([]bool, nctx) // a failing probe of that context began
	ctxFailedEnded := make([]bool, nctx)
	for _, id := range ix.probeIDs {
		p := ix.probes[id]
		if p.fail && began(id) {
			ctxFailedBegan[p.ctx] = true
			if ended(id) {
				ctxFailedEnded[p.ctx] = true
			}
		}
	}
	inSection := func(p *probeInfo, t, sec int) bool {
		for _, a := range p.anc {
			if a.try == t && a.sec == sec {
				return true
			}
		}
		return false
	}
	onChain := func(ctx, from int) bool { // ctx is `from` or encloses it
		for x := from; x >= 0; x = ix.ctxParent[x] {
			if x == ctx {
				return true
			}
		}
		return false
	}

	nonTrivial := false
	anyHandlerFailed := false
	for ti, t := range ix.tries {
		var (
			ran        [4]bool
			all        [4]bool // every probe of the section ended
			bodyMax    = -1
			handlerMin = -1
		)
		for s := range all {
			all[s] = true
		}
		for _, id := range ix.probeIDs {
			p := ix.probes[id]
			for sec := 0; sec < 4; sec++ {
				if !inSection(p, ti, sec) {
					continue
				}
				if !ended(id) {
					all[sec] = false
				}
				if !began(id) {
					continue
				}
				ran[sec] = true
				last := firstBegin[id]
				if ended(id) {
					last = endSeq[id]
				}
				if sec == secBody {
					if last > bodyMax {
						bodyMax = last
					}
				} else if handlerMin < 0 || firstBegin[id] < handlerMin {
					handlerMin = firstBegin[id]
				}
				if sec != secBody && p.fail && p.ctx == t.ctxOut {
					anyHandlerFailed = true
				}
			}
		}
		name := fmt.Sprintf("try t%d", t.id)
		// order
		if handlerMin >= 0 && !ran[secBody] {
			return hx.Fail("order", "%s: a handler ran although no command of the body ran", name)
		}
		if handlerMin >= 0 && handlerMin < bodyMax {
			return hx.Fail("order", "%s: a handler started before the body (including the tasks it spawned) had finished", name)
		}
		bodyFailed := ctxFailedBegan[t.ctxBody]
		// never the wrong handler
		if ran[secSucc] && bodyFailed {
			return hx.Fail("success-iff", "%s: the success handler ran although the body finished with an error", name)
		}
		if ran[secFail] && !bodyFailed {
			return hx.Fail("fail-iff", "%s: the fail handler ran although the body finished without error", name)
		}
		if !ran[secBody] {
			continue
		}
		// must-run direction
		var bodyFinished bool
		if complete {
			bodyFinished = true
		} else if !t.bodyTry {
			// watchdog: only bodies without nested try blocks are judged, from the log alone
			bodyFinished = (!bodyFailed && all[secBody]) || ctxFailedEnded[t.ctxBody]
		}
		if t.def[secSucc] || t.def[secFail] || t.def[secFin] {
			if t.bodyCmds >= 2 || t.bodyTask || t.bodyTry {
				nonTrivial = true
			}
		}
		if !bodyFinished {
			continue
		}
		for sec := secSucc; sec <= secFin; sec++ {
			if !t.def[sec] || ran[sec] {
				continue
			}
			if sec == secSucc && bodyFailed || sec == secFail && !bodyFailed {
				continue
			}
			exempt, patient := false, false
			for _, id := range ix.probeIDs {
				p := ix.probes[id]
				if p.fail && began(id) && onChain(p.ctx, t.ctxOut) && !inSection(p, ti, sec) {
					if sec == secFin && p.wfin == ti {
						// a patient failure in the matching handler: it failed only after the finally handler
						// had begun, or after it had waited 10 s for it with nothing failed around it - the
						// finally handler then still has to run ("runs in both cases", "handlers that themselves fail")
						patient = true
						continue
					}
					exempt = true
					break
				}
			}
			if exempt {
				v.Label("exempt:skipped-after-sibling-failure")
				continue
			}
			if patient {
				clause := secName[sec] + "-iff"
				return hx.Fail(clause, "%s: the matching handler failed, but only after it had waited for the finally handler to begin (10 s at most, nothing else had failed in the surrounding context); the finally handler never ran", name)
			}
			how := "finished without error"
			if bodyFailed {
				how = "finished with an error"
			}
			clause := secName[sec] + "-iff"
			if !complete {
				return hx.Fail(clause, "%s: the body %s but the %s handler had not run when the watchdog fired", name, how, secName[sec])
			}
			return hx.Fail(clause, "%s: the body %s but the %s handler did not run", name, how, secName[sec])
		}
		// labels of the try blocks that were entered
		if t.depth == 0 {
			switch {
			case !bodyFailed && t.bodyTask:
				v.Label("body:ok-with-task")
			case !bodyFailed:
				v.Label("body:ok")
			default:
				if t.bodyTask {
					v.Label("body:fail-with-task")
				} else {
					v.Label("body:fail")
				}
			}
			hs := ""
			for sec := secSucc; sec <= secFin; sec++ {
				if t.def[sec] {
					hs += string(secName[sec][0:2])
				}
			}
			if hs == "" {
				hs = "none"
			}
			v.Label("handlers:" + hs)
			if (bodyFailed && !t.def[secFail]) || (!bodyFailed && !t.def[secSucc]) {
				v.Label("matching-handler-undefined")
			}
		} else if t.inHandler {
			v.Label("nested-try:in-handler")
		} else {
			v.Label("nested-try:in-body")
		}
	}
	// surrounding scope
	if complete {
		if oc.scopeErr && !ctxFailedBegan[0] {
			return hx.Fail("scope-clean", "the surrounding scope reports an error although no handler (and no other command of its own context) failed")
		}
		if !oc.scopeErr && ctxFailedBegan[0] {
			return hx.Fail("scope-failed", "a command failed in the context of the surrounding scope but the scope reports no error")
		}
		switch c.Ctx {
		case "shared":
			if oc.appErr != oc.scopeErr {
				return hx.Fail("scope-clean", "the application scope shares the context of the surrounding scope but disagrees about the error state")
			}
		case "own", "isolated", "fresh":
			if oc.appErr {
				return hx.Fail("scope-clean", "the application scope reports an error although the script ran in a scope with its own (or an isolated) context")
			}
		}
	}
	v.NonTrivial = nonTrivial && complete
	v.Label("ctx:" + c.Ctx)
	if anyHandlerFailed {
		v.Label("handler-failed")
	}
	for _, id := range ix.probeIDs {
		if p := ix.probes[id]; p.wfin >= 0 && ix.tries[p.wfin].def[secFin] && ended(id) {
			v.Label("matching-handler-failed-after-finally-had-begun")
			break
		}
	}
	for _, id := range ix.probeIDs {
		if p := ix.probes[id]; p.stop && began(id) {
			v.Label("failing-command-stopped-its-scope-first")
			break
		}
	}
	for _, id := range ix.probeIDs {
		if p := ix.probes[id]; p.fail && p.fk != "" && began(id) {
			v.Label("failing-command-returned-nil:" + p.fk)
		}
	}
	if ctxFailedBegan[0] {
		v.Label("surrounding-scope-failed")
	} else {
		bf := false
		for _, t := range ix.tries {
			if ctxFailedBegan[t.ctxBody] {
				bf = true
			}
		}
		if bf {
			v.Label("body-failure-contained")
		}
	}
	if c.Loud {
		v.Label("loud")
	}
	sbSeen := map[string]bool{}
	for _, id := range ix.probeIDs {
		p := ix.probes[id]
		if !p.setup || !began(id) {
			continue
		}
		where := "handler"
		if len(p.anc) > 0 && p.anc[len(p.anc)-1].sec == secBody {
			where = "body"
		} else if len(p.anc) == 0 {
			where = "top"
		}
		sbSeen["task-fails-at-sandbox-setup:"+where] = true
		sbSeen["sandbox:"+ix.sbKind[id]] = true
	}
	if ix.ctl {
		sbSeen["sandbox:control"] = true
	}
	for l := range sbSeen {
		v.Label(l)
	}
	return v
}

// Describe renders the script of a case (debugging aid).
func Describe(c Case) string { return buildIndex(c).script }
