package c16

import (
	"encoding/json"
	"fmt"
	"testing"

	"verif/harness/hx"
)

func TestMain(m *testing.M) { hx.Main(m, "C16") }

func TestProp(t *testing.T) { hx.Check(t, "try", Gen, Exec) }

// TestEnum runs the full grid handler subset x body shape x failing handler x context kind
// x spelling once (one top-level try block, fixed small durations).
func TestEnum(t *testing.T) {
	shard, nshards := hx.Shard()
	n := 0
	count := int64(0)
	bodies := EnumBodies()
	for subset := 0; subset < 8; subset++ {
		for bi := range bodies {
			for failing := 0; failing < 4; failing++ { // 0 none, 1..3 the handler of that section fails
				if failing != 0 && subset&(1<<(failing-1)) == 0 {
					continue
				}
				for ci, ctx := range []string{"shared", "own", "isolated", "fresh"} {
					n++
					if n%nshards != shard {
						continue
					}
					c := EnumCase(subset, bi, failing, ctx, (n+ci)%2 == 0)
					count++
					if !hx.One(t, "try", c, Exec) {
						return
					}
				}
			}
		}
	}
	hx.AddExhaustive(hx.Exhaustive{
		What:  fmt.Sprintf("one try block: every subset of {success,fail,finally} x %d body shapes x {no handler fails, each defined handler fails} x 4 context kinds (shard %d of %d)", len(bodies), shard, nshards),
		Bound: "fixed probe durations; each grid point once per run",
		Count: count,
	})
}

func TestReplay(t *testing.T) {
	hx.Replay(t, map[string]func(json.RawMessage) (hx.Verdict, error){"try": hx.Exec(Exec), "": hx.Exec(Exec)})
}
