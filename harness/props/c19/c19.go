// Package c19: template providers (goathtml/ghprovider, goattext/gtprovider) — layered
// definitions, isolated views, cache transparency, concurrent first use.
//
// Two case kinds:
//
//	"files" (Case)     a template file set + a request sequence, run against the four providers
//	                   {html,text} x {cached,uncached}; every returned template is compared with a
//	                   pure model (effective definition map helpers < layout < view).
//	"conc"  (ConcCase) one provider kind/cache mode, G goroutines issuing requests against a fresh
//	                   provider from its first use; executed in a CHILD PROCESS because the failure
//	                   mode (fatal error: concurrent map read and map write) cannot be recovered.
package c19

import (
	"bytes"
	"context"
	"encoding/json"
	"fmt"
	htemplate "html/template"
	"io"
	"os"
	"os/exec"
	"regexp"
	"runtime"
	"runtime/debug"
	"sort"
	"strconv"
	"strings"
	"sync"
	ttemplate "text/template"
	"time"

	"github.com/goatcms/goatcore/filesystem"
	"github.com/goatcms/goatcore/filesystem/filespace/memfs"
	"github.com/goatcms/goatcore/goathtml"
	"github.com/goatcms/goatcore/goathtml/ghprovider"
	"github.com/goatcms/goatcore/goattext"
	"github.com/goatcms/goatcore/goattext/gtprovider"
	"pgregory.net/rapid"
	"verif/harness/hx"
)

// ---------------------------------------------------------------------------------------
// Case types

// Item is one element of a template body: a literal, a {{template "Call"}} or {{up "Fn"}}.
type Item struct {
	Lit  string `json:"lit,omitempty"`
	Call string `json:"call,omitempty"`
	Fn   string `json:"fn,omitempty"`
}

// Block is {{define "Name"}}Body{{end}}.
type Block struct {
	Name string `json:"name"`
	Body []Item `json:"body"`
}

// File is one file of a layer. Layer "h" = helpers, "l" = layout Owner, "v" = view Owner.
type File struct {
	Layer  string  `json:"layer"`
	Owner  string  `json:"owner,omitempty"`
	Dir    string  `json:"dir,omitempty"` // sub directory below the layer directory; "{ext}" is replaced
	Name   string  `json:"name"`
	Ext    string  `json:"ext"`           // "EXT" = the provider's own extension, "OTHER" = the other provider's, else literal
	Top    []Item  `json:"top,omitempty"` // top-level body (root template), non-blank when present
	Blocks []Block `json:"blocks,omitempty"`
	Sep    string  `json:"sep,omitempty"` // white space written after every block
	Pad    int     `json:"pad,omitempty"` // a comment action of this many bytes is written before the blocks (large template files)
	Raw    string  `json:"raw,omitempty"` // literal content (only for files whose extension does not match)
	// Broken marks a MATCHING file that the loader must refuse: "syntax" (unterminated action) or
	// "empty" (zero bytes). Only in the consistency-only kind "loose" and in "conc".
	Broken string `json:"broken,omitempty"`
}

// Req is one request to a provider.
type Req struct {
	Op     string `json:"op"` // view | layout | base
	Layout string `json:"layout,omitempty"`
	View   string `json:"view,omitempty"`
}

// Case is the sequential kind.
type Case struct {
	Files []File `json:"files"`
	Reqs  []Req  `json:"reqs"`
}

// LooseCase is the consistency-only kind: the file set may contain broken matching files and
// several files of ONE layer defining the same name / carrying top-level text. No winner is
// modelled for those; repeated requests, cached and uncached providers and fresh providers over
// the same filespace must agree (per provider kind), and nothing may panic.
type LooseCase struct {
	Files []File `json:"files"`
	Reqs  []Req  `json:"reqs"`
}

// ConcCase is the concurrent kind (executed in a child process).
type ConcCase struct {
	Kind   string  `json:"kind"` // html | text
	Cached bool    `json:"cached"`
	Files  []File  `json:"files"`
	Keys   []Req   `json:"keys"`   // distinct requests
	Plans  [][]int `json:"plans"`  // per goroutine: indices into Keys in issue order
	Rounds int     `json:"rounds"` // fresh providers, one after another
	Procs  int     `json:"procs"`  // GOMAXPROCS of the child
}

// ---------------------------------------------------------------------------------------
// Generators

// defNames is ordered: the body of defNames[i] calls only defNames[j], j>i, so that every
// combination of layers is acyclic.
var defNames = []string{"a", "b", "c", "d", "e", "x y", "ü"}

var layoutPool = []string{"default", "admin", "a", "a:b"}
var viewPool = []string{"home", "about", "c", "b:c", "user/profile", "user/list"}
var dirPool = []string{"", "", "", "", "sub", "sub/deep", "d{ext}", "sub", ".partials", "sub/.hidden"}
var sepPool = []string{"", "", "\n", " \n"}
var otherExt = []string{".txt", "OTHER", "EXT~", "", ".tmpl"}
var htmlBits = []string{"", "", "", "<b>x</b>", "&amp;", "<i>", "</i>"}

func defIndex(n string) int {
	for i, d := range defNames {
		if d == n {
			return i
		}
	}
	return -1
}

func genBody(rt *rapid.T, tag string, self int, lo, hi int) []Item {
	n := lo + hi0(rt, hi-lo+1, "nitems")
	var out []Item
	for i := 0; i < n; i++ {
		switch k := hx.Uniform(rt, 10, "item"); {
		case k < 5 || (i == n-1 && len(out) == 0):
			out = append(out, Item{Lit: tag + strconv.Itoa(hx.Uniform(rt, 10, "lit")) + htmlBits[hx.Uniform(rt, len(htmlBits), "hb")]})
		case k < 9:
			// a call to a later name of the pool (or, rarely, to a name outside it: dangling)
			if self+1 < len(defNames) && !hx.Chance(rt, 4, "dangling") {
				out = append(out, Item{Call: defNames[self+1+hx.Uniform(rt, len(defNames)-self-1, "callee")]})
			} else if hx.Chance(rt, 50, "dangle2") {
				out = append(out, Item{Call: "nowhere"})
			} else {
				out = append(out, Item{Lit: tag + "z"})
			}
		default:
			out = append(out, Item{Fn: strings.ToLower(tag) + strconv.Itoa(hx.Uniform(rt, 10, "fnl"))})
		}
	}
	// a body must not be blank (text/template ignores blank redefinitions; documented)
	blank := true
	for _, it := range out {
		if it.Lit != "" || it.Fn != "" || it.Call != "" {
			blank = false
		}
	}
	if blank {
		out = append(out, Item{Lit: tag})
	}
	return out
}

// hi0 draws a small non-negative int < n with rapid's small-value bias (sizes).
func hi0(rt *rapid.T, n int, label string) int {
	if n <= 1 {
		return 0
	}
	return rapid.IntRange(0, n-1).Draw(rt, label)
}

// genLayer draws the files of one layer instance.
func genLayer(rt *rapid.T, layer, owner, tag string, defPct, topPct, maxFiles int, noise bool) []File {
	var names []string
	for _, n := range defNames {
		if hx.Chance(rt, defPct, "def?") {
			names = append(names, n)
		}
	}
	top := hx.Chance(rt, topPct, "top?")
	nfiles := 1 + hx.Uniform(rt, maxFiles, "nfiles")
	files := make([]File, nfiles)
	for i := range files {
		files[i] = File{Layer: layer, Owner: owner, Dir: dirPool[hx.Uniform(rt, len(dirPool), "dir")], Name: "f" + strconv.Itoa(i), Ext: "EXT",
			Sep: sepPool[hx.Uniform(rt, len(sepPool), "sep")]}
	}
	for _, n := range names {
		f := &files[hx.Uniform(rt, nfiles, "file-of-def")]
		f.Blocks = append(f.Blocks, Block{Name: n, Body: genBody(rt, tag, defIndex(n), 1, 3)})
	}
	if top {
		f := &files[hx.Uniform(rt, nfiles, "file-of-top")]
		f.Top = genBody(rt, tag+"T", -1, 1, 3)
		// the root body must contain something that is not white space
		f.Top = append([]Item{{Lit: "[" + tag + "]"}}, f.Top...)
	}
	var out []File
	for _, f := range files {
		if len(f.Blocks) == 0 && len(f.Top) == 0 {
			continue // an empty template file is refused by the loader on purpose: not generated
		}
		if len(f.Blocks) > 0 && hx.Chance(rt, 3, "bigfile") {
			// a large template file: the definitions start beyond 64 KiB / 128 KiB or straddle the boundary
			f.Pad = []int{65536 - 40 + hx.Uniform(rt, 60, "padlo"), 70000, 131072 - 40 + hx.Uniform(rt, 60, "padhi")}[hx.Uniform(rt, 3, "padkind")]
		}
		out = append(out, f)
	}
	if noise && hx.Chance(rt, 30, "noise?") {
		n := 1 + hx.Uniform(rt, 2, "nnoise")
		for i := 0; i < n; i++ {
			f := File{Layer: layer, Owner: owner, Dir: dirPool[hx.Uniform(rt, len(dirPool), "ndir")], Name: "n" + strconv.Itoa(i),
				Ext: otherExt[hx.Uniform(rt, len(otherExt), "next")]}
			if hx.Chance(rt, 50, "garbage") {
				f.Raw = `{{define "a"}}unterminated {{`
			} else {
				nm := defNames[hx.Uniform(rt, len(defNames), "ndef")]
				f.Blocks = []Block{{Name: nm, Body: []Item{{Lit: "WRONG-EXT"}}}, {Name: "noise", Body: []Item{{Lit: "WRONG-EXT"}}}}
			}
			out = append(out, f)
		}
	}
	return out
}

func subset(rt *rapid.T, pool []string, min, max int, label string) []string {
	n := min + hx.Uniform(rt, max-min+1, label+"-n")
	idx := make([]int, len(pool))
	for i := range idx {
		idx[i] = i
	}
	var out []string
	for i := 0; i < n && len(idx) > 0; i++ {
		k := hx.Uniform(rt, len(idx), label)
		out = append(out, pool[idx[k]])
		idx = append(idx[:k], idx[k+1:]...)
	}
	return out
}

func has(l []string, s string) bool {
	for _, x := range l {
		if x == s {
			return true
		}
	}
	return false
}

// Generator classes that can be switched off through $VERIF_EXCLUDE (used while a finding of
// that cause class is open; none is at present).
const (
	exColon    = "c19.colonKeyPair"         // two (layout, view) pairs with equal layout+":"+view
	exAncestor = "c19.layoutOrBaseRequests" // Layout()/Base() results requested (and rendered) by the caller
)

// Gen draws a sequential case.
func Gen(rt *rapid.T) Case {
	var c Case
	lpool := layoutPool
	if hx.Excluded(exColon) {
		lpool = layoutPool[:3] // without "a:b": no two pairs can concatenate to the same key
	}
	layouts := subset(rt, lpool, 1, 3, "layouts")
	views := subset(rt, viewPool, 1, 5, "views")
	collide := hx.Chance(rt, 8, "collide")
	if collide && hx.Excluded(exColon) {
		hx.CountExcluded(exColon)
		collide = false
	}
	if collide {
		// two (layout, view) pairs whose concatenation with ':' is the same string
		for _, l := range []string{"a", "a:b"} {
			if !has(layouts, l) {
				layouts = append(layouts, l)
			}
		}
		for _, v := range []string{"b:c", "c"} {
			if !has(views, v) {
				views = append(views, v)
			}
		}
	}
	if hx.Chance(rt, 85, "helpers?") {
		c.Files = append(c.Files, genLayer(rt, "h", "", "H", 40, 15, 3, true)...)
	}
	for i, l := range layouts {
		c.Files = append(c.Files, genLayer(rt, "l", l, "L"+strconv.Itoa(i), 40, 40, 3, true)...)
	}
	for i, v := range views {
		c.Files = append(c.Files, genLayer(rt, "v", v, "V"+strconv.Itoa(i), 45, 15, 3, true)...)
	}
	nreq := 2 + hx.Uniform(rt, 7, "nreq")
	pickLayout := func() string {
		switch k := hx.Uniform(rt, 100, "lk"); {
		case k < 10:
			return ""
		case k < 20:
			return lpool[hx.Uniform(rt, len(lpool), "lany")]
		}
		return layouts[hx.Uniform(rt, len(layouts), "lp")]
	}
	pickView := func() string {
		if hx.Chance(rt, 12, "vany") {
			return viewPool[hx.Uniform(rt, len(viewPool), "vanyp")]
		}
		return views[hx.Uniform(rt, len(views), "vp")]
	}
	for i := 0; i < nreq; i++ {
		switch k := hx.Uniform(rt, 100, "op"); {
		case k < 78:
			c.Reqs = append(c.Reqs, Req{Op: "view", Layout: pickLayout(), View: pickView()})
		case hx.Excluded(exAncestor):
			hx.CountExcluded(exAncestor)
			c.Reqs = append(c.Reqs, Req{Op: "view", Layout: pickLayout(), View: pickView()})
		case k < 93:
			c.Reqs = append(c.Reqs, Req{Op: "layout", Layout: pickLayout()})
		default:
			c.Reqs = append(c.Reqs, Req{Op: "base"})
		}
	}
	if collide {
		pair := []Req{{Op: "view", Layout: "a", View: "b:c"}, {Op: "view", Layout: "a:b", View: "c"}}
		if hx.Chance(rt, 50, "collide-order") {
			pair[0], pair[1] = pair[1], pair[0]
		}
		at := hx.Uniform(rt, len(c.Reqs)+1, "collide-at")
		c.Reqs = append(c.Reqs[:at], append(pair, c.Reqs[at:]...)...)
	}
	return c
}

// genLooseLayer draws the files of one layer for the loose kind: literal/func bodies only.
// With dup the files pick their names independently (same-layer duplicates, several top-level
// bodies); without it the names are partitioned as in the strict kind.
func genLooseLayer(rt *rapid.T, layer, owner, tag string, dup bool) []File {
	pool := defNames[:4]
	nfiles := 1 + hx.Uniform(rt, 3, "nfiles")
	if dup && nfiles == 1 && hx.Chance(rt, 70, "dup-two-files") {
		nfiles = 2
	}
	files := make([]File, nfiles)
	body := func(i int, what string) []Item {
		out := []Item{{Lit: tag + ".f" + strconv.Itoa(i) + "." + what + strconv.Itoa(hx.Uniform(rt, 10, "lit"))}}
		if hx.Chance(rt, 25, "fn?") {
			out = append(out, Item{Fn: strings.ToLower(tag) + "f" + strconv.Itoa(i)})
		}
		return out
	}
	for i := range files {
		files[i] = File{Layer: layer, Owner: owner, Dir: dirPool[hx.Uniform(rt, len(dirPool), "dir")], Name: "f" + strconv.Itoa(i), Ext: "EXT",
			Sep: sepPool[hx.Uniform(rt, len(sepPool), "sep")]}
	}
	if dup {
		for i := range files {
			for _, n := range pool {
				if hx.Chance(rt, 50, "def?") {
					files[i].Blocks = append(files[i].Blocks, Block{Name: n, Body: body(i, "d")})
				}
			}
			if hx.Chance(rt, 40, "top?") {
				files[i].Top = append([]Item{{Lit: "[" + tag + "]"}}, body(i, "T")...)
			}
		}
	} else {
		for _, n := range pool {
			if hx.Chance(rt, 50, "def?") {
				i := hx.Uniform(rt, nfiles, "file-of-def")
				files[i].Blocks = append(files[i].Blocks, Block{Name: n, Body: body(i, "d")})
			}
		}
		if hx.Chance(rt, 35, "top?") {
			i := hx.Uniform(rt, nfiles, "file-of-top")
			files[i].Top = append([]Item{{Lit: "[" + tag + "]"}}, body(i, "T")...)
		}
	}
	var out []File
	for i, f := range files {
		if len(f.Blocks) == 0 && len(f.Top) == 0 {
			if i > 0 {
				continue
			}
			f.Blocks = []Block{{Name: pool[0], Body: body(i, "d")}}
		}
		out = append(out, f)
	}
	return out
}

// GenLoose draws a consistency-only case.
func GenLoose(rt *rapid.T) LooseCase {
	var c LooseCase
	mode := hx.Uniform(rt, 3, "mode") // 0 broken files, 1 same-layer duplicates, 2 both
	withBroken, withDup := mode != 1, mode != 0
	layouts := subset(rt, []string{"default", "admin", "bad"}, 1, 2, "layouts")
	views := subset(rt, []string{"home", "about", "user/profile"}, 1, 3, "views")
	type inst struct{ layer, owner, tag string }
	var insts []inst
	if hx.Chance(rt, 80, "helpers?") {
		insts = append(insts, inst{"h", "", "H"})
	}
	for i, l := range layouts {
		insts = append(insts, inst{"l", l, "L" + strconv.Itoa(i)})
	}
	for i, v := range views {
		insts = append(insts, inst{"v", v, "V" + strconv.Itoa(i)})
	}
	// which layers are broken / ambiguous: one forced, the others by chance. Helpers are broken
	// rarely (everything fails then).
	forcedBroken, forcedDup := -1, -1
	if withBroken {
		forcedBroken = hx.Uniform(rt, len(insts), "broken-layer")
		if insts[forcedBroken].layer == "h" && len(insts) > 1 && !hx.Chance(rt, 25, "broken-helpers") {
			forcedBroken = 1 + hx.Uniform(rt, len(insts)-1, "broken-layer2")
		}
	}
	if withDup {
		forcedDup = hx.Uniform(rt, len(insts), "dup-layer")
	}
	for i, in := range insts {
		dup := withDup && (i == forcedDup || hx.Chance(rt, 30, "dup?"))
		fl := genLooseLayer(rt, in.layer, in.owner, in.tag, dup)
		if withBroken && (i == forcedBroken || (in.layer != "h" && hx.Chance(rt, 12, "broken?"))) {
			b := File{Layer: in.layer, Owner: in.owner, Dir: dirPool[hx.Uniform(rt, len(dirPool), "bdir")], Name: "f9", Ext: "EXT",
				Broken: []string{"syntax", "empty"}[hx.Uniform(rt, 2, "broken-kind")]}
			at := hx.Uniform(rt, len(fl)+1, "broken-at") // position in the listing order
			if hx.Chance(rt, 20, "broken-only") {
				fl, at = nil, 0
			}
			fl = append(fl[:at], append([]File{b}, fl[at:]...)...)
		}
		c.Files = append(c.Files, fl...)
	}
	nreq := 2 + hx.Uniform(rt, 5, "nreq")
	for i := 0; i < nreq; i++ {
		l := layouts[hx.Uniform(rt, len(layouts), "lp")]
		switch k := hx.Uniform(rt, 100, "lk"); {
		case k < 8:
			l = ""
		case k < 14:
			l = "nolayout"
		}
		v := views[hx.Uniform(rt, len(views), "vp")]
		if hx.Chance(rt, 8, "vmissing") {
			v = "noview"
		}
		switch k := hx.Uniform(rt, 100, "op"); {
		case k < 65:
			c.Reqs = append(c.Reqs, Req{Op: "view", Layout: l, View: v})
		case k < 90:
			c.Reqs = append(c.Reqs, Req{Op: "layout", Layout: l})
		default:
			c.Reqs = append(c.Reqs, Req{Op: "base"})
		}
	}
	return c
}

// GenConc draws a concurrent case.
func GenConc(rt *rapid.T) ConcCase {
	c := ConcCase{Kind: []string{"html", "text"}[hx.Uniform(rt, 2, "kind")], Cached: hx.Chance(rt, 80, "cached")}
	if hx.Chance(rt, 70, "helpers?") {
		c.Files = append(c.Files, genLayer(rt, "h", "", "H", 30, 0, 1, false)...)
	}
	nl := 1 + hx.Uniform(rt, 2, "nl")
	var layouts, views []string
	for i := 0; i < nl; i++ {
		l := []string{"default", "admin"}[i]
		layouts = append(layouts, l)
		c.Files = append(c.Files, genLayer(rt, "l", l, "L"+strconv.Itoa(i), 35, 60, 2, false)...)
	}
	nv := 6 + hx.Uniform(rt, 19, "nv")
	for i := 0; i < nv; i++ {
		v := "v" + strconv.Itoa(i)
		if i%5 == 4 {
			v = "g/" + v
		}
		views = append(views, v)
		c.Files = append(c.Files, genLayer(rt, "v", v, "V"+strconv.Itoa(i), 30, 10, 1, false)...)
	}
	for _, l := range layouts {
		for _, v := range views {
			if len(layouts) == 1 || hx.Chance(rt, 60, "key?") {
				c.Keys = append(c.Keys, Req{Op: "view", Layout: l, View: v})
			}
		}
	}
	if len(c.Keys) == 0 {
		c.Keys = append(c.Keys, Req{Op: "view", Layout: layouts[0], View: views[0]})
	}
	if hx.Chance(rt, 25, "broken-layout") {
		// a layout whose directory holds a file the loader refuses: every request touching it must
		// fail (or succeed) the same way for every caller, and nothing may crash
		c.Files = append(c.Files, genLayer(rt, "l", "bad", "LB", 35, 0, 1, false)...)
		c.Files = append(c.Files, File{Layer: "l", Owner: "bad", Name: "f9", Ext: "EXT", Broken: []string{"syntax", "empty"}[hx.Uniform(rt, 2, "broken-kind")]})
		c.Keys = append(c.Keys, Req{Op: "layout", Layout: "bad"})
		n := 1 + hx.Uniform(rt, 3, "nbadviews")
		for i := 0; i < n && i < len(views); i++ {
			c.Keys = append(c.Keys, Req{Op: "view", Layout: "bad", View: views[i]})
		}
	}
	if hx.Chance(rt, 25, "shared-ancestors") && !hx.Excluded(exAncestor) {
		for _, l := range layouts {
			c.Keys = append(c.Keys, Req{Op: "layout", Layout: l})
		}
		c.Keys = append(c.Keys, Req{Op: "base"})
	}
	g := 4 + hx.Uniform(rt, 13, "goroutines")
	c.Plans = make([][]int, g)
	for i := range c.Plans {
		n := len(c.Keys)/2 + 1 + hx.Uniform(rt, len(c.Keys)*3/2+1, "planlen")
		p := make([]int, n)
		for j := range p {
			p[j] = hx.Uniform(rt, len(c.Keys), "key")
		}
		c.Plans[i] = p
	}
	if c.Cached {
		c.Rounds = 20 + hx.Uniform(rt, 31, "rounds")
	} else {
		c.Rounds = 2 + hx.Uniform(rt, 5, "rounds")
	}
	if hx.Thorough() && c.Cached {
		c.Rounds *= 2
	}
	c.Procs = []int{2, 4, 8, 16}[hx.Uniform(rt, 4, "procs")]
	return c
}

// ---------------------------------------------------------------------------------------
// File set -> filespace, and the pure model

func extOf(kind string) string {
	if kind == "html" {
		return goathtml.FileExtension
	}
	return goattext.FileExtension
}

func otherKind(kind string) string {
	if kind == "html" {
		return "text"
	}
	return "html"
}

func (f File) ext(kind string) string {
	switch {
	case f.Ext == "EXT":
		return extOf(kind)
	case f.Ext == "OTHER":
		return extOf(otherKind(kind))
	}
	return strings.ReplaceAll(f.Ext, "EXT", extOf(kind))
}

func (f File) matches() bool { return f.Ext == "EXT" }

func layerDir(kind, layer, owner string) string {
	h, l, v := goathtml.HelpersPath, goathtml.LayoutPath, goathtml.ViewPath
	if kind == "text" {
		h, l, v = goattext.HelpersPath, goattext.LayoutPath, goattext.ViewPath
	}
	switch layer {
	case "h":
		return h
	case "l":
		return strings.Replace(l, "{name}", owner, 1)
	}
	return strings.Replace(v, "{name}", owner, 1)
}

func (f File) path(kind string) string {
	p := layerDir(kind, f.Layer, f.Owner)
	if f.Dir != "" {
		p += strings.ReplaceAll(f.Dir, "{ext}", extOf(kind)) + "/"
	}
	return p + f.Name + f.ext(kind)
}

func itemsText(items []Item) string {
	var b strings.Builder
	for _, it := range items {
		switch {
		case it.Call != "":
			b.WriteString("{{template " + strconv.Quote(it.Call) + "}}")
		case it.Fn != "":
			b.WriteString("{{up " + strconv.Quote(it.Fn) + "}}")
		default:
			b.WriteString(it.Lit)
		}
	}
	return b.String()
}

const brokenSyntax = `{{define "a"}}unterminated {{`

func (f File) content() string {
	switch f.Broken {
	case "syntax":
		return brokenSyntax
	case "empty":
		return ""
	}
	if f.Raw != "" {
		return f.Raw
	}
	var b strings.Builder
	b.WriteString(itemsText(f.Top))
	if f.Pad > 0 {
		b.WriteString("{{/*" + strings.Repeat("x", f.Pad) + "*/}}")
	}
	for _, bl := range f.Blocks {
		b.WriteString("{{define " + strconv.Quote(bl.Name) + "}}" + itemsText(bl.Body) + "{{end}}" + f.Sep)
	}
	return b.String()
}

var litOK = regexp.MustCompile(`^[A-Za-z0-9 .,_\[\]-]*(<b>x</b>|&amp;|<i>|</i>)?$`)
var fnOK = regexp.MustCompile(`^[a-z0-9]+$`)

const rootGuess = "baseTemplate" // the providers' root name; definitions must not use it

// validate rejects case files outside the generated domain (hand-written replays).
func validate(files []File) error { return validateDomain(files, domain{}) }

// domain widens the strict domain for the kinds with consistency-only clauses.
type domain struct {
	broken bool // broken matching files allowed
	loose  bool // same-layer duplicates and several top-level bodies allowed; no {{template}} calls
}

func validateDomain(files []File, dom domain) error {
	type lk struct{ layer, owner string }
	seen := map[lk]map[string]bool{}
	tops := map[lk]int{}
	paths := map[string]bool{}
	var owners = map[string][]string{}
	checkItems := func(items []Item, self int) error {
		for _, it := range items {
			switch {
			case it.Call != "":
				if dom.loose {
					return fmt.Errorf("template call in a loose case (the winner of a duplicate is not modelled)")
				}
				if j := defIndex(it.Call); j >= 0 && j <= self {
					return fmt.Errorf("call %q would allow a cycle", it.Call)
				}
			case it.Fn != "":
				if !fnOK.MatchString(it.Fn) {
					return fmt.Errorf("fn literal %q outside the alphabet", it.Fn)
				}
			default:
				if !litOK.MatchString(it.Lit) || strings.TrimSpace(it.Lit) == "" {
					return fmt.Errorf("literal %q outside the alphabet", it.Lit)
				}
			}
		}
		return nil
	}
	for _, f := range files {
		if f.Layer != "h" && f.Layer != "l" && f.Layer != "v" {
			return fmt.Errorf("layer %q", f.Layer)
		}
		if f.Layer != "h" && (f.Owner == "" || strings.Contains(f.Owner, "..") || strings.HasPrefix(f.Owner, "/") || strings.HasSuffix(f.Owner, "/")) {
			return fmt.Errorf("owner %q", f.Owner)
		}
		p := f.path("html")
		if paths[p] {
			return fmt.Errorf("duplicate path %s", p)
		}
		paths[p] = true
		if f.Layer != "h" {
			owners[f.Layer] = append(owners[f.Layer], f.Owner)
		}
		if !f.matches() {
			if f.ext("html") == extOf("html") || f.ext("text") == extOf("text") || strings.HasSuffix(f.Name+f.ext("html"), extOf("html")) || strings.HasSuffix(f.Name+f.ext("text"), extOf("text")) {
				return fmt.Errorf("file %s: non-matching extension matches", p)
			}
			continue
		}
		if f.Raw != "" {
			return fmt.Errorf("file %s: raw content in a matching file", p)
		}
		if f.Broken != "" {
			if !dom.broken || (f.Broken != "syntax" && f.Broken != "empty") {
				return fmt.Errorf("file %s: broken=%q outside the domain of this kind", p, f.Broken)
			}
			continue
		}
		if len(f.Blocks) == 0 && len(f.Top) == 0 {
			return fmt.Errorf("file %s: empty template file (refused by the loader by design)", p)
		}
		if strings.TrimSpace(f.Sep) != "" {
			return fmt.Errorf("file %s: separator not white space", p)
		}
		if f.Pad < 0 || f.Pad > 1<<20 {
			return fmt.Errorf("file %s: pad %d", p, f.Pad)
		}
		k := lk{f.Layer, f.Owner}
		if seen[k] == nil {
			seen[k] = map[string]bool{}
		}
		inFile := map[string]bool{}
		for _, b := range f.Blocks {
			if inFile[b.Name] {
				return fmt.Errorf("name %q defined twice within one file", b.Name)
			}
			inFile[b.Name] = true
			if seen[k][b.Name] && !dom.loose {
				return fmt.Errorf("name %q defined twice within one layer (file order would decide)", b.Name)
			}
			seen[k][b.Name] = true
			if b.Name == rootGuess || b.Name == "" {
				return fmt.Errorf("definition name %q", b.Name)
			}
			if len(b.Body) == 0 {
				return fmt.Errorf("blank body of %q", b.Name)
			}
			self := defIndex(b.Name)
			if self < 0 {
				return fmt.Errorf("definition name %q outside the pool", b.Name)
			}
			if err := checkItems(b.Body, self); err != nil {
				return err
			}
		}
		if len(f.Top) > 0 {
			tops[k]++
			if tops[k] > 1 && !dom.loose {
				return fmt.Errorf("two top-level bodies within one layer")
			}
			if err := checkItems(f.Top, -1); err != nil {
				return err
			}
		}
	}
	// no view (layout) directory nested inside another one
	for _, l := range owners {
		for _, a := range l {
			for _, b := range l {
				if a != b && strings.HasPrefix(b, a+"/") {
					return fmt.Errorf("owner %q nested inside %q", b, a)
				}
			}
		}
	}
	return nil
}

// layerModel is what one layer contributes.
type layerModel struct {
	defs map[string][]Item
	root []Item // nil = no top-level body
	// broken: the layer contains a matching file the loader refuses. ambiguous: two files of the
	// layer define the same name or carry top-level text (no winner modelled).
	broken, ambiguous bool
}

type model struct {
	helpers layerModel
	layouts map[string]layerModel
	views   map[string]layerModel
}

func buildModel(files []File) *model {
	m := &model{helpers: layerModel{defs: map[string][]Item{}}, layouts: map[string]layerModel{}, views: map[string]layerModel{}}
	get := func(f File) *layerModel {
		switch f.Layer {
		case "h":
			return &m.helpers
		case "l":
			lm, ok := m.layouts[f.Owner]
			if !ok {
				lm = layerModel{defs: map[string][]Item{}}
			}
			return &lm
		}
		lm, ok := m.views[f.Owner]
		if !ok {
			lm = layerModel{defs: map[string][]Item{}}
		}
		return &lm
	}
	for _, f := range files {
		if !f.matches() {
			continue
		}
		lm := get(f)
		if f.Broken != "" {
			lm.broken = true
		}
		for _, b := range f.Blocks {
			if f.Broken != "" {
				break
			}
			if _, dup := lm.defs[b.Name]; dup {
				lm.ambiguous = true
			}
			lm.defs[b.Name] = b.Body
		}
		if len(f.Top) > 0 && f.Broken == "" {
			if lm.root != nil {
				lm.ambiguous = true
			}
			root := append([]Item{}, f.Top...)
			if s := strings.Repeat(f.Sep, len(f.Blocks)); s != "" {
				root = append(root, Item{Lit: s})
			}
			lm.root = root
		}
		switch f.Layer {
		case "l":
			m.layouts[f.Owner] = *lm
		case "v":
			m.views[f.Owner] = *lm
		}
	}
	return m
}

func normLayout(l string) string {
	if l == "" {
		return goathtml.DefaultLayout // == goattext.DefaultLayout
	}
	return l
}

// effective returns the definitions a request must see and the root body (nil = none).
func (m *model) effective(r Req) (map[string][]Item, []Item) {
	defs := map[string][]Item{}
	var root []Item
	add := func(lm layerModel) {
		for k, v := range lm.defs {
			defs[k] = v
		}
		if lm.root != nil {
			root = lm.root
		}
	}
	add(m.helpers)
	if r.Op == "base" {
		return defs, root
	}
	if lm, ok := m.layouts[normLayout(r.Layout)]; ok {
		add(lm)
	}
	if r.Op == "layout" {
		return defs, root
	}
	if lm, ok := m.views[r.View]; ok {
		add(lm)
	}
	return defs, root
}

// chain reports whether the layers a request is built from contain a broken file / an
// ambiguous (same-layer duplicate) definition.
func (m *model) chain(r Req) (broken, ambiguous bool) {
	add := func(lm layerModel) {
		broken = broken || lm.broken
		ambiguous = ambiguous || lm.ambiguous
	}
	add(m.helpers)
	if r.Op == "base" {
		return
	}
	if lm, ok := m.layouts[normLayout(r.Layout)]; ok {
		add(lm)
	}
	if r.Op == "layout" {
		return
	}
	if lm, ok := m.views[r.View]; ok {
		add(lm)
	}
	return
}

type renderErr struct{ msg string }

func (e renderErr) Error() string { return e.msg }

func renderItems(defs map[string][]Item, items []Item, depth int, b *strings.Builder) error {
	if depth > 64 {
		return renderErr{"cycle"}
	}
	for _, it := range items {
		switch {
		case it.Call != "":
			body, ok := defs[it.Call]
			if !ok {
				return renderErr{"undefined " + it.Call}
			}
			if err := renderItems(defs, body, depth+1, b); err != nil {
				return err
			}
		case it.Fn != "":
			b.WriteString(strings.ToUpper(it.Fn))
		default:
			b.WriteString(it.Lit)
		}
	}
	return nil
}

func modelRender(defs map[string][]Item, items []Item) (string, error) {
	var b strings.Builder
	err := renderItems(defs, items, 0, &b)
	return b.String(), err
}

// ---------------------------------------------------------------------------------------
// Providers and templates behind one interface

type tpl interface {
	isNil() bool
	rootName() string
	names() []string // associated template names
	render(name string) (string, error)
	renderRoot() (string, error)
	ident() interface{}
	canRenderFailing() bool
}

type htpl struct{ t *htemplate.Template }

func (h htpl) isNil() bool      { return h.t == nil }
func (h htpl) rootName() string { return h.t.Name() }
func (h htpl) names() []string {
	var out []string
	for _, t := range h.t.Templates() {
		out = append(out, t.Name())
	}
	return out
}
func (h htpl) render(name string) (out string, err error) {
	defer recoverRender(&err)
	var b bytes.Buffer
	err = h.t.ExecuteTemplate(&b, name, nil)
	return b.String(), err
}
func (h htpl) renderRoot() (out string, err error) {
	defer recoverRender(&err)
	var b bytes.Buffer
	err = h.t.Execute(&b, nil)
	return b.String(), err
}
func (h htpl) ident() interface{} { return h.t }

// html/template cuts the tree of a template whose escaping failed; executing anything that
// reaches it afterwards can panic inside the standard library. Templates that the model
// expects to fail are therefore never executed on an html template.
func (h htpl) canRenderFailing() bool { return false }

func recoverRender(err *error) {
	if r := recover(); r != nil {
		*err = fmt.Errorf("panic while executing: %v", r)
	}
}

type ttpl struct{ t *ttemplate.Template }

func (h ttpl) isNil() bool      { return h.t == nil }
func (h ttpl) rootName() string { return h.t.Name() }
func (h ttpl) names() []string {
	var out []string
	for _, t := range h.t.Templates() {
		out = append(out, t.Name())
	}
	return out
}
func (h ttpl) render(name string) (out string, err error) {
	defer recoverRender(&err)
	var b bytes.Buffer
	err = h.t.ExecuteTemplate(&b, name, nil)
	return b.String(), err
}
func (h ttpl) renderRoot() (out string, err error) {
	defer recoverRender(&err)
	var b bytes.Buffer
	err = h.t.Execute(&b, nil)
	return b.String(), err
}
func (h ttpl) ident() interface{}     { return h.t }
func (h ttpl) canRenderFailing() bool { return true }

type prov struct {
	label string
	do    func(r Req) (tpl, error)
}

func newProv(kind string, cached bool, fs filesystem.Filespace) prov {
	label := kind + "/uncached"
	if cached {
		label = kind + "/cached"
	}
	if kind == "html" {
		p := ghprovider.NewProvider(fs, goathtml.HelpersPath, goathtml.LayoutPath, goathtml.ViewPath, goathtml.FileExtension,
			htemplate.FuncMap{"up": strings.ToUpper}, cached)
		return prov{label, func(r Req) (tpl, error) {
			var t *htemplate.Template
			var err error
			switch r.Op {
			case "base":
				t, err = p.Base()
			case "layout":
				t, err = p.Layout(r.Layout)
			default:
				t, err = p.View(r.Layout, r.View)
			}
			return htpl{t}, err
		}}
	}
	p := gtprovider.NewProvider(fs, goattext.HelpersPath, goattext.LayoutPath, goattext.ViewPath, goattext.FileExtension,
		ttemplate.FuncMap{"up": strings.ToUpper}, cached)
	return prov{label, func(r Req) (tpl, error) {
		var t *ttemplate.Template
		var err error
		switch r.Op {
		case "base":
			t, err = p.Base()
		case "layout":
			t, err = p.Layout(r.Layout)
		default:
			t, err = p.View(r.Layout, r.View)
		}
		return ttpl{t}, err
	}}
}

func buildFS(kind string, files []File) (filesystem.Filespace, error) {
	fs, err := memfs.NewFilespace()
	if err != nil {
		return nil, err
	}
	for _, f := range files {
		if err := fs.WriteFile(f.path(kind), []byte(f.content()), 0644); err != nil {
			return nil, fmt.Errorf("WriteFile(%q): %v", f.path(kind), err)
		}
	}
	return fs, nil
}

func (r Req) String() string {
	switch r.Op {
	case "base":
		return "Base()"
	case "layout":
		return fmt.Sprintf("Layout(%q)", r.Layout)
	}
	return fmt.Sprintf("View(%q, %q)", r.Layout, r.View)
}

// expectation of one request, computed once from the model.
type expect struct {
	names   []string          // sorted
	out     map[string]string // rendering of every name that renders
	fails   map[string]bool   // names whose rendering must fail (reach an undefined name)
	hasRoot bool
	rootOut string
	rootErr bool
}

func (m *model) expect(r Req) (expect, error) {
	defs, root := m.effective(r)
	e := expect{out: map[string]string{}, fails: map[string]bool{}}
	for n := range defs {
		e.names = append(e.names, n)
	}
	sort.Strings(e.names)
	for _, n := range e.names {
		s, err := modelRender(defs, defs[n])
		if err != nil {
			if err.(renderErr).msg == "cycle" {
				return e, err
			}
			e.fails[n] = true
			continue
		}
		e.out[n] = s
	}
	if root != nil {
		e.hasRoot = true
		s, err := modelRender(defs, root)
		if err != nil {
			if err.(renderErr).msg == "cycle" {
				return e, err
			}
			e.rootErr = true
		}
		e.rootOut = s
	}
	return e, nil
}

// compare checks one returned template against the expectation. It returns (clause, detail)
// of the first difference, or "" when the template is equivalent to the model.
func compare(t tpl, e expect) (string, string) {
	root := t.rootName()
	var got []string
	for _, n := range t.names() {
		if n != root {
			got = append(got, n)
		}
	}
	sort.Strings(got)
	if strings.Join(got, "\x00") != strings.Join(e.names, "\x00") {
		return "defined-names", fmt.Sprintf("defined names %q, expected %q", got, e.names)
	}
	for _, n := range e.names {
		if e.fails[n] && !t.canRenderFailing() {
			continue
		}
		s, err := t.render(n)
		if e.fails[n] {
			if err == nil {
				return "render", fmt.Sprintf("rendering %q gave %q, expected an error (it reaches an undefined template)", n, s)
			}
			continue
		}
		if err != nil {
			return "render", fmt.Sprintf("rendering %q failed (%v), expected %q", n, err, e.out[n])
		}
		if s != e.out[n] {
			return "render", fmt.Sprintf("rendering %q gave %q, expected %q", n, s, e.out[n])
		}
	}
	if e.hasRoot {
		if e.rootErr && !t.canRenderFailing() {
			return "", ""
		}
		s, err := t.renderRoot()
		if e.rootErr {
			if err == nil {
				return "render", fmt.Sprintf("executing the template gave %q, expected an error (it reaches an undefined template)", s)
			}
		} else if err != nil {
			return "render", fmt.Sprintf("executing the template failed (%v), expected %q", err, e.rootOut)
		} else if s != e.rootOut {
			return "render", fmt.Sprintf("executing the template gave %q, expected %q", s, e.rootOut)
		}
	}
	return "", ""
}

// reference builds the template for r directly with html/template or text/template
// (helpers -> clone + layout -> clone + view), used as a cross-check of the pure model.
func reference(kind string, files []File, r Req) (tpl, error) {
	pick := func(layer, owner string) []File {
		var out []File
		for _, f := range files {
			if f.matches() && f.Layer == layer && (layer == "h" || f.Owner == owner) {
				out = append(out, f)
			}
		}
		sort.Slice(out, func(i, j int) bool { return out[i].path(kind) < out[j].path(kind) })
		return out
	}
	var chain [][]File
	chain = append(chain, pick("h", ""))
	if r.Op != "base" {
		chain = append(chain, pick("l", normLayout(r.Layout)))
	}
	if r.Op == "view" {
		chain = append(chain, pick("v", r.View))
	}
	if kind == "html" {
		t := htemplate.New("ref").Funcs(htemplate.FuncMap{"up": strings.ToUpper})
		for i, layer := range chain {
			if i > 0 {
				var err error
				if t, err = t.Clone(); err != nil {
					return nil, err
				}
			}
			for _, f := range layer {
				if _, err := t.Parse(f.content()); err != nil {
					return nil, err
				}
			}
		}
		return htpl{t}, nil
	}
	t := ttemplate.New("ref").Funcs(ttemplate.FuncMap{"up": strings.ToUpper})
	for i, layer := range chain {
		if i > 0 {
			var err error
			if t, err = t.Clone(); err != nil {
				return nil, err
			}
		}
		for _, f := range layer {
			if _, err := t.Parse(f.content()); err != nil {
				return nil, err
			}
		}
	}
	return ttpl{t}, nil
}

// ---------------------------------------------------------------------------------------
// Sequential executor

// Exec runs a sequential case.
func Exec(c Case) hx.Verdict {
	// goatcore's error constructor records a stack trace for every error (memfs produces many
	// while creating directories); a fresh goroutine keeps those traces short and cheap.
	ch := make(chan hx.Verdict, 1)
	go func() { ch <- hx.Guard(func() hx.Verdict { return run(c) }) }()
	return <-ch
}

func inconclusive(format string, a ...interface{}) hx.Verdict {
	v := hx.Pass()
	v.Inconclusive = true
	hx.Note(format, a...)
	return v
}

func run(c Case) hx.Verdict {
	if err := validate(c.Files); err != nil {
		return inconclusive("case outside the generated domain: %v", err)
	}
	for _, r := range c.Reqs {
		if r.Op == "view" && r.View == "" {
			return inconclusive("case outside the generated domain: empty view name")
		}
	}
	m := buildModel(c.Files)
	v := hx.Pass()
	exps := make([]expect, len(c.Reqs))
	for i, r := range c.Reqs {
		e, err := m.expect(r)
		if err != nil {
			return inconclusive("model: %v", err)
		}
		exps[i] = e
		v.Count("model_names_rendering", int64(len(e.out)))
		v.Count("model_names_failing", int64(len(e.fails)))
	}
	// cross-check of the pure model against templates built directly with the std packages
	for _, kind := range []string{"html", "text"} {
		for i, r := range c.Reqs {
			ref, err := reference(kind, c.Files, r)
			if err != nil {
				return inconclusive("reference build failed (%s, %s): %v", kind, r, err)
			}
			if cl, d := compare(ref, exps[i]); cl != "" {
				return inconclusive("HARNESS: pure model and %s reference disagree on %s: %s: %s", kind, r, cl, d)
			}
		}
	}
	var provs []prov
	for _, kind := range []string{"html", "text"} {
		// one filespace per kind, shared by the cached and the uncached provider (they only read)
		fs, err := buildFS(kind, c.Files)
		if err != nil {
			return inconclusive("setup: %v", err)
		}
		for _, cached := range []bool{true, false} {
			provs = append(provs, newProv(kind, cached, fs))
		}
	}
	check := func(step int, pass string, p prov, r Req, e expect) *hx.Verdict {
		t, err := p.do(r)
		if err != nil || t.isNil() {
			f := hx.Fail("request", "%s provider, %s%s: error %v (all template files are valid; the reference builds this template)", p.label, r, pass, err)
			f.Step = step
			return &f
		}
		if cl, d := compare(t, e); cl != "" {
			f := hx.Fail(cl, "%s provider, %s%s: %s", p.label, r, pass, d)
			f.Step = step
			return &f
		}
		return nil
	}
	for i, r := range c.Reqs {
		for _, p := range provs {
			if f := check(i, "", p, r, exps[i]); f != nil {
				return *f
			}
		}
	}
	// asking again gives equivalent templates (and nothing requested later has leaked into them)
	seen := map[Req]bool{}
	for i, r := range c.Reqs {
		if seen[r] {
			continue
		}
		seen[r] = true
		for _, p := range provs {
			if f := check(i, " (asked again at the end)", p, r, exps[i]); f != nil {
				return *f
			}
		}
	}
	classify(c, m, &v)
	return v
}

// classify sets labels and the non-triviality flag from the case itself.
func classify(c Case, m *model, v *hx.Verdict) {
	labels := map[string]bool{}
	distinctViews := map[string]bool{}
	seen := map[Req]bool{}
	overlapInChain := false
	for _, r := range c.Reqs {
		if seen[r] {
			labels["repeat-request"] = true
		}
		seen[r] = true
		switch r.Op {
		case "base":
			labels["base-request"] = true
			continue
		case "layout":
			labels["layout-request"] = true
		}
		if r.Layout == "" {
			labels["default-alias"] = true
		}
		ll, lok := m.layouts[normLayout(r.Layout)]
		if !lok {
			labels["missing-layout-dir"] = true
		}
		if r.Op != "view" {
			continue
		}
		distinctViews[r.View] = true
		vl, vok := m.views[r.View]
		if !vok {
			labels["missing-view-dir"] = true
		}
		for n := range vl.defs {
			if _, ok := ll.defs[n]; ok {
				labels["view-overrides-layout"] = true
				overlapInChain = true
			}
			if _, ok := m.helpers.defs[n]; ok {
				labels["view-overrides-helper"] = true
				overlapInChain = true
			}
		}
		for n := range ll.defs {
			if _, ok := m.helpers.defs[n]; ok {
				labels["layout-overrides-helper"] = true
				overlapInChain = true
			}
		}
		if vl.root != nil && (ll.root != nil || m.helpers.root != nil) {
			labels["root-body-overridden"] = true
		}
	}
	// the same name defined by two requested views
	byName := map[string]int{}
	for vn := range distinctViews {
		for n := range m.views[vn].defs {
			byName[n]++
		}
	}
	for _, k := range byName {
		if k >= 2 {
			labels["same-name-in-two-views"] = true
		}
	}
	if seen[Req{Op: "view", Layout: "a", View: "b:c"}] && seen[Req{Op: "view", Layout: "a:b", View: "c"}] {
		labels["colon-key-pair"] = true
	}
	helpers := false
	for _, f := range c.Files {
		if f.Layer == "h" && f.matches() {
			helpers = true
		}
		if f.Dir != "" {
			labels["nested-dir"] = true
		}
		if f.matches() && (strings.HasPrefix(f.Dir, ".") || strings.Contains(f.Dir, "/.")) {
			labels["template-file-in-a-dot-directory"] = true
		}
		if f.matches() && f.Pad > 65000 {
			labels["template-file-larger-than-64KiB"] = true
		}
		if !f.matches() {
			labels["non-matching-ext"] = true
		}
		for _, b := range f.Blocks {
			for _, it := range b.Body {
				if it.Call == "nowhere" {
					labels["dangling-call"] = true
				}
			}
		}
	}
	if !helpers {
		labels["no-helpers"] = true
	}
	for l := range labels {
		v.Label(l)
	}
	v.NonTrivial = len(distinctViews) >= 2 && overlapInChain
}

// ---------------------------------------------------------------------------------------
// Consistency-only executor

// fingerprint is everything observable of a returned template: the defined names and the
// rendering (or failure) of each, and of the template itself.
func fingerprint(t tpl) string {
	root := t.rootName()
	var names []string
	for _, n := range t.names() {
		if n != root {
			names = append(names, n)
		}
	}
	sort.Strings(names)
	var b strings.Builder
	for _, n := range names {
		s, err := t.render(n)
		if err != nil {
			s = "<error>"
		}
		fmt.Fprintf(&b, "%q=%q ", n, s)
	}
	s, err := t.renderRoot()
	if err != nil {
		s = "<error>"
	}
	fmt.Fprintf(&b, "ROOT=%q", s)
	return b.String()
}

const obsError = "<request failed>"

// observe issues one request; a panic is reported through the second result.
func observe(p prov, r Req) (obs string, t tpl, panicked string) {
	defer func() {
		if x := recover(); x != nil {
			panicked = fmt.Sprintf("%v\n%s", x, tail(string(debugStack()), 1800))
		}
	}()
	t, err := p.do(r)
	if err != nil {
		return obsError, nil, ""
	}
	if t.isNil() {
		return "<nil template without error>", nil, ""
	}
	return fingerprint(t), t, ""
}

// ExecLoose runs a consistency-only case.
func ExecLoose(c LooseCase) hx.Verdict {
	ch := make(chan hx.Verdict, 1)
	go func() { ch <- hx.Guard(func() hx.Verdict { return runLoose(c) }) }()
	return <-ch
}

func runLoose(c LooseCase) hx.Verdict {
	if err := validateDomain(c.Files, domain{broken: true, loose: true}); err != nil {
		return inconclusive("case outside the generated domain: %v", err)
	}
	for _, r := range c.Reqs {
		if r.Op == "view" && r.View == "" {
			return inconclusive("case outside the generated domain: empty view name")
		}
	}
	m := buildModel(c.Files)
	v := hx.Pass()
	labels := map[string]bool{}
	touched := false
	for _, kind := range []string{"html", "text"} {
		fs, err := buildFS(kind, c.Files)
		if err != nil {
			return inconclusive("setup: %v", err)
		}
		provs := []prov{newProv(kind, true, fs), newProv(kind, false, fs)}
		first := map[Req]string{} // first observation of a request (this kind)
		who := map[Req]string{}
		for pass := 1; pass <= 3; pass++ {
			if pass == 3 {
				// fresh providers over the SAME filespace must agree with the old ones
				fc, fu := newProv(kind, true, fs), newProv(kind, false, fs)
				fc.label += " (fresh)"
				fu.label += " (fresh)"
				provs = append(provs, fc, fu)
			}
			for i, r := range c.Reqs {
				broken, ambiguous := m.chain(r)
				for _, p := range provs {
					obs, t, pan := observe(p, r)
					if pan != "" {
						f := hx.Fail("no-panic", "%s provider, %s, ask %d: panic: %s", p.label, r, pass, pan)
						f.Step = i
						return f
					}
					if obs == "<nil template without error>" {
						f := hx.Fail("request", "%s provider, %s, ask %d: returned neither a template nor an error", p.label, r, pass)
						f.Step = i
						return f
					}
					if prev, ok := first[r]; !ok {
						first[r], who[r] = obs, fmt.Sprintf("%s ask %d", p.label, pass)
					} else if prev != obs {
						f := hx.Fail("consistency", "%s: %s provider at ask %d observed\n  %s\nbut %s observed\n  %s", r, p.label, pass, obs, who[r], prev)
						f.Step = i
						return f
					}
					// requests that touch neither a broken nor an ambiguous layer follow the model
					if !broken && !ambiguous {
						e, err := m.expect(r)
						if err != nil {
							return inconclusive("model: %v", err)
						}
						if t == nil {
							f := hx.Fail("request", "%s provider, %s, ask %d: error although every file of its helpers/layout/view chain is valid", p.label, r, pass)
							f.Step = i
							return f
						}
						if cl, d := compare(t, e); cl != "" {
							f := hx.Fail(cl, "%s provider, %s, ask %d: %s", p.label, r, pass, d)
							f.Step = i
							return f
						}
					}
				}
				if kind == "html" && pass == 1 {
					switch {
					case broken:
						labels["loose-req-touches-broken"] = true
						touched = true
					case ambiguous:
						labels["loose-req-touches-duplicate"] = true
						touched = true
					default:
						labels["loose-req-clean-modelled"] = true
					}
					if broken && first[r] != obsError {
						labels["loose-broken-but-succeeds"] = true
					}
				}
			}
		}
	}
	for _, f := range c.Files {
		switch f.Broken {
		case "syntax":
			labels["loose-broken-syntax"] = true
		case "empty":
			labels["loose-broken-empty"] = true
		}
	}
	for _, lm := range m.layouts {
		if lm.broken {
			labels["loose-broken-layout"] = true
		}
	}
	dupName, multiTop := looseAmbiguity(c.Files)
	if dupName {
		labels["loose-dup-name"] = true
	}
	if multiTop {
		labels["loose-multi-top"] = true
	}
	for l := range labels {
		v.Label(l)
	}
	v.NonTrivial = touched && len(c.Reqs) >= 2
	return v
}

func looseAmbiguity(files []File) (dupName, multiTop bool) {
	type lk struct{ layer, owner string }
	names := map[lk]map[string]bool{}
	tops := map[lk]int{}
	for _, f := range files {
		if !f.matches() || f.Broken != "" {
			continue
		}
		k := lk{f.Layer, f.Owner}
		if names[k] == nil {
			names[k] = map[string]bool{}
		}
		for _, b := range f.Blocks {
			if names[k][b.Name] {
				dupName = true
			}
			names[k][b.Name] = true
		}
		if len(f.Top) > 0 {
			tops[k]++
			if tops[k] > 1 {
				multiTop = true
			}
		}
	}
	return
}

// ---------------------------------------------------------------------------------------
// Concurrent executor (parent side)

const childEnv = "VERIF_C19_CHILD"
const resultMark = "C19CHILD-RESULT "

type childResult struct {
	Rounds     int      `json:"rounds"`
	Requests   int64    `json:"requests"`
	Compared   int64    `json:"compared"`
	Mismatches []string `json:"mismatches"`
	Setup      string   `json:"setup,omitempty"`
}

var crashRe = regexp.MustCompile(`(?m)^(fatal error: .*|panic: .*|unexpected fault address.*|SIGSEGV.*)$`)

// ExecConc runs a concurrent case in a child process and judges exit status and output.
func ExecConc(c ConcCase) hx.Verdict {
	if err := validateDomain(c.Files, domain{broken: true}); err != nil {
		return inconclusive("case outside the generated domain: %v", err)
	}
	if (c.Kind != "html" && c.Kind != "text") || len(c.Keys) == 0 || len(c.Plans) == 0 || c.Rounds < 1 || c.Rounds > 1000 || len(c.Plans) > 64 {
		return inconclusive("case outside the generated domain: bad conc parameters")
	}
	for _, p := range c.Plans {
		for _, k := range p {
			if k < 0 || k >= len(c.Keys) {
				return inconclusive("case outside the generated domain: key index")
			}
		}
	}
	raw, err := json.Marshal(c)
	if err != nil {
		return inconclusive("marshal: %v", err)
	}
	exe, err := os.Executable()
	if err != nil {
		return inconclusive("os.Executable: %v", err)
	}
	ctx, cancel := context.WithTimeout(context.Background(), 100*time.Second)
	defer cancel()
	cmd := exec.CommandContext(ctx, exe, "-test.run", "^TestHelperChild$", "-test.count=1", "-test.timeout", "90s")
	var env []string
	for _, kv := range os.Environ() {
		if strings.HasPrefix(kv, "VERIF_") || strings.HasPrefix(kv, "GOMAXPROCS=") {
			continue // the child must not touch the parent's statistics / fail-case files
		}
		env = append(env, kv)
	}
	procs := c.Procs
	if procs < 1 {
		procs = 4
	}
	env = append(env, childEnv+"=1", "GOMAXPROCS="+strconv.Itoa(procs), "GOTRACEBACK=single")
	cmd.Env = env
	cmd.Stdin = bytes.NewReader(raw)
	var out bytes.Buffer
	cmd.Stdout = &out
	cmd.Stderr = &out
	runErr := cmd.Run()
	text := out.String()

	v := hx.Pass()
	label := c.Kind
	if c.Cached {
		label += "-cached"
	} else {
		label += "-uncached"
	}
	v.Label("conc-" + label)
	if len(c.Plans) >= 8 {
		v.Label("conc-goroutines>=8")
	}
	for _, k := range c.Keys {
		if k.Op != "view" {
			v.Label("conc-layout-or-base-requests")
			break
		}
	}
	for _, f := range c.Files {
		if f.Broken != "" {
			v.Label("conc-broken-layout")
			break
		}
	}
	v.Count("child_processes", 1)

	if m := crashRe.FindString(text); m != "" && !strings.Contains(text, "panic: test timed out") {
		f := hx.Fail("no-crash", "child process running the %s provider with %d goroutines died: %s\n%s", label, len(c.Plans), m, excerpt(text, m))
		f.Labels, f.Counters = v.Labels, v.Counters
		return f
	}
	if ctx.Err() != nil || strings.Contains(text, "panic: test timed out") {
		r := inconclusive("conc child did not finish within its watchdog (%s, %d goroutines, %d rounds)", label, len(c.Plans), c.Rounds)
		r.Labels = v.Labels
		return r
	}
	var res *childResult
	for _, line := range strings.Split(text, "\n") {
		if i := strings.Index(line, resultMark); i >= 0 {
			var r childResult
			if json.Unmarshal([]byte(line[i+len(resultMark):]), &r) == nil {
				res = &r
			}
		}
	}
	if runErr != nil || res == nil {
		r := inconclusive("conc child exited abnormally without a crash signature: %v\n%s", runErr, tail(text, 600))
		r.Labels = v.Labels
		return r
	}
	if res.Setup != "" {
		r := inconclusive("conc child setup: %s", res.Setup)
		r.Labels = v.Labels
		return r
	}
	v.Count("conc_rounds", int64(res.Rounds))
	v.Count("conc_requests", res.Requests)
	v.Count("conc_templates_compared", res.Compared)
	if len(res.Mismatches) > 0 {
		f := hx.Fail("concurrent-equivalence", "%s provider, %d goroutines: %s", label, len(c.Plans), strings.Join(res.Mismatches, "\n"))
		f.Labels, f.Counters = v.Labels, v.Counters
		return f
	}
	// non-trivial: at least two goroutines ask for the same not yet built view, and >= 2 distinct views
	askers := map[int]int{}
	for _, p := range c.Plans {
		mine := map[int]bool{}
		for _, k := range p {
			if !mine[k] {
				mine[k] = true
				askers[k]++
			}
		}
	}
	shared := 0
	for _, n := range askers {
		if n >= 2 {
			shared++
		}
	}
	v.NonTrivial = shared >= 2 && len(c.Plans) >= 2
	return v
}

func debugStack() []byte { return debug.Stack() }

func tail(s string, n int) string {
	if len(s) > n {
		return "..." + s[len(s)-n:]
	}
	return s
}

func excerpt(text, at string) string {
	i := strings.Index(text, at)
	if i < 0 {
		return tail(text, 1200)
	}
	s := text[i:]
	if len(s) > 1500 {
		s = s[:1500] + "..."
	}
	return s
}

// ---------------------------------------------------------------------------------------
// Child side

// ChildMain reads a ConcCase from stdin, runs it, prints the result line. A crash of the
// runtime (concurrent map access) kills this process; the parent sees it.
func ChildMain() {
	raw, err := io.ReadAll(os.Stdin)
	res := childResult{}
	emit := func() {
		b, _ := json.Marshal(res)
		fmt.Println(resultMark + string(b))
	}
	if err != nil {
		res.Setup = "stdin: " + err.Error()
		emit()
		return
	}
	var c ConcCase
	if err := json.Unmarshal(raw, &c); err != nil {
		res.Setup = "decode: " + err.Error()
		emit()
		return
	}
	if c.Procs > 0 {
		runtime.GOMAXPROCS(c.Procs)
	}
	fs, err := buildFS(c.Kind, c.Files)
	if err != nil {
		res.Setup = err.Error()
		emit()
		return
	}
	m := buildModel(c.Files)
	exps := make([]expect, len(c.Keys))
	unmodelled := make([]bool, len(c.Keys)) // the request touches a broken layer: consistency only
	agreed := map[int]string{}              // first observation of such a key (all rounds, all callers)
	for i, r := range c.Keys {
		unmodelled[i], _ = m.chain(r)
		if exps[i], err = m.expect(r); err != nil {
			res.Setup = "model: " + err.Error()
			emit()
			return
		}
	}
	var mu sync.Mutex
	mismatch := func(s string) {
		mu.Lock()
		if len(res.Mismatches) < 8 {
			res.Mismatches = append(res.Mismatches, s)
		}
		mu.Unlock()
	}
	for round := 0; round < c.Rounds; round++ {
		p := newProv(c.Kind, c.Cached, fs)
		start := make(chan struct{})
		var wg sync.WaitGroup
		var requests, compared int64
		for g, plan := range c.Plans {
			wg.Add(1)
			go func(g int, plan []int) {
				defer wg.Done()
				type got struct {
					key int
					t   tpl
					err error
				}
				results := make([]got, 0, len(plan))
				<-start
				// phase 1: issue the requests back to back (maximum contention on the provider)
				for _, k := range plan {
					t, err := p.do(c.Keys[k])
					results = append(results, got{k, t, err})
				}
				// phase 2: every template this caller got must be equivalent to the model
				type id struct {
					key int
					p   interface{}
				}
				done := map[id]bool{}
				n := 0
				for _, r := range results {
					if unmodelled[r.key] {
						obs := obsError
						if r.err == nil && r.t.isNil() {
							obs = "<nil template without error>"
						} else if r.err == nil {
							obs = fingerprint(r.t)
						}
						mu.Lock()
						prev, ok := agreed[r.key]
						if !ok {
							agreed[r.key] = obs
						}
						mu.Unlock()
						if ok && prev != obs {
							mismatch(fmt.Sprintf("round %d goroutine %d: %s observed %s, another caller observed %s", round, g, c.Keys[r.key], obs, prev))
						}
						continue
					}
					if r.err != nil || r.t.isNil() {
						mismatch(fmt.Sprintf("round %d goroutine %d: %s returned error %v", round, g, c.Keys[r.key], r.err))
						continue
					}
					k := id{r.key, r.t.ident()}
					if done[k] {
						continue
					}
					done[k] = true
					n++
					if cl, d := compare(r.t, exps[r.key]); cl != "" {
						mismatch(fmt.Sprintf("round %d goroutine %d: %s: %s: %s", round, g, c.Keys[r.key], cl, d))
					}
				}
				mu.Lock()
				requests += int64(len(plan))
				compared += int64(n)
				mu.Unlock()
			}(g, plan)
		}
		close(start)
		wg.Wait()
		res.Rounds++
		res.Requests += requests
		res.Compared += compared
		if len(res.Mismatches) > 0 {
			break
		}
	}
	emit()
}
