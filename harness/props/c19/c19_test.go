package c19

import (
	"encoding/json"
	"os"
	"testing"

	"verif/harness/hx"
)

func TestMain(m *testing.M) { hx.Main(m, "C19") }

// TestProp: sequential file-set cases against the four providers.
func TestProp(t *testing.T) { hx.Check(t, "files", Gen, Exec) }

// TestPropConc: concurrent first use, each case in a child process.
func TestPropConc(t *testing.T) { hx.Check(t, "conc", GenConc, ExecConc) }

// TestPropLoose: consistency-only cases (broken files, same-layer duplicates).
func TestPropLoose(t *testing.T) { hx.Check(t, "loose", GenLoose, ExecLoose) }

// TestHelperChild is the child side of a concurrent case (selected by the parent through
// the environment; skipped otherwise).
func TestHelperChild(t *testing.T) {
	if os.Getenv(childEnv) == "" {
		t.Skip("helper for TestPropConc")
	}
	ChildMain()
}

func TestReplay(t *testing.T) {
	hx.Replay(t, map[string]func(json.RawMessage) (hx.Verdict, error){"files": hx.Exec(Exec), "": hx.Exec(Exec), "conc": hx.Exec(ExecConc), "loose": hx.Exec(ExecLoose)})
}
