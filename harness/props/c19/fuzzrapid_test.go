package c19

import (
	"testing"

	"verif/harness/hx"
)

// Native fuzz targets over the rapid generators (thorough tier): the fuzzer's bytes are the bit
// stream the generator draws from, so coverage feedback steers the case space TestProp samples.
func FuzzFiles(f *testing.F) { hx.FuzzRapid(f, "files", Gen, Exec) }
