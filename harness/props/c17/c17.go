// Package c17: command-line splitting (varutil.ReadArguments / SplitArguments and
// argscope.InjectArgs / InjectString) is total, byte-preserving and reversible for quoted input.
//
// Three case kinds share one call loop around the real ReadArguments:
//
//	grammar  structured commands (arguments as bare / quoted / mixed segments or heredocs,
//	         explicit separator runs) rendered by the reference quoting function; the
//	         expected result comes from the structure itself
//	bytes    a raw byte string (exhaustive enumeration, random strings, native fuzzing);
//	         the independent reference splitter Reference() decides whether the string lies
//	         inside the defined grammar - if so the full comparison applies, otherwise only
//	         the totality clauses
//	inject   an argument list for InjectArgs (direct) and, rendered, for InjectString
package c17

import (
	"encoding/json"
	"fmt"
	"io"
	"runtime/debug"
	"strconv"
	"strings"

	"github.com/goatcms/goatcore/app/scope/argscope"
	"github.com/goatcms/goatcore/app/scope/datascope"
	"github.com/goatcms/goatcore/varutil"
	"verif/harness/hx"
)

// ---------------------------------------------------------------------------------------
// B: a byte string that survives JSON (bytes outside printable ASCII and '%' are %XX).

// B is an arbitrary byte string.
type B string

const hexdigits = "0123456789ABCDEF"

// MarshalJSON percent-encodes everything that is not printable ASCII.
func (b B) MarshalJSON() ([]byte, error) {
	buf := make([]byte, 0, len(b)+8)
	for i := 0; i < len(b); i++ {
		c := b[i]
		if c == '%' || c < 0x20 || c > 0x7e {
			buf = append(buf, '%', hexdigits[c>>4], hexdigits[c&15])
		} else {
			buf = append(buf, c)
		}
	}
	return json.Marshal(string(buf))
}

// UnmarshalJSON reverses MarshalJSON.
func (b *B) UnmarshalJSON(raw []byte) error {
	var s string
	if err := json.Unmarshal(raw, &s); err != nil {
		return err
	}
	out := make([]byte, 0, len(s))
	for i := 0; i < len(s); i++ {
		if s[i] == '%' {
			if i+3 > len(s) {
				return fmt.Errorf("truncated %%XX in %q", s)
			}
			v, err := strconv.ParseUint(s[i+1:i+3], 16, 8)
			if err != nil {
				return fmt.Errorf("bad %%XX in %q", s)
			}
			out = append(out, byte(v))
			i += 2
			continue
		}
		out = append(out, s[i])
	}
	*b = B(out)
	return nil
}

// ---------------------------------------------------------------------------------------
// Case types

// Seg is one segment of an argument: bare (outside quotes; '"' and '\' are rendered
// escaped) or quoted (inside one pair of double quotes; '"' is rendered as \").
type Seg struct {
	Q bool `json:"q,omitempty"`
	S B    `json:"s"`
}

// Here is a heredoc argument: Name=<<Mark NL Lines... NL Mark.
type Here struct {
	Name  B      `json:"name"`
	Mark  string `json:"mark"`
	Lines []B    `json:"lines"`
}

// Arg is one argument together with the separator run rendered before it.
// Sep is a string over 's' (blank), 't' (tab), 'c' (backslash-newline).
type Arg struct {
	Sep  string `json:"sep"`
	Segs []Seg  `json:"segs,omitempty"`
	Here *Here  `json:"here,omitempty"`
}

// Cmd is one command (one logical line).
type Cmd struct {
	Args []Arg  `json:"args"`
	Tail string `json:"tail,omitempty"` // separator run after the last argument
}

// GrammarCase is a list of commands; every command ends with a newline except, when
// NoFinalNL is set, the last one.
type GrammarCase struct {
	Cmds      []Cmd `json:"cmds"`
	NoFinalNL bool  `json:"no_final_nl,omitempty"`
}

// BytesCase is a raw input.
type BytesCase struct {
	In B `json:"in"`
}

// InjArg is one argument of an inject case before the "--" separator.
type InjArg struct {
	Name   B   `json:"name,omitempty"` // "" = positional
	Dashes int `json:"dashes,omitempty"`
	Value  B   `json:"value"`
	Style  int `json:"style,omitempty"` // quoting style for the InjectString path
}

// InjectCase is an argument list for InjectArgs / InjectString.
type InjectCase struct {
	Args   []InjArg `json:"args"`
	HasSep bool     `json:"has_sep,omitempty"`
	After  []B      `json:"after,omitempty"`
}

// ---------------------------------------------------------------------------------------
// Reference quoting function (renderer) and validity of grammar cases

func isBlank(c byte) bool { return c == ' ' || c == '\t' }

// asciiSpace: bytes somebody could reasonably call "blank" when trimming; heredoc
// contents are only generated/accepted with none of them at the trimmed boundary.
func asciiSpace(c byte) bool {
	return c == ' ' || c == '\t' || c == '\n' || c == '\r' || c == '\v' || c == '\f'
}

func isMarkByte(c byte) bool {
	return (c >= 'a' && c <= 'z') || (c >= 'A' && c <= 'Z') || c == '_'
}

func trimBlanks(s string) string { return strings.Trim(s, " \t") }

func renderSep(sb *strings.Builder, sep string) error {
	for i := 0; i < len(sep); i++ {
		switch sep[i] {
		case 's':
			sb.WriteByte(' ')
		case 't':
			sb.WriteByte('\t')
		case 'c':
			sb.WriteString("\\\n")
		default:
			return fmt.Errorf("bad separator token %q", sep[i])
		}
	}
	return nil
}

func sepHasBlank(sep string) bool { return strings.ContainsAny(sep, "st") }

// hereContent returns the heredoc text between the marker lines.
func (h *Here) content() string {
	l := make([]string, len(h.Lines))
	for i, x := range h.Lines {
		l[i] = string(x)
	}
	return strings.Join(l, "\n")
}

func (h *Here) valid() error {
	if len(h.Name) == 0 {
		return fmt.Errorf("heredoc without a name")
	}
	for i := 0; i < len(h.Name); i++ {
		switch c := h.Name[i]; c {
		case ' ', '\t', '\n', '"', '\\', '=', '<':
			return fmt.Errorf("heredoc name byte %q", c)
		}
	}
	if h.Mark == "" {
		return fmt.Errorf("empty marker")
	}
	for i := 0; i < len(h.Mark); i++ {
		if !isMarkByte(h.Mark[i]) {
			return fmt.Errorf("marker byte %q", h.Mark[i])
		}
	}
	if len(h.Lines) == 0 {
		return fmt.Errorf("heredoc with zero content lines (not asserted)")
	}
	for _, l := range h.Lines {
		if strings.Contains(string(l), "\n") {
			return fmt.Errorf("newline inside a heredoc line")
		}
		if strings.HasPrefix(trimBlanks(string(l)), h.Mark) {
			return fmt.Errorf("content line starting with the marker (not asserted)")
		}
	}
	return nil
}

// openBoundary: the blank-trimmed heredoc text is empty or starts/ends with other ASCII
// white space (an empty or CR/VT/FF line at either end). "Trimmed of surrounding blanks"
// does not say whether such lines go too, so the exact text of such an argument is left
// open: it is compared modulo surrounding ASCII white space only (everything else - no
// error, the other arguments, eof, bytes consumed, the next command - is still asserted).
func openBoundary(tb string) bool {
	return tb == "" || asciiSpace(tb[0]) || asciiSpace(tb[len(tb)-1])
}

func trimASCIISpace(s string) string { return strings.Trim(s, " \t\n\r\v\f") }

// value is the argument the statement promises for this Arg; render appends its spelling.
func (a *Arg) value() string {
	if a.Here != nil {
		return string(a.Here.Name) + "=" + trimBlanks(a.Here.content())
	}
	var sb strings.Builder
	for _, s := range a.Segs {
		sb.WriteString(string(s.S))
	}
	return sb.String()
}

func (a *Arg) render(sb *strings.Builder) error {
	if a.Here != nil {
		if len(a.Segs) != 0 {
			return fmt.Errorf("heredoc argument with segments")
		}
		if err := a.Here.valid(); err != nil {
			return err
		}
		sb.WriteString(string(a.Here.Name))
		sb.WriteString("=<<")
		sb.WriteString(a.Here.Mark)
		sb.WriteByte('\n')
		sb.WriteString(a.Here.content())
		sb.WriteByte('\n')
		sb.WriteString(a.Here.Mark)
		return nil
	}
	if len(a.Segs) == 0 {
		return fmt.Errorf("argument without segments")
	}
	val := make([]byte, 0, 16)
	for _, s := range a.Segs {
		if s.Q {
			sb.WriteByte('"')
			for i := 0; i < len(s.S); i++ {
				c := s.S[i]
				switch c {
				case '\\':
					return fmt.Errorf("backslash inside quotes (not asserted)")
				case '\n':
					return fmt.Errorf("newline inside quotes (not asserted)")
				case '"':
					sb.WriteString(`\"`)
				default:
					sb.WriteByte(c)
				}
				val = append(val, c)
			}
			sb.WriteByte('"')
			continue
		}
		if len(s.S) == 0 {
			return fmt.Errorf("empty bare segment")
		}
		for i := 0; i < len(s.S); i++ {
			c := s.S[i]
			switch c {
			case ' ', '\t', '\n':
				return fmt.Errorf("separator byte in a bare segment")
			case '"':
				sb.WriteString(`\"`)
			case '\\':
				sb.WriteString(`\\`)
			case '<':
				if len(val) >= 2 && val[len(val)-2] == '=' && val[len(val)-1] == '<' {
					return fmt.Errorf("bare '<' after '=<' would open a heredoc")
				}
				sb.WriteByte(c)
			default:
				sb.WriteByte(c)
			}
			val = append(val, c)
		}
	}
	return nil
}

// RefCmd is what one ReadArguments call must return: the arguments, the eof flag and the
// number of input bytes consumed once the call has returned.
type RefCmd struct {
	Args []string
	// Open[i] > 0: argument i is a heredoc with an open boundary (see openBoundary); its
	// first Open[i] bytes ("name=") are compared exactly, the rest modulo surrounding
	// ASCII white space.
	Open []int
	EOF  bool
	End  int
}

// Render returns the input text of a grammar case and the expected call results.
func (c *GrammarCase) Render() (string, []RefCmd, error) {
	var sb strings.Builder
	var exp []RefCmd
	for ci := range c.Cmds {
		cmd := &c.Cmds[ci]
		var args []string
		var open []int
		for ai := range cmd.Args {
			a := &cmd.Args[ai]
			if ai > 0 {
				if !sepHasBlank(a.Sep) {
					return "", nil, fmt.Errorf("arguments not separated by a blank")
				}
				if cmd.Args[ai-1].Here != nil && a.Sep[0] == 'c' {
					return "", nil, fmt.Errorf("continuation glued to a heredoc marker")
				}
			}
			if err := renderSep(&sb, a.Sep); err != nil {
				return "", nil, err
			}
			if err := a.render(&sb); err != nil {
				return "", nil, err
			}
			args = append(args, a.value())
			if a.Here != nil && openBoundary(trimBlanks(a.Here.content())) {
				open = append(open, len(a.Here.Name)+1)
			} else {
				open = append(open, 0)
			}
		}
		if n := len(cmd.Args); n > 0 && cmd.Args[n-1].Here != nil && cmd.Tail != "" && cmd.Tail[0] == 'c' {
			return "", nil, fmt.Errorf("continuation glued to a heredoc marker")
		}
		if err := renderSep(&sb, cmd.Tail); err != nil {
			return "", nil, err
		}
		last := ci == len(c.Cmds)-1
		if last && c.NoFinalNL {
			exp = append(exp, RefCmd{Args: args, Open: open, EOF: true, End: sb.Len()})
		} else {
			sb.WriteByte('\n')
			exp = append(exp, RefCmd{Args: args, Open: open, EOF: false, End: sb.Len()})
		}
	}
	if len(exp) == 0 || !exp[len(exp)-1].EOF {
		exp = append(exp, RefCmd{EOF: true, End: sb.Len()})
	}
	return sb.String(), exp, nil
}

// Quote is the reference quoting function for a whole argument value without newlines:
// style 0 quotes as little as possible, style 1 as much as possible. Backslashes always go
// outside quotes (as \\), blanks always inside; a '<' that would follow "=<" goes inside.
func Quote(val string, style int) []Seg {
	if val == "" {
		return []Seg{{Q: true}}
	}
	var segs []Seg
	cur := []byte{}
	curQ := style == 1
	started := false
	flush := func() {
		if started && (curQ || len(cur) > 0) {
			segs = append(segs, Seg{Q: curQ, S: B(cur)})
		}
		cur = []byte{}
		started = false
	}
	for i := 0; i < len(val); i++ {
		c := val[i]
		want := style == 1
		switch {
		case isBlank(c):
			want = true
		case c == '\\':
			want = false
		case c == '<' && i >= 2 && val[i-2] == '=' && val[i-1] == '<':
			want = true
		}
		if started && want != curQ {
			flush()
		}
		if !started {
			curQ = want
			started = true
		}
		cur = append(cur, c)
	}
	flush()
	return segs
}

// ---------------------------------------------------------------------------------------
// Independent reference splitter over raw bytes.

// Reference splits input into the successive ReadArguments results if — and only if —
// the whole input lies inside the grammar the property statement defines:
//
//	command   := item* ( NL | end of input )
//	item      := blank | tab | continuation | argument
//	argument  := ( bare byte | \\ | \" | "quoted" )+            adjacent pieces form one argument
//	           | name=<<MARK NL line (NL line)* NL MARK          followed by blank, NL or end
//	quoted    := any bytes except \ and NL, with \" for a quote
//
// Rejected (only totality is asserted for such inputs): a backslash before anything but
// newline, backslash or quote; a backslash inside quotes that is not \"; a newline or the end
// of input inside quotes; a continuation directly between two argument pieces; heredocs
// without a name, with a non-plain name, with a content line whose trimmed form starts with
// the marker, or without a terminator. A heredoc whose blank-trimmed content is empty or
// starts/ends with other ASCII white space is accepted with an open text (RefCmd.Open).
func Reference(in string) ([]RefCmd, bool) {
	var cmds []RefCmd
	i := 0
	for {
		cmd, ok := refCommand(in, i)
		if !ok {
			return nil, false
		}
		cmds = append(cmds, cmd)
		if cmd.EOF {
			return cmds, true
		}
		i = cmd.End
	}
}

func refCommand(in string, i int) (RefCmd, bool) {
	var (
		args  []string
		opens []int
		cur   []byte
		open  bool       // an argument is being collected
		plain = true     // it consists of unescaped bare bytes only
		cont  bool       // a continuation directly followed an argument piece
		bad   = RefCmd{} // returned with ok=false
	)
	closeArg := func() {
		if open {
			args = append(args, string(cur))
			opens = append(opens, 0)
		}
		cur = cur[:0]
		open = false
		plain = true
		cont = false
	}
	for {
		if i == len(in) {
			closeArg()
			return RefCmd{Args: args, Open: opens, EOF: true, End: i}, true
		}
		c := in[i]
		switch {
		case c == '\n':
			closeArg()
			return RefCmd{Args: args, Open: opens, EOF: false, End: i + 1}, true
		case isBlank(c):
			closeArg()
			i++
		case c == '\\':
			if i+1 == len(in) {
				return bad, false
			}
			switch d := in[i+1]; d {
			case '\n':
				if open {
					cont = true
				}
			case '\\', '"':
				if cont {
					return bad, false
				}
				open, plain = true, false
				cur = append(cur, d)
			default:
				return bad, false
			}
			i += 2
		case c == '"':
			if cont {
				return bad, false
			}
			j := i + 1
			for {
				if j == len(in) {
					return bad, false
				}
				e := in[j]
				if e == '"' {
					break
				}
				if e == '\n' {
					return bad, false
				}
				if e == '\\' {
					if j+1 < len(in) && in[j+1] == '"' {
						cur = append(cur, '"')
						j += 2
						continue
					}
					return bad, false
				}
				cur = append(cur, e)
				j++
			}
			open, plain = true, false
			i = j + 1
		default:
			if cont {
				return bad, false
			}
			if c == '<' && open && len(cur) >= 2 && cur[len(cur)-2] == '=' && cur[len(cur)-1] == '<' {
				if !plain || len(cur) == 2 {
					return bad, false
				}
				name := string(cur[:len(cur)-2])
				if strings.ContainsAny(name, "=<") {
					return bad, false
				}
				val, next, ok := refHeredoc(in, i+1)
				if !ok {
					return bad, false
				}
				args = append(args, name+"="+val)
				if openBoundary(val) {
					opens = append(opens, len(name)+1)
				} else {
					opens = append(opens, 0)
				}
				cur = cur[:0]
				open, plain, cont = false, true, false
				i = next
				continue
			}
			open = true
			cur = append(cur, c)
			i++
		}
	}
}

// refHeredoc parses MARK NL content NL MARK starting right after "=<<"; it returns the
// trimmed content and the position after the closing marker.
func refHeredoc(in string, i int) (string, int, bool) {
	j := i
	for j < len(in) && isMarkByte(in[j]) {
		j++
	}
	if j == i || j == len(in) || in[j] != '\n' {
		return "", 0, false
	}
	mark := in[i:j]
	body := j + 1
	p := body
	for {
		q := strings.IndexByte(in[p:], '\n')
		line := in[p:]
		if q >= 0 {
			line = in[p : p+q]
		}
		if strings.HasPrefix(trimBlanks(line), mark) {
			if p == body || !strings.HasPrefix(line, mark) {
				return "", 0, false
			}
			if rest := line[len(mark):]; rest != "" && !isBlank(rest[0]) {
				return "", 0, false
			}
			return trimBlanks(in[body : p-1]), p + len(mark), true
		}
		if q < 0 {
			return "", 0, false
		}
		p += q + 1
	}
}

// ---------------------------------------------------------------------------------------
// The call loop around the real code

type runaway struct{}

// reader hands out the input and notices an implementation that keeps reading after the
// end was reported (non-termination made observable without a clock).
type reader struct {
	s    string
	pos  int
	eofs int
}

func (r *reader) Read(p []byte) (int, error) {
	if len(p) == 0 {
		return 0, nil
	}
	if r.pos >= len(r.s) {
		r.eofs++
		if r.eofs > 1000 {
			panic(runaway{})
		}
		return 0, io.EOF
	}
	n := copy(p, r.s[r.pos:])
	r.pos += n
	return n, nil
}

// matchArgs compares the returned arguments with an expectation, honouring Open.
func matchArgs(got []string, e RefCmd) bool {
	if len(got) != len(e.Args) {
		return false
	}
	for i := range got {
		if n := e.Open[i]; n > 0 {
			if len(got[i]) < n || got[i][:n] != e.Args[i][:n] || trimASCIISpace(got[i][n:]) != trimASCIISpace(e.Args[i][n:]) {
				return false
			}
			continue
		}
		if got[i] != e.Args[i] {
			return false
		}
	}
	return true
}

func equalArgs(a, b []string) bool {
	if len(a) != len(b) {
		return false
	}
	for i := range a {
		if a[i] != b[i] {
			return false
		}
	}
	return true
}

func clip(s string) string {
	if len(s) > 400 {
		return s[:400] + "..."
	}
	return s
}

// guard converts a panic into a violation with a reproducible text.
func guard(what string, f func() hx.Verdict) (v hx.Verdict) {
	defer func() {
		if r := recover(); r != nil {
			v = hx.Fail("panic", "%s: panicked: %v [%s]", clip(what), r, panicSite())
		}
	}()
	return f()
}

// panicSite lists the goatcore source lines on the stack of a recovered panic.
func panicSite() string {
	var sites []string
	for _, l := range strings.Split(string(debug.Stack()), "\n") {
		l = strings.TrimSpace(l)
		if k := strings.Index(l, "/repo/"); k >= 0 && strings.Contains(l, ".go:") {
			l = l[k+len("/repo/"):]
			if sp := strings.IndexByte(l, ' '); sp > 0 {
				l = l[:sp]
			}
			sites = append(sites, l)
		}
	}
	return strings.Join(sites, " < ")
}

// runCalls calls ReadArguments on one reader until eof or error. exp == nil: only the
// totality clauses; otherwise every call is compared with exp.
func runCalls(in string, exp []RefCmd) (v hx.Verdict) {
	defer func() {
		if r := recover(); r != nil {
			if _, ok := r.(runaway); ok {
				v = hx.Fail("termination", "ReadArguments kept reading 1000 times after the end of input %s", clip(strconv.Quote(in)))
				return
			}
			// deterministic text (no addresses, no goroutine ids): rapid only shrinks
			// failures whose message is reproducible
			v = hx.Fail("panic", "input %s: ReadArguments panicked: %v [%s]", clip(strconv.Quote(in)), r, panicSite())
		}
	}()
	r := &reader{s: in}
	fail := func(call int, clause, format string, a ...interface{}) hx.Verdict {
		f := hx.Fail(clause, "input %s, call %d: %s", clip(strconv.Quote(in)), call, fmt.Sprintf(format, a...))
		f.Step = call
		return f
	}
	for call := 0; call <= len(in)+1; call++ {
		start := r.pos
		args, eof, err := varutil.ReadArguments(r)
		if err == nil && eof && r.pos != len(in) {
			return fail(call, "eof", "eof reported with %d of %d bytes consumed", r.pos, len(in))
		}
		if err == nil && !eof && (r.pos == start || in[r.pos-1] != '\n') {
			return fail(call, "stops-at-newline", "returned a command (eof=false) after consuming bytes %d..%d, not ending at a newline", start, r.pos)
		}
		if exp != nil {
			if call >= len(exp) {
				return fail(call, "next-command", "returned %q eof=%v err=%v but the input has only %d commands", args, eof, err, len(exp))
			}
			e := exp[call]
			if err != nil {
				return fail(call, "error-on-defined-input", "error %v, expected arguments %q", err, e.Args)
			}
			if !matchArgs(args, e) {
				return fail(call, "args", "got %q (% x), expected %q (% x) (open-boundary heredocs %v)", args, args, e.Args, e.Args, e.Open)
			}
			if eof != e.EOF {
				return fail(call, "eof", "eof=%v, expected %v", eof, e.EOF)
			}
			if r.pos != e.End {
				return fail(call, "stops-at-newline", "consumed %d bytes, the command ends at %d", r.pos, e.End)
			}
		}
		if err != nil || eof {
			return hx.Pass()
		}
	}
	return fail(len(in)+2, "termination", "more successful calls than input bytes")
}

// nonTrivialBytes applies the DESIGN rule to a raw input: a quote, a backslash, a heredoc
// opener, a non-ASCII byte, or a second command (bytes after a newline).
func nonTrivialBytes(in string) bool {
	for i := 0; i < len(in); i++ {
		c := in[i]
		if c == '"' || c == '\\' || c >= 0x80 || (c == '\n' && i+1 < len(in)) {
			return true
		}
	}
	return strings.Contains(in, "=<<")
}

func hasNonASCII(s string) bool {
	for i := 0; i < len(s); i++ {
		if s[i] >= 0x80 {
			return true
		}
	}
	return false
}

// ExecGrammar renders the case and compares every ReadArguments call with the structure.
func ExecGrammar(c GrammarCase) hx.Verdict {
	in, exp, err := c.Render()
	if err != nil {
		v := hx.Pass()
		v.Inconclusive = true
		v.Label("invalid-case")
		return v
	}
	v := runCalls(in, exp)
	v.NonTrivial = nonTrivialBytes(in) || len(c.Cmds) >= 2
	labels := map[string]bool{}
	if len(c.Cmds) >= 2 {
		labels["second-command"] = true
	}
	if c.NoFinalNL {
		labels["no-final-newline"] = true
	}
	if hasNonASCII(in) {
		labels["non-ascii"] = true
	}
	for ci := range c.Cmds {
		cmd := &c.Cmds[ci]
		if len(cmd.Args) == 0 {
			labels["empty-command"] = true
		}
		if strings.Contains(cmd.Tail, "c") {
			labels["continuation"] = true
		}
		for ai := range cmd.Args {
			a := &cmd.Args[ai]
			if strings.Contains(a.Sep, "c") {
				labels["continuation"] = true
				if !strings.ContainsAny(a.Sep[strings.LastIndex(a.Sep, "c"):], "st") {
					labels["continuation-then-arg"] = true
				}
			}
			if a.Here != nil {
				labels["heredoc"] = true
				if ai+1 < len(cmd.Args) {
					labels["heredoc-then-more"] = true
				}
				if hasNonASCII(a.Here.content()) {
					labels["heredoc-non-ascii"] = true
				}
				if t := a.Here.content(); t != trimBlanks(t) {
					labels["heredoc-trimmed"] = true
				}
				for l := range hereLabels(a.Here) {
					labels[l] = true
				}
				continue
			}
			nq, nb := 0, 0
			for si, s := range a.Segs {
				if s.Q {
					nq++
					if strings.ContainsAny(string(s.S), " \t") {
						labels["quoted-blank"] = true
					}
					if strings.Contains(string(s.S), `"`) {
						labels["escaped-quote-in-quotes"] = true
					}
					if len(s.S) == 0 && len(a.Segs) == 1 {
						labels["empty-arg"] = true
					}
				} else {
					nb++
					if strings.ContainsAny(string(s.S), `"\`) {
						labels["escape-outside-quotes"] = true
						if si == 0 && (s.S[0] == '"' || s.S[0] == '\\') {
							labels["arg-starts-with-escape"] = true
						}
					}
				}
			}
			switch {
			case nq > 0 && nb > 0 || nq > 1:
				labels["mixed-arg"] = true
			case nq == 1:
				labels["quoted-arg"] = true
			default:
				labels["bare-word"] = true
			}
		}
	}
	for l := range labels {
		v.Label(l)
	}
	return v
}

// hereLabels classifies the content lines of a heredoc relative to its marker.
func hereLabels(h *Here) map[string]bool {
	out := map[string]bool{}
	if openBoundary(trimBlanks(h.content())) {
		out["heredoc-open-text"] = true
	}
	if len(h.Mark) >= 3 && (strings.HasPrefix(h.Mark[1:], h.Mark[:1]) || strings.HasPrefix(h.Mark[2:], h.Mark[:1])) {
		out["heredoc-overlapping-marker"] = true
	}
	for i, l := range h.Lines {
		s := string(l)
		last := i == len(h.Lines)-1 && i > 0
		switch {
		case s == "":
			out["heredoc-empty-line"] = true
			if last {
				out["heredoc-empty-last-line"] = true
			}
		case len(s) < len(h.Mark) && strings.HasPrefix(h.Mark, s):
			out["heredoc-marker-prefix-line"] = true
			if last {
				out["heredoc-marker-prefix-last-line"] = true
			}
		case strings.Contains(s, h.Mark):
			out["heredoc-marker-inside-line"] = true
		case len(s) > 0 && s[0] == h.Mark[0]:
			out["heredoc-marker-prefix-then-other"] = true
		}
	}
	return out
}

// ExecBytes runs a raw input: totality always, full comparison when the reference
// splitter accepts the input.
func ExecBytes(c BytesCase) hx.Verdict {
	in := string(c.In)
	exp, ok := Reference(in)
	if !ok {
		exp = nil
	}
	v := runCalls(in, exp)
	v.NonTrivial = nonTrivialBytes(in)
	if ok {
		v.Label("bytes-in-grammar")
		if strings.Contains(in, "=<<") {
			multi, openText := false, false
			for _, e := range exp {
				for i, a := range e.Args {
					// only a heredoc argument can contain a newline
					if strings.Contains(a, "\n") || e.Open[i] > 0 {
						multi = true
					}
					if e.Open[i] > 0 {
						openText = true
					}
				}
			}
			v.Label("bytes-heredoc-in-grammar")
			if multi {
				v.Label("bytes-heredoc-multiline")
			}
			if openText {
				v.Label("bytes-heredoc-open-text")
			}
		}
	} else {
		v.Label("bytes-outside-grammar")
	}
	return v
}

// ---------------------------------------------------------------------------------------
// InjectArgs / InjectString

func (a *InjArg) text() string {
	if a.Name == "" {
		return string(a.Value)
	}
	return strings.Repeat("-", a.Dashes) + string(a.Name) + "=" + string(a.Value)
}

func (c *InjectCase) valid() error {
	seen := map[string]bool{}
	for _, a := range c.Args {
		if a.Name == "" {
			if strings.Contains(string(a.Value), "=") || strings.HasPrefix(string(a.Value), "-") {
				return fmt.Errorf("positional argument %q is not plainly positional", a.Value)
			}
			continue
		}
		n := string(a.Name)
		if strings.Contains(n, "=") || n[0] == '-' || n[0] == '$' || seen[n] {
			return fmt.Errorf("name %q", n)
		}
		seen[n] = true
		if a.Dashes < 0 || a.Dashes > 2 {
			return fmt.Errorf("dashes %d", a.Dashes)
		}
		if strings.Contains(string(a.Value), "=") {
			return fmt.Errorf("'=' inside a value (not asserted)")
		}
	}
	if !c.HasSep && len(c.After) > 0 {
		return fmt.Errorf("arguments after a missing separator")
	}
	return nil
}

func checkScope(scp interface{ Value(interface{}) interface{} }, c *InjectCase, via string) hx.Verdict {
	pos := 0
	named := map[string]bool{}
	for i, a := range c.Args {
		if a.Name == "" {
			key := "$" + strconv.Itoa(pos)
			got, ok := scp.Value(key).(string)
			if !ok || got != string(a.Value) {
				f := hx.Fail("positional", "%s: %s = %#v, expected %q (argument %d of %q)", via, key, scp.Value(key), a.Value, i, c.texts())
				f.Step = i
				return f
			}
			pos++
			continue
		}
		named[string(a.Name)] = true
		got, ok := scp.Value(string(a.Name)).(string)
		if !ok || got != string(a.Value) {
			f := hx.Fail("named-key", "%s: key %q = %#v, expected %q (argument %d of %q)", via, a.Name, scp.Value(string(a.Name)), a.Value, i, c.texts())
			f.Step = i
			return f
		}
	}
	if extra := scp.Value("$" + strconv.Itoa(pos)); extra != nil {
		return hx.Fail("positional", "%s: $%d = %#v but there are only %d positional arguments in %q", via, pos, extra, pos, c.texts())
	}
	if c.HasSep {
		got, ok := scp.Value("--").([]string)
		want := make([]string, len(c.After))
		for i, a := range c.After {
			want[i] = string(a)
		}
		if !ok || !equalArgs(got, want) {
			return hx.Fail("dashdash", "%s: value of \"--\" = %#v, expected %q (%q)", via, scp.Value("--"), want, c.texts())
		}
		for _, a := range c.After {
			s := strings.TrimLeft(string(a), "-")
			if k := strings.IndexByte(s, '='); k > 0 && !named[s[:k]] && s[0] != '$' {
				if v := scp.Value(s[:k]); v != nil {
					return hx.Fail("dashdash", "%s: argument %q after \"--\" was mapped to key %q (%q)", via, a, s[:k], c.texts())
				}
			}
		}
	}
	return hx.Pass()
}

func (c *InjectCase) texts() []string {
	var out []string
	for i := range c.Args {
		out = append(out, c.Args[i].text())
	}
	if c.HasSep {
		out = append(out, "--")
		for _, a := range c.After {
			out = append(out, string(a))
		}
	}
	return out
}

// renderLine renders the whole list as one command line through the reference quoting
// function; ok is false when some argument contains a newline.
func (c *InjectCase) renderLine() (string, bool) {
	var sb strings.Builder
	texts := c.texts()
	for i, t := range texts {
		if strings.Contains(t, "\n") {
			return "", false
		}
		style := 0
		if i < len(c.Args) {
			style = c.Args[i].Style & 1
		}
		if i > 0 {
			sb.WriteByte(' ')
		}
		a := Arg{Segs: Quote(t, style)}
		if err := a.render(&sb); err != nil {
			return "", false
		}
	}
	return sb.String(), true
}

// ExecInject checks the key / $i / "--" mapping directly and through InjectString.
func ExecInject(c InjectCase) hx.Verdict {
	if err := c.valid(); err != nil {
		v := hx.Pass()
		v.Inconclusive = true
		v.Label("invalid-case")
		return v
	}
	v := guard(fmt.Sprintf("arguments %q", c.texts()), func() hx.Verdict {
		scp := datascope.New(make(map[interface{}]interface{}))
		if err := argscope.InjectArgs(scp, c.texts()...); err != nil {
			return hx.Fail("inject-error", "InjectArgs(%q): %v", c.texts(), err)
		}
		if r := checkScope(scp, &c, "InjectArgs"); !r.OK {
			return r
		}
		if line, ok := c.renderLine(); ok {
			scp = datascope.New(make(map[interface{}]interface{}))
			if err := argscope.InjectString(scp, line); err != nil {
				return hx.Fail("inject-error", "InjectString(%s): %v", strconv.Quote(line), err)
			}
			if r := checkScope(scp, &c, "InjectString("+clip(strconv.Quote(line))+")"); !r.OK {
				return r
			}
		}
		return hx.Pass()
	})
	npos, nnamed := 0, 0
	for _, a := range c.Args {
		if a.Name == "" {
			npos++
		} else {
			nnamed++
			if a.Dashes > 0 {
				v.Label("inject-dashed-name")
			}
		}
	}
	if npos >= 2 && nnamed >= 1 {
		v.Label("inject-interleaved")
	}
	if c.HasSep {
		v.Label("inject-dashdash")
	}
	if _, ok := c.renderLine(); ok {
		v.Label("inject-via-string")
	}
	// the DESIGN rule speaks about inputs of the splitter; for argument lists the
	// analogous rule: both kinds of argument occur, or the list went through quoting
	// with something to quote.
	line, _ := c.renderLine()
	v.NonTrivial = (npos >= 1 && nnamed >= 1) || nonTrivialBytes(line)
	return v
}
