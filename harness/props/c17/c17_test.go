package c17

import (
	"encoding/json"
	"fmt"
	"os"
	"path/filepath"
	"reflect"
	"strconv"
	"strings"
	"sync/atomic"
	"testing"

	"pgregory.net/rapid"
	"verif/harness/hx"
)

// fuzzStat is the driver's statistics path inside a native-fuzz worker process (workers
// must not overwrite the coordinator's statistics file; they leave a count file instead).
var fuzzStat string

func isFuzzWorker() bool {
	for _, a := range os.Args[1:] {
		if strings.HasPrefix(a, "-test.fuzzworker") {
			return true
		}
	}
	return false
}

func TestMain(m *testing.M) {
	if isFuzzWorker() {
		fuzzStat = os.Getenv("VERIF_STATS")
		os.Unsetenv("VERIF_STATS")
	}
	hx.Main(m, "C17")
}

func TestPropGrammar(t *testing.T) { hx.Check(t, "grammar", GenGrammar, ExecGrammar) }
func TestPropBytes(t *testing.T)   { hx.Check(t, "bytes", GenBytes, ExecBytes) }
func TestPropInject(t *testing.T)  { hx.Check(t, "inject", GenInject, ExecInject) }
func TestPropLoop(t *testing.T)    { hx.Check(t, "loop", GenLoop, ExecLoop) }

// TestEnum: every string up to the bound over the alphabet of significant bytes, split
// among the shards by index. Strings longer than 6 are counted but not hashed (tens of
// millions of hashes would not fit the evidence merge); they are distinct by construction.
func TestEnum(t *testing.T) {
	maxLen := hx.EnvInt("VERIF_C17_ENUM_LEN", 6)
	if hx.Thorough() {
		maxLen = hx.EnvInt("VERIF_C17_ENUM_LEN", 8)
	}
	shard, nshards := hx.Shard()
	k := len(EnumAlphabet)
	var idx, done, bulkNonTrivial int64
	buf := make([]byte, maxLen)
	for l := 0; l <= maxLen; l++ {
		total := int64(1)
		for i := 0; i < l; i++ {
			total *= int64(k)
		}
		for n := int64(0); n < total; n++ {
			idx++
			if int((idx-1)%int64(nshards)) != shard {
				continue
			}
			x := n
			for i := l - 1; i >= 0; i-- {
				buf[i] = EnumAlphabet[x%int64(k)]
				x /= int64(k)
			}
			c := BytesCase{In: B(buf[:l])}
			done++
			if l <= 6 {
				if !hx.One(t, "bytes", c, ExecBytes) {
					return
				}
				continue
			}
			v := ExecBytes(c)
			if !v.OK {
				hx.One(t, "bytes", c, ExecBytes)
				return
			}
			if v.NonTrivial {
				bulkNonTrivial++
				v.NonTrivial = false
			}
			hx.Record("bytes", c, v)
		}
	}
	hx.AddExhaustive(hx.Exhaustive{What: fmt.Sprintf("all byte strings of length <= %d (shard %d of %d)", maxLen, shard, nshards),
		Alphabet: "blank tab newline quote backslash = < a 0xC3", Bound: "length <= " + strconv.Itoa(maxLen), Count: done})
	if bulkNonTrivial > 0 {
		hx.AddCounter("enum_nontrivial_len7plus_not_hashed", bulkNonTrivial)
		hx.Note("enumerated strings of length >= 7 are counted in evaluations and in counter enum_nontrivial_len7plus_not_hashed but not in distinct_nontrivial")
	}
}

// TestEnumHeredoc: every heredoc body up to the bound over {A, B, NL, blank, x} for the
// markers AB, AAB and ABAB, followed by an argument on the marker line and a next command.
func TestEnumHeredoc(t *testing.T) {
	maxLen := hx.EnvInt("VERIF_C17_HEREDOC_LEN", 6)
	if hx.Thorough() {
		maxLen = hx.EnvInt("VERIF_C17_HEREDOC_LEN", 9)
	}
	shard, nshards := hx.Shard()
	k := int64(len(HereEnumAlphabet))
	var idx, done, bulkNonTrivial int64
	buf := make([]byte, maxLen)
	for _, mark := range HereEnumMarkers {
		for l := 0; l <= maxLen; l++ {
			total := int64(1)
			for i := 0; i < l; i++ {
				total *= k
			}
			for n := int64(0); n < total; n++ {
				idx++
				if int((idx-1)%int64(nshards)) != shard {
					continue
				}
				x := n
				for i := l - 1; i >= 0; i-- {
					buf[i] = HereEnumAlphabet[x%k]
					x /= k
				}
				c := BytesCase{In: B(HereEnumInput(mark, buf[:l]))}
				done++
				if l <= 7 {
					if !hx.One(t, "bytes", c, ExecBytes) {
						return
					}
					continue
				}
				v := ExecBytes(c)
				if !v.OK {
					hx.One(t, "bytes", c, ExecBytes)
					return
				}
				if v.NonTrivial {
					bulkNonTrivial++
					v.NonTrivial = false
				}
				hx.Record("bytes", c, v)
			}
		}
	}
	hx.AddExhaustive(hx.Exhaustive{What: fmt.Sprintf("k=<<M NL body NL M t NL n x NL for M in %v and all bodies of length <= %d (shard %d of %d)", HereEnumMarkers, maxLen, shard, nshards),
		Alphabet: "A B newline blank x", Bound: "body length <= " + strconv.Itoa(maxLen), Count: done})
	if bulkNonTrivial > 0 {
		hx.AddCounter("enum_heredoc_nontrivial_len8plus_not_hashed", bulkNonTrivial)
	}
}

// seeds of the native fuzz target: the seven lines of varutil/arguments_test.go and
// hostile constants.
var fuzzSeeds = []string{
	"\t \n \t\t",
	"",
	`   v1 path=my/path numbers="12 \"12\"" "--some=true true" backslash=\\ quotationMarks=\"   `,
	"   command arg1 \\\n\t\targ2\n\t\tskipped line   ",
	"   v1\\\n\t\tpath=my/path \\\n\t\tnumbers=\"12 \\\\\"12\\\\\"\" \\\n\t\t \"--some=true true\"\\\n     quotationMarks=\\\"   ",
	"   v1 path=<<EOF\n\t\tSome\n\t\tMultiline\n\t\targument\nEOF",
	"   v1 path=<<EOF\n\t\tSome\n\t\tMultiline\n\t\targument\nEOF desc=<<EOFD\nSome\ndesc\nEOFD",
	`\a`, `x \a`, "\xff", "a\xc3\xa9b \xff\xfe", `\`, `"`, `"\`, `a"`, "\\\na", "a \\\nb", "a=<<", "a=<<E", "a=<<E\n", "a=<<E\nE", "a=<<E\nx\nE",
	"=<<E\nx\nE", "a=<<1\n", "a=<<EOF\nx\nEO\nEOF t\nn\n", "a=<<EOF\nx\n\nEOF\nn\n", "a=<<ABAB\nAB\nABA\nABAB", "a=<<E\nx\nEE\nE\n", "a=<\\<E", "\"a=<\"<E\nx\nE", "a\nb\nc", "a\r\nb", "\x00", "--\n-- --", "\"\"", "\"\" \"\"\n\"\"",
}

// FuzzSplit is the native fuzz target (thorough tier): raw bytes through ExecBytes.
func FuzzSplit(f *testing.F) {
	for _, s := range fuzzSeeds {
		f.Add([]byte(s))
	}
	var execs int64
	f.Cleanup(func() {
		if fuzzStat != "" { // worker: leave the number of executions for the coordinator
			os.WriteFile(fmt.Sprintf("%s.fuzzw.%d", fuzzStat, os.Getpid()), []byte(strconv.FormatInt(atomic.LoadInt64(&execs), 10)), 0644)
			return
		}
		if p := os.Getenv("VERIF_STATS"); p != "" {
			files, _ := filepath.Glob(p + ".fuzzw.*")
			var sum int64
			for _, fn := range files {
				if b, err := os.ReadFile(fn); err == nil {
					n, _ := strconv.ParseInt(strings.TrimSpace(string(b)), 10, 64)
					sum += n
				}
				os.Remove(fn)
			}
			if len(files) > 0 {
				hx.AddCounter("native_fuzz_worker_execs", sum)
				hx.Note("native fuzzing ran in %d worker processes; their executions are in counter native_fuzz_worker_execs, not in evaluations", len(files))
			}
		}
	})
	f.Fuzz(func(t *testing.T, data []byte) {
		if len(data) > 1<<12 {
			return
		}
		atomic.AddInt64(&execs, 1)
		c := BytesCase{In: B(data)}
		v := ExecBytes(c)
		if fuzzStat == "" {
			hx.Record("bytes", c, v)
		}
		if !v.OK {
			hx.ReportFailure("bytes", c, v)
			t.Fatalf("VIOLATION clause=%s step=%d: %s", v.Clause, v.Step, v.Detail)
		}
	})
}

func TestReplay(t *testing.T) {
	hx.Replay(t, map[string]func(json.RawMessage) (hx.Verdict, error){
		"grammar": hx.Exec(ExecGrammar), "bytes": hx.Exec(ExecBytes), "inject": hx.Exec(ExecInject), "loop": hx.Exec(ExecLoop)})
}

// TestSelf checks the harness against itself (no goatcore code involved): every generated
// grammar case is valid, the independent reference splitter accepts its rendering and
// derives the same expectation as the structure, inject lines are inside the grammar, and
// the case encodings survive JSON.
func TestSelf(t *testing.T) {
	rapid.Check(t, func(rt *rapid.T) {
		c := GenGrammar(rt)
		in, exp, err := c.Render()
		if err != nil {
			rt.Fatalf("generated an invalid case: %v", err)
		}
		ref, ok := Reference(in)
		if !ok {
			rt.Fatalf("reference splitter rejects %q", in)
		}
		if len(ref) != len(exp) {
			rt.Fatalf("%q: %d vs %d commands\n%#v\n%#v", in, len(ref), len(exp), ref, exp)
		}
		for i := range ref {
			if !equalArgs(ref[i].Args, exp[i].Args) || !reflect.DeepEqual(ref[i].Open, exp[i].Open) || ref[i].EOF != exp[i].EOF || ref[i].End != exp[i].End {
				rt.Fatalf("%q: command %d: reference %#v, structure %#v", in, i, ref[i], exp[i])
			}
		}
		raw, _ := json.Marshal(c)
		var back GrammarCase
		if err := json.Unmarshal(raw, &back); err != nil || !reflect.DeepEqual(normalise(c), normalise(back)) {
			rt.Fatalf("JSON round trip: %v\n%s", err, raw)
		}
		ic := GenInject(rt)
		if err := ic.valid(); err != nil {
			rt.Fatalf("invalid inject case: %v", err)
		}
		line, ok := ic.renderLine()
		if !ok {
			rt.Fatalf("inject case not renderable: %q", ic.texts())
		}
		ref, ok = Reference(line)
		if !ok || !equalArgs(ref[0].Args, ic.texts()) {
			rt.Fatalf("inject line %q: reference %v %#v, expected %q", line, ok, ref, ic.texts())
		}
	})
}

func normalise(c GrammarCase) string {
	in, exp, _ := c.Render()
	return fmt.Sprintf("%q %#v", in, exp)
}
