package c17

import (
	"strconv"
	"strings"

	"pgregory.net/rapid"
	"verif/harness/hx"
)

// ---------------------------------------------------------------------------------------
// byte material

const plainBytes = "abcxyzEOF019/._-:,+@#~"

var utf8Pieces = []string{"é", "ß", "ÿ", "中", "😀", "\u00a0", "\u0085"}

var loneHigh = []byte{0x80, 0x85, 0xA0, 0xC3, 0xE2, 0xF0, 0xFE, 0xFF}

// genBytes appends 1..4 bytes of one class. blank/quote/backslash/newline are produced
// only through the "significant" class so that callers can filter them.
func genBytes(rt *rapid.T, dst []byte, allow func(byte) bool) []byte {
	put := func(c byte) {
		if allow(c) {
			dst = append(dst, c)
		} else {
			dst = append(dst, 'a')
		}
	}
	switch hx.Uniform(rt, 9, "class") {
	case 0, 1, 2:
		put(plainBytes[hx.Uniform(rt, len(plainBytes), "plain")])
	case 3, 4:
		const sig = "\"\\=< \t\"\\=<"
		put(sig[hx.Uniform(rt, len(sig), "sig")])
	case 5:
		if rapid.Bool().Draw(rt, "lonepick") {
			put(loneHigh[hx.Uniform(rt, len(loneHigh), "lone")])
		} else {
			put(byte(0x80 + hx.Uniform(rt, 0x80, "high")))
		}
	case 6:
		for _, c := range []byte(utf8Pieces[hx.Uniform(rt, len(utf8Pieces), "utf8")]) {
			put(c)
		}
	case 7:
		c := byte(1 + hx.Uniform(rt, 0x1f, "ctl"))
		if c == '\t' || c == '\n' {
			c = 0x7f
		}
		put(c)
	default:
		c := byte(1 + hx.Uniform(rt, 0xff, "any"))
		if c == '\n' {
			c = '\r'
		}
		put(c)
	}
	return dst
}

func allowBare(c byte) bool   { return c != ' ' && c != '\t' && c != '\n' }
func allowQuoted(c byte) bool { return c != '\\' && c != '\n' }
func allowLine(c byte) bool   { return c != '\n' }

func genRun(rt *rapid.T, min, max int, allow func(byte) bool) []byte {
	n := rapid.IntRange(min, max).Draw(rt, "len")
	var out []byte
	for len(out) < n {
		out = genBytes(rt, out, allow)
	}
	return out
}

// genSep draws a separator run over s/t/c. needBlank: at least one blank; blankFirst: a
// non-empty run must start with a blank (after a heredoc marker).
func genSep(rt *rapid.T, needBlank, blankFirst bool) string {
	n := rapid.IntRange(0, 4).Draw(rt, "seplen")
	var sb strings.Builder
	for i := 0; i < n; i++ {
		switch k := hx.Uniform(rt, 10, "septok"); {
		case k < 5:
			sb.WriteByte('s')
		case k < 7:
			sb.WriteByte('t')
		default:
			sb.WriteByte('c')
		}
	}
	s := sb.String()
	if needBlank && !sepHasBlank(s) {
		if rapid.Bool().Draw(rt, "blankpos") {
			s = s + "s"
		} else {
			s = "s" + s
		}
	}
	if blankFirst && s != "" && s[0] == 'c' {
		s = "s" + s
	}
	return s
}

var marks = []string{"EOF", "E", "EOFD", "MARK", "_", "end_x", "Zz", "ABAB", "AAB", "EOF", "ABAB"}

// genHereLine draws one content line. Besides random bytes it produces the lines a
// terminator matcher has to get right: proper prefixes of the marker (also as the last line,
// directly before the real terminator), the marker inside a line, a prefix of the marker
// followed by something else, empty and blank-only lines.
func genHereLine(rt *rapid.T, mark string) []byte {
	switch k := hx.Uniform(rt, 12, "linekind"); {
	case k < 5:
		return genRun(rt, 0, 8, allowLine)
	case k < 8: // proper prefix of the marker (the empty one included)
		return []byte(mark[:hx.Uniform(rt, len(mark), "prefixlen")])
	case k < 9: // the marker not at the line start
		pre := []string{".", "x ", "é", mark[:len(mark)-1], "="}
		return []byte(pre[hx.Uniform(rt, len(pre), "pre")] + mark + []string{"", " ", "x"}[hx.Uniform(rt, 3, "post")])
	case k < 10: // a prefix of the marker, then something else
		n := hx.Uniform(rt, len(mark), "prefixlen")
		return append([]byte(mark[:n]), genRun(rt, 1, 3, func(c byte) bool { return c != '\n' && c != mark[n] })...)
	case k < 11:
		return nil
	default:
		return []byte([]string{" ", "\t", "  \t"}[hx.Uniform(rt, 3, "blankline")])
	}
}

func genHere(rt *rapid.T) *Here {
	h := &Here{Mark: marks[hx.Uniform(rt, len(marks), "mark")]}
	name := strings.Repeat("-", hx.Uniform(rt, 3, "dashes"))
	const nb = "abcnpqv019_."
	for i, n := 0, rapid.IntRange(1, 4).Draw(rt, "namelen"); i < n; i++ {
		if hx.Chance(rt, 10, "name-utf8") {
			name += "é"
		} else {
			name += string(nb[hx.Uniform(rt, len(nb), "nameb")])
		}
	}
	h.Name = B(name)
	nl := rapid.IntRange(1, 4).Draw(rt, "nlines")
	lines := make([][]byte, nl)
	for i := range lines {
		lines[i] = genHereLine(rt, h.Mark)
	}
	solid := func(lab string) byte {
		const s = "x#=\"\\<.9\xff\xc3\x80"
		return s[hx.Uniform(rt, len(s), lab)]
	}
	blanks := func(lab string) []byte {
		var out []byte
		for i, n := 0, rapid.IntRange(0, 3).Draw(rt, lab); i < n; i++ {
			if rapid.Bool().Draw(rt, lab+"t") {
				out = append(out, '\t')
			} else {
				out = append(out, ' ')
			}
		}
		return out
	}
	join := func() string {
		l := make([]string, len(lines))
		for i := range lines {
			l[i] = string(lines[i])
		}
		return trimBlanks(strings.Join(l, "\n"))
	}
	// boundaries. Half of the time each end is wrapped as blanks+solid byte (exercises the
	// trimming); otherwise the drawn line stays as it is when the text begins/ends with a
	// solid byte there, and when it does not (empty / CR / VT / FF line at that end) it is
	// kept as an open-text heredoc with probability 40 % and wrapped otherwise.
	if tb := join(); hx.Chance(rt, 50, "wrap-start") || ((tb == "" || asciiSpace(tb[0])) && !hx.Chance(rt, 40, "open-start")) {
		lines[0] = append(append(blanks("lead"), solid("s0")), lines[0]...)
	}
	if tb := join(); hx.Chance(rt, 50, "wrap-end") || ((tb == "" || asciiSpace(tb[len(tb)-1])) && !hx.Chance(rt, 40, "open-end")) {
		lines[nl-1] = append(append(lines[nl-1], solid("s1")), blanks("trail")...)
	}
	for i := range lines {
		if strings.HasPrefix(trimBlanks(string(lines[i])), h.Mark) {
			// steer away from a content line that looks like the terminator
			k := len(lines[i]) - len(strings.TrimLeft(string(lines[i]), " \t"))
			lines[i] = append(append(append([]byte{}, lines[i][:k]...), '.'), lines[i][k:]...)
		}
		h.Lines = append(h.Lines, B(lines[i]))
	}
	return h
}

// fixHazard rewrites a bare '<' that would follow "=<" (it would open a heredoc).
func fixHazard(segs []Seg) {
	val := []byte{}
	for si := range segs {
		b := []byte(segs[si].S)
		for i := range b {
			if !segs[si].Q && b[i] == '<' && len(val) >= 2 && val[len(val)-2] == '=' && val[len(val)-1] == '<' {
				b[i] = '='
			}
			val = append(val, b[i])
		}
		segs[si].S = B(b)
	}
}

func genSeg(rt *rapid.T, quoted bool, max int) Seg {
	if quoted {
		return Seg{Q: true, S: B(genRun(rt, 0, max, allowQuoted))}
	}
	return Seg{S: B(genRun(rt, 1, max, allowBare))}
}

func genArg(rt *rapid.T, max int) Arg {
	var a Arg
	switch k := hx.Uniform(rt, 12, "style"); {
	case k < 3: // bare word
		a.Segs = []Seg{genSeg(rt, false, max)}
	case k < 5: // fully quoted
		a.Segs = []Seg{genSeg(rt, true, max)}
	case k < 8: // mixed
		n := rapid.IntRange(2, 3).Draw(rt, "nsegs")
		q := rapid.Bool().Draw(rt, "firstq")
		for i := 0; i < n; i++ {
			a.Segs = append(a.Segs, genSeg(rt, q, max))
			if hx.Chance(rt, 80, "alternate") {
				q = !q
			}
		}
	case k < 9: // name="value"
		a.Segs = []Seg{{S: B(string(plainBytes[hx.Uniform(rt, 6, "nm")]) + "=")}, genSeg(rt, true, max)}
	case k < 10: // argument that begins with an escaped quote or backslash
		lead := `\`
		if rapid.Bool().Draw(rt, "leadq") {
			lead = `"`
		}
		a.Segs = []Seg{{S: B(lead) + B(genRun(rt, 0, max, allowBare))}}
	default: // heredoc
		a.Here = genHere(rt)
	}
	fixHazard(a.Segs)
	return a
}

// GenGrammar draws a structured case.
func GenGrammar(rt *rapid.T) GrammarCase {
	maxCmds, maxArgs, maxSeg := 3, 4, 6
	if hx.Thorough() {
		maxCmds, maxArgs, maxSeg = 4, 6, 10
	}
	var c GrammarCase
	ncmd := hx.Uniform(rt, maxCmds+1, "ncmd")
	if ncmd == 0 && !hx.Chance(rt, 10, "empty-input") {
		ncmd = 1
	}
	for ci := 0; ci < ncmd; ci++ {
		var cmd Cmd
		nargs := rapid.IntRange(0, maxArgs).Draw(rt, "nargs")
		if nargs == 0 && !hx.Chance(rt, 25, "empty-command") {
			nargs = 1
		}
		prevHere := false
		for ai := 0; ai < nargs; ai++ {
			a := genArg(rt, maxSeg)
			a.Sep = genSep(rt, ai > 0, prevHere)
			prevHere = a.Here != nil
			cmd.Args = append(cmd.Args, a)
		}
		cmd.Tail = genSep(rt, false, prevHere)
		c.Cmds = append(c.Cmds, cmd)
	}
	c.NoFinalNL = ncmd > 0 && hx.Chance(rt, 35, "nofinalnl")
	return c
}

// ---------------------------------------------------------------------------------------
// raw strings beyond the exhaustive bound

// EnumAlphabet is the small alphabet of significant bytes (statement quantifier).
var EnumAlphabet = []byte{' ', '\t', '\n', '"', '\\', '=', '<', 'a', 0xC3}

var rawTokens = []string{" ", "\t", "\n", "\"", "\\", "=", "<", "a", "\xc3", "E", "\xff", "\r", "\x00",
	"=<<E\n", "\nE", "\\\n", "\\\"", "\\\\", "a=", "\"a b\"", "é", "<<", " \\"}

// HereEnumMarkers / HereEnumAlphabet: the second exhaustive family (TestEnumHeredoc):
// "k=<<M NL body NL M t NL n x NL" for every body up to a bound over the alphabet, for a
// plain, a repeating and an overlapping-prefix marker.
var HereEnumMarkers = []string{"AB", "AAB", "ABAB"}

var HereEnumAlphabet = []byte{'A', 'B', '\n', ' ', 'x'}

// HereEnumInput builds the input of one enumerated heredoc body.
func HereEnumInput(mark string, body []byte) string {
	return "k=<<" + mark + "\n" + string(body) + "\n" + mark + " t\nn x\n"
}

// genRawHeredoc draws a raw heredoc-shaped string from marker-related tokens; whether it
// lies inside the grammar is decided by the reference splitter.
func genRawHeredoc(rt *rapid.T) string {
	mark := []string{"E", "EOF", "AB", "AAB", "ABAB"}[hx.Uniform(rt, 5, "rmark")]
	toks := []string{"\n", "\n", " ", "x", "\xc3", mark, mark[:len(mark)-1], mark[:1], mark + "x", "." + mark, "\r", "\t"}
	var sb strings.Builder
	sb.WriteString([]string{"", "a ", "\n", " "}[hx.Uniform(rt, 4, "rlead")])
	sb.WriteString([]string{"k", "--k", "é", "k.1"}[hx.Uniform(rt, 4, "rname")])
	sb.WriteString("=<<" + mark + "\n")
	for i, n := 0, rapid.IntRange(1, 8).Draw(rt, "rbody"); i < n; i++ {
		sb.WriteString(toks[hx.Uniform(rt, len(toks), "rtok")])
	}
	sb.WriteString("\n" + mark)
	sb.WriteString([]string{"", "\n", " t\n", "\nn x", " t\nn x\n", "\n\nn\n"}[hx.Uniform(rt, 6, "rtail")])
	return sb.String()
}

// GenBytes draws a raw string of 7..40 tokens (mostly the significant single bytes), or
// (30 %) a heredoc-shaped string.
func GenBytes(rt *rapid.T) BytesCase {
	if hx.Chance(rt, 30, "raw-heredoc") {
		return BytesCase{In: B(genRawHeredoc(rt))}
	}
	max := 24
	if hx.Thorough() {
		max = 60
	}
	n := rapid.IntRange(7, max).Draw(rt, "n")
	var sb strings.Builder
	for i := 0; i < n; i++ {
		if hx.Chance(rt, 65, "alpha") {
			sb.WriteByte(EnumAlphabet[hx.Uniform(rt, len(EnumAlphabet), "a")])
		} else if hx.Chance(rt, 90, "tok") {
			sb.WriteString(rawTokens[hx.Uniform(rt, len(rawTokens), "t")])
		} else {
			sb.WriteByte(byte(hx.Uniform(rt, 256, "byte")))
		}
	}
	return BytesCase{In: B(sb.String())}
}

// ---------------------------------------------------------------------------------------
// argument lists for InjectArgs

func allowValue(c byte) bool { return c != '=' && c != '\n' }

// GenInject draws an argument list.
func GenInject(rt *rapid.T) InjectCase {
	var c InjectCase
	n := rapid.IntRange(0, 6).Draw(rt, "nargs")
	used := map[string]bool{}
	for i := 0; i < n; i++ {
		var a InjArg
		a.Style = hx.Uniform(rt, 2, "qstyle")
		if rapid.Bool().Draw(rt, "named") {
			const nb = "abcdnpv019_.:"
			name := ""
			for k, m := 0, rapid.IntRange(1, 3).Draw(rt, "namelen"); k < m; k++ {
				if hx.Chance(rt, 10, "name-utf8") {
					name += "é"
				} else {
					name += string(nb[hx.Uniform(rt, len(nb), "nameb")])
				}
			}
			for used[name] {
				name += strconv.Itoa(i)
			}
			used[name] = true
			a.Name = B(name)
			a.Dashes = hx.Uniform(rt, 3, "dashes")
			a.Value = B(genRun(rt, 0, 6, allowValue))
		} else {
			v := genRun(rt, 0, 6, allowValue)
			if len(v) > 0 && v[0] == '-' {
				v[0] = '+'
			}
			a.Value = B(v)
		}
		c.Args = append(c.Args, a)
	}
	if hx.Chance(rt, 35, "sep") {
		c.HasSep = true
		for i, m := 0, rapid.IntRange(0, 3).Draw(rt, "nafter"); i < m; i++ {
			switch hx.Uniform(rt, 4, "afterkind") {
			case 0:
				c.After = append(c.After, "--")
			case 1:
				c.After = append(c.After, B("k"+strconv.Itoa(i)+"="+string(genRun(rt, 0, 4, allowLine))))
			default:
				c.After = append(c.After, B(genRun(rt, 0, 6, allowLine)))
			}
		}
	}
	return c
}

// ---------------------------------------------------------------------------------------
// scripts for termexec.RunLoop

func allowLoopValue(c byte) bool { return c != '=' && c != '\n' }

// genLoopArgs draws the arguments of a rec-like command (after the command name) as
// rendered text: positional values, named values from the observed pool, optional "--" tail.
func genLoopArgs(rt *rapid.T, sb *strings.Builder, multi bool) {
	put := func(text string) {
		// separator: blanks, sometimes with a backslash-newline continuation
		seps := []string{" ", "  ", "\t", " ", " \\\n ", " \\\n"}
		k := 4
		if multi {
			k = 6
		}
		sb.WriteString(seps[hx.Uniform(rt, k, "lsep")])
		a := Arg{Segs: Quote(text, hx.Uniform(rt, 2, "lstyle"))}
		a.render(sb)
	}
	used := map[string]bool{}
	for i, n := 0, rapid.IntRange(0, 4).Draw(rt, "largs"); i < n; i++ {
		if hx.Chance(rt, 40, "lnamed") {
			name := loopNamed[hx.Uniform(rt, len(loopNamed), "lname")]
			if used[name] {
				continue
			}
			used[name] = true
			if name == "msg" && multi && hx.Chance(rt, 40, "lheredoc") {
				sb.WriteString(" msg=<<EOT\n first line\nrec inside heredoc\nEOT")
				continue
			}
			put(strings.Repeat("-", hx.Uniform(rt, 3, "ldash")) + name + "=" + string(genRun(rt, 0, 5, allowLoopValue)))
			continue
		}
		v := genRun(rt, 0, 5, allowLoopValue)
		if len(v) > 0 && v[0] == '-' {
			v[0] = '+'
		}
		put(string(v))
	}
	if hx.Chance(rt, 15, "ltail") {
		put("--")
		for i, n := 0, rapid.IntRange(0, 2).Draw(rt, "ltailn"); i < n; i++ {
			put(string(genRun(rt, 0, 4, allowLine)))
		}
	}
}

// genLoopLine draws one command-looking line (without the newline).
func genLoopLine(rt *rapid.T, names []string) string { return genLoopLineM(rt, names, true) }

func genLoopLineM(rt *rapid.T, names []string, multi bool) string {
	var sb strings.Builder
	sb.WriteString([]string{"", "", " ", "\t"}[hx.Uniform(rt, 4, "llead")])
	sb.WriteString(names[hx.Uniform(rt, len(names), "lcmd")])
	genLoopArgs(rt, &sb, multi)
	sb.WriteString([]string{"", "", " "}[hx.Uniform(rt, 3, "ltrail")])
	return sb.String()
}

// GenLoop draws a script: rec commands, take commands followed by payload that looks like
// commands, blank lines, rarely a nested loop or an unknown command.
func GenLoop(rt *rapid.T) LoopCase {
	var sb strings.Builder
	recs := []string{"rec", "r2", "rec"}
	payloadCmds := []string{"rec", "r2", "boom", "take lines=1", "rec"}
	n := rapid.IntRange(1, 7).Draw(rt, "litems")
	for i := 0; i < n; i++ {
		switch k := hx.Uniform(rt, 20, "litem"); {
		case k < 8:
			sb.WriteString(genLoopLine(rt, recs) + "\n")
		case k < 11: // take lines=N + N payload lines (sometimes fewer than N are left)
			c := 1 + hx.Uniform(rt, 3, "lnlines")
			sb.WriteString(genLoopLine(rt, []string{"take lines=" + strconv.Itoa(c)}) + "\n")
			for j := 0; j < c; j++ {
				if hx.Chance(rt, 15, "lgarbage") {
					sb.WriteString([]string{"\"unterminated", "x=<<E", "\\", ""}[hx.Uniform(rt, 4, "lg")] + "\n")
				} else {
					sb.WriteString(genLoopLineM(rt, payloadCmds, hx.Chance(rt, 20, "lpmulti")) + "\n")
				}
			}
		case k < 13: // take bytes=K: whole lines, or a junk prefix of a line whose rest is a command
			if rapid.Bool().Draw(rt, "lmid") {
				junk := string(genRun(rt, 1, 6, allowLine))
				sb.WriteString(genLoopLine(rt, []string{"take bytes=" + strconv.Itoa(len(junk))}) + "\n")
				sb.WriteString(junk + genLoopLine(rt, recs) + "\n")
			} else {
				p := genLoopLine(rt, payloadCmds) + "\n"
				if rapid.Bool().Draw(rt, "l2") {
					p += genLoopLine(rt, payloadCmds) + "\n"
				}
				sb.WriteString(genLoopLine(rt, []string{"take bytes=" + strconv.Itoa(len(p))}) + "\n" + p)
			}
		case k < 16: // take cmd=1: the payload is one command read with ReadArguments
			sb.WriteString(genLoopLine(rt, []string{"take cmd=1"}) + "\n")
			sb.WriteString(genLoopLine(rt, payloadCmds) + "\n")
		case k < 17:
			sb.WriteString([]string{"", " ", "\t \t", "\\\n"}[hx.Uniform(rt, 4, "lblank")] + "\n")
		case k < 19:
			sb.WriteString("sub\n")
		default:
			if hx.Chance(rt, 40, "lunknown") {
				sb.WriteString(genLoopLine(rt, []string{"boom", "recx", "\"\""}) + "\n")
			} else {
				sb.WriteString(genLoopLine(rt, recs) + "\n")
			}
		}
	}
	s := sb.String()
	if !strings.Contains(s, "take") && !strings.Contains(s, "boom") && !strings.Contains(s, "recx") && !strings.Contains(s, "\"\"") && hx.Chance(rt, 30, "lbadtail") {
		tail := []string{"rec \"unfinished", "rec a \"b c", "r2 \"two\nlines", "  rec x=1 \"", "\"rec"}[hx.Uniform(rt, 5, "ltail")]
		return LoopCase{In: B(s), Tail: B(tail)}
	}
	if hx.Chance(rt, 25, "lnofinalnl") {
		s = strings.TrimSuffix(s, "\n")
	}
	if plainLines(s) && !strings.Contains(s, "sub") && !strings.Contains(s, "boom") && !strings.Contains(s, "recx") && !strings.Contains(s, "\"\"") && hx.Chance(rt, 50, "lfromreader") {
		return LoopCase{In: B(s), FromReader: true}
	}
	return LoopCase{In: B(s)}
}
