package c17

// Case kind "loop": termexec.RunLoop on a MockupApp whose shared input is a generated
// multi-line script. "Reading stops exactly at the command's newline so the next call
// returns the next command" is checked where the *next reader* is a dispatched command:
//
//	rec / r2 ...      record the injected arguments ($0..$5, a, b, path, msg, --)
//	take lines=N      read the next N lines byte by byte from ctx.IO().In() and record them
//	take bytes=K      read exactly K bytes from ctx.IO().In()
//	take cmd=1        read one command with varutil.ReadArguments(ctx.IO().In())
//	sub               run a nested termexec.RunLoop on the same context input (to its end)
//	anything else     unknown command: the loop stops with an error
//
// The model is a plain simulation over the script text with the independent reference
// splitter (refCommand) and a direct model of the argument mapping. Every command callback
// also records how many bytes of the shared input had been consumed when it was dispatched.
// Input.ReadLine/ReadWord are deliberately not used by the harness commands: gio.Input
// buffers ahead for them by design, only Read is a pass-through.

import (
	"fmt"
	"io"
	"strconv"
	"strings"
	"sync"
	"time"

	"github.com/goatcms/goatcore/app"
	"github.com/goatcms/goatcore/app/gio"
	"github.com/goatcms/goatcore/app/goatapp"
	"github.com/goatcms/goatcore/app/terminal"
	"github.com/goatcms/goatcore/app/terminal/termexec"
	"github.com/goatcms/goatcore/varutil"
	"verif/harness/hx"
)

// LoopCase is a script for RunLoop.
type LoopCase struct {
	In B `json:"in"`
	// FromReader: the script is not run through RunLoop; the harness calls
	// termexec.RunCommandFromReader once per command on the shared input, the way a caller that
	// executes "the next command" of a stream does. Only scripts whose lines are all commands.
	FromReader bool `json:"from_reader,omitempty"`
	// Tail (optional): text appended after In that is the beginning of one more command and ends
	// inside an unterminated double-quoted argument (In then ends with a newline and contains no
	// take command). Splitting it "terminates with ... an error"; the loop must hand that error to
	// its caller - returned or recorded on the scope - exactly as it does for an unknown command.
	Tail B `json:"tail,omitempty"`
}

// loopEvent is one executed command as observed (or as the model predicts).
type loopEvent struct {
	Cmd     string   // rec, r2, take, sub
	Depth   int      // nesting depth of the loop that dispatched it
	Pos     int      // bytes of the shared input consumed at dispatch
	Pos6    []string // $0..$5 ("\x00" = absent)
	Named   []string // a, b, path, msg ("\x00" = absent)
	Tail    []string // value of "--"
	HasTail bool
	Payload string   // take lines / bytes: the raw bytes received
	PArgs   []string // take cmd: the arguments received
	PErr    bool     // take cmd: ReadArguments returned an error
}

const absent = "\x00"

var loopNamed = []string{"a", "b", "path", "msg"}

func (e loopEvent) String() string {
	return fmt.Sprintf("{%s depth=%d pos=%d $=%q named=%q tail=%v%q payload=%q pargs=%q perr=%v}", e.Cmd, e.Depth, e.Pos, e.Pos6, e.Named, e.HasTail, e.Tail, e.Payload, e.PArgs, e.PErr)
}

// injectModel maps an argument list to what a rec command must see.
func injectModel(args []string, e *loopEvent) (named map[string]string) {
	named = map[string]string{}
	e.Pos6 = []string{absent, absent, absent, absent, absent, absent}
	e.Named = []string{absent, absent, absent, absent}
	pos := 0
	for i, a := range args {
		if a == "--" {
			e.HasTail = true
			e.Tail = append([]string{}, args[i+1:]...)
			break
		}
		if strings.Contains(a, "=") {
			a2 := strings.TrimPrefix(strings.TrimPrefix(a, "-"), "-")
			k := strings.IndexByte(a2, '=')
			named[a2[:k]] = a2[k+1:]
			continue
		}
		if pos < 6 {
			e.Pos6[pos] = a
		}
		pos++
	}
	for i, n := range loopNamed {
		if v, ok := named[n]; ok {
			e.Named[i] = v
		}
	}
	return named
}

// loopModel simulates the script. ok=false: the script is outside what the model defines
// (a command outside the reference grammar, a malformed take).
func loopModel(in string) (events []loopEvent, unknown bool, end int, ok bool) {
	pos, depth := 0, 0
	for {
		cmd, good := refCommand(in, pos)
		if !good {
			return nil, false, 0, false
		}
		pos = cmd.End
		if len(cmd.Args) == 0 {
			if cmd.EOF {
				return events, false, pos, true
			}
			continue
		}
		for _, o := range cmd.Open {
			if o > 0 {
				return nil, false, 0, false // exact text of an open-boundary heredoc is not defined
			}
		}
		ev := loopEvent{Cmd: cmd.Args[0], Depth: depth, Pos: pos}
		named := injectModel(cmd.Args, &ev)
		switch cmd.Args[0] {
		case "rec", "r2":
		case "sub":
			depth++
		case "take":
			bad := false
			n := func(k string) (int, bool) {
				v, has := named[k]
				if !has {
					return 0, false
				}
				x, err := strconv.Atoi(v)
				if err != nil || x < 0 || x > 1000 || strconv.Itoa(x) != v {
					bad = true
				}
				return x, true
			}
			if c, has := n("lines"); bad {
				return nil, false, 0, false
			} else if has {
				start := pos
				for i := 0; i < c && pos < len(in); i++ {
					if k := strings.IndexByte(in[pos:], '\n'); k >= 0 {
						pos += k + 1
					} else {
						pos = len(in)
					}
				}
				ev.Payload = in[start:pos]
			} else if c, has := n("bytes"); bad {
				return nil, false, 0, false
			} else if has {
				start := pos
				if pos += c; pos > len(in) {
					pos = len(in)
				}
				ev.Payload = in[start:pos]
			} else if _, has := n("cmd"); has && !bad {
				p, good := refCommand(in, pos)
				if !good {
					return nil, false, 0, false
				}
				for _, o := range p.Open {
					if o > 0 {
						return nil, false, 0, false
					}
				}
				pos = p.End
				ev.PArgs = p.Args
			} else {
				return nil, false, 0, false
			}
		default:
			// unknown command: the loop reports an error and stops; nothing else runs
			return events, true, pos, true
		}
		events = append(events, ev)
		if cmd.EOF {
			return events, false, pos, true
		}
	}
}

// plainLines: no continuation and no blank line (a blank line is no command for RunCommand).
func plainLines(in string) bool {
	if in == "" || strings.Contains(in, "\\\n") {
		return false
	}
	lines := strings.Split(strings.TrimSuffix(in, "\n"), "\n")
	for _, l := range lines {
		if strings.Trim(l, " \t") == "" {
			return false
		}
	}
	return true
}

// loopReader is the shared input; it counts what has been handed out.
type loopReader struct {
	mu  sync.Mutex
	s   string
	pos int
}

func (r *loopReader) Read(p []byte) (int, error) {
	r.mu.Lock()
	defer r.mu.Unlock()
	if len(p) == 0 {
		return 0, nil
	}
	if r.pos >= len(r.s) {
		return 0, io.EOF
	}
	n := copy(p, r.s[r.pos:])
	r.pos += n
	return n, nil
}

func (r *loopReader) consumed() int {
	r.mu.Lock()
	defer r.mu.Unlock()
	return r.pos
}

type recDeps struct {
	P0   string   `command:"?$0"`
	P1   string   `command:"?$1"`
	P2   string   `command:"?$2"`
	P3   string   `command:"?$3"`
	P4   string   `command:"?$4"`
	P5   string   `command:"?$5"`
	A    string   `command:"?a"`
	B    string   `command:"?b"`
	Path string   `command:"?path"`
	Msg  string   `command:"?msg"`
	Tail []string `command:"?--"`
}

type takeDeps struct {
	Lines string `command:"?lines"`
	Bytes string `command:"?bytes"`
	Cmd   string `command:"?cmd"`
}

// runLoopReal executes the script through the real RunLoop.
func runLoopReal(in string, fromReader int) (events []loopEvent, loopErr error, scopeErrs int, consumed int, timedOut bool, setupErr error) {
	rd := &loopReader{s: in}
	mapp, err := goatapp.NewMockupApp(goatapp.Params{IO: goatapp.IO{In: gio.NewAppInput(rd)}})
	if err != nil {
		return nil, nil, 0, 0, false, err
	}
	var mu sync.Mutex
	depth := 0
	var commands app.TerminalCommands
	observe := func(name string, ctx app.IOContext) (loopEvent, error) {
		ev := loopEvent{Cmd: name, Depth: depth, Pos: rd.consumed()}
		var d recDeps
		// fields that are absent stay at a sentinel: pre-fill
		d.P0, d.P1, d.P2, d.P3, d.P4, d.P5 = absent, absent, absent, absent, absent, absent
		d.A, d.B, d.Path, d.Msg = absent, absent, absent, absent
		if err := ctx.Scope().InjectTo(&d); err != nil {
			return ev, err
		}
		ev.Pos6 = []string{d.P0, d.P1, d.P2, d.P3, d.P4, d.P5}
		ev.Named = []string{d.A, d.B, d.Path, d.Msg}
		ev.Tail = d.Tail
		return ev, nil
	}
	rec := func(name string) func(app.App, app.IOContext) error {
		return func(a app.App, ctx app.IOContext) error {
			ev, err := observe(name, ctx)
			if err != nil {
				return err
			}
			mu.Lock()
			events = append(events, ev)
			mu.Unlock()
			return nil
		}
	}
	take := func(a app.App, ctx app.IOContext) error {
		ev, err := observe("take", ctx)
		if err != nil {
			return err
		}
		var d takeDeps
		if err := ctx.Scope().InjectTo(&d); err != nil {
			return err
		}
		input := ctx.IO().In()
		one := make([]byte, 1)
		var got []byte
		switch {
		case d.Lines != "":
			n, _ := strconv.Atoi(d.Lines)
			for i := 0; i < n; i++ {
				stop := false
				for {
					k, err := input.Read(one)
					if k == 1 {
						got = append(got, one[0])
						if one[0] == '\n' {
							break
						}
					}
					if err != nil {
						stop = true
						break
					}
				}
				if stop {
					break
				}
			}
			ev.Payload = string(got)
		case d.Bytes != "":
			n, _ := strconv.Atoi(d.Bytes)
			for len(got) < n {
				k, err := input.Read(one)
				if k == 1 {
					got = append(got, one[0])
				}
				if err != nil {
					break
				}
			}
			ev.Payload = string(got)
		default:
			args, _, err := varutil.ReadArguments(input)
			ev.PArgs = args
			ev.PErr = err != nil
		}
		mu.Lock()
		events = append(events, ev)
		mu.Unlock()
		return nil
	}
	sub := func(a app.App, ctx app.IOContext) error {
		ev, err := observe("sub", ctx)
		if err != nil {
			return err
		}
		mu.Lock()
		events = append(events, ev)
		depth++
		mu.Unlock()
		return termexec.RunLoop(termexec.NewRunCtx(termexec.RunCtxParams{Application: a, Ctx: ctx, Commands: commands}), "")
	}
	commands = terminal.NewCommands(
		terminal.NewCommand(terminal.CommandParams{Name: "rec", Callback: rec("rec")}),
		terminal.NewCommand(terminal.CommandParams{Name: "r2", Callback: rec("r2")}),
		terminal.NewCommand(terminal.CommandParams{Name: "take", Callback: take}),
		terminal.NewCommand(terminal.CommandParams{Name: "sub", Callback: sub}),
	)
	rctx := termexec.NewRunCtx(termexec.RunCtxParams{Application: mapp, Ctx: mapp.IOContext(), Commands: commands})
	done := make(chan error, 1)
	go func() {
		if fromReader > 0 {
			// the caller reads command by command from the shared (unbuffered, non-ByteReader) input
			for k := 0; k < fromReader; k++ {
				eof, err := termexec.RunCommandFromReader(rctx, mapp.IOContext().IO().In())
				if err != nil {
					done <- fmt.Errorf("RunCommandFromReader call %d: %v", k, err)
					return
				}
				if eof {
					break
				}
			}
			done <- nil
			return
		}
		done <- termexec.RunLoop(rctx, "")
	}()
	select {
	case loopErr = <-done:
	case <-time.After(30 * time.Second):
		return nil, nil, 0, 0, true, nil
	}
	mu.Lock()
	defer mu.Unlock()
	return append([]loopEvent{}, events...), loopErr, len(mapp.IOContext().Scope().Errors()), rd.consumed(), false, nil
}

func sameStrings(a, b []string) bool {
	if len(a) != len(b) {
		return false
	}
	for i := range a {
		if a[i] != b[i] {
			return false
		}
	}
	return true
}

// ExecLoop runs one script.
func ExecLoop(c LoopCase) hx.Verdict {
	in := string(c.In)
	want, unknown, end, ok := loopModel(in)
	badTail := len(c.Tail) > 0
	if ok && badTail {
		// the tail must start a fresh command and be what it claims to be
		t := string(c.Tail)
		_, tailGood := refCommand(in+t, len(in))
		ok = !unknown && end == len(in) && (in == "" || strings.HasSuffix(in, "\n")) && !tailGood &&
			strings.Count(t, "\"") == 1 && !strings.Contains(t, "\\") && !strings.Contains(t, "<<")
		for _, e := range want {
			if e.Cmd == "take" {
				ok = false
			}
		}
		in += t
		end = len(in)
	}
	if !ok {
		v := hx.Pass()
		v.Inconclusive = true
		v.Label("invalid-case")
		return v
	}
	hx.PersistCurrent("loop", c)
	fromReader := 0
	if c.FromReader {
		// one RunCommandFromReader call per command; only scripts of plain command lines
		if badTail || unknown || !plainLines(in) {
			v := hx.Pass()
			v.Inconclusive = true
			v.Label("invalid-case")
			return v
		}
		for _, e := range want {
			if e.Cmd == "sub" {
				v := hx.Pass()
				v.Inconclusive = true
				v.Label("invalid-case")
				return v
			}
		}
		fromReader = len(want)
		if fromReader == 0 {
			v := hx.Pass()
			v.Label("loop-case")
			return v
		}
	}
	got, loopErr, scopeErrs, consumed, timedOut, setupErr := runLoopReal(in, fromReader)
	hx.ClearCurrent()
	v := hx.Pass()
	if setupErr != nil || timedOut {
		// no progress promise in the statement for the loop: a stuck loop is reported as
		// inconclusive, never as a violation
		v.Inconclusive = true
		v.Label("loop-inconclusive")
		return v
	}
	fail := func(step int, clause, format string, a ...interface{}) hx.Verdict {
		f := hx.Fail(clause, "script %s: %s", clip(strconv.Quote(in)), fmt.Sprintf(format, a...))
		f.Step = step
		return f
	}
	tailRan := false
	res := func() hx.Verdict {
		for i := 0; i < len(got) || i < len(want); i++ {
			if i >= len(got) {
				return fail(i, "loop-dispatch", "command %d %v was never executed (executed %d of %d; loop error %v)", i, want[i], len(got), len(want), loopErr)
			}
			if i >= len(want) {
				if badTail && i == len(want) && len(got) == len(want)+1 && (got[i].Cmd == "rec" || got[i].Cmd == "r2") {
					// "terminates with arguments or an error": the unterminated tail was taken as
					// arguments and its command ran - allowed, its arguments are not fixed
					tailRan = true
					break
				}
				return fail(i, "loop-dispatch", "extra command executed: %v (the model has %d commands)", got[i], len(want))
			}
			g, w := got[i], want[i]
			if g.Cmd != w.Cmd || g.Depth != w.Depth || !sameStrings(g.Pos6, w.Pos6) || !sameStrings(g.Named, w.Named) || (w.HasTail && !sameStrings(g.Tail, w.Tail)) {
				return fail(i, "loop-dispatch", "command %d: executed %v, expected %v", i, g, w)
			}
			if g.Pos != w.Pos {
				return fail(i, "loop-stops-at-newline", "command %d (%s) was dispatched with %d bytes of the shared input consumed; its line ends at %d", i, g.Cmd, g.Pos, w.Pos)
			}
			if g.Payload != w.Payload || g.PErr || !sameStrings(g.PArgs, w.PArgs) {
				return fail(i, "loop-payload", "command %d read %q / args %q (err=%v) from the shared input, expected %q / %q", i, g.Payload, g.PArgs, g.PErr, w.Payload, w.PArgs)
			}
		}
		if badTail {
			if loopErr == nil && scopeErrs == 0 && !tailRan {
				return fail(len(got), "loop-syntax-error-surfaced", "the input ends inside an unterminated quoted argument (%q): splitting must end with arguments or an error, but the loop neither ran the command nor returned an error nor recorded one on its scope", string(c.Tail))
			}
		} else if unknown != (loopErr != nil || scopeErrs > 0) {
			return fail(len(got), "loop-unknown-command", "loop error %v, %d scope errors; the model has unknown command = %v", loopErr, scopeErrs, unknown)
		}
		if consumed != end {
			return fail(len(got), "loop-stops-at-newline", "after the loop %d bytes of the shared input are consumed, expected %d", consumed, end)
		}
		return hx.Pass()
	}()
	// classification
	labels := map[string]bool{}
	for _, e := range want {
		switch {
		case e.Cmd == "take" && e.PArgs != nil:
			labels["loop-take-cmd"] = true
		case e.Cmd == "take" && strings.HasSuffix(e.Payload, "\n"):
			labels["loop-take-lines-or-bytes"] = true
		case e.Cmd == "take" && e.Payload != "":
			labels["loop-take-midline"] = true
		case e.Cmd == "sub":
			labels["loop-nested"] = true
		}
		if e.Depth > 0 && e.Cmd == "take" {
			labels["loop-take-in-nested"] = true
		}
		if e.HasTail {
			labels["loop-dashdash"] = true
		}
	}
	takes := 0
	for i, e := range want {
		if e.Cmd == "take" {
			takes++
			if i+1 < len(want) {
				labels["loop-command-after-take"] = true
			}
		}
	}
	if unknown {
		labels["loop-unknown-command"] = true
	}
	if badTail {
		labels["loop-input-ends-inside-quote"] = true
	}
	if c.FromReader {
		labels["loop-command-by-command-from-reader"] = true
		if len(want) >= 2 {
			labels["loop-from-reader-second-command"] = true
		}
	}
	if strings.Contains(in, "\\\n") {
		labels["loop-continuation"] = true
	}
	if strings.Contains(in, "=<<") {
		labels["loop-heredoc"] = true
	}
	for l := range labels {
		res.Label(l)
	}
	res.Label("loop-case")
	// non-trivial: a second command after a command that itself read from the shared input,
	// or a nested loop, or at least three dispatched commands
	res.NonTrivial = labels["loop-command-after-take"] || labels["loop-nested"] || len(want) >= 3
	return res
}
