// Package c14: pipeline tasks honour wait lists and never run after a failed prerequisite.
//
// A generated task program is driven directly at pipservices.Runner.Run (the terminal path
// serialises tasks). Bodies are scripts of a harness "probe" command registered in the
// MockupApp terminal; every probe writes a begin and an end event with a sequence number
// into one log. The oracle is a set of validity predicates over that log plus the task
// states reported by the task manager (see Exec).
package c14

import (
	"errors"
	"fmt"
	"os"
	"runtime"
	"sort"
	"strings"
	"sync"
	"sync/atomic"
	"time"

	"github.com/goatcms/goatcore/app"
	"github.com/goatcms/goatcore/app/bootstrap"
	"github.com/goatcms/goatcore/app/gio"
	"github.com/goatcms/goatcore/app/goatapp"
	"github.com/goatcms/goatcore/app/injector"
	"github.com/goatcms/goatcore/app/modules/commonm"
	"github.com/goatcms/goatcore/app/modules/commonm/commservices"
	"github.com/goatcms/goatcore/app/modules/ocm"
	"github.com/goatcms/goatcore/app/modules/pipelinem"
	"github.com/goatcms/goatcore/app/modules/pipelinem/pipservices"
	"github.com/goatcms/goatcore/app/modules/pipelinem/pipservices/namespaces"
	"github.com/goatcms/goatcore/app/modules/terminalm"
	"github.com/goatcms/goatcore/app/scope"
	"github.com/goatcms/goatcore/app/scope/argscope"
	"github.com/goatcms/goatcore/app/scope/contextscope"
	"github.com/goatcms/goatcore/app/scope/datascope"
	"github.com/goatcms/goatcore/app/terminal"
	"github.com/goatcms/goatcore/filesystem"
	"github.com/goatcms/goatcore/filesystem/filespace/memfs"
	"pgregory.net/rapid"
	"verif/harness/hx"
)

// Cmd is one command of a body: a probe, a nested submission (pip:run) whose own body
// consists of probes only, or a detached submission ("spawn": a harness command that calls
// Runner.Run itself with a scope that is NOT a child of its own command scope, so the
// submitting task does not wait for the spawned one and may finish first).
type Cmd struct {
	Kind string   `json:"kind"`           // "probe" | "run" | "spawn"
	Us   int      `json:"us,omitempty"`   // probe: duration in microseconds (0 = one Gosched)
	Fail string   `json:"fail,omitempty"` // probe: "" | "return" (callback returns an error) | "append" (error appended to the command scope)
	Name string   `json:"name,omitempty"` // run: local name of the nested task
	Wait []string `json:"wait,omitempty"` // run: local wait names (earlier nested siblings, itself, or a name nobody has)
	Body []Cmd    `json:"body,omitempty"` // run: body of the nested task (probes)
	Sep  string   `json:"sep,omitempty"`  // run: separator written between the names of --wait (a comma with optional blanks; "" = ",")
	// spawn: Name is the (global, top-level) name of the detached task, Wait holds global
	// names (earlier top-level tasks, the submitting task, itself, or a name nobody has),
	// Body its probes. Scope (isolated mode only): "own" = a fresh isolated-context child of
	// the root scope, "group" = the isolated scope of the submitting top-level task. In
	// shared mode the detached task is always submitted into the root scope.
	Scope string `json:"scope,omitempty"`
}

// Sub is one top-level submission made by the driver goroutine: through Runner.Run, or
// (Via "piprun") through the callback of the real pip:run terminal command, called with
// --name/--wait/--body arguments in a command scope of its own that nobody closes, the way
// independent terminal sessions below one root scope would do it. The wait list then goes
// through pip:run's own parsing of "--wait=a , b,c".
type Sub struct {
	Name    string   `json:"name"`
	Wait    []string `json:"wait,omitempty"`
	Via     string   `json:"via,omitempty"` // "" (Runner.Run) | "piprun"
	Sep     string   `json:"sep,omitempty"` // piprun: separator between the names (a comma with optional blanks; "" = ",")
	Body    []Cmd    `json:"body"`
	DelayUs int      `json:"delay_us,omitempty"` // driver sleeps this long before submitting
}

// Case is a task program.
type Case struct {
	Mode        string `json:"mode"` // "shared": all tasks in one scope; "isolated": each top-level task in its own isolated-context child of the root scope that owns the task manager
	Subs        []Sub  `json:"subs"`
	Gomaxprocs  int    `json:"gomaxprocs"`
	WaitDelayUs int    `json:"wait_delay_us,omitempty"` // driver sleeps this long before TasksManager.Wait
}

// ---------------------------------------------------------------------------------------
// generator

// namePool: task names with suffix / prefix / substring / case relations between them (all
// match pip:run's name pattern). None ends in d<digit> (names of detached tasks).
var namePool = []string{"b", "ab", "cab", "b1", "ab1", "B", "aB", "_b", "a_b", "b11", "ba", "Ab"}
var separators = []string{",", ",", " , ", ", ", " ,", "\t,\t "}

var durations = []int{0, 0, 50, 200, 500, 1000, 2000, 3000}
var delays = []int{0, 0, 0, 0, 100, 500, 1500}

// high is true with probability pct/100 and true on HIGH draws, so that shrinking removes the structure.
func high(rt *rapid.T, pct int, label string) bool { return hx.Uniform(rt, 100, label) >= 100-pct }

func genProbe(rt *rapid.T) Cmd {
	return Cmd{Kind: "probe", Us: durations[hx.Uniform(rt, len(durations), "us")]}
}

func failKind(rt *rapid.T) string {
	if hx.Uniform(rt, 2, "failkind") == 1 {
		return "append"
	}
	return "return"
}

// Gen draws a task program. Wait relations only point at earlier, expected-valid
// submissions (acyclic by construction); deliberately invalid submissions (unknown name,
// self reference) are drawn with a small probability and never referenced later.
func Gen(rt *rapid.T) Case {
	c := Case{Mode: []string{"shared", "isolated"}[hx.Uniform(rt, 2, "mode")]}
	n := 2 + hx.Uniform(rt, 6, "ntasks")
	if high(rt, 15, "many") {
		n = 8 + hx.Uniform(rt, 3, "ntasks2")
	}
	c.Gomaxprocs = []int{1, 2, 4, 8}[hx.Uniform(rt, 4, "gmp")]
	waitPct := []int{20, 40, 70}[hx.Uniform(rt, 3, "waitpct")]
	failPct := []int{0, 15, 30, 50}[hx.Uniform(rt, 4, "failpct")]
	var valid []string
	pool := append([]string(nil), namePool...)
	for i := 0; i < n; i++ {
		k := hx.Uniform(rt, len(pool), "name")
		s := Sub{Name: pool[k], DelayUs: delays[hx.Uniform(rt, len(delays), "delay")]}
		pool = append(pool[:k], pool[k+1:]...)
		for _, w := range valid {
			if high(rt, waitPct, "waits") && len(s.Wait) < 4 {
				s.Wait = append(s.Wait, w)
			}
		}
		if high(rt, 50, "waitrev") {
			for a, b := 0, len(s.Wait)-1; a < b; a, b = a+1, b-1 {
				s.Wait[a], s.Wait[b] = s.Wait[b], s.Wait[a]
			}
		}
		if high(rt, 50, "piprun") {
			s.Via = "piprun"
			s.Sep = separators[hx.Uniform(rt, len(separators), "sep")]
		}
		invalid := ""
		if high(rt, 12, "invalid") {
			invalid = "unknown"
			if hx.Uniform(rt, 2, "invkind") == 1 {
				invalid = "self"
			}
		}
		nb := 1 + hx.Uniform(rt, 4, "nbody")
		nested := 0
		spawned := 0
		for k := 0; k < nb; k++ {
			if spawned < 2 && high(rt, 14, "spawn") {
				d := Cmd{Kind: "spawn", Name: fmt.Sprintf("%sd%d", s.Name, spawned), Scope: []string{"own", "group"}[hx.Uniform(rt, 2, "dscope")]}
				for _, w := range valid {
					if high(rt, waitPct/2, "dwaits") && len(d.Wait) < 3 {
						d.Wait = append(d.Wait, w)
					}
				}
				if invalid == "" && high(rt, 25, "dwaitparent") {
					d.Wait = append(d.Wait, s.Name)
				}
				if high(rt, 10, "dinvalid") {
					bad := "zz"
					if hx.Uniform(rt, 2, "dinvkind") == 1 {
						bad = d.Name
					}
					d.Wait = insertAt(d.Wait, bad, hx.Uniform(rt, len(d.Wait)+1, "dinvpos"))
				}
				m := 1 + hx.Uniform(rt, 3, "dnbody")
				for j := 0; j < m; j++ {
					pc := genProbe(rt)
					if high(rt, 50, "dlong") {
						pc.Us = []int{1000, 2000, 3000, 4000}[hx.Uniform(rt, 4, "dus")]
					}
					d.Body = append(d.Body, pc)
				}
				if high(rt, failPct, "dfail") {
					d.Body[hx.Uniform(rt, m, "dfailpos")].Fail = failKind(rt)
				}
				s.Body = append(s.Body, d)
				spawned++
				continue
			}
			if nested < 2 && high(rt, 12, "nested") {
				r := Cmd{Kind: "run", Name: fmt.Sprintf("n%d", nested)}
				for j := 0; j < nested; j++ {
					if high(rt, 50, "nwait") {
						r.Wait = append(r.Wait, fmt.Sprintf("n%d", j))
					}
				}
				if high(rt, 16, "ninvalid") {
					switch hx.Uniform(rt, 4, "ninvkind") {
					case 1:
						r.Wait = append(r.Wait, r.Name)
					case 2:
						// the name of the task whose body makes this submission: nested names are local,
						// so among the siblings nobody has it (and if the name were looked up further out,
						// the nested task and the body that waits for it would wait for each other)
						r.Wait = append(r.Wait, s.Name)
					case 3:
						// the name of another top-level task (finished or running): not a sibling either
						if len(valid) > 0 {
							r.Wait = append(r.Wait, valid[hx.Uniform(rt, len(valid), "nouter")])
						} else {
							r.Wait = append(r.Wait, s.Name)
						}
					default:
						r.Wait = append(r.Wait, "zz")
					}
				}
				if len(r.Wait) > 1 {
					r.Sep = separators[hx.Uniform(rt, len(separators), "nsep")]
				}
				m := 1 + hx.Uniform(rt, 2, "nnbody")
				for j := 0; j < m; j++ {
					r.Body = append(r.Body, genProbe(rt))
				}
				if high(rt, failPct/2, "nfail") {
					r.Body[hx.Uniform(rt, m, "nfailpos")].Fail = failKind(rt)
				}
				s.Body = append(s.Body, r)
				nested++
				continue
			}
			s.Body = append(s.Body, genProbe(rt))
		}
		if high(rt, failPct, "fails") {
			pos := hx.Uniform(rt, len(s.Body), "failpos")
			if s.Body[pos].Kind == "probe" {
				s.Body[pos].Fail = failKind(rt)
			}
		}
		switch invalid {
		case "unknown":
			s.Wait = insertAt(s.Wait, "zz", hx.Uniform(rt, len(s.Wait)+1, "invpos"))
		case "self":
			s.Wait = insertAt(s.Wait, s.Name, hx.Uniform(rt, len(s.Wait)+1, "invpos"))
		default:
			valid = append(valid, s.Name)
		}
		c.Subs = append(c.Subs, s)
	}
	c.WaitDelayUs = delays[hx.Uniform(rt, len(delays), "waitdelay")]
	return c
}

func sepOf(s string) string {
	if s == "" {
		return ","
	}
	return s
}

func okSep(s string) bool {
	return s == "" || (strings.Count(s, ",") == 1 && strings.Trim(s, ", \t\n") == "")
}

func insertAt(l []string, v string, pos int) []string {
	out := make([]string, 0, len(l)+1)
	out = append(out, l[:pos]...)
	out = append(out, v)
	return append(out, l[pos:]...)
}

// ---------------------------------------------------------------------------------------
// event log

type event struct {
	seq   int
	task  string // full task name
	idx   int    // command index in the body of that task
	begin bool
	fail  bool // end event of a failing probe
}

type probeSpec struct {
	task string
	idx  int
	us   int
	fail string
}

type run struct {
	mu     sync.Mutex
	events []event
	probes map[string]probeSpec

	// detached submissions
	spawns      map[string]spawnSpec // by command id
	spawnRes    map[string]spawnResult
	groupScopes map[int]app.Scope // isolated mode: scope of the top-level submission #i
	waitStarted atomic.Bool       // the driver is in (or past) TasksManager.Wait
	mode        string
	root        app.Scope
	runner      pipservices.Runner
	cwd         filesystem.Filespace
	ns          pipservices.Namespaces
}

type spawnSpec struct {
	top    int // index of the submitting top-level submission
	name   string
	wait   []string
	script string
	scope  string
}

type spawnResult struct {
	refused   bool // Runner.Run returned an error
	afterWait bool // TasksManager.Wait had already been called when Runner.Run was called
}

// spawn is the harness command "s id=<id>": a detached submission from inside a body. It
// behaves like a custom command that uses the runner service: the error of Runner.Run is
// the result of the command.
func (r *run) spawn(a app.App, ctx app.IOContext) error {
	var deps struct {
		ID string `command:"id"`
	}
	if err := ctx.Scope().InjectTo(&deps); err != nil {
		return err
	}
	sp, ok := r.spawns[deps.ID]
	if !ok {
		return fmt.Errorf("harness: unknown spawn id %q", deps.ID)
	}
	scp := r.root
	if r.mode == "isolated" {
		if sp.scope == "group" {
			r.mu.Lock()
			scp = r.groupScopes[sp.top]
			r.mu.Unlock()
		} else {
			scp = scope.NewChild(r.root, scope.ChildParams{
				ContextScope: contextscope.NewIsolated(r.root.BaseContextScope()),
				Name:         "iso:" + sp.name,
			})
		}
	}
	after := r.waitStarted.Load()
	err := r.runner.Run(pipservices.Pip{
		Context: pipservices.PipContext{
			In:    gio.NewInput(strings.NewReader(sp.script)),
			Out:   gio.NewNilOutput(),
			Err:   gio.NewNilOutput(),
			CWD:   r.cwd,
			Scope: scp,
		},
		Name:       sp.name,
		Namespaces: r.ns,
		Sandbox:    "self",
		Lock:       commservices.LockMap{},
		Wait:       append([]string(nil), sp.wait...),
	})
	r.mu.Lock()
	r.spawnRes[deps.ID] = spawnResult{refused: err != nil, afterWait: after}
	r.mu.Unlock()
	return err
}

func (r *run) log(task string, idx int, begin, fail bool) {
	r.mu.Lock()
	r.events = append(r.events, event{seq: len(r.events), task: task, idx: idx, begin: begin, fail: fail})
	r.mu.Unlock()
}

func (r *run) snapshot() []event {
	r.mu.Lock()
	defer r.mu.Unlock()
	return append([]event(nil), r.events...)
}

var errProbe = errors.New("probe failure")

func (r *run) probe(a app.App, ctx app.IOContext) error {
	var deps struct {
		ID string `command:"id"`
	}
	if err := ctx.Scope().InjectTo(&deps); err != nil {
		return err
	}
	p, ok := r.probes[deps.ID]
	if !ok {
		return fmt.Errorf("harness: unknown probe id %q", deps.ID)
	}
	r.log(p.task, p.idx, true, false)
	if p.us == 0 {
		runtime.Gosched()
	} else {
		time.Sleep(time.Duration(p.us) * time.Microsecond)
	}
	r.log(p.task, p.idx, false, p.fail != "")
	switch p.fail {
	case "return":
		return errProbe
	case "append":
		ctx.Scope().AppendError(errProbe)
	}
	return nil
}

// ---------------------------------------------------------------------------------------
// application bootstrap (same modules as goatcore's own pipelinem tests)

type services struct {
	Runner    pipservices.Runner    `dependency:"PipRunner"`
	TasksUnit pipservices.TasksUnit `dependency:"PipTasksUnit"`
}

// newApp boots the application. before (optional) runs on the fresh app before the modules
// register their default factories (an explicit factory registered there wins).
func newApp(r *run, before func(app.App) error) (svc services, mapp *goatapp.MockupApp, err error) {
	if mapp, err = goatapp.NewMockupApp(goatapp.Params{}); err != nil {
		return svc, nil, err
	}
	if before != nil {
		if err = before(mapp); err != nil {
			return svc, nil, err
		}
	}
	b := bootstrap.NewBootstrap(mapp)
	for _, m := range []app.Module{terminalm.NewModule(), commonm.NewModule(), ocm.NewModule(), pipelinem.NewModule()} {
		if err = b.Register(m); err != nil {
			return svc, nil, err
		}
	}
	if err = b.Init(); err != nil {
		return svc, nil, err
	}
	if r != nil {
		mapp.Terminal().SetCommand(terminal.NewCommand(terminal.CommandParams{Name: "p", Callback: r.probe}))
		mapp.Terminal().SetCommand(terminal.NewCommand(terminal.CommandParams{Name: "s", Callback: r.spawn}))
	}
	err = mapp.DependencyProvider().InjectTo(&svc)
	return svc, mapp, err
}

// pipRunArgs calls the callback of the terminal command pip:run with the given arguments
// in a command scope of its own (child of parent, sharing its data and events, like
// termexec.RunCommand builds it). The scope is not closed by the caller: closing it would
// wait for the submitted task.
func pipRunArgs(mapp app.App, parent app.Scope, cwd filesystem.Filespace, args ...string) error {
	cmd := mapp.Terminal().Command("pip:run")
	if cmd == nil {
		return errors.New("harness: pip:run is not registered")
	}
	argsData := datascope.New(make(map[interface{}]interface{}))
	if err := argscope.InjectArgs(argsData, append([]string{"pip:run"}, args...)...); err != nil {
		return err
	}
	callScope := scope.NewChild(parent, scope.ChildParams{
		DataScope:  parent.BaseDataScope(),
		EventScope: parent.BaseEventScope(),
		Injector:   injector.NewMultiInjector([]app.Injector{mapp, datascope.NewInjector("command", argsData)}),
		Name:       "command:pip:run",
	})
	return cmd.Callback()(mapp, gio.NewIOContext(callScope, gio.NewIO(gio.IOParams{
		In:  gio.NewInput(strings.NewReader("")),
		Out: gio.NewNilOutput(),
		Err: gio.NewNilOutput(),
		CWD: cwd,
	})))
}

// ---------------------------------------------------------------------------------------
// executor

// taskInfo is what the harness knows about one (top-level or nested) task.
type taskInfo struct {
	full     string
	parent   *taskInfo
	group    int      // context group: 0 in shared mode, index of the top-level submission in isolated mode
	wait     []string // full names
	body     []Cmd
	invalid  bool // wait list names itself or a task that nobody ever submitted: must be refused
	loose    bool // waits for a name whose own submission was refused: accepted or refused, both fine
	accepted bool // top level: Run returned nil; nested: the manager knows it
	refused  bool // top level only: Run returned an error
	nested   map[int]*taskInfo
	detached map[int]*taskInfo // by body index: tasks spawned by "spawn" commands of this body
	spawn    bool              // this task is a detached one
	spawnID  string
	top      int  // index of the (submitting) top-level submission
	reached  bool // spawn: the spawn command ran (Runner.Run was called)
	after    bool // spawn: ... after the driver had called TasksManager.Wait
	events   []event
	failed   bool // Errors() non-empty once everything finished
	ownFail  bool // one of its own probes ran and failed
	complete bool // every command of the body shows evidence of having run to its end
	hasBad   bool // the body contains a nested submission that must be refused
}

func (r *run) script(top int, full string, body []Cmd) string {
	probes := r.probes
	var lines []string
	for i, cmd := range body {
		switch cmd.Kind {
		case "spawn":
			id := fmt.Sprintf("%s.%d", full, i)
			var nb []string
			for k, nc := range cmd.Body {
				pid := fmt.Sprintf("%s.%d", cmd.Name, k)
				probes[pid] = probeSpec{task: cmd.Name, idx: k, us: nc.Us, fail: nc.Fail}
				nb = append(nb, "p id="+pid)
			}
			r.spawns[id] = spawnSpec{top: top, name: cmd.Name, wait: cmd.Wait, script: strings.Join(nb, "\n"), scope: cmd.Scope}
			lines = append(lines, "s id="+id)
		case "run":
			nfull := full + ":" + cmd.Name
			var nb []string
			for k, nc := range cmd.Body {
				id := fmt.Sprintf("%s.%d", nfull, k)
				probes[id] = probeSpec{task: nfull, idx: k, us: nc.Us, fail: nc.Fail}
				nb = append(nb, "p id="+id)
			}
			l := fmt.Sprintf("pip:run --name=%s --sandbox=self --body=\"%s\"", cmd.Name, strings.Join(nb, "\n"))
			if len(cmd.Wait) > 0 {
				l += " --wait=\"" + strings.Join(cmd.Wait, sepOf(cmd.Sep)) + "\""
			}
			lines = append(lines, l)
		default:
			id := fmt.Sprintf("%s.%d", full, i)
			probes[id] = probeSpec{task: full, idx: i, us: cmd.Us, fail: cmd.Fail}
			lines = append(lines, "p id="+id)
		}
	}
	return strings.Join(lines, "\n")
}

func wellFormed(c Case) bool {
	if c.Mode != "shared" && c.Mode != "isolated" {
		return false
	}
	seen := map[string]bool{}
	okName := func(s string) bool {
		if s == "" {
			return false
		}
		for _, ch := range s {
			if !(ch >= 'a' && ch <= 'z' || ch >= 'A' && ch <= 'Z' || ch >= '0' && ch <= '9' || ch == '_') {
				return false
			}
		}
		return !(s[0] >= '0' && s[0] <= '9') // pip:run's name pattern: ^[a-zA-Z_]+[a-zA-Z0-9_]*$
	}
	for _, s := range c.Subs {
		for _, cmd := range s.Body {
			if cmd.Kind == "spawn" {
				if !okName(cmd.Name) || seen[cmd.Name] || len(cmd.Body) == 0 || (cmd.Scope != "own" && cmd.Scope != "group") {
					return false
				}
				seen[cmd.Name] = true
			}
		}
	}
	for _, s := range c.Subs {
		if !okName(s.Name) || seen[s.Name] || len(s.Body) == 0 || (s.Via != "" && s.Via != "piprun") || !okSep(s.Sep) {
			return false
		}
		seen[s.Name] = true
		for _, w := range s.Wait {
			if !okName(w) {
				return false
			}
		}
		nseen := map[string]bool{}
		for _, cmd := range s.Body {
			switch cmd.Kind {
			case "probe":
			case "spawn":
				for _, w := range cmd.Wait {
					if !okName(w) {
						return false
					}
				}
				for _, nc := range cmd.Body {
					if nc.Kind != "probe" {
						return false
					}
				}
			case "run":
				if !okName(cmd.Name) || nseen[cmd.Name] || len(cmd.Body) == 0 || !okSep(cmd.Sep) {
					return false
				}
				nseen[cmd.Name] = true
				for _, w := range cmd.Wait {
					if !okName(w) {
						return false
					}
				}
				for _, nc := range cmd.Body {
					if nc.Kind != "probe" {
						return false
					}
				}
			default:
				return false
			}
		}
	}
	return true
}

const fullWatchdog = 20 * time.Second

// hangSeen: once a full 20 s watchdog expired in this process every later case in the same
// process (that is: the shrinking attempts of rapid) uses a shorter one, otherwise
// minimising a hang would take hours. The first detection and every replay (fresh
// process) always use the full watchdog.
var hangSeen atomic.Bool

func watchdog() time.Duration {
	if hangSeen.Load() {
		return 6 * time.Second
	}
	return fullWatchdog
}

// Exec runs one task program against the real runner and judges it.
func Exec(c Case) hx.Verdict {
	if !wellFormed(c) {
		v := hx.Pass()
		v.Inconclusive = true
		return v
	}
	hx.PersistCurrent("graph", c)
	defer hx.ClearCurrent()
	return hx.Guard(func() hx.Verdict { return exec(c) })
}

func exec(c Case) hx.Verdict {
	if c.Gomaxprocs > 0 {
		defer runtime.GOMAXPROCS(runtime.GOMAXPROCS(c.Gomaxprocs))
	}
	r := &run{probes: map[string]probeSpec{}, spawns: map[string]spawnSpec{}, spawnRes: map[string]spawnResult{}, groupScopes: map[int]app.Scope{}, mode: c.Mode}
	svc, mapp, err := newApp(r, nil)
	if err != nil {
		v := hx.Pass()
		v.Inconclusive = true
		hx.Note("bootstrap failed: %v", err)
		return v
	}
	var cwd filesystem.Filespace
	if cwd, err = memfs.NewFilespace(); err != nil {
		v := hx.Pass()
		v.Inconclusive = true
		return v
	}
	root := scope.New(scope.Params{Name: "c14root"})
	defer func() {
		defer func() { recover() }()
		root.Stop() // ends the watcher goroutines of the isolated contexts
	}()
	// the root scope owns the task manager; isolated children find it through their data scope
	manager, err := svc.TasksUnit.FromScope(root)
	if err != nil {
		return hx.Fail("bootstrap", "TasksUnit.FromScope: %v", err)
	}
	ns := namespaces.NewNamespaces(pipservices.NamasepacesParams{Task: "", Lock: ""})
	r.root, r.runner, r.cwd, r.ns = root, svc.Runner, cwd, ns

	// ---- static part of the model
	tops := make([]*taskInfo, len(c.Subs))
	scripts := make([]string, len(c.Subs))
	openGroup := map[int]bool{}
	nextGroup := len(c.Subs)
	for i, s := range c.Subs {
		t := &taskInfo{full: s.Name, wait: s.Wait, body: s.Body, nested: map[int]*taskInfo{}, detached: map[int]*taskInfo{}, top: i}
		if c.Mode == "isolated" {
			t.group = i
		}
		scripts[i] = r.script(i, s.Name, s.Body)
		sib := map[string]bool{}
		for k, cmd := range s.Body {
			if cmd.Kind == "spawn" {
				d := &taskInfo{full: cmd.Name, parent: t, group: t.group, wait: cmd.Wait, body: cmd.Body, spawn: true,
					spawnID: fmt.Sprintf("%s.%d", s.Name, k), top: i}
				if c.Mode == "isolated" {
					if cmd.Scope != "group" {
						d.group = nextGroup
						nextGroup++
					}
				}
				t.detached[k] = d
				continue
			}
			if cmd.Kind != "run" {
				continue
			}
			nt := &taskInfo{full: s.Name + ":" + cmd.Name, parent: t, group: t.group, body: cmd.Body}
			for _, w := range cmd.Wait {
				nt.wait = append(nt.wait, s.Name+":"+w)
				if !sib[w] {
					nt.invalid = true // itself, a later sibling, or a name nobody has
				}
			}
			if nt.invalid {
				t.hasBad = true
			} else {
				sib[cmd.Name] = true
			}
			t.nested[k] = nt
		}
		tops[i] = t
	}

	// ---- drive
	var (
		phase    atomic.Value
		waitErr  error
		waitSnap int
		names    []string
		failedBy = map[string]bool{}
		known    = map[string]bool{}
	)
	phase.Store("start")
	done := make(chan hx.Verdict, 1)
	go func() {
		done <- hx.Guard(func() hx.Verdict {
			submitted := map[string]*taskInfo{}
			for i, s := range c.Subs {
				t := tops[i]
				for _, w := range s.Wait {
					p, was := submitted[w]
					switch {
					case w == s.Name || !was:
						t.invalid = true
					case !p.accepted:
						t.loose = true
					}
				}
				if s.DelayUs > 0 {
					time.Sleep(time.Duration(s.DelayUs) * time.Microsecond)
				}
				phase.Store(fmt.Sprintf("Runner.Run of submission #%d (%s)", i, s.Name))
				scp := root
				if c.Mode == "isolated" {
					scp = scope.NewChild(root, scope.ChildParams{
						ContextScope: contextscope.NewIsolated(root.BaseContextScope()),
						Name:         "iso:" + s.Name,
					})
					r.mu.Lock()
					r.groupScopes[i] = scp
					r.mu.Unlock()
				}
				var rerr error
				if s.Via == "piprun" {
					args := []string{"--name=" + s.Name, "--sandbox=self", "--body=" + scripts[i]}
					if len(s.Wait) > 0 {
						args = append(args, "--wait="+strings.Join(s.Wait, sepOf(s.Sep)))
					}
					rerr = pipRunArgs(mapp, scp, cwd, args...)
				} else {
					rerr = svc.Runner.Run(pipservices.Pip{
						Context: pipservices.PipContext{
							In:    gio.NewInput(strings.NewReader(scripts[i])),
							Out:   gio.NewNilOutput(),
							Err:   gio.NewNilOutput(),
							CWD:   cwd,
							Scope: scp,
						},
						Name:       s.Name,
						Namespaces: ns,
						Sandbox:    "self",
						Lock:       commservices.LockMap{},
						Wait:       append([]string(nil), s.Wait...),
					})
				}
				t.accepted = rerr == nil
				t.refused = rerr != nil
				submitted[s.Name] = t
			}
			if c.WaitDelayUs > 0 {
				time.Sleep(time.Duration(c.WaitDelayUs) * time.Microsecond)
			}
			phase.Store("TasksManager.Wait")
			r.waitStarted.Store(true)
			waitErr = manager.Wait()
			waitSnap = len(r.snapshot())
			// settle: every task the manager knows is waited for individually (repeated until no
			// new task shows up), so that the log is final and Errors() is stable when the
			// oracle reads them
			phase.Store("Task.Wait of the tasks listed by the manager after TasksManager.Wait returned")
			for {
				names = manager.Names()
				fresh := false
				for _, n := range names {
					if known[n] {
						continue
					}
					if t, ok := manager.Get(n); ok {
						t.Wait()
						known[n] = true
						fresh = true
					}
				}
				if !fresh {
					break
				}
			}
			for _, n := range names {
				if t, ok := manager.Get(n); ok {
					failedBy[n] = len(t.Errors()) != 0
				}
			}
			return hx.Pass()
		})
	}()
	var dv hx.Verdict
	select {
	case dv = <-done:
	case <-time.After(watchdog()):
		hangSeen.Store(true)
		ph := phase.Load().(string)
		v := hx.Fail("progress", "%s did not return within the watchdog (every accepted submission must finish and waiting on the task manager must return); events per task so far:\n%s",
			ph, renderLog(r.snapshot()))
		v.Label("mode:" + c.Mode)
		return v
	}
	if !dv.OK {
		return dv
	}

	// ---- observations
	evs := r.snapshot()
	byTask := map[string][]event{}
	for _, e := range evs {
		byTask[e.task] = append(byTask[e.task], e)
	}
	all := map[string]*taskInfo{}
	var order []*taskInfo
	for _, t := range tops {
		all[t.full] = t
		order = append(order, t)
		var ks []int
		for k := range t.nested {
			ks = append(ks, k)
		}
		sort.Ints(ks)
		for _, k := range ks {
			nt := t.nested[k]
			nt.accepted = known[nt.full]
			all[nt.full] = nt
			order = append(order, nt)
		}
		ks = ks[:0]
		for k := range t.detached {
			ks = append(ks, k)
		}
		sort.Ints(ks)
		for _, k := range ks {
			d := t.detached[k]
			r.mu.Lock()
			res, ok := r.spawnRes[d.spawnID]
			r.mu.Unlock()
			if ok {
				d.reached, d.after = true, res.afterWait
				d.refused = res.refused
				d.accepted = !res.refused
				if d.accepted && d.group == t.group && c.Mode == "isolated" {
					// errors can reach this group after its top-level task finished
					openGroup[t.group] = true
				}
			}
			all[d.full] = d
			order = append(order, d)
		}
	}
	// admission class of the detached submissions: names that must exist when the spawn
	// command runs are the submitting task and the top-level tasks submitted before it
	for _, d := range order {
		if !d.spawn {
			continue
		}
		for _, w := range d.wait {
			wt := all[w]
			switch {
			case w == d.full || wt == nil:
				d.invalid = true
			case wt.parent != nil || wt.top > d.top || !wt.accepted:
				d.loose = true // may or may not exist at that moment / its own submission was refused
			}
		}
		if d.invalid {
			d.parent.hasBad = true
		}
	}
	for _, t := range order {
		t.events = byTask[t.full]
		t.failed = failedBy[t.full]
	}
	fail := func(clause, format string, a ...interface{}) hx.Verdict {
		v := hx.Fail(clause, format+"\nevents per task:\n%s", append(a, renderLog(evs))...)
		return v
	}
	if os.Getenv("VERIF_C14_DEBUG") != "" {
		fmt.Printf("DEBUG mode=%s waitErr=%v names=%v failed=%v\n%s", c.Mode, waitErr != nil, names, failedBy, renderLog(evs))
		for _, e := range evs {
			fmt.Printf("  %d %s #%d begin=%v fail=%v\n", e.seq, e.task, e.idx, e.begin, e.fail)
		}
	}
	anyFailed := false
	for _, n := range names {
		if failedBy[n] {
			anyFailed = true
		}
	}

	// clause wait-not-early: "waiting on the task manager returns once all have [finished]"
	if len(evs) != waitSnap {
		late := evs[waitSnap]
		return fail("wait-early", "TasksManager.Wait returned while task %s was still running (command #%d logged an event afterwards)", late.task, late.idx)
	}
	// clause wait-result: "reporting an error exactly when some task failed"
	if (waitErr != nil) != anyFailed {
		return fail("wait-result", "TasksManager.Wait error=%v but a task with errors exists=%v", waitErr != nil, anyFailed)
	}

	// clause admission: "a task may only wait for tasks that already exist"
	for _, t := range tops {
		switch {
		case t.invalid && t.accepted:
			return fail("refuse-invalid", "submission %s waits for %v (itself or a task that does not exist) and was accepted", t.full, t.wait)
		case !t.invalid && !t.loose && t.refused && !(c.Mode == "shared" && anyFailed):
			return fail("spurious-refusal", "submission %s (wait list %v, all existing tasks) was refused although nothing failed in its scope", t.full, t.wait)
		}
		if t.refused {
			if len(t.events) != 0 {
				return fail("refused-ran", "submission %s was refused but its body ran", t.full)
			}
			for _, nt := range t.nested {
				if len(nt.events) != 0 || nt.accepted {
					return fail("refused-ran", "submission %s was refused but its nested task %s exists", t.full, nt.full)
				}
			}
		}
	}
	for _, t := range order {
		if t.parent != nil && !t.spawn && t.invalid && len(t.events) != 0 {
			return fail("refuse-invalid", "nested submission %s waits for %v (itself or a task that does not exist) and its body ran", t.full, t.wait)
		}
	}
	for _, d := range order {
		if !d.spawn {
			continue
		}
		if !d.reached || d.refused {
			if len(d.events) != 0 || known[d.full] {
				return fail("refused-ran", "detached submission %s was never made or was refused, but the task exists", d.full)
			}
		}
		if d.parent.refused && d.reached {
			return fail("refused-ran", "submission %s was refused but its body ran (it submitted %s)", d.parent.full, d.full)
		}
		if !d.reached {
			continue
		}
		// may the scope the task is submitted into be done already? shared: the one scope
		// after any failure; isolated "group": the submitter's scope after a failure in that
		// group; isolated "own": a fresh scope, never
		scopeMayBeDone := (c.Mode == "shared" && anyFailed) || (c.Mode == "isolated" && d.group == d.parent.group && d.parent.failed)
		switch {
		case d.invalid && d.accepted:
			return fail("refuse-invalid", "detached submission %s waits for %v (itself or a task that does not exist) and was accepted", d.full, d.wait)
		case !d.invalid && !d.loose && d.refused && !scopeMayBeDone:
			return fail("spurious-refusal", "detached submission %s (wait list %v, all existing tasks) was refused although nothing failed in its scope", d.full, d.wait)
		}
	}
	// an accepted submission is a task of the manager (otherwise nobody could wait for it)
	for _, t := range order {
		if (t.parent == nil || t.spawn) && t.accepted && !known[t.full] {
			return fail("accepted-unknown", "Runner.Run accepted %s but the task manager does not list it", t.full)
		}
	}

	// clause script-order: "within one body, commands run one at a time in script order and
	// stop at the first failing command"
	for _, t := range order {
		if v, bad := checkBody(t, fail); bad {
			return v
		}
	}
	live := func(t *taskInfo) bool { return t.accepted && !(t.parent != nil && !t.spawn && t.invalid) }

	// clause wait-order: "starts executing its body only after every task named in its wait list has finished"
	for _, t := range order {
		if !live(t) || len(t.events) == 0 {
			continue
		}
		for _, wn := range t.wait {
			w := all[wn]
			if w == nil || !live(w) || len(w.events) == 0 {
				continue
			}
			if w.events[len(w.events)-1].seq > t.events[0].seq {
				return fail("wait-order", "task %s (waits for %s) began its body before %s had finished its last command", t.full, w.full, w.full)
			}
		}
	}

	// clause failed-prerequisite: "if any of those finished with an error its body is never
	// executed and the task itself ends failed"
	blocked := map[string]bool{}
	for _, t := range order { // submissions only wait for earlier ones, so one pass in order suffices
		if !live(t) {
			continue
		}
		for _, wn := range t.wait {
			w := all[wn]
			if w == nil || !live(w) {
				continue
			}
			// a task of another isolated group: nothing outside w's own group can add errors to
			// w, and that group is finished before w is, so "w has errors" == "w finished with
			// an error". Inside one group (shared context) errors may arrive after w finished,
			// there only w's own log counts.
			// A group that also holds a detached task (scope "group") is open: that task can
			// fail after w finished.
			if w.ownFail || blocked[w.full] || (w.group != t.group && !openGroup[w.group] && w.failed) {
				blocked[t.full] = true
			}
		}
		if !blocked[t.full] {
			continue
		}
		if len(t.events) != 0 {
			return fail("failed-prerequisite", "task %s ran its body although a task of its wait list %v finished with an error", t.full, t.wait)
		}
		for _, nt := range t.nested {
			if nt.accepted || len(nt.events) != 0 {
				return fail("failed-prerequisite", "task %s submitted %s although a task of its wait list %v finished with an error", t.full, nt.full, t.wait)
			}
		}
		for _, d := range t.detached {
			if d.reached {
				return fail("failed-prerequisite", "task %s submitted %s although a task of its wait list %v finished with an error", t.full, d.full, t.wait)
			}
		}
		if !t.failed {
			return fail("failed-prerequisite", "task %s reports no error although a task of its wait list %v finished with an error", t.full, t.wait)
		}
	}

	// clause task-status: a task whose command failed ends failed; a task that ends without
	// errors ran its whole body ("stop at the first failing command" - and only there)
	for _, t := range order {
		if !live(t) {
			continue
		}
		if t.ownFail && !t.failed {
			return fail("task-status", "a command of task %s failed but the task reports no error", t.full)
		}
		if !t.failed && !t.complete {
			return fail("task-status", "task %s reports no error but did not run its whole body", t.full)
		}
	}

	// clause spurious-failure: "an error exactly when some task failed" - a group of tasks
	// sharing one context only reports errors when something in it (or a prerequisite) failed
	groupFailed := map[int]bool{}
	groupReason := map[int]bool{}
	for _, t := range order {
		if !live(t) {
			continue
		}
		if t.failed {
			groupFailed[t.group] = true
		}
		if t.ownFail || t.hasBad || blocked[t.full] {
			groupReason[t.group] = true
		}
		// a prerequisite that has errors in the end may have had them when it finished (the
		// runtime then rightly failed t); where that is not certain it is still a possible cause
		for _, wn := range t.wait {
			if w := all[wn]; w != nil && live(w) && w.failed {
				groupReason[t.group] = true
			}
		}
	}
	for g, f := range groupFailed {
		if f && !groupReason[g] {
			who := "the shared scope"
			if c.Mode == "isolated" {
				for _, t := range order {
					if t.group == g && (t.parent == nil || t.spawn) {
						who = "the isolated task " + t.full
						break
					}
				}
			}
			return fail("spurious-failure", "%s reports errors although no command failed, no nested submission had to be refused and no prerequisite failed", who)
		}
	}

	// ---- accounting
	v := hx.Pass()
	v.Label("mode:" + c.Mode)
	edges, overlap, nestedN, refusedN := 0, false, 0, 0
	var spans [][3]int // first seq, last seq, top index
	for i, t := range tops {
		if t.refused {
			refusedN++
			if t.invalid {
				self := false
				for _, w := range t.wait {
					if w == t.full {
						self = true
					}
				}
				if self {
					v.Label("refused:cycle")
				} else {
					v.Label("refused:unknown")
				}
			} else {
				v.Label("refused:scope-done")
			}
			continue
		}
		for _, wn := range t.wait {
			if w := all[wn]; w != nil && w.accepted {
				edges++
			}
		}
		if c.Subs[i].Via == "piprun" {
			v.Label("via-piprun")
			if len(t.wait) >= 2 {
				v.Label("piprun-wait-list>=2")
			}
			if strings.Trim(c.Subs[i].Sep, ",") != "" && len(t.wait) >= 2 {
				v.Label("piprun-wait-list-with-blanks")
			}
			for a := range t.wait {
				for b := a + 1; b < len(t.wait); b++ {
					x, y := t.wait[a], t.wait[b]
					switch {
					case x != y && strings.HasSuffix(x, y):
						v.Label("piprun-wait-list:later-name-is-suffix-of-earlier")
					case x != y && strings.HasSuffix(y, x):
						v.Label("piprun-wait-list:earlier-name-is-suffix-of-later")
					case x != y && (strings.HasPrefix(x, y) || strings.HasPrefix(y, x)):
						v.Label("piprun-wait-list:prefix-related-names")
					case x != y && strings.EqualFold(x, y):
						v.Label("piprun-wait-list:names-differ-in-case-only")
					}
				}
			}
		} else {
			v.Label("via-runner")
		}
		lo, hi := -1, -1
		fam := []*taskInfo{t}
		for _, nt := range t.nested {
			fam = append(fam, nt)
			if nt.accepted && !nt.invalid {
				nestedN++
			}
			if nt.invalid {
				v.Label("refused:nested")
			}
		}
		for _, m := range fam {
			for _, e := range m.events {
				if lo < 0 || e.seq < lo {
					lo = e.seq
				}
				if e.seq > hi {
					hi = e.seq
				}
			}
		}
		if lo >= 0 {
			spans = append(spans, [3]int{lo, hi, i})
		}
		if blocked[t.full] {
			v.Label("dependant-of-failed-task-skipped")
		}
		if t.ownFail {
			v.Label("failing-task")
		}
		for _, d := range t.detached {
			if d.invalid && d.reached {
				v.Label("refused:detached")
			}
			if !d.accepted {
				continue
			}
			v.Label("detached-submission")
			if c.Mode == "isolated" {
				v.Label("detached-scope:" + c.Subs[i].Body[bodyIndex(t, d)].Scope)
			}
			for _, wn := range d.wait {
				if w := all[wn]; w != nil && w.accepted {
					edges++
					v.Label("detached-with-wait-list")
				}
			}
			if d.after {
				v.Label("detached-registered-while-wait-is-waiting")
			}
			if d.ownFail {
				v.Label("detached-fails")
			}
			if blocked[d.full] {
				v.Label("dependant-of-failed-task-skipped")
			}
			if len(d.events) == 0 {
				continue
			}
			dlo, dhi := d.events[0].seq, d.events[len(d.events)-1].seq
			spans = append(spans, [3]int{dlo, dhi, len(tops) + len(spans)})
			if hi < dhi {
				v.Label("detached-outlives-submitter")
			}
			if d.after && dhi == len(evs)-1 {
				v.Label("detached-registered-during-wait-finishes-last")
				if d.ownFail {
					v.Label("detached-registered-during-wait-finishes-last-and-fails")
				}
			}
		}
	}
	for i := range spans {
		for j := i + 1; j < len(spans); j++ {
			if spans[i][0] < spans[j][1] && spans[j][0] < spans[i][1] {
				overlap = true
			}
		}
	}
	if overlap {
		v.Label("bodies-overlap")
	}
	if edges > 0 {
		v.Label("wait-edge")
	}
	if nestedN > 0 {
		v.Label("nested-submission")
	}
	if refusedN > 0 {
		v.Label("refused-then-wait")
	}
	if anyFailed {
		v.Label("wait-reports-error")
	} else {
		v.Label("wait-reports-nil")
	}
	v.Label(fmt.Sprintf("gomaxprocs=%d", c.Gomaxprocs))
	v.Count("events", int64(len(evs)))
	v.Count("tasks", int64(len(names)))
	v.NonTrivial = overlap && edges > 0
	// wait chains: a dependant of a dependant
	for _, t := range tops {
		for _, wn := range t.wait {
			if w := all[wn]; t.accepted && w != nil && w.accepted && w.parent == nil && len(w.wait) > 0 {
				v.Label("wait-chain>=2")
			}
		}
	}
	// one count per case and label
	seen := map[string]bool{}
	uniq := v.Labels[:0]
	for _, l := range v.Labels {
		if !seen[l] {
			seen[l] = true
			uniq = append(uniq, l)
		}
	}
	v.Labels = uniq
	return v
}

// checkBody verifies the per-body clauses on the events of one task and fills in
// ownFail/complete.
func checkBody(t *taskInfo, fail func(string, string, ...interface{}) hx.Verdict) (hx.Verdict, bool) {
	// events of one task: begin/end pairs, one at a time, indices strictly increasing
	last := -1
	open := -1
	began := map[int]bool{}
	ended := map[int]bool{}
	failedAt := -1
	for _, e := range t.events {
		if e.idx < 0 || e.idx >= len(t.body) || t.body[e.idx].Kind != "probe" {
			return fail("script-order", "task %s logged an event for command #%d which is not a probe of its body", t.full, e.idx), true
		}
		if e.begin {
			if open >= 0 {
				return fail("script-order", "task %s began command #%d while its command #%d was still running", t.full, e.idx, open), true
			}
			if failedAt >= 0 {
				return fail("script-order", "task %s ran command #%d after its command #%d had failed", t.full, e.idx, failedAt), true
			}
			if e.idx <= last {
				return fail("script-order", "task %s ran command #%d after command #%d (out of script order or twice)", t.full, e.idx, last), true
			}
			open, last = e.idx, e.idx
			began[e.idx] = true
		} else {
			if open != e.idx {
				return fail("script-order", "task %s ended command #%d which was not the running one", t.full, e.idx), true
			}
			open = -1
			ended[e.idx] = true
			if e.fail {
				failedAt = e.idx
				t.ownFail = true
			}
		}
	}
	if open >= 0 {
		return fail("script-order", "command #%d of task %s began but never ended although every task finished", open, t.full), true
	}
	// the executed commands form a prefix of the script that ends at the first failing one.
	// stopped: index of the command at which the body ended early (a failing probe that ran,
	// a nested submission that had to be refused, or the first command without any evidence)
	stopped := -1
	for i, cmd := range t.body {
		var ev, stops bool
		switch cmd.Kind {
		case "probe":
			ev, stops = began[i], cmd.Fail != ""
		case "spawn":
			// the result of Runner.Run is the result of the command: a refused detached
			// submission is a failing command of this body
			d := t.detached[i]
			ev, stops = d.reached, d.reached && d.refused
			if stops {
				t.ownFail = true
			}
		case "run":
			nt := t.nested[i]
			if nt.invalid {
				stops = true // a refused submission is a failing command (no positive evidence exists for it)
			} else {
				ev = nt.accepted || len(nt.events) != 0
			}
		}
		if stopped >= 0 {
			if ev {
				return fail("script-order", "task %s ran command #%d although its body had stopped at command #%d (failed, refused or never run)", t.full, i, stopped), true
			}
			continue
		}
		if !ev || stops {
			stopped = i
		}
	}
	t.complete = stopped < 0
	return hx.Verdict{}, false
}

func bodyIndex(t, d *taskInfo) int {
	for k, x := range t.detached {
		if x == d {
			return k
		}
	}
	return 0
}

// renderLog renders the log deterministically: one line per task (sorted by name) with its
// own events in order; the interleaving between tasks is not shown because it differs
// from run to run (rapid only shrinks failures whose message is stable).
func renderLog(evs []event) string {
	by := map[string][]string{}
	for _, e := range evs {
		s := fmt.Sprintf("end#%d", e.idx)
		if e.begin {
			s = fmt.Sprintf("begin#%d", e.idx)
		} else if e.fail {
			s += "(failed)"
		}
		by[e.task] = append(by[e.task], s)
	}
	var names []string
	for n := range by {
		names = append(names, n)
	}
	sort.Strings(names)
	var b strings.Builder
	for _, n := range names {
		fmt.Fprintf(&b, "  %s: %s\n", n, strings.Join(by[n], " "))
	}
	if len(names) == 0 {
		b.WriteString("  (no events)\n")
	}
	return b.String()
}
