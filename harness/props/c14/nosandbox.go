package c14

import (
	"fmt"
	"runtime"
	"strings"
	"time"

	"github.com/goatcms/goatcore/app/gio"
	"github.com/goatcms/goatcore/app/modules/commonm/commservices"
	"github.com/goatcms/goatcore/app/modules/pipelinem/pipservices"
	"github.com/goatcms/goatcore/app/modules/pipelinem/pipservices/namespaces"
	"github.com/goatcms/goatcore/app/scope"
	"github.com/goatcms/goatcore/app/scope/contextscope"
	"github.com/goatcms/goatcore/filesystem/filespace/memfs"
	"pgregory.net/rapid"
	"verif/harness/hx"
)

// NSCase: submissions whose sandbox cannot be provided (a sandbox name nobody registered) mixed
// with ordinary ones, some of them waiting for the unprovidable one. Whether such a submission
// is refused by Runner.Run or accepted and ended failed is not fixed by the statement; what is:
// a submission that left no task is no task (nothing may wait for it, the manager's Wait
// returns), one that left a task "eventually finishes", a task waiting for a failed task never executes its body,
// and "a task may only wait for tasks that already exist".
type NSCase struct {
	// Subs are submitted in order through Runner.Run on the root scope.
	Subs       []NSSub `json:"subs"`
	Gomaxprocs int     `json:"gomaxprocs"`
}

// NSSub is one submission: one probe command as its body.
type NSSub struct {
	Name   string   `json:"name"`
	Wait   []string `json:"wait,omitempty"`
	NoSB   bool     `json:"no_sb,omitempty"` // its sandbox name is not registered
	SBName string   `json:"sb_name,omitempty"`
	Us     int      `json:"us,omitempty"` // body duration
	Fail   bool     `json:"fail,omitempty"` // its body (one probe command) fails
	Lock   bool     `json:"lock,omitempty"` // it asks for the shared resource "res" for writing
}

// GenNS draws a case.
func GenNS(rt *rapid.T) NSCase {
	c := NSCase{Gomaxprocs: []int{1, 2, 4, 16}[hx.Uniform(rt, 4, "gmp")]}
	n := 2 + hx.Uniform(rt, 5, "nsubs")
	nosb := hx.Uniform(rt, n, "which") // at least one unprovidable
	for i := 0; i < n; i++ {
		s := NSSub{Name: fmt.Sprintf("t%d", i), Us: []int{0, 0, 50, 300, 1500}[hx.Uniform(rt, 5, "us")]}
		s.Lock = high(rt, 50, "lock")
		if i != nosb && high(rt, 20, "failbody") {
			s.Fail = true
		}
		if i == nosb || (!s.Fail && high(rt, 15, "nosb")) {
			s.NoSB = true
			s.SBName = []string{"nosuch", "nosuch:arg", "container", "ssh", "selfx", "docker:"}[hx.Uniform(rt, 6, "sbname")]
		}
		for j := 0; j < i; j++ {
			pct := 25
			if c.Subs[j].NoSB {
				pct = 60
			}
			if high(rt, pct, "wait") {
				s.Wait = append(s.Wait, c.Subs[j].Name)
			}
		}
		c.Subs = append(c.Subs, s)
	}
	return c
}

// ExecNS runs a case.
func ExecNS(c NSCase) hx.Verdict {
	hx.PersistCurrent("nosandbox", c)
	defer hx.ClearCurrent()
	return hx.Guard(func() hx.Verdict { return execNS(c) })
}

func execNS(c NSCase) hx.Verdict {
	v := hx.Pass()
	v.Label("nosandbox")
	if len(c.Subs) == 0 || len(c.Subs) > 12 {
		v.Inconclusive = true
		return v
	}
	seen := map[string]bool{}
	for _, s := range c.Subs {
		if s.Name == "" || seen[s.Name] || strings.ContainsAny(s.Name, " ,;:") {
			v.Inconclusive = true
			return v
		}
		for _, w := range s.Wait {
			if !seen[w] {
				v.Inconclusive = true
				return v
			}
		}
		if s.NoSB && (s.SBName == "" || s.SBName == "self") {
			v.Inconclusive = true
			return v
		}
		seen[s.Name] = true
	}
	if c.Gomaxprocs > 0 {
		defer runtime.GOMAXPROCS(runtime.GOMAXPROCS(c.Gomaxprocs))
	}
	r := &run{probes: map[string]probeSpec{}, spawns: map[string]spawnSpec{}, spawnRes: map[string]spawnResult{}, mode: "shared"}
	svc, _, err := newApp(r, nil)
	if err != nil {
		v.Inconclusive = true
		hx.Note("bootstrap failed: %v", err)
		return v
	}
	cwd, err := memfs.NewFilespace()
	if err != nil {
		v.Inconclusive = true
		return v
	}
	root := scope.New(scope.Params{Name: "c14ns"})
	defer func() {
		defer func() { recover() }()
		root.Stop()
	}()
	manager, err := svc.TasksUnit.FromScope(root)
	if err != nil {
		return hx.Fail("bootstrap", "TasksUnit.FromScope: %v", err)
	}
	ns := namespaces.NewNamespaces(pipservices.NamasepacesParams{Task: "", Lock: ""})
	r.root, r.runner, r.cwd, r.ns = root, svc.Runner, cwd, ns
	for i, s := range c.Subs {
		ps := probeSpec{task: s.Name, idx: 0, us: s.Us}
		if s.Fail {
			ps.fail = "return"
		}
		r.probes[fmt.Sprintf("n%d", i)] = ps
	}

	type outcome struct{ accepted bool }
	res := make([]outcome, len(c.Subs))
	type result struct {
		waitErr error
		failed  map[string]bool
		names   []string
	}
	done := make(chan result, 1)
	phase := make(chan string, 64)
	go func() {
		for i, s := range c.Subs {
			sb := "self"
			if s.NoSB {
				sb = s.SBName
			}
			select {
			case phase <- fmt.Sprintf("Runner.Run of submission #%d (%s, sandbox %q)", i, s.Name, sb):
			default:
			}
			// every submission in a scope with a context of its own (an isolated child of the root, as
			// in the "isolated" mode of the graph kind): a task that ends failed must not cancel the
			// unrelated tasks through a shared context
			scp := scope.NewChild(root, scope.ChildParams{
				ContextScope: contextscope.NewIsolated(root.BaseContextScope()),
				Name:         "iso:" + s.Name,
			})
			rerr := svc.Runner.Run(pipservices.Pip{
				Context: pipservices.PipContext{
					In:    gio.NewInput(strings.NewReader(fmt.Sprintf("p --id=n%d\n", i))),
					Out:   gio.NewNilOutput(),
					Err:   gio.NewNilOutput(),
					CWD:   cwd,
					Scope: scp,
				},
				Name:       s.Name,
				Namespaces: ns,
				Sandbox:    sb,
				Lock:       lockOf(s),
				Wait:       append([]string(nil), s.Wait...),
			})
			res[i].accepted = rerr == nil
		}
		select {
		case phase <- "TasksManager.Wait":
		default:
		}
		out := result{failed: map[string]bool{}}
		out.waitErr = manager.Wait()
		out.names = manager.Names()
		for _, n := range out.names {
			if t, ok := manager.Get(n); ok {
				t.Wait()
				out.failed[n] = len(t.Errors()) != 0
			}
		}
		done <- out
	}()
	var out result
	select {
	case out = <-done:
	case <-time.After(watchdog()):
		last := "start"
	drain:
		for {
			select {
			case p := <-phase:
				last = p
			default:
				break drain
			}
		}
		return hx.Fail("eventually-finishes", "submissions with an unprovidable sandbox: the driver is stuck in %s after %v (a refused submission must leave nothing to wait for; an accepted one must finish)", last, watchdog())
	}
	// judge from the observed accept/refuse decisions
	idx := map[string]int{}
	for i, s := range c.Subs {
		idx[s.Name] = i
	}
	evs := r.snapshot()
	ran := map[string]bool{}
	for _, e := range evs {
		if e.begin {
			ran[e.task] = true
		}
	}
	inManager := map[string]bool{}
	for _, n := range out.names {
		inManager[n] = true
	}
	anyFailed := false
	mustFail := make([]bool, len(c.Subs))
	for i, s := range c.Subs {
		// what counts is whether a task of that name exists afterwards; Runner.Run may report an
		// unprovidable sandbox as an error AND leave a finished, failed task behind
		exists := inManager[s.Name]
		runOK := res[i].accepted
		waitsMissing, waitsFailed := false, false
		for _, w := range s.Wait {
			j := idx[w]
			if !inManager[w] {
				waitsMissing = true
			} else if mustFail[j] || out.failed[w] {
				waitsFailed = true
			}
		}
		if !exists {
			if runOK {
				return hx.Fail("accepted-is-a-task", "submission %s was accepted by Runner.Run but the task manager does not list it", s.Name)
			}
			if ran[s.Name] {
				return hx.Fail("refused-runs-nothing", "submission %s was refused by Runner.Run and is no task, but its body ran", s.Name)
			}
			if !s.NoSB && !waitsMissing {
				return hx.Fail("valid-accepted", "submission %s (self sandbox, every task of its wait list %v exists) was refused", s.Name, s.Wait)
			}
			continue
		}
		if waitsMissing {
			return hx.Fail("waits-only-for-existing", "task %s exists although its wait list %v names a submission that is no task", s.Name, s.Wait)
		}
		if s.NoSB {
			// without a sandbox it cannot have executed and must have ended failed
			mustFail[i] = true
			if ran[s.Name] {
				return hx.Fail("no-sandbox-no-body", "submission %s (unregistered sandbox %q) executed its body", s.Name, s.SBName)
			}
		}
		if waitsFailed {
			mustFail[i] = true
			if ran[s.Name] {
				return hx.Fail("no-body-after-failed-prerequisite", "task %s executed its body although a task of its wait list %v ended failed", s.Name, s.Wait)
			}
		}
		if s.Fail && !mustFail[i] && runOK {
			// its prerequisites were fine and its sandbox exists: the body runs, fails, the task ends failed
			if !ran[s.Name] {
				return hx.Fail("body-executed", "task %s (self sandbox, no failed prerequisite) never executed its body", s.Name)
			}
			mustFail[i] = true
		}
		if mustFail[i] && !out.failed[s.Name] {
			return hx.Fail("ends-failed", "task %s (unprovidable sandbox or failed prerequisite) did not end failed", s.Name)
		}
		if !mustFail[i] && runOK {
			if !ran[s.Name] {
				return hx.Fail("body-executed", "task %s (self sandbox, no failed prerequisite) never executed its body", s.Name)
			}
			if out.failed[s.Name] {
				return hx.Fail("ends-ok", "task %s (self sandbox, no failed prerequisite, succeeding body) ended failed", s.Name)
			}
		}
		if out.failed[s.Name] {
			anyFailed = true
		}
	}
	if (out.waitErr != nil) != anyFailed {
		return hx.Fail("wait-reports-error-iff-failed", "TasksManager.Wait returned error=%v, some task failed=%v", out.waitErr != nil, anyFailed)
	}
	nRef, nAccNoSB, waiter := 0, 0, false
	for _, s := range c.Subs {
		if s.NoSB && !inManager[s.Name] {
			nRef++
		}
		if s.NoSB && inManager[s.Name] {
			nAccNoSB++
		}
		for _, w := range s.Wait {
			if c.Subs[idx[w]].NoSB {
				waiter = true
			}
		}
	}
	if nRef > 0 {
		v.Label("nosandbox:refused-by-run")
	}
	if nAccNoSB > 0 {
		v.Label("nosandbox:accepted-and-failed")
	}
	if waiter {
		v.Label("nosandbox:later-submission-waits-for-it")
		v.NonTrivial = true
	}
	for i, s := range c.Subs {
		if s.Fail && s.Lock && inManager[s.Name] && ran[s.Name] {
			for _, t := range c.Subs[i+1:] {
				if t.Lock {
					v.Label("nosandbox:task-after-a-failed-holder-of-the-same-resource")
				}
			}
		}
	}
	return v
}

func lockOf(s NSSub) commservices.LockMap {
	if s.Lock {
		return commservices.LockMap{"res": commservices.LockRW}
	}
	return commservices.LockMap{}
}

func sbOf(s NSSub) string {
	if s.NoSB {
		return s.SBName
	}
	return "self"
}
