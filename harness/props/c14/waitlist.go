package c14

// Layer check for the wait list a user writes on "pip:run --wait=...": the real pip:run
// command callback is called with a recording stand-in for the PipRunner dependency
// (registered as an explicit factory before the modules register their defaults) and the
// Pip.Wait it hands to the runner is compared, as a set, with the names that were written.

import (
	"fmt"
	"sort"
	"strings"
	"sync"

	"github.com/goatcms/goatcore/app"
	"github.com/goatcms/goatcore/app/goatapp"
	"github.com/goatcms/goatcore/app/modules/pipelinem/pipservices"
	"github.com/goatcms/goatcore/app/modules/pipelinem/pipservices/namespaces"
	"github.com/goatcms/goatcore/app/scope"
	"github.com/goatcms/goatcore/filesystem"
	"github.com/goatcms/goatcore/filesystem/filespace/memfs"
	"pgregory.net/rapid"
	"verif/harness/hx"
)

// WLCase is one --wait text: Lead + Names[0] + Seps[0] + Names[1] + ... + Trail, written by
// a task whose namespace is Prefix ("" = top level).
type WLCase struct {
	Prefix string   `json:"prefix,omitempty"`
	Names  []string `json:"names"`
	Seps   []string `json:"seps,omitempty"` // len(Names)-1 separators: a comma with optional blanks
	Lead   string   `json:"lead,omitempty"`
	Trail  string   `json:"trail,omitempty"`
}

var wlPieces = []string{"a", "b", "B", "_", "1", "ab", "c", "build", "all_", "t"}
var wlBlanks = []string{"", "", "", "", " ", "\t", "  ", "\n"}

// GenWL draws a wait list over names built from a few pieces, so that suffix, prefix,
// substring, case-only and identical names are frequent.
func GenWL(rt *rapid.T) WLCase {
	c := WLCase{Prefix: []string{"", "", "main", "a", "ab:b"}[hx.Uniform(rt, 5, "prefix")]}
	n := 1 + hx.Uniform(rt, 5, "n")
	var pool []string
	for i := 0; i < n; i++ {
		var name string
		if len(pool) > 0 && high(rt, 45, "derive") {
			// derive from an earlier name: a suffix, a prefix, an extension, another case, the same
			base := pool[hx.Uniform(rt, len(pool), "base")]
			switch hx.Uniform(rt, 6, "how") {
			case 0:
				name = base[hx.Uniform(rt, len(base), "cut"):]
			case 1:
				name = base[:1+hx.Uniform(rt, len(base), "cut")]
			case 2:
				name = wlPieces[hx.Uniform(rt, len(wlPieces), "piece")] + base
			case 3:
				name = base + wlPieces[hx.Uniform(rt, len(wlPieces), "piece")]
			case 4:
				name = strings.ToUpper(base[:1]) + base[1:]
			default:
				name = base
			}
		} else {
			k := 1 + hx.Uniform(rt, 3, "pieces")
			for j := 0; j < k; j++ {
				name += wlPieces[hx.Uniform(rt, len(wlPieces), "piece")]
			}
		}
		if name[0] >= '0' && name[0] <= '9' {
			name = "t" + name
		}
		pool = append(pool, name)
		c.Names = append(c.Names, name)
		if i > 0 {
			c.Seps = append(c.Seps, wlBlanks[hx.Uniform(rt, len(wlBlanks), "sepl")]+","+wlBlanks[hx.Uniform(rt, len(wlBlanks), "sepr")])
		}
	}
	c.Lead = wlBlanks[hx.Uniform(rt, len(wlBlanks), "lead")]
	c.Trail = wlBlanks[hx.Uniform(rt, len(wlBlanks), "trail")]
	return c
}

type recRunner struct {
	mu    sync.Mutex
	calls int
	last  pipservices.Pip
}

func (r *recRunner) Run(pip pipservices.Pip) error {
	r.mu.Lock()
	r.calls++
	r.last = pip
	r.mu.Unlock()
	return nil
}

var wl struct {
	once sync.Once
	err  error
	mapp *goatapp.MockupApp
	rec  *recRunner
	ns   pipservices.NamespacesUnit
	cwd  filesystem.Filespace
}

func wlInit() {
	wl.rec = &recRunner{}
	_, wl.mapp, wl.err = newApp(nil, func(a app.App) error {
		return a.DependencyProvider().AddFactory(pipservices.RunnerService, func(dp app.DependencyProvider) (interface{}, error) {
			return pipservices.Runner(wl.rec), nil
		})
	})
	if wl.err != nil {
		return
	}
	var deps struct {
		NS pipservices.NamespacesUnit `dependency:"PipNamespacesUnit"`
	}
	if wl.err = wl.mapp.DependencyProvider().InjectTo(&deps); wl.err != nil {
		return
	}
	wl.ns = deps.NS
	wl.cwd, wl.err = memfs.NewFilespace()
}

func wlWellFormed(c WLCase) bool {
	if len(c.Names) == 0 || len(c.Seps) != len(c.Names)-1 || strings.Trim(c.Lead+c.Trail, " \t\n") != "" {
		return false
	}
	for _, n := range c.Names {
		if n == "" || (n[0] >= '0' && n[0] <= '9') {
			return false
		}
		for _, ch := range n {
			if !(ch >= 'a' && ch <= 'z' || ch >= 'A' && ch <= 'Z' || ch >= '0' && ch <= '9' || ch == '_') {
				return false
			}
		}
	}
	for _, s := range c.Seps {
		if s == "" || !okSep(s) {
			return false
		}
	}
	for _, p := range strings.Split(c.Prefix, ":") {
		if c.Prefix != "" && p == "" {
			return false
		}
	}
	return true
}

// ExecWL: every task named in --wait must be in the wait list the runner is given (with
// the namespace of the submitting task), and nothing else.
func ExecWL(c WLCase) hx.Verdict {
	if !wlWellFormed(c) {
		v := hx.Pass()
		v.Inconclusive = true
		return v
	}
	wl.once.Do(wlInit)
	if wl.err != nil {
		v := hx.Pass()
		v.Inconclusive = true
		hx.Note("waitlist bootstrap failed: %v", wl.err)
		return v
	}
	return hx.Guard(func() hx.Verdict {
		root := scope.New(scope.Params{Name: "c14wl"})
		if c.Prefix != "" {
			if err := wl.ns.Define(root, namespaces.NewNamespaces(pipservices.NamasepacesParams{Task: c.Prefix})); err != nil {
				return hx.Fail("bootstrap", "NamespacesUnit.Define: %v", err)
			}
		}
		text := c.Lead
		for i, n := range c.Names {
			if i > 0 {
				text += c.Seps[i-1]
			}
			text += n
		}
		text += c.Trail
		wl.rec.mu.Lock()
		before := wl.rec.calls
		wl.rec.mu.Unlock()
		if err := pipRunArgs(wl.mapp, root, wl.cwd, "--name=x", "--body=p", "--wait="+text); err != nil {
			return hx.Fail("wait-list", "pip:run --wait=%q (all names match the name pattern) was refused", text)
		}
		wl.rec.mu.Lock()
		calls, got := wl.rec.calls-before, append([]string(nil), wl.rec.last.Wait...)
		wl.rec.mu.Unlock()
		if calls != 1 {
			return hx.Fail("wait-list", "pip:run --wait=%q called the runner %d times", text, calls)
		}
		want := map[string]bool{}
		for _, n := range c.Names {
			if c.Prefix != "" {
				n = c.Prefix + ":" + n
			}
			want[n] = true
		}
		have := map[string]bool{}
		for _, g := range got {
			have[g] = true
		}
		var missing, extra []string
		for n := range want {
			if !have[n] {
				missing = append(missing, n)
			}
		}
		for n := range have {
			if !want[n] {
				extra = append(extra, n)
			}
		}
		sort.Strings(missing)
		sort.Strings(extra)
		if len(missing)+len(extra) != 0 {
			return hx.Fail("wait-list", "pip:run --wait=%q in namespace %q handed the runner the wait list %q: named but not waited for %q, waited for but not named %q",
				text, c.Prefix, got, missing, extra)
		}
		v := hx.Pass()
		v.NonTrivial = len(want) >= 2
		v.Label(fmt.Sprintf("waitlist:names=%d", len(c.Names)))
		if c.Prefix != "" {
			v.Label("waitlist:namespaced")
		}
		if strings.ContainsAny(text, " \t\n") {
			v.Label("waitlist:blanks")
		}
		rel := map[string]bool{}
		for a := range c.Names {
			for b := a + 1; b < len(c.Names); b++ {
				x, y := c.Names[a], c.Names[b]
				switch {
				case x == y:
					rel["waitlist:same-name-twice"] = true
				case strings.HasSuffix(x, y):
					rel["waitlist:later-name-is-suffix-of-earlier"] = true
				case strings.HasSuffix(y, x):
					rel["waitlist:earlier-name-is-suffix-of-later"] = true
				case strings.HasPrefix(x, y) || strings.HasPrefix(y, x):
					rel["waitlist:prefix-related-names"] = true
				case strings.EqualFold(x, y):
					rel["waitlist:names-differ-in-case-only"] = true
				case strings.Contains(x, y) || strings.Contains(y, x):
					rel["waitlist:substring-related-names"] = true
				}
			}
		}
		for l := range rel {
			v.Label(l)
		}
		sort.Strings(v.Labels)
		return v
	})
}
