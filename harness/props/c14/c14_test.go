package c14

import (
	"encoding/json"
	"testing"

	"verif/harness/hx"
)

func TestMain(m *testing.M) { hx.Main(m, "C14") }

func TestProp(t *testing.T) { hx.Check(t, "graph", Gen, Exec) }

// TestPropWaitList: what pip:run makes of --wait=... (recording runner).
func TestPropWaitList(t *testing.T) { hx.Check(t, "waitlist", GenWL, ExecWL) }

// TestPropNoSandbox: submissions whose sandbox cannot be provided, and later submissions waiting for them.
func TestPropNoSandbox(t *testing.T) { hx.Check(t, "nosandbox", GenNS, ExecNS) }

func TestReplay(t *testing.T) {
	hx.Replay(t, map[string]func(json.RawMessage) (hx.Verdict, error){"graph": hx.Exec(Exec), "": hx.Exec(Exec), "waitlist": hx.Exec(ExecWL), "nosandbox": hx.Exec(ExecNS)})
}
