// Package c01: the in-memory filespace behaves as an abstract file tree on every history.
package c01

import (
	"fmt"

	"github.com/goatcms/goatcore/filesystem/filespace/memfs"
	"pgregory.net/rapid"
	"verif/harness/fsmodel"
	"verif/harness/hx"
)

// Case is a history of filespace operations on a fresh in-memory filespace.
type Case struct {
	Ops []fsmodel.Op `json:"ops"`
}

// Gen draws a history.
func Gen(rt *rapid.T) Case {
	max := 40
	if hx.Thorough() {
		max = 120
	}
	return Case{Ops: fsmodel.GenHistory(rt, fsmodel.GenCfg{MinOps: 1, MaxOps: max, Views: true, OddNames: true, NoisyPaths: true, BigData: true})}
}

// Exec runs the history against memfs and the reference model.
func Exec(c Case) hx.Verdict {
	return hx.Guard(func() hx.Verdict { return run(c) })
}

func run(c Case) hx.Verdict {
	root, err := memfs.NewFilespace()
	if err != nil {
		return hx.Fail("setup", "NewFilespace: %v", err)
	}
	b := fsmodel.NewBackend("mem", root)
	m := fsmodel.NewModel(fsmodel.Options{})
	v := hx.Pass()
	executed := 0
	mutKinds := map[string]map[string]bool{} // first absolute segment -> mutating kinds that succeeded
	shared := false
	labels := map[string]bool{}
	fail := func(i int, clause, detail string) hx.Verdict {
		f := hx.Fail(clause, "%s", detail)
		f.Step = i
		return f
	}
	for i, op := range c.Ops {
		nviews := len(m.Views)
		e := m.Apply(op)
		if e.Skip {
			v.Count("skipped_ops", 1)
			continue
		}
		executed++
		o := b.Run(op)
		if d := fsmodel.Compare(op, e, o); d != "" {
			return fail(i, "result", d)
		}
		if len(m.Views) > nviews && b.Recvs[len(b.Recvs)-1] == nil {
			m.Views[len(m.Views)-1] = nil // 'either' view that the implementation refused
		}
		// whole observable tree after every step
		got, prob := fsmodel.Walk(b.Recvs[0], i == len(c.Ops)-1)
		if prob != "" {
			return fail(i, "tree", fmt.Sprintf("after %s: %s", op, prob))
		}
		if d := fsmodel.Diff(m.Root, got, ""); d != "" {
			return fail(i, "tree", fmt.Sprintf("after %s: %s", op, d))
		}
		if d := b.CheckKept(); d != "" {
			return fail(i, "snapshot", fmt.Sprintf("after %s: %s", op, d))
		}
		// views see exactly the subtree at their base
		for vi := 1; vi < len(m.Views); vi++ {
			if m.Views[vi] == nil || b.Recvs[vi] == nil {
				continue
			}
			sub := m.Root.Lookup(m.Views[vi])
			if sub == nil || !sub.Dir {
				continue
			}
			gv, prob := fsmodel.Walk(b.Recvs[vi], false)
			if prob != "" {
				return fail(i, "view-tree", fmt.Sprintf("after %s, view %d (base %v): %s", op, vi, m.Views[vi], prob))
			}
			if d := fsmodel.Diff(sub, gv, ""); d != "" {
				return fail(i, "view-tree", fmt.Sprintf("after %s, view %d (base %v): %s", op, vi, m.Views[vi], d))
			}
		}
		// classification
		if op.Recv != 0 {
			labels["via-child-view"] = true
		}
		if op.Scribble {
			labels["caller-scribbles"] = true
		}
		rel, _ := fsmodel.Resolve(op.Path)
		if len(rel) == 0 {
			labels["root-spelling"] = true
		}
		if containsDotDot(op.Path) || containsDotDot(op.Path2) {
			labels["inner-dotdot"] = true
		}
		if op.Op == "Writer" {
			labels["writer"] = true
		}
		abs := fsmodel.Join(m.Views[op.Recv], rel)
		if fsmodel.Mutating(op.Op) && o.Err == nil && len(abs) > 0 {
			k := abs[0]
			if mutKinds[k] == nil {
				mutKinds[k] = map[string]bool{}
			}
			mutKinds[k][op.Op] = true
			if len(mutKinds[k]) >= 2 {
				shared = true
			}
		} else if !fsmodel.Mutating(op.Op) && shared && executed >= 3 {
			v.NonTrivial = true
		}
	}
	for l := range labels {
		v.Label(l)
	}
	return v
}

func containsDotDot(p string) bool {
	for i := 0; i+1 < len(p); i++ {
		if p[i] == '.' && p[i+1] == '.' {
			return true
		}
	}
	return false
}
