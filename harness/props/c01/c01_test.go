package c01

import (
	"encoding/json"
	"testing"

	"verif/harness/hx"
)

func TestMain(m *testing.M) { hx.Main(m, "C01") }

func TestProp(t *testing.T) { hx.Check(t, "history", Gen, Exec) }

func TestReplay(t *testing.T) {
	hx.Replay(t, map[string]func(json.RawMessage) (hx.Verdict, error){"history": hx.Exec(Exec), "": hx.Exec(Exec)})
}
