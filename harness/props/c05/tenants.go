package c05

import (
	"bytes"
	"fmt"
	"runtime"
	"sync"
	"time"

	"github.com/goatcms/goatcore/filesystem"
	"github.com/goatcms/goatcore/filesystem/filespace/encryptfs"
	"github.com/goatcms/goatcore/filesystem/filespace/memfs"
	"pgregory.net/rapid"
	"verif/harness/fsmodel"
	"verif/harness/hx"
)

// TenantsCase: several encrypted filespaces with DIFFERENT key settings, each on its own
// in-memory base and each used by its own goroutine at the same time (one process serving
// several tenants). Nothing is shared between them by the caller, so every clause of the
// statement must hold for each of them exactly as in sequential use: what a tenant writes it
// reads back, and another tenant's setting is answered with an error. State that the library
// shares between filespaces behind the caller's back (a cipher singleton that remembers the
// last key, a shared buffer) shows here and nowhere in sequential cases.
type TenantsCase struct {
	Cipher     string `json:"cipher"`
	HostOnly   bool   `json:"host_only,omitempty"`
	Keys       []Key  `json:"keys"`   // 2..4, pairwise different key material
	Rounds     int    `json:"rounds"` // write/read rounds per tenant
	Size       int    `json:"size"`   // plaintext size of the rounds (bytes)
	Stream     bool   `json:"stream,omitempty"`
	GoMaxProcs int    `json:"gomaxprocs"`
}

// GenTenants draws a tenants case.
func GenTenants(rt *rapid.T) TenantsCase {
	c := TenantsCase{Cipher: []string{"aesgcm", "ext"}[hx.Uniform(rt, 2, "cipher")], HostOnly: hx.Chance(rt, 25, "hostonly"),
		Rounds: 40 + hx.Uniform(rt, 260, "rounds"), Size: []int{0, 1, 16, 100, 1000, 5000}[hx.Uniform(rt, 6, "size")],
		Stream: hx.Chance(rt, 40, "stream"), GoMaxProcs: []int{2, 4, 8, 16}[hx.Uniform(rt, 4, "gmp")]}
	n := 2 + hx.Uniform(rt, 3, "tenants")
	for len(c.Keys) < n {
		k := Key{Secret: genBytes(rt, 24, "secret"), Salt: genBytes(rt, 24, "salt")}
		if k.Secret == nil {
			k.Secret = []byte{}
		}
		if k.Salt == nil {
			k.Salt = []byte{}
		}
		// distinct material by construction: the tenant index is part of the secret
		k.Secret = append(k.Secret, byte('A'+len(c.Keys)))
		dup := false
		for _, o := range c.Keys {
			if bytes.Equal(material(o, c.HostOnly), material(k, c.HostOnly)) {
				dup = true
			}
		}
		if !dup {
			c.Keys = append(c.Keys, k)
		}
	}
	return c
}

// ExecTenants runs a tenants case.
func ExecTenants(c TenantsCase) hx.Verdict {
	v := hx.Pass()
	v.Label("tenants")
	v.Label(fmt.Sprintf("tenants:%d", len(c.Keys)))
	if len(c.Keys) < 2 || c.Rounds < 1 {
		return inconclusive(v, "degenerate")
	}
	for i := range c.Keys {
		for j := i + 1; j < len(c.Keys); j++ {
			if bytes.Equal(material(c.Keys[i], c.HostOnly), material(c.Keys[j], c.HostOnly)) {
				return inconclusive(v, "equal-key-material")
			}
		}
	}
	if c.GoMaxProcs > 0 {
		defer runtime.GOMAXPROCS(runtime.GOMAXPROCS(c.GoMaxProcs))
	}
	ciph := cipherOf(c.Cipher)
	type tenant struct {
		base fsmodel.FS
		enc  fsmodel.FS
	}
	ts := make([]tenant, len(c.Keys))
	for i, k := range c.Keys {
		base, err := memfs.NewFilespace()
		if err != nil {
			return inconclusive(v, "base")
		}
		enc, err := encryptfs.NewEncryptFS(base, settings(k, c.HostOnly, ciph))
		if err != nil || enc == nil {
			return hx.Fail("setup", "NewEncryptFS failed: %v", err)
		}
		ts[i] = tenant{base: base, enc: enc}
	}
	var wg sync.WaitGroup
	fails := make([]string, len(ts))
	pans := make([]string, len(ts))
	start := make(chan struct{})
	for i := range ts {
		i := i
		wg.Add(1)
		go func() {
			defer wg.Done()
			pans[i] = try(func() {
				<-start
				t := ts[i]
				for r := 0; r < c.Rounds && fails[i] == ""; r++ {
					plain := make([]byte, c.Size)
					for j := range plain {
						plain[j] = byte(j*7+r) ^ byte(i*31)
					}
					p := fmt.Sprintf("f%d", r%3)
					var werr error
					if c.Stream {
						w, err := t.enc.Writer(p)
						if err != nil {
							fails[i] = fmt.Sprintf("round %d: Writer failed: %s", r, errLine(err))
							return
						}
						_, werr = w.Write(append([]byte{}, plain...))
						if cerr := w.Close(); werr == nil {
							werr = cerr
						}
					} else {
						werr = t.enc.WriteFile(p, append([]byte{}, plain...), filesystem.DefaultUnixFileMode)
					}
					if werr != nil {
						fails[i] = fmt.Sprintf("round %d: write failed: %s", r, errLine(werr))
						return
					}
					got, err := t.enc.ReadFile(p)
					if err != nil {
						fails[i] = fmt.Sprintf("round %d: the tenant cannot read back what it just wrote (%d bytes): %s", r, len(plain), errLine(err))
						return
					}
					if !bytes.Equal(got, plain) {
						fails[i] = fmt.Sprintf("round %d: read back %d bytes %q, wrote %d bytes %q", r, len(got), clip(got), len(plain), clip(plain))
						return
					}
				}
			})
		}()
	}
	close(start)
	done := make(chan struct{})
	go func() { wg.Wait(); close(done) }()
	select {
	case <-done:
	case <-time.After(60 * time.Second):
		return inconclusive(v, "tenants-watchdog")
	}
	for i := range ts {
		if pans[i] != "" {
			return hx.Fail("panic", "[%s] tenant %d of %d (concurrent use of filespaces with different keys): %s", c.Cipher, i, len(ts), pans[i])
		}
		if fails[i] != "" {
			return hx.Fail("roundtrip", "[%s] tenant %d of %d (filespaces with different keys used at the same time, each on its own base): %s", c.Cipher, i, len(ts), fails[i])
		}
	}
	// afterwards, sequentially: every file of a tenant is unreadable with every other tenant's setting
	for i := range ts {
		for j := range ts {
			if i == j {
				continue
			}
			foreign, err := encryptfs.NewEncryptFS(ts[i].base, settings(c.Keys[j], c.HostOnly, ciph))
			if err != nil || foreign == nil {
				return hx.Fail("setup", "NewEncryptFS failed: %v", err)
			}
			for _, p := range []string{"f0", "f1", "f2"} {
				if !ts[i].base.IsFile(p) {
					continue
				}
				var data []byte
				var rerr error
				if pan := try(func() { data, rerr = foreign.ReadFile(p) }); pan != "" {
					return hx.Fail("panic", "[%s] reading tenant %d's file with tenant %d's setting: %s", c.Cipher, i, j, pan)
				}
				if rerr == nil {
					return hx.Fail("foreign-key-rejected", "[%s] a file written by tenant %d while other tenants were active is readable with tenant %d's (different) secret/salt: %d bytes %q",
						c.Cipher, i, j, len(data), clip(data))
				}
			}
		}
	}
	v.NonTrivial = true
	if c.Stream {
		v.Label("tenants:stream")
	}
	return v
}
