package c05

import (
	"bytes"
	"fmt"
	"strings"

	"github.com/goatcms/goatcore/filesystem/filespace/encryptfs"
	"pgregory.net/rapid"
	"verif/harness/fsmodel"
	"verif/harness/hx"
)

// NSCase: a history of filespace operations run in lock-step on encryptfs(base A) and on
// a plain base B of the same kind ("all name-space operations behave exactly as on the
// underlying filespace").
type NSCase struct {
	Cipher string       `json:"cipher"`
	Base   string       `json:"base"` // mem | disk
	Key    Key          `json:"key"`
	Ops    []fsmodel.Op `json:"ops"`
}

// GenNS draws a name-space case.
func GenNS(rt *rapid.T) NSCase {
	max := 20
	if hx.Thorough() {
		max = 45
	}
	c := NSCase{}
	c.Cipher = []string{"aesgcm", "ext"}[hx.Uniform(rt, 2, "cipher")]
	c.Base = []string{"mem", "mem", "disk"}[hx.Uniform(rt, 3, "base")]
	c.Key = genKey(rt)
	c.Ops = fsmodel.GenHistory(rt, fsmodel.GenCfg{MinOps: 1, MaxOps: max, Opt: nsOptions(c.Base), Views: true, OddNames: true, NoisyPaths: true,
		Weights: map[string]int{"WriteFile": 12, "Writer": 6, "ReadFile": 4, "Reader": 3, "MkdirAll": 9, "Remove": 9, "RemoveAll": 6,
			"Copy": 7, "CopyFile": 7, "CopyDirectory": 7, "ReadDir": 8, "Lstat": 5}})
	return c
}

// nsOptions: on disk the history stays inside the C02 preconditions (where diskfs follows
// the tree model), so that stored contents can be tracked through the whole history.
func nsOptions(base string) fsmodel.Options {
	return fsmodel.Options{StrictPre: base == "disk"}
}

// ExecNS runs one name-space case.
func ExecNS(c NSCase) hx.Verdict {
	return hx.Guard(func() hx.Verdict { return runNS(c) })
}

func nsDiff(op fsmodel.Op, rootRel bool, a, b fsmodel.Obs) string {
	if (a.Err == nil) != (b.Err == nil) {
		return fmt.Sprintf("%s: error presence differs: encrypted %s, plain %s", op, errLine(a.Err), errLine(b.Err))
	}
	if a.Err != nil {
		return ""
	}
	switch op.Op {
	case "IsExist", "IsFile", "IsDir":
		if a.Bool != b.Bool {
			return fmt.Sprintf("%s: encrypted %v, plain %v", op, a.Bool, b.Bool)
		}
	case "ReadDir":
		if a.NilEnt || b.NilEnt || fmt.Sprint(a.List) != fmt.Sprint(b.List) {
			return fmt.Sprintf("%s: listing sets differ: encrypted %v, plain %v", op, a.List, b.List)
		}
	case "Lstat":
		// Size is the size of the stored bytes on the encrypted side: not compared
		if a.IsDir != b.IsDir || (!rootRel && a.Name != b.Name) {
			return fmt.Sprintf("%s: encrypted (dir=%v name=%q), plain (dir=%v name=%q)", op, a.IsDir, a.Name, b.IsDir, b.Name)
		}
	case "Filespace":
		if (a.View == nil) != (b.View == nil) {
			return fmt.Sprintf("%s: view presence differs", op)
		}
	}
	return ""
}

func runNS(c NSCase) hx.Verdict {
	v := hx.Pass()
	baseA, cleanA, err := mkBase(c.Base, 0)
	if err != nil {
		return inconclusive(v, "base-setup")
	}
	defer cleanA()
	baseB, cleanB, err := mkBase(c.Base, 0)
	if err != nil {
		return inconclusive(v, "base-setup")
	}
	defer cleanB()
	enc, err := encryptfs.NewEncryptFS(baseA, settings(c.Key, c.Key.HostOnly, cipherOf(c.Cipher)))
	if err != nil || enc == nil {
		return hx.Fail("setup", "NewEncryptFS failed: %v", err)
	}
	A := fsmodel.NewBackend("encrypted("+c.Base+")", enc)
	B := fsmodel.NewBackend(c.Base, baseB)
	m := fsmodel.NewModel(nsOptions(c.Base))
	// rawM is the same model fed with the STORED bytes: a write is recorded with the
	// ciphertext found in the base right after it, every other op is applied unchanged.
	// A file whose stored bytes still equal rawM's is an unmodified ciphertext of the
	// plaintext m holds for that path; any other file (e.g. the destination a failing
	// disk copy truncated) carries no known plaintext and its content is not judged.
	rawM := fsmodel.NewModel(nsOptions(c.Base))
	diverged := false
	fail := func(i int, clause, format string, a ...interface{}) hx.Verdict {
		f := hx.Fail(clause, format, a...)
		f.Step = i
		return f
	}
	trusted := func(abs []string) bool {
		rn := rawM.Root.Lookup(abs)
		if diverged || rn == nil || rn.Dir {
			return false
		}
		raw, err := baseA.ReadFile(strings.Join(abs, "/"))
		return err == nil && bytes.Equal(raw, rn.Data)
	}
	nsMutations, wroteData, queriesAfter := 0, false, 0
	for i, op := range c.Ops {
		nviews := len(m.Views)
		rel, _ := fsmodel.Resolve(op.Path)
		var abs []string
		if op.Recv >= 0 && op.Recv < len(m.Views) && m.Views[op.Recv] != nil {
			abs = fsmodel.Join(m.Views[op.Recv], rel)
		}
		e := m.Apply(op)
		if e.Skip {
			v.Count("skipped_ops", 1)
			continue
		}
		isRead := op.Op == "ReadFile" || op.Op == "Reader"
		readTrusted := isRead && e.Err == fsmodel.No && trusted(abs)
		oa, ob := A.Run(op), B.Run(op)
		if oa.Panic != "" {
			return fail(i, "panic", "[encrypted] %s panicked: %s", op, oa.Panic)
		}
		if ob.Panic != "" {
			// the plain base itself crashed: not this property's business
			return inconclusive(v, "plain-base-panic")
		}
		if isRead {
			if readTrusted {
				if oa.Err != nil {
					return fail(i, "namespace-content", "%s fails on the encrypted filespace (%s) although the stored bytes are the unmodified ciphertext of %d bytes written earlier", op, errLine(oa.Err), len(e.Data))
				}
				if !bytes.Equal(oa.Data, e.Data) {
					return fail(i, "namespace-content", "%s: encrypted filespace returns %d bytes %q, written were %d bytes %q", op, len(oa.Data), clip(oa.Data), len(e.Data), clip(e.Data))
				}
				v.Count("ns_reads_compared", 1)
			}
		} else if d := nsDiff(op, len(rel) == 0, oa, ob); d != "" {
			return fail(i, "namespace-result", "%s", d)
		}
		if len(m.Views) > nviews && A.Recvs[len(A.Recvs)-1] == nil {
			m.Views[len(m.Views)-1] = nil
		}
		// keep the raw model in step
		if !isRead && fsmodel.Compare(op, e, ob) != "" {
			diverged = true // the plain base itself disagrees with the model: contents are no longer tracked
			v.Count("ns_model_divergence", 1)
		}
		if !diverged {
			rop := op
			if op.Op == "WriteFile" || op.Op == "Writer" {
				if e.Err == fsmodel.No {
					raw, err := baseA.ReadFile(strings.Join(abs, "/"))
					if err != nil {
						return fail(i, "namespace-tree", "after the successful %s the underlying filespace has no readable file %q: %s", op, strings.Join(abs, "/"), errLine(err))
					}
					rop = fsmodel.Op{Recv: op.Recv, Op: "WriteFile", Path: op.Path, Data: raw}
				}
			}
			rawM.Apply(rop)
			if len(rawM.Views) == len(m.Views) && len(m.Views) > 0 && m.Views[len(m.Views)-1] == nil {
				rawM.Views[len(rawM.Views)-1] = nil
			}
			if len(rawM.Views) != len(m.Views) {
				diverged = true
			}
		}
		sa, pa := shape(A.Recvs[0])
		sb, pb := shape(B.Recvs[0])
		if pb != "" {
			return inconclusive(v, "plain-base-walk")
		}
		if pa != "" {
			return fail(i, "namespace-tree", "after %s: walking the encrypted filespace: %s (the plain one walks fine)", op, pa)
		}
		if d := shapeDiff(sa, sb); d != "" {
			return fail(i, "namespace-tree", "after %s: %s", op, d)
		}
		if !diverged {
			if d := contents(m.Root, rawM.Root, nil, A.Recvs[0], trusted, &v); d != "" {
				return fail(i, "namespace-content", "after %s: %s", op, d)
			}
		}
		A.DropKept()
		B.DropKept()
		if fsmodel.Mutating(op.Op) && oa.Err == nil {
			if op.Op == "WriteFile" || op.Op == "Writer" {
				if len(op.Data) > 0 || len(bytes.Join(op.Chunks, nil)) > 0 {
					wroteData = true
				}
			} else {
				nsMutations++
			}
		} else if !fsmodel.Mutating(op.Op) && nsMutations > 0 && wroteData {
			queriesAfter++
		}
		switch op.Op {
		case "Copy", "CopyFile", "CopyDirectory":
			if oa.Err == nil {
				v.Label("ns:copy")
			}
		case "Remove", "RemoveAll":
			if oa.Err == nil {
				v.Label("ns:remove")
			}
		}
		if op.Recv != 0 {
			v.Label("ns:via-child-view")
		}
	}
	// secrecy sweep: no stored file holds the plaintext the model knows for it
	var sweep func(n *fsmodel.Node, at string) string
	sweep = func(n *fsmodel.Node, at string) string {
		for _, k := range n.Names() {
			p := k
			if at != "" {
				p = at + "/" + k
			}
			kid := n.Kids[k]
			if kid.Dir {
				if d := sweep(kid, p); d != "" {
					return d
				}
				continue
			}
			if raw, err := baseA.ReadFile(p); err == nil && containsPlain(raw, kid.Data) {
				return fmt.Sprintf("stored bytes of %q contain its plaintext (%d bytes)", p, len(kid.Data))
			}
		}
		return ""
	}
	if d := sweep(m.Root, ""); d != "" {
		return fail(len(c.Ops), "secrecy", "%s", d)
	}
	v.NonTrivial = nsMutations > 0 && wroteData && queriesAfter > 0
	v.Label("ns:base:" + c.Base)
	v.Label("ns:cipher:" + c.Cipher)
	if strings.HasPrefix(c.Base, "disk") {
		v.Label("ns:disk")
	}
	return v
}

// shape lists every node below the filespace as path -> is-dir, using ReadDir only.
func shape(fs fsmodel.FS) (out map[string]bool, problem string) {
	out = map[string]bool{}
	if pan := try(func() { problem = shapeInto(fs, "", out, 0) }); pan != "" {
		return out, "walk panicked: " + pan
	}
	return out, problem
}

func shapeInto(fs fsmodel.FS, dir string, out map[string]bool, depth int) string {
	if depth > 40 {
		return fmt.Sprintf("tree deeper than 40 levels at %q", dir)
	}
	infos, err := fs.ReadDir(dir)
	if err != nil {
		return fmt.Sprintf("ReadDir(%q) of a listed directory failed: %s", dir, errLine(err))
	}
	for _, fi := range infos {
		if fi == nil {
			return fmt.Sprintf("ReadDir(%q) contains a nil entry", dir)
		}
		name := fi.Name()
		if name == "" || name == "." || name == ".." || strings.Contains(name, "/") {
			return fmt.Sprintf("ReadDir(%q) lists an entry named %q", dir, name)
		}
		p := name
		if dir != "" {
			p = dir + "/" + name
		}
		if _, dup := out[p]; dup {
			return fmt.Sprintf("ReadDir(%q) lists %q twice", dir, name)
		}
		out[p] = fi.IsDir()
		if fi.IsDir() {
			if pr := shapeInto(fs, p, out, depth+1); pr != "" {
				return pr
			}
		}
	}
	return ""
}

func shapeDiff(enc, plain map[string]bool) string {
	for p, d := range plain {
		ed, ok := enc[p]
		if !ok {
			return fmt.Sprintf("the plain filespace has %q (dir=%v), the encrypted one does not", p, d)
		}
		if ed != d {
			return fmt.Sprintf("%q: dir=%v on the plain filespace, dir=%v on the encrypted one", p, d, ed)
		}
	}
	for p, d := range enc {
		if _, ok := plain[p]; !ok {
			return fmt.Sprintf("the encrypted filespace has %q (dir=%v), the plain one does not", p, d)
		}
	}
	return ""
}

// contents checks every file whose stored bytes are an unmodified ciphertext of a known
// plaintext: the encrypted side must read back exactly that plaintext.
func contents(mn, rn *fsmodel.Node, at []string, enc fsmodel.FS, trusted func([]string) bool, v *hx.Verdict) string {
	if mn == nil || rn == nil || !mn.Dir || !rn.Dir {
		return ""
	}
	for _, k := range mn.Names() {
		p := fsmodel.Join(at, []string{k})
		kid := mn.Kids[k]
		if kid.Dir {
			if d := contents(kid, rn.Kids[k], p, enc, trusted, v); d != "" {
				return d
			}
			continue
		}
		if !trusted(p) {
			v.Count("ns_files_not_judged", 1)
			continue
		}
		ps := strings.Join(p, "/")
		var ed []byte
		var err error
		if pan := try(func() { ed, err = enc.ReadFile(ps) }); pan != "" {
			return fmt.Sprintf("ReadFile(%q) on the encrypted filespace panicked: %s", ps, pan)
		}
		if err != nil {
			return fmt.Sprintf("ReadFile(%q) fails on the encrypted filespace (%s) although the stored bytes are the unmodified ciphertext of the %d bytes written", ps, errLine(err), len(kid.Data))
		}
		if !bytes.Equal(ed, kid.Data) {
			return fmt.Sprintf("ReadFile(%q): encrypted filespace returns %d bytes %q, written were %d bytes %q", ps, len(ed), clip(ed), len(kid.Data), clip(kid.Data))
		}
		v.Count("ns_files_compared", 1)
	}
	return ""
}
