package c05

import (
	"bytes"
	"fmt"
	"io"

	"github.com/goatcms/goatcore/filesystem"
	"github.com/goatcms/goatcore/filesystem/filespace/encryptfs"
	"pgregory.net/rapid"
	"verif/harness/hx"
)

// BytesCase: arbitrary stored bytes handed to both read paths of the encrypted filespace
// and to the cipher directly ("never with a panic"; an error comes without data). Whether
// arbitrary bytes are refused is NOT judged here (the statement lists bytes made with
// another key, modified, truncated or emptied - the crypt kind covers those).
type BytesCase struct {
	Cipher   string `json:"cipher"`
	Base     string `json:"base"` // mem | disk | memshort
	ShortMax int    `json:"short_max,omitempty"`
	Key      Key    `json:"key"`
	Raw      []byte `json:"raw"`
	Bufs     []int  `json:"bufs"`
}

// GenBytes draws a bytes case: short lengths around the header sizes dominate.
func GenBytes(rt *rapid.T) BytesCase {
	c := BytesCase{}
	c.Cipher = []string{"aesgcm", "ext"}[hx.Uniform(rt, 2, "cipher")]
	c.Base = []string{"mem", "mem", "disk", "memshort"}[hx.Uniform(rt, 4, "base")]
	if c.Base == "memshort" {
		c.ShortMax = 1 + hx.Uniform(rt, 5, "shortmax")
	}
	c.Key = genKey(rt)
	n := hx.Uniform(rt, 50, "rawlen")
	if hx.Chance(rt, 20, "edge") { // header boundaries of both formats
		n = []int{0, 1, 2, 3, 4, 5, 11, 12, 13, 15, 16, 17, 27, 28, 29, 31, 32, 33}[hx.Uniform(rt, 18, "edgelen")]
	} else if hx.Chance(rt, 10, "long") {
		n = 50 + hx.Uniform(rt, 300, "rawlen2")
	}
	c.Raw = rapid.SliceOfN(rapid.Byte(), n, n).Draw(rt, "raw")
	if hx.Chance(rt, 60, "zerotag") { // the known cipher id of the tagged format
		for i := 0; i < 4 && i < len(c.Raw); i++ {
			c.Raw[i] = 0
		}
	}
	for k := 1 + hx.Uniform(rt, 2, "nbufs"); k > 0; k-- {
		c.Bufs = append(c.Bufs, bufPool[hx.Uniform(rt, len(bufPool), "buf")])
	}
	return c
}

type memStream struct {
	r   *bytes.Reader
	max int
}

func (m *memStream) Read(p []byte) (int, error) {
	if m.max > 0 && len(p) > m.max {
		p = p[:m.max]
	}
	return m.r.Read(p)
}
func (m *memStream) Close() error { return nil }

// ExecBytes runs one bytes case.
func ExecBytes(c BytesCase) hx.Verdict {
	return hx.Guard(func() hx.Verdict { return runBytes(c) })
}

func runBytes(c BytesCase) hx.Verdict {
	v := hx.Pass()
	ciph := cipherOf(c.Cipher)
	base, cleanup, err := mkBase(c.Base, c.ShortMax)
	if err != nil {
		return inconclusive(v, "base-setup")
	}
	defer cleanup()
	enc, err := encryptfs.NewEncryptFS(base, settings(c.Key, c.Key.HostOnly, ciph))
	if err != nil || enc == nil {
		return hx.Fail("setup", "NewEncryptFS failed: %v", err)
	}
	if err := base.WriteFile("f", append([]byte{}, c.Raw...), filesystem.DefaultUnixFileMode); err != nil {
		return inconclusive(v, "base-write")
	}
	judge := func(how string, r reading) *hx.Verdict {
		var f hx.Verdict
		switch {
		case r.pan != "":
			f = hx.Fail("panic", "%s over %d arbitrary stored bytes %x panicked: %s", how, len(c.Raw), clip(c.Raw), r.pan)
		case r.err != nil && len(r.data) > 0:
			f = hx.Fail("integrity", "%s over %d arbitrary stored bytes delivered %d bytes together with the error %q", how, len(c.Raw), len(r.data), errLine(r.err))
		default:
			if r.err == nil && !r.stuck {
				v.Label("bytes:accepted")
			}
			return nil
		}
		return &f
	}
	if f := judge("ReadFile", readFile(enc, "f")); f != nil {
		return *f
	}
	if f := judge("Reader", readStream(enc, "f", c.Bufs, len(c.Raw))); f != nil {
		return *f
	}
	// the cipher directly (what the filespace calls)
	mat := material(c.Key, c.Key.HostOnly)
	var r reading
	r.pan = try(func() { r.data, r.err = ciph.Decrypt(mat, append([]byte{}, c.Raw...)) })
	if f := judge("Cipher.Decrypt", r); f != nil {
		return *f
	}
	r = reading{}
	r.pan = try(func() {
		rd, err := ciph.DecryptReader(mat, &memStream{r: bytes.NewReader(c.Raw), max: c.ShortMax})
		if err != nil || rd == nil {
			if err == nil {
				err = fmt.Errorf("harness: DecryptReader returned (nil, nil)")
			}
			r.err = err
			return
		}
		r.data, r.err, r.stuck = readAll(io.Reader(rd), c.Bufs, len(c.Raw))
		rd.Close()
	})
	if f := judge("Cipher.DecryptReader", r); f != nil {
		return *f
	}
	v.NonTrivial = true
	v.Label("bytes:cipher:" + c.Cipher)
	switch n := len(c.Raw); {
	case n == 0:
		v.Label("bytes:empty")
	case n < 4:
		v.Label("bytes:shorter-than-tag")
	case n < overhead(c.Cipher):
		v.Label("bytes:shorter-than-header")
	default:
		v.Label("bytes:header-or-more")
	}
	return v
}
