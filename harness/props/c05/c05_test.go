package c05

import (
	"encoding/json"
	"testing"

	"verif/harness/hx"
)

func TestMain(m *testing.M) { hx.Main(m, "C05") }

// TestProp: round-trip, secrecy, fresh stored bytes, other key, tampering.
func TestProp(t *testing.T) { hx.Check(t, "crypt", Gen, Exec) }

// TestPropNS: name-space operations behave as on the underlying filespace.
func TestPropNS(t *testing.T) { hx.Check(t, "ns", GenNS, ExecNS) }

// TestPropBytes: arbitrary stored bytes never crash a read.
func TestPropBytes(t *testing.T) { hx.Check(t, "bytes", GenBytes, ExecBytes) }

// TestPropTenants: filespaces with different keys used at the same time by different goroutines.
func TestPropTenants(t *testing.T) { hx.Check(t, "tenants", GenTenants, ExecTenants) }

// TestEnum: the fixed grid cipher x base x plaintext length around the block boundaries,
// each with EVERY truncation length and EVERY single-bit change of the stored blob.
func TestEnum(t *testing.T) {
	lens := []int{0, 1, 15, 16, 17}
	if hx.Thorough() {
		lens = []int{0, 1, 2, 7, 8, 15, 16, 17, 31, 32, 33, 63, 64, 65}
	}
	shard, nshards := hx.Shard()
	i := 0
	var n int64
	for _, cipher := range []string{"aesgcm", "ext"} {
		for _, base := range []string{"mem", "disk", "memshort"} {
			for _, ln := range lens {
				for tamper := 0; tamper < 2; tamper++ {
					i++
					if i%nshards != shard {
						continue
					}
					c := Case{Cipher: cipher, Base: base, ShortMax: 1 + (ln+tamper)%3, Child: (ln+tamper)%2 == 1,
						Key:   Key{Secret: []byte("enum-secret"), Salt: []byte("enum-salt"), HostOnly: ln%2 == 0},
						Other: Key{Secret: []byte("enum-secret"), Salt: []byte("enum-salt2")},
						Plain: Plain{N: ln, Fill: "text", Seed: uint64(ln)}, P1: "d/f", P2: "g.bin",
						Cuts: []int{ln / 2}, Bufs: []int{1 + ln%3, 16}, Tamper: tamper, Masks: []byte{0xFF}, AllBits: true, Retag: 1}
					if ln == 0 {
						c.Plain = Plain{Bytes: []byte{}}
					}
					c.Streams = enumStreams(ln, tamper)
					if !hx.One(t, "crypt", c, Exec) {
						return
					}
					n++
				}
			}
		}
	}
	hx.AddExhaustive(hx.Exhaustive{What: "every truncation length and every single-bit change of the stored blob",
		Alphabet: "cipher{aesgcm,ext} x base{mem,disk,memshort} x blob source{WriteFile,Writer} x plaintext lengths", Bound: jsonInts(lens), Count: n})
}

func jsonInts(a []int) string { b, _ := json.Marshal(a); return "plaintext lengths " + string(b) }

func TestReplay(t *testing.T) {
	hx.Replay(t, map[string]func(json.RawMessage) (hx.Verdict, error){
		"crypt": hx.Exec(Exec), "": hx.Exec(Exec), "ns": hx.Exec(ExecNS), "bytes": hx.Exec(ExecBytes), "tenants": hx.Exec(ExecTenants)})
}

// FuzzBytes: native fuzzing of both read paths and of Decrypt/DecryptReader on arbitrary
// stored bytes (run by hand / thorough: go test -tags verif ./props/c05 -run '^$' -fuzz FuzzBytes -fuzztime 2m).
func FuzzBytes(f *testing.F) {
	for _, s := range [][]byte{{}, {0}, {0, 0, 0}, {0, 0, 0, 0}, {1, 0, 0, 0, 9}, make([]byte, 11), make([]byte, 12), make([]byte, 15), make([]byte, 16), make([]byte, 28), make([]byte, 32), make([]byte, 40)} {
		f.Add(s, byte(0))
		f.Add(s, byte(7))
	}
	f.Fuzz(func(t *testing.T, raw []byte, sel byte) {
		if len(raw) > 4096 {
			return
		}
		c := BytesCase{Cipher: []string{"aesgcm", "ext"}[sel&1], Base: []string{"mem", "memshort"}[(sel>>1)&1], ShortMax: 1 + int(sel>>2)%5,
			Key: Key{Secret: []byte("fuzz"), Salt: []byte{sel}}, Raw: raw, Bufs: []int{1 + int(sel>>5), 64}}
		hx.One(t, "bytes", c, ExecBytes)
	})
}

// enumStreams: seven readers, one per consumption style, on seven different files, all
// opened before the first byte is read, then consumed round-robin.
func enumStreams(ln, tamper int) *StreamPlan {
	p := &StreamPlan{CloseLate: (ln+tamper)%2 == 0}
	for i, n := range []int{20 + ln, 33, 7, 64, 300} {
		p.Files = append(p.Files, StreamFile{Plain: Plain{N: n, Fill: "prng", Seed: uint64(8*ln + i)}, Stream: i%2 == 1})
	}
	for i, st := range streamStyles {
		p.Readers = append(p.Readers, StreamReader{Target: (i + tamper) % 7, Style: st, K: 3 + i, Bufs: []int{1 + i%3, 16}, Child: i%2 == 0})
		p.Sched = append(p.Sched, i)
	}
	for round := 0; round < 3; round++ {
		for i := range streamStyles {
			p.Sched = append(p.Sched, (i+round)%7)
		}
	}
	return p
}
