// Package c05: encrypted filespace - round-trip, secrecy, integrity, no crash on bad data.
//
// Three case kinds share this package:
//
//	crypt  (c05.go)   one plaintext written through both write paths, read back through both
//	                  read paths, raw bytes inspected, read with another key, and the stored
//	                  blob truncated / corrupted / emptied / re-tagged / extended;
//	ns     (ns.go)    a history of filespace operations run in lock-step on encryptfs(base)
//	                  and on a plain base of the same kind (name-space clause);
//	bytes  (bytes.go) arbitrary stored bytes: never a panic, never data together with an error.
package c05

import (
	"bytes"
	"fmt"
	"io"
	"os"
	"runtime"
	"runtime/debug"
	"sort"
	"strings"
	"time"

	"github.com/goatcms/goatcore/filesystem"
	"github.com/goatcms/goatcore/filesystem/filespace/diskfs"
	"github.com/goatcms/goatcore/filesystem/filespace/encryptfs"
	"github.com/goatcms/goatcore/filesystem/filespace/encryptfs/cipherfs"
	"github.com/goatcms/goatcore/filesystem/filespace/encryptfs/cipherfs/aesgcm256cfs"
	"github.com/goatcms/goatcore/filesystem/filespace/encryptfs/cipherfs/extcfs"
	"github.com/goatcms/goatcore/filesystem/filespace/memfs"
	"github.com/goatcms/goatcore/varutil/idutil"
	"pgregory.net/rapid"
	"verif/harness/fsmodel"
	"verif/harness/hx"
)

// SameKeyMaterialClass names the generator class excluded by the open finding
// "secret||salt is a plain concatenation".
const SameKeyMaterialClass = "c05.sameKeyMaterial"

// Key is one secret/salt/host-binding setting.
type Key struct {
	Secret   []byte `json:"secret"`
	Salt     []byte `json:"salt"`
	HostOnly bool   `json:"host_only,omitempty"`
}

// Plain describes the plaintext: literal bytes, or a synthesized pattern of N bytes.
type Plain struct {
	Bytes []byte `json:"bytes,omitempty"`
	N     int    `json:"n,omitempty"`
	Fill  string `json:"fill,omitempty"` // zero | text | prng (used when N > 0)
	Seed  uint64 `json:"seed,omitempty"`
}

// Case is one crypt case. Every random choice is a field.
type Case struct {
	Cipher   string `json:"cipher"`              // aesgcm | ext
	Base     string `json:"base"`                // mem | disk | memshort
	ShortMax int    `json:"short_max,omitempty"` // memshort: the base Reader returns at most this many bytes per Read
	Child    bool   `json:"child,omitempty"`     // write through encfs.Filespace("v") instead of the root
	Key      Key    `json:"key"`
	Other    Key    `json:"other"` // differs from Key in secret or salt (HostOnly is taken from Key)
	Plain    Plain  `json:"plain"`
	P1       string `json:"p1"`                 // written with WriteFile
	P2       string `json:"p2"`                 // written with Writer
	Cuts     []int  `json:"cuts,omitempty"`     // chunk boundaries of the Writer path (taken modulo len+1)
	NoWrite  bool   `json:"no_write,omitempty"` // empty plaintext: open and close the Writer without a Write call
	Bufs     []int  `json:"bufs"`               // Reader buffer sizes, used cyclically
	Tamper   int    `json:"tamper"`             // 0: tamper with the blob made by WriteFile, 1: by Writer
	Masks    []byte `json:"masks"`              // xor masks for single byte changes, used cyclically by offset
	AllBits  bool   `json:"all_bits,omitempty"` // every offset is changed with each of the 8 single-bit masks
	Samples  []int  `json:"samples,omitempty"`  // sampled truncation lengths / offsets for blobs > 128 B (modulo len)
	Retag    uint32 `json:"retag"`              // unknown cipher id for the tagged cipher
	// Streams: several stream readers alive at once, generated consumption styles (streams.go)
	Streams *StreamPlan `json:"streams,omitempty"`
}

// ---------------------------------------------------------------------------------
// shared helpers

func cipherOf(name string) cipherfs.Cipher {
	if name == "ext" {
		return extcfs.NewDefaultCipher()
	}
	return aesgcm256cfs.NewCipher()
}

// headerLen is the number of stored bytes in front of the plaintext-sized part.
func overhead(name string) int {
	if name == "ext" {
		return 4 + 12 + 16
	}
	return 12 + 16
}

func settings(k Key, hostOnly bool, c cipherfs.Cipher) encryptfs.Settings {
	return encryptfs.Settings{Secret: append([]byte{}, k.Secret...), Salt: append([]byte{}, k.Salt...), HostOnly: hostOnly, Cipher: c}
}

// material is the byte string the key is derived from (mechanism of the property:
// secret || host id (optional) || salt).
func material(k Key, hostOnly bool) []byte {
	m := append([]byte{}, k.Secret...)
	if hostOnly {
		m = append(m, idutil.HostID()...)
	}
	return append(m, k.Salt...)
}

// SameMaterial reports whether two different secret/salt settings concatenate to the
// same key material.
func SameMaterial(a, b Key, hostOnly bool) bool {
	if bytes.Equal(a.Secret, b.Secret) && bytes.Equal(a.Salt, b.Salt) {
		return false
	}
	return bytes.Equal(material(a, hostOnly), material(b, hostOnly))
}

// Expand returns the plaintext bytes.
func (p Plain) Expand() []byte {
	if p.N <= 0 {
		return append([]byte{}, p.Bytes...)
	}
	out := make([]byte, p.N)
	switch p.Fill {
	case "zero":
	case "text":
		const t = "the quick brown fox jumps over the lazy dog. "
		off := int(p.Seed % uint64(len(t)))
		for i := range out {
			out[i] = t[(i+off)%len(t)]
		}
	default:
		x := p.Seed*2685821657736338717 + 88172645463325252
		if x == 0 {
			x = 1
		}
		for i := range out {
			x ^= x << 13
			x ^= x >> 7
			x ^= x << 17
			out[i] = byte(x >> 24)
		}
	}
	return out
}

// shortFS is a filespace whose Readers return at most max bytes per Read call, as the
// io.Reader contract allows any stream to do. Everything else is the wrapped filespace.
type shortFS struct {
	fsmodel.FS
	max int
}

func (s shortFS) Reader(p string) (filesystem.Reader, error) {
	r, err := s.FS.Reader(p)
	if err != nil || r == nil {
		return r, err
	}
	return &shortReader{Reader: r, max: s.max}, nil
}

func (s shortFS) Filespace(p string) (filesystem.Filespace, error) {
	c, err := s.FS.Filespace(p)
	if err != nil || c == nil {
		return c, err
	}
	return shortFS{FS: c, max: s.max}, nil
}

type shortReader struct {
	filesystem.Reader
	max int
}

func (r *shortReader) Read(p []byte) (int, error) {
	if r.max > 0 && len(p) > r.max {
		p = p[:r.max]
	}
	return r.Reader.Read(p)
}

// mkBase builds a fresh underlying filespace; cleanup removes its temp dir (if any).
func mkBase(kind string, shortMax int) (fs fsmodel.FS, cleanup func(), err error) {
	cleanup = func() {}
	switch kind {
	case "disk":
		var dir string
		if dir, err = os.MkdirTemp("", "c05-"); err != nil {
			return nil, cleanup, err
		}
		cleanup = func() { os.RemoveAll(dir) }
		fs, err = diskfs.NewFilespace(dir)
	case "memshort":
		if shortMax < 1 {
			shortMax = 1
		}
		var m fsmodel.FS
		if m, err = memfs.NewFilespace(); err == nil {
			fs = shortFS{FS: m, max: shortMax}
		}
	default:
		fs, err = memfs.NewFilespace()
	}
	return fs, cleanup, err
}

func inconclusive(v hx.Verdict, why string) hx.Verdict {
	v.OK, v.Inconclusive = true, true
	v.Count("inconclusive:"+why, 1)
	return v
}

// try runs f and returns a description of the panic, if any.
func try(f func()) (pan string) {
	defer func() {
		if r := recover(); r != nil {
			s := string(debug.Stack())
			if i := strings.Index(s, "panic("); i >= 0 {
				s = s[i:]
			}
			if len(s) > 1500 {
				s = s[:1500] + "..."
			}
			pan = fmt.Sprintf("%v\n%s", r, s)
		}
	}()
	f()
	return ""
}

// readAll drains r with the given buffer sizes. delivered counts every byte handed out,
// also when an error follows. stuck is set when EOF is not reached within a generous
// number of calls (bounded by call count, not by time).
func readAll(r io.Reader, bufs []int, expect int) (data []byte, err error, stuck bool) {
	if len(bufs) == 0 {
		bufs = []int{512}
	}
	limit := 2*expect + 256
	for i := 0; ; i++ {
		if i > limit {
			return data, nil, true
		}
		sz := bufs[i%len(bufs)]
		if sz < 1 {
			sz = 1
		}
		buf := make([]byte, sz)
		n, e := r.Read(buf)
		if n < 0 || n > sz {
			return data, fmt.Errorf("harness: Read returned n=%d for a %d byte buffer", n, sz), false
		}
		data = append(data, buf[:n]...)
		if e == io.EOF {
			return data, nil, false
		}
		if e != nil {
			return data, e, false
		}
	}
}

func clip(b []byte) []byte {
	if len(b) > 32 {
		return b[:32]
	}
	return b
}

func errLine(e error) string {
	if e == nil {
		return "nil"
	}
	s := e.Error()
	if i := strings.IndexByte(s, '\n'); i >= 0 {
		s = s[:i]
	}
	if len(s) > 160 {
		s = s[:160]
	}
	return s
}

// containsPlain reports whether raw holds the plaintext (or, for long plaintexts, its
// first or last 16 bytes). Plaintexts shorter than 8 bytes are not judged: a random
// ciphertext may contain them by chance.
func containsPlain(raw, plain []byte) bool {
	if len(plain) < 8 {
		return false
	}
	if bytes.Contains(raw, plain) {
		return true
	}
	if len(plain) >= 32 {
		return bytes.Contains(raw, plain[:16]) || bytes.Contains(raw, plain[len(plain)-16:])
	}
	return false
}

// ---------------------------------------------------------------------------------
// generator

var pathPool = []string{"f", "g.bin", "d/f", "a/b/c", "x y", "é", "d/g"}

var bufPool = []int{1, 2, 3, 7, 16, 64, 512, 4096, 70000}

func genBytes(rt *rapid.T, max int, label string) []byte {
	return rapid.SliceOfN(rapid.Byte(), 0, max).Draw(rt, label)
}

// mutate returns a byte string different from b.
func mutate(rt *rapid.T, b []byte, label string) []byte {
	out := append([]byte{}, b...)
	switch hx.Uniform(rt, 4, label+"-how") {
	case 0:
		out = append(out, rapid.Byte().Draw(rt, label+"-app"))
	case 1:
		if len(out) > 0 {
			out = out[:len(out)-1]
		} else {
			out = append(out, 1)
		}
	case 2:
		if len(out) > 0 {
			i := hx.Uniform(rt, len(out), label+"-at")
			out[i] ^= byte(1 + hx.Uniform(rt, 255, label+"-mask"))
		} else {
			out = append(out, 0)
		}
	default:
		out = genBytes(rt, 40, label+"-fresh")
	}
	if bytes.Equal(out, b) {
		out = append(out, 1)
	}
	return out
}

func genKey(rt *rapid.T) Key {
	k := Key{HostOnly: hx.Chance(rt, 35, "hostonly")}
	switch hx.Uniform(rt, 10, "keyshape") {
	case 0: // both empty
	case 1:
		k.Salt = genBytes(rt, 40, "salt")
	case 2:
		k.Secret = genBytes(rt, 40, "secret")
	default:
		k.Secret, k.Salt = genBytes(rt, 40, "secret"), genBytes(rt, 40, "salt")
	}
	if k.Secret == nil {
		k.Secret = []byte{}
	}
	if k.Salt == nil {
		k.Salt = []byte{}
	}
	return k
}

// genOther draws a second setting that differs in secret or salt. The class
// "boundary" moves the secret/salt boundary so that the concatenation stays equal; it
// (and any accidental equal concatenation) is SameKeyMaterialClass.
func genOther(rt *rapid.T, k Key) Key {
	o := Key{Secret: append([]byte{}, k.Secret...), Salt: append([]byte{}, k.Salt...)}
	switch hx.Uniform(rt, 5, "otherclass") {
	case 0:
		o.Secret = mutate(rt, k.Secret, "osecret")
	case 1:
		o.Salt = mutate(rt, k.Salt, "osalt")
	case 2:
		o.Secret, o.Salt = mutate(rt, k.Secret, "osecret"), mutate(rt, k.Salt, "osalt")
	case 3: // swapped
		if !bytes.Equal(k.Secret, k.Salt) {
			o.Secret, o.Salt = append([]byte{}, k.Salt...), append([]byte{}, k.Secret...)
		} else {
			o.Secret = mutate(rt, k.Secret, "osecret")
		}
	default: // boundary shift
		cat := append(append([]byte{}, k.Secret...), k.Salt...)
		if len(cat) == 0 {
			o.Secret = mutate(rt, k.Secret, "osecret")
			break
		}
		s := hx.Uniform(rt, len(cat), "split") // one of the len(cat) split points other than the current one
		if s >= len(k.Secret) {
			s++
		}
		o.Secret, o.Salt = append([]byte{}, cat[:s]...), append([]byte{}, cat[s:]...)
	}
	if SameMaterial(k, o, k.HostOnly) && hx.Excluded(SameKeyMaterialClass) {
		hx.CountExcluded(SameKeyMaterialClass)
		// steer away by construction: one more byte makes the concatenation longer
		o.Secret = append(o.Secret, 0x01)
	}
	return o
}

func genPlain(rt *rapid.T) Plain {
	fill := func() string { return []string{"zero", "text", "prng"}[hx.Uniform(rt, 3, "fill")] }
	seed := func() uint64 { return uint64(hx.Uniform(rt, 1<<16, "pseed")) }
	w := hx.Uniform(rt, 100, "plainclass")
	switch {
	case w < 6:
		return Plain{Bytes: []byte{}}
	case w < 13:
		return Plain{Bytes: []byte{rapid.Byte().Draw(rt, "b")}}
	case w < 20:
		return Plain{N: 15, Fill: fill(), Seed: seed()}
	case w < 27:
		return Plain{N: 16, Fill: fill(), Seed: seed()}
	case w < 34:
		return Plain{N: 17, Fill: fill(), Seed: seed()}
	case w < 42:
		return Plain{N: 4095 + hx.Uniform(rt, 3, "k4"), Fill: fill(), Seed: seed()}
	case w < 46:
		return Plain{N: 65536, Fill: fill(), Seed: seed()}
	case w < 62:
		if hx.Chance(rt, 30, "lowent") {
			n := rapid.IntRange(0, 2048).Draw(rt, "n")
			return Plain{Bytes: bytes.Repeat([]byte{rapid.Byte().Draw(rt, "rb")}, n)}
		}
		return Plain{Bytes: genBytes(rt, 2048, "plain")}
	default: // small: the stored blob stays <= 128 B, so tampering is exhaustive
		n := 2 + hx.Uniform(rt, 90, "smalln")
		if hx.Chance(rt, 30, "lowent") {
			return Plain{Bytes: bytes.Repeat([]byte{rapid.Byte().Draw(rt, "rb")}, n)}
		}
		return Plain{Bytes: rapid.SliceOfN(rapid.Byte(), n, n).Draw(rt, "plain")}
	}
}

// Gen draws a crypt case.
func Gen(rt *rapid.T) Case {
	c := Case{}
	c.Cipher = []string{"aesgcm", "ext"}[hx.Uniform(rt, 2, "cipher")]
	switch w := hx.Uniform(rt, 100, "base"); {
	case w < 45:
		c.Base = "mem"
	case w < 80:
		c.Base = "disk"
	default:
		c.Base = "memshort"
		c.ShortMax = []int{1, 2, 3, 5, 13}[hx.Uniform(rt, 5, "shortmax")]
	}
	c.Child = hx.Chance(rt, 25, "child")
	c.Key = genKey(rt)
	c.Other = genOther(rt, c.Key)
	c.Plain = genPlain(rt)
	i := hx.Uniform(rt, len(pathPool), "p1")
	j := hx.Uniform(rt, len(pathPool)-1, "p2")
	if j >= i {
		j++
	}
	c.P1, c.P2 = pathPool[i], pathPool[j]
	n := len(c.Plain.Bytes)
	if c.Plain.N > 0 {
		n = c.Plain.N
	}
	for k := hx.Uniform(rt, 5, "ncuts"); k > 0; k-- {
		c.Cuts = append(c.Cuts, hx.Uniform(rt, n+1, "cut"))
	}
	if n == 0 {
		c.NoWrite = hx.Chance(rt, 50, "nowrite")
	}
	for k := 1 + hx.Uniform(rt, 3, "nbufs"); k > 0; k-- {
		c.Bufs = append(c.Bufs, bufPool[hx.Uniform(rt, len(bufPool), "buf")])
	}
	c.Tamper = hx.Uniform(rt, 2, "tamper")
	for k := 1 + hx.Uniform(rt, 4, "nmasks"); k > 0; k-- {
		c.Masks = append(c.Masks, byte(1+hx.Uniform(rt, 255, "mask")))
	}
	if n+overhead(c.Cipher) > 128 {
		for k := 0; k < 64; k++ {
			c.Samples = append(c.Samples, hx.Uniform(rt, n+overhead(c.Cipher), "sample"))
		}
	}
	c.Retag = []uint32{1, 2, 0xFFFFFFFF, 0x01000000, 256}[hx.Uniform(rt, 5, "retag")]
	c.Streams = genStreams(rt, c.Base == "disk")
	return c
}

// ---------------------------------------------------------------------------------
// executor

const tpath = "tampered/blob"

// Exec runs one crypt case.
func Exec(c Case) hx.Verdict {
	return hx.Guard(func() hx.Verdict { return run(c) })
}

type view struct {
	name string
	fs   fsmodel.FS
	path string
}

type reading struct {
	data  []byte
	err   error
	stuck bool
	pan   string
}

// readFile / readStream perform one read through an encrypted filespace, guarded.
func readFile(fs fsmodel.FS, p string) (r reading) {
	r.pan = try(func() { r.data, r.err = fs.ReadFile(p) })
	return r
}

func readStream(fs fsmodel.FS, p string, bufs []int, expect int) (r reading) {
	r.pan = try(func() {
		rd, err := fs.Reader(p)
		if err != nil {
			r.err = err
			return
		}
		if rd == nil {
			r.err = fmt.Errorf("harness: Reader returned (nil, nil)")
			return
		}
		r.data, r.err, r.stuck = readAll(rd, bufs, expect)
		if cerr := rd.Close(); cerr != nil && r.err == nil {
			r.err = cerr
		}
	})
	return r
}

func run(c Case) hx.Verdict {
	v := hx.Pass()
	plain := c.Plain.Expand()
	ciph := cipherOf(c.Cipher)
	if c.P1 == c.P2 || c.P1 == "" || c.P2 == "" {
		return inconclusive(v, "bad-paths")
	}
	base, cleanup, err := mkBase(c.Base, c.ShortMax)
	if err != nil {
		return inconclusive(v, "base-setup")
	}
	defer cleanup()
	if c.Base == "disk" {
		// failed stream reads may leave descriptors to the finaliser
		defer runtime.GC()
	}
	mk := func(k Key) (fsmodel.FS, error) {
		return encryptfs.NewEncryptFS(base, settings(k, c.Key.HostOnly, ciph))
	}
	// The writing filespace is configured the way a careful caller does it: secret and salt are
	// slices of a larger key buffer (spare capacity), the same secret slice is then used to set
	// up another filespace with a different salt, and finally the caller wipes its buffers.
	// Settings are inputs, not shared state: none of this may change the key of encW.
	keybuf := make([]byte, 0, len(c.Key.Secret)+len(c.Key.Salt)+160)
	keybuf = append(keybuf, c.Key.Secret...)
	secretW := keybuf[:len(c.Key.Secret):cap(keybuf)]
	saltW := append(make([]byte, 0, len(c.Key.Salt)+64), c.Key.Salt...)
	encW, e1 := encryptfs.NewEncryptFS(base, encryptfs.Settings{Secret: secretW, Salt: saltW, HostOnly: c.Key.HostOnly, Cipher: ciph})
	if decoy, derr := encryptfs.NewEncryptFS(base, encryptfs.Settings{Secret: secretW, Salt: []byte("another-salt-for-another-filespace-0123456789"), HostOnly: c.Key.HostOnly, Cipher: ciph}); derr == nil && decoy != nil {
		_ = decoy
	}
	for i := range keybuf[:cap(keybuf)] {
		keybuf[:cap(keybuf)][i] = 0xEE
	}
	for i := range saltW[:cap(saltW)] {
		saltW[:cap(saltW)][i] = 0xEE
	}
	v.Label("caller-reuses-and-wipes-key-buffers")
	encR, e2 := mk(c.Key) // an independent filespace with the same secret, salt and host binding
	encO, e3 := mk(c.Other)
	if e1 != nil || e2 != nil || e3 != nil || encW == nil || encR == nil || encO == nil {
		return hx.Fail("setup", "NewEncryptFS failed: %v %v %v", e1, e2, e3)
	}
	prefix := ""
	writer := encW
	var childR fsmodel.FS
	if c.Child {
		prefix = "v/"
		if err := base.MkdirAll("v", filesystem.DefaultUnixDirMode); err != nil {
			return inconclusive(v, "base-mkdir")
		}
		if writer, err = encW.Filespace("v"); err != nil || writer == nil {
			return hx.Fail("round-trip", "Filespace(\"v\") of the encrypted filespace failed on an existing directory: %v", err)
		}
		if childR, err = encR.Filespace("v"); err != nil || childR == nil {
			return hx.Fail("round-trip", "Filespace(\"v\") of the encrypted filespace failed on an existing directory: %v", err)
		}
	}
	// precondition kept from C02: the parent directory of a written path exists
	for _, p := range []string{c.P1, c.P2, tpath} {
		if i := strings.LastIndexByte(p, '/'); i > 0 {
			if err := base.MkdirAll(prefix+p[:i], filesystem.DefaultUnixDirMode); err != nil {
				return inconclusive(v, "base-mkdir")
			}
		}
	}
	step := 0
	fail := func(clause, format string, a ...interface{}) hx.Verdict {
		f := hx.Fail(clause, format, a...)
		f.Step = step
		return f
	}

	// ---- the two write paths
	writeFile := func(p string) string {
		buf := append([]byte{}, plain...)
		var err error
		if pan := try(func() { err = writer.WriteFile(p, buf, filesystem.DefaultUnixFileMode) }); pan != "" {
			return "WriteFile panicked: " + pan
		}
		if err != nil {
			return "WriteFile failed: " + errLine(err)
		}
		return ""
	}
	chunks := splitChunks(plain, c.Cuts, c.NoWrite)
	writeStream := func(p string) string {
		var msg string
		if pan := try(func() {
			w, err := writer.Writer(p)
			if err != nil || w == nil {
				msg = "Writer failed: " + errLine(err)
				return
			}
			for _, ch := range chunks {
				buf := append([]byte{}, ch...)
				n, err := w.Write(buf)
				if err != nil || n != len(ch) {
					msg = fmt.Sprintf("Write of a %d byte chunk returned n=%d err=%s", len(ch), n, errLine(err))
					w.Close()
					return
				}
			}
			if err := w.Close(); err != nil {
				msg = "Close of the Writer failed: " + errLine(err)
			}
		}); pan != "" {
			return "Writer path panicked: " + pan
		}
		return msg
	}
	// ---- round trip through both read paths
	roundTrip := func(how, p string) *hx.Verdict {
		views := []view{{"", encR, prefix + p}}
		if childR != nil {
			views = append(views, view{" (child view)", childR, p})
		}
		for _, vw := range views {
			for _, rp := range []string{"ReadFile", "Reader"} {
				var r reading
				if rp == "ReadFile" {
					r = readFile(vw.fs, vw.path)
				} else {
					r = readStream(vw.fs, vw.path, c.Bufs, len(plain))
				}
				var f hx.Verdict
				switch {
				case r.pan != "":
					f = fail("panic", "%s(%q)%s of data written with %s panicked: %s", rp, vw.path, vw.name, how, r.pan)
				case r.stuck:
					f = fail("round-trip", "%s(%q)%s of %d bytes written with %s did not reach EOF (%d bytes delivered)", rp, vw.path, vw.name, len(plain), how, len(r.data))
				case r.err != nil:
					f = fail("round-trip", "%s(%q)%s of %d bytes written with %s and the same key failed: %s", rp, vw.path, vw.name, len(plain), how, errLine(r.err))
				case !bytes.Equal(r.data, plain):
					f = fail("round-trip", "%s(%q)%s returned %d bytes %q, written with %s: %d bytes %q", rp, vw.path, vw.name, len(r.data), clip(r.data), how, len(plain), clip(plain))
				default:
					continue
				}
				return &f
			}
		}
		return nil
	}
	rawOf := func(p string) ([]byte, bool) {
		raw, err := base.ReadFile(prefix + p)
		return raw, err == nil
	}

	step = 1
	if m := writeFile(c.P1); m != "" {
		return fail("round-trip", "%s", m)
	}
	step = 2
	if m := writeStream(c.P2); m != "" {
		return fail("round-trip", "%s", m)
	}
	step = 3
	if f := roundTrip("WriteFile", c.P1); f != nil {
		return *f
	}
	step = 4
	if f := roundTrip("Writer", c.P2); f != nil {
		return *f
	}
	// ---- secrecy
	step = 5
	raw1, ok1 := rawOf(c.P1)
	raw2, ok2 := rawOf(c.P2)
	if !ok1 || !ok2 {
		return fail("secrecy", "the underlying filespace has no file where the encrypted filespace wrote one (%q: %v, %q: %v)", prefix+c.P1, ok1, prefix+c.P2, ok2)
	}
	if containsPlain(raw1, plain) {
		return fail("secrecy", "stored bytes of %q (WriteFile) contain the plaintext (%d bytes)", c.P1, len(plain))
	}
	if containsPlain(raw2, plain) {
		return fail("secrecy", "stored bytes of %q (Writer) contain the plaintext (%d bytes)", c.P2, len(plain))
	}
	if bytes.Equal(raw1, raw2) {
		return fail("fresh-bytes", "WriteFile and Writer of the same %d bytes gave identical stored bytes", len(plain))
	}
	// same data again over the old files, each through its own write path
	step = 6
	if m := writeFile(c.P1); m != "" {
		return fail("round-trip", "second write: %s", m)
	}
	if m := writeStream(c.P2); m != "" {
		return fail("round-trip", "second write: %s", m)
	}
	raw1b, _ := rawOf(c.P1)
	raw2b, _ := rawOf(c.P2)
	if bytes.Equal(raw1, raw1b) {
		return fail("fresh-bytes", "two WriteFile calls with the same %d bytes gave identical stored bytes", len(plain))
	}
	if bytes.Equal(raw2, raw2b) {
		return fail("fresh-bytes", "two Writer streams with the same %d bytes gave identical stored bytes", len(plain))
	}
	if containsPlain(raw1b, plain) || containsPlain(raw2b, plain) {
		return fail("secrecy", "stored bytes contain the plaintext after the second write (%d bytes)", len(plain))
	}
	step = 7
	if f := roundTrip("WriteFile (second write)", c.P1); f != nil {
		return *f
	}
	if f := roundTrip("Writer (second write)", c.P2); f != nil {
		return *f
	}

	// ---- several stream readers alive at once, generated consumption styles
	step = 20
	if f := runStreams(c, writer, encR, childR, base, prefix, plain, &v); f != nil {
		return *f
	}

	// ---- integrity: a bad read must be an error, without data, without panic
	bad := 0
	judgeBad := func(what, rp string, r reading) *hx.Verdict {
		bad++
		var f hx.Verdict
		switch {
		case r.pan != "":
			f = fail("panic", "%s of %s panicked: %s", rp, what, r.pan)
		case r.stuck:
			f = fail("integrity", "%s of %s did not end with an error (%d bytes delivered, no EOF)", rp, what, len(r.data))
		case r.err == nil:
			f = fail("integrity", "%s of %s succeeded with %d bytes %q; it must be answered with an error", rp, what, len(r.data), clip(r.data))
		case len(r.data) > 0:
			f = fail("integrity", "%s of %s delivered %d bytes %q together with the error %q", rp, what, len(r.data), clip(r.data), errLine(r.err))
		default:
			return nil
		}
		return &f
	}
	secondRead := func(what string, fs fsmodel.FS, p string) *hx.Verdict {
		ch := make(chan reading, 1)
		go func() { ch <- readStream(fs, p, c.Bufs, len(plain)) }()
		select {
		case r := <-ch:
			return judgeBad(what+" (second read after a refused one)", "Reader", r)
		case <-time.After(20 * time.Second):
			f := fail("integrity-answered", "Reader of %s was refused correctly, but a second Reader of the same stored bytes was not answered within 20 s (the refused read left the file of the underlying filespace open or locked)", what)
			return &f
		}
	}
	step = 8
	same := SameMaterial(c.Key, c.Other, c.Key.HostOnly)
	if bytes.Equal(c.Key.Secret, c.Other.Secret) && bytes.Equal(c.Key.Salt, c.Other.Salt) {
		v.Label("other:identical(skipped)")
	} else {
		for _, p := range []string{c.P1, c.P2} {
			what := fmt.Sprintf("%q with another secret/salt (secret %q salt %q instead of secret %q salt %q)", p, c.Other.Secret, c.Other.Salt, c.Key.Secret, c.Key.Salt)
			if f := judgeBad(what, "ReadFile", readFile(encO, prefix+p)); f != nil {
				return *f
			}
			if f := judgeBad(what, "Reader", readStream(encO, prefix+p, c.Bufs, len(plain))); f != nil {
				return *f
			}
			if !same {
				if f := secondRead(what, encO, prefix+p); f != nil {
					return *f
				}
			}
		}
	}
	// tampering with the stored blob
	step = 9
	blob := raw1b
	if c.Tamper == 1 {
		blob = raw2b
	}
	tamperRead := func(what string, mutated []byte) *hx.Verdict {
		if err := base.WriteFile(prefix+tpath, mutated, filesystem.DefaultUnixFileMode); err != nil {
			f := inconclusive(v, "base-write")
			return &f
		}
		what = fmt.Sprintf("%s (stored %d bytes, original %d)", what, len(mutated), len(blob))
		if f := judgeBad(what, "ReadFile", readFile(encR, prefix+tpath)); f != nil {
			return f
		}
		if f := judgeBad(what, "Reader", readStream(encR, prefix+tpath, c.Bufs, len(plain))); f != nil {
			return f
		}
		// the damaged file stays a file with modified stored bytes: a second read of it must be
		// answered with an error as well (a refused read that keeps the base file locked never
		// answers the next one)
		if f := secondRead(what, encR, prefix+tpath); f != nil {
			return f
		}
		return nil
	}
	L := len(blob)
	lens, offs := tamperPositions(L, c.Samples)
	for _, n := range lens {
		if f := tamperRead(fmt.Sprintf("the blob truncated to %d bytes", n), append([]byte{}, blob[:n]...)); f != nil {
			return *f
		}
	}
	v.Count("tamper_truncations", int64(len(lens)))
	masks := c.Masks
	if len(masks) == 0 {
		masks = []byte{0xFF}
	}
	for _, off := range offs {
		ms := []byte{masks[off%len(masks)]}
		if c.AllBits {
			ms = []byte{1, 2, 4, 8, 16, 32, 64, 128}
		}
		for _, m := range ms {
			if m == 0 {
				m = 0xFF
			}
			mut := append([]byte{}, blob...)
			mut[off] ^= m
			if f := tamperRead(fmt.Sprintf("the blob with byte %d xor %#02x", off, m), mut); f != nil {
				return *f
			}
			v.Count("tamper_byte_changes", 1)
		}
	}
	// extended blobs
	for _, extra := range [][]byte{{0}, bytes.Repeat([]byte{masks[0]}, 16)} {
		if f := tamperRead(fmt.Sprintf("the blob followed by %d more bytes", len(extra)), append(append([]byte{}, blob...), extra...)); f != nil {
			return *f
		}
	}
	if c.Cipher == "ext" && L >= 4 && c.Retag != 0 {
		mut := append([]byte{}, blob...)
		mut[0], mut[1], mut[2], mut[3] = byte(c.Retag), byte(c.Retag>>8), byte(c.Retag>>16), byte(c.Retag>>24)
		if f := tamperRead(fmt.Sprintf("the blob re-tagged with the unknown cipher id %d", c.Retag), mut); f != nil {
			return *f
		}
		v.Label("tamper:retag")
	}

	// ---- classification
	v.NonTrivial = len(plain) >= 1 && bad > 0
	v.Count("bad_reads", int64(bad))
	v.Label("cipher:" + c.Cipher)
	v.Label("base:" + c.Base)
	if c.Child {
		v.Label("via-child-view")
	}
	if c.Key.HostOnly {
		v.Label("host-only")
	}
	if len(c.Key.Secret) == 0 {
		v.Label("key:empty-secret")
	}
	if len(c.Key.Salt) == 0 {
		v.Label("key:empty-salt")
	}
	switch {
	case same:
		v.Label("other:same-material")
	case bytes.Equal(c.Key.Salt, c.Other.Salt):
		v.Label("other:secret-differs")
	case bytes.Equal(c.Key.Secret, c.Other.Secret):
		v.Label("other:salt-differs")
	default:
		v.Label("other:both-differ")
	}
	switch n := len(plain); {
	case n == 0:
		v.Label("plain:empty")
	case n == 1:
		v.Label("plain:1")
	case n >= 15 && n <= 17:
		v.Label("plain:block-boundary")
	case n >= 4095 && n <= 4097:
		v.Label("plain:4k-boundary")
	case n >= 65536:
		v.Label("plain:64k")
	default:
		v.Label("plain:other")
	}
	if len(plain) >= 8 {
		v.Label("secrecy-judged")
	}
	if L <= 128 {
		v.Label("tamper:exhaustive")
	} else {
		v.Label("tamper:sampled")
	}
	if len(chunks) >= 2 {
		v.Label("writer:multi-chunk")
	} else if len(chunks) == 0 {
		v.Label("writer:no-write-call")
	}
	return v
}

// splitChunks cuts data at the given positions (modulo len+1).
func splitChunks(data []byte, cuts []int, noWrite bool) [][]byte {
	if len(data) == 0 && noWrite {
		return nil
	}
	pos := []int{}
	for _, c := range cuts {
		if c < 0 {
			c = -c
		}
		pos = append(pos, c%(len(data)+1))
	}
	sort.Ints(pos)
	out := [][]byte{}
	prev := 0
	for _, p := range pos {
		out = append(out, data[prev:p])
		prev = p
	}
	return append(out, data[prev:])
}

// tamperPositions returns the truncation lengths (each < L) and byte offsets to try:
// all of them for blobs of at most 128 bytes, else the structural boundaries plus the
// sampled positions of the case.
func tamperPositions(L int, samples []int) (lens, offs []int) {
	if L <= 128 {
		for i := 0; i < L; i++ {
			lens = append(lens, i)
			offs = append(offs, i)
		}
		return lens, offs
	}
	set := map[int]bool{}
	for _, p := range []int{0, 1, 2, 3, 4, 5, 11, 12, 13, 15, 16, 17, 19, 20, 27, 28, 29, 31, 32, 33, L - 33, L - 32, L - 17, L - 16, L - 15, L - 2, L - 1} {
		if p >= 0 && p < L {
			set[p] = true
		}
	}
	for _, s := range samples {
		if s < 0 {
			s = -s
		}
		set[s%L] = true
	}
	for p := range set {
		lens = append(lens, p)
	}
	sort.Ints(lens)
	return lens, append([]int{}, lens...)
}
