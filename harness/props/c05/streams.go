package c05

import (
	"bytes"
	"fmt"
	"io"
	"strings"

	"github.com/goatcms/goatcore/filesystem"
	"pgregory.net/rapid"
	"verif/harness/fsmodel"
	"verif/harness/hx"
)

// StreamPlan is the "several stream readers alive at once" phase of a crypt case: extra
// files with DIFFERENT plaintexts are written, several Readers are opened on them (and on
// P1/P2) by one goroutine, consumed in a generated interleaving and with generated
// consumption styles, and each must deliver exactly its own file's plaintext
// ("is read back identically through either path").
type StreamPlan struct {
	Files   []StreamFile   `json:"files"`
	Readers []StreamReader `json:"readers"`
	// Sched is the interleaving: each entry names a reader; its first occurrence opens the
	// reader, every further one performs one consumption step. Readers left unfinished (or
	// unopened) afterwards are driven to the end in index order.
	Sched []int `json:"sched"`
	// CloseLate: every reader is closed only after all readers delivered their data.
	CloseLate bool `json:"close_late,omitempty"`
}

// StreamFile is one extra file (written to "s/<index>").
type StreamFile struct {
	Plain  Plain `json:"plain"`
	Stream bool  `json:"stream,omitempty"` // written with Writer instead of WriteFile
}

// StreamReader is one reader of the plan.
type StreamReader struct {
	// Target: index into Files, len(Files) = P1, len(Files)+1 = P2.
	Target int `json:"target"`
	// Style: read | readall | copy | copy-plain | read+copy | read+writeto | readfull+readall
	Style string `json:"style"`
	K     int    `json:"k,omitempty"`     // prefix size of the two-step styles (modulo len+1; Read uses max(1,K))
	Bufs  []int  `json:"bufs,omitempty"`  // buffer sizes of the Read loop
	Child bool   `json:"child,omitempty"` // open through the child view (when the case has one)
}

var streamStyles = []string{"read", "readall", "copy", "copy-plain", "read+copy", "read+writeto", "readfull+readall"}

// genStreams draws the plan. sameFileOK: the base tolerates two open readers on one file.
func genStreams(rt *rapid.T, sameFileOK bool) *StreamPlan {
	p := &StreamPlan{}
	nf := 2 + hx.Uniform(rt, 3, "sfiles")
	for i := 0; i < nf; i++ {
		var n int
		switch w := hx.Uniform(rt, 100, "sflen"); {
		case w < 5:
			n = 0
		case w < 15:
			n = 1 + hx.Uniform(rt, 3, "sfn")
		case w < 80:
			n = 4 + hx.Uniform(rt, 300, "sfn")
		case w < 93:
			n = 500 + hx.Uniform(rt, 1200, "sfn")
		default:
			n = 4090 + hx.Uniform(rt, 12, "sfn")
		}
		f := StreamFile{Stream: hx.Chance(rt, 40, "sfstream")}
		if n == 0 {
			f.Plain = Plain{Bytes: []byte{}}
		} else {
			// distinct by construction: the seed carries the file index
			f.Plain = Plain{N: n, Fill: "prng", Seed: uint64(hx.Uniform(rt, 1<<12, "sfseed"))*8 + uint64(i)}
		}
		p.Files = append(p.Files, f)
	}
	ntargets := nf + 2
	nr := 2 + hx.Uniform(rt, 3, "sreaders")
	used := map[int]bool{}
	for i := 0; i < nr; i++ {
		t := hx.Uniform(rt, ntargets, "starget")
		if !sameFileOK {
			for used[t] { // nr <= 4 <= ntargets: a free target exists
				t = (t + 1) % ntargets
			}
		}
		used[t] = true
		r := StreamReader{Target: t, Style: streamStyles[hx.Uniform(rt, len(streamStyles), "sstyle")], Child: hx.Chance(rt, 30, "schild")}
		r.K = hx.Uniform(rt, 40, "sk")
		if hx.Chance(rt, 25, "skbig") {
			r.K = hx.Uniform(rt, 5000, "sk2")
		}
		for k := 1 + hx.Uniform(rt, 2, "snb"); k > 0; k-- {
			r.Bufs = append(r.Bufs, []int{1, 2, 3, 7, 16, 64, 512, 4096}[hx.Uniform(rt, 8, "sbuf")])
		}
		p.Readers = append(p.Readers, r)
	}
	if hx.Chance(rt, 50, "sopenall") { // all opened before the first byte is read
		for i := 0; i < nr; i++ {
			p.Sched = append(p.Sched, i)
		}
	}
	for k := hx.Uniform(rt, 6*nr+1, "slen"); k > 0; k-- {
		p.Sched = append(p.Sched, hx.Uniform(rt, nr, "sturn"))
	}
	p.CloseLate = hx.Chance(rt, 40, "scloselate")
	return p
}

// plainWriter hides bytes.Buffer's ReaderFrom so that io.Copy must use the source's
// WriterTo or its own Read loop.
type plainWriter struct{ w io.Writer }

func (p plainWriter) Write(b []byte) (int, error) { return p.w.Write(b) }

type openReader struct {
	spec    StreamReader
	path    string
	want    []byte
	rd      filesystem.Reader
	got     bytes.Buffer
	phase   int // 0 = nothing consumed yet, 1 = prefix step done
	nread   int
	done    bool
	closed  bool
	prefix  int // bytes the prefix step delivered
	overlap bool
}

// step performs one consumption step; it returns a failure description or "".
func (o *openReader) step() (problem string) {
	fin := func(err error, how string) string {
		o.done = true
		if err != nil {
			return fmt.Sprintf("%s failed: %s", how, errLine(err))
		}
		return ""
	}
	k := 0
	if len(o.want) > 0 {
		k = o.spec.K % (len(o.want) + 1)
	}
	switch o.spec.Style {
	case "read":
		bufs := o.spec.Bufs
		if len(bufs) == 0 {
			bufs = []int{64}
		}
		sz := bufs[o.nread%len(bufs)]
		if sz < 1 {
			sz = 1
		}
		o.nread++
		if o.nread > 2*len(o.want)+256 {
			o.done = true
			return fmt.Sprintf("Read loop did not reach EOF within %d calls", o.nread)
		}
		buf := make([]byte, sz)
		n, err := o.rd.Read(buf)
		if n < 0 || n > sz {
			o.done = true
			return fmt.Sprintf("Read returned n=%d for a %d byte buffer", n, sz)
		}
		o.got.Write(buf[:n])
		if err == io.EOF {
			o.done = true
		} else if err != nil {
			return fin(err, "Read")
		}
		return ""
	case "readall":
		b, err := io.ReadAll(o.rd)
		o.got.Write(b)
		return fin(err, "io.ReadAll")
	case "copy":
		_, err := io.Copy(&o.got, o.rd)
		return fin(err, "io.Copy")
	case "copy-plain":
		_, err := io.Copy(plainWriter{&o.got}, o.rd)
		return fin(err, "io.Copy to a plain Writer")
	case "read+copy", "read+writeto":
		if o.phase == 0 {
			o.phase = 1
			sz := k
			if sz < 1 {
				sz = 1
			}
			buf := make([]byte, sz)
			n, err := o.rd.Read(buf)
			if n < 0 || n > sz {
				o.done = true
				return fmt.Sprintf("Read returned n=%d for a %d byte buffer", n, sz)
			}
			o.got.Write(buf[:n])
			o.prefix = n
			if err == io.EOF {
				o.done = true // nothing is asked of a reader after it reported EOF
			} else if err != nil {
				return fin(err, "Read of the prefix")
			}
			return ""
		}
		if wt, ok := o.rd.(io.WriterTo); ok && o.spec.Style == "read+writeto" {
			_, err := wt.WriteTo(plainWriter{&o.got})
			return fin(err, "WriteTo after a Read")
		}
		_, err := io.Copy(&o.got, o.rd)
		return fin(err, "io.Copy after a Read")
	case "readfull+readall":
		if o.phase == 0 {
			o.phase = 1
			buf := make([]byte, k)
			n, err := io.ReadFull(o.rd, buf)
			o.got.Write(buf[:n])
			o.prefix = n
			if err != nil {
				return fin(err, fmt.Sprintf("io.ReadFull of the first %d of %d bytes", k, len(o.want)))
			}
			return ""
		}
		b, err := io.ReadAll(o.rd)
		o.got.Write(b)
		return fin(err, "io.ReadAll after io.ReadFull")
	}
	o.done = true
	return "harness: unknown style " + o.spec.Style
}

// runStreams executes the plan. w writes, r (and childR, if any) read; prefix is the
// path prefix of the root reader. mainPlain is the plaintext held by P1 and P2.
func runStreams(c Case, w, r, childR fsmodel.FS, base fsmodel.FS, prefix string, mainPlain []byte, v *hx.Verdict) *hx.Verdict {
	p := c.Streams
	if p == nil || len(p.Readers) == 0 {
		return nil
	}
	fail := func(clause, format string, a ...interface{}) *hx.Verdict {
		f := hx.Fail(clause, format, a...)
		f.Step = 20
		return &f
	}
	if err := base.MkdirAll(prefix+"s", filesystem.DefaultUnixDirMode); err != nil {
		f := inconclusive(*v, "base-mkdir")
		return &f
	}
	// the extra files
	plains := make([][]byte, 0, len(p.Files)+2)
	paths := make([]string, 0, len(p.Files)+2)
	for i, f := range p.Files {
		data := f.Plain.Expand()
		path := fmt.Sprintf("s/%d", i)
		var err error
		pan := try(func() {
			if !f.Stream {
				err = w.WriteFile(path, append([]byte{}, data...), filesystem.DefaultUnixFileMode)
				return
			}
			var wr filesystem.Writer
			if wr, err = w.Writer(path); err != nil || wr == nil {
				if err == nil {
					err = fmt.Errorf("Writer returned (nil, nil)")
				}
				return
			}
			half := len(data) / 2
			if _, err = wr.Write(append([]byte{}, data[:half]...)); err == nil {
				_, err = wr.Write(append([]byte{}, data[half:]...))
			}
			if cerr := wr.Close(); err == nil {
				err = cerr
			}
		})
		if pan != "" {
			return fail("panic", "writing %d bytes to %q panicked: %s", len(data), path, pan)
		}
		if err != nil {
			return fail("round-trip", "writing %d bytes to %q failed: %s", len(data), path, errLine(err))
		}
		plains = append(plains, data)
		paths = append(paths, path)
	}
	plains = append(plains, mainPlain, mainPlain)
	paths = append(paths, c.P1, c.P2)

	readers := make([]*openReader, len(p.Readers))
	targetsOpen := map[int]int{}
	var verdict *hx.Verdict
	sameTwice := false
	describe := func(i int) string {
		o := readers[i]
		others := []string{}
		for j, x := range readers {
			if j != i && x != nil {
				others = append(others, fmt.Sprintf("#%d %q(%s)", j, x.path, x.spec.Style))
			}
		}
		return fmt.Sprintf("reader #%d of %q (style %s, %d bytes written; other readers opened meanwhile: %s)", i, o.path, o.spec.Style, len(o.want), strings.Join(others, ", "))
	}
	finish := func(i int) {
		o := readers[i]
		if !bytes.Equal(o.got.Bytes(), o.want) {
			d := o.got.Bytes()
			extra := ""
			for j, pl := range plains {
				if j != o.spec.Target && len(pl) > 0 && len(d) > 0 && !bytes.Equal(pl, o.want) && (bytes.HasPrefix(d, pl) || bytes.HasPrefix(pl, d)) {
					extra = fmt.Sprintf(" - that is the content of %q", paths[j])
				}
			}
			if o.prefix > 0 && len(d) == len(o.want)+o.prefix && bytes.Equal(d[o.prefix:], o.want) {
				extra = fmt.Sprintf(" - the %d byte prefix already delivered by Read was delivered again", o.prefix)
			}
			verdict = fail("round-trip-streams", "%s delivered %d bytes %q, written were %d bytes %q%s", describe(i), len(d), clip(d), len(o.want), clip(o.want), extra)
		}
	}
	closeReader := func(i int) {
		o := readers[i]
		if o == nil || o.closed {
			return
		}
		o.closed = true
		targetsOpen[o.spec.Target]--
		var err error
		if pan := try(func() { err = o.rd.Close() }); pan != "" && verdict == nil {
			verdict = fail("panic", "Close of %s panicked: %s", describe(i), pan)
		} else if err != nil && verdict == nil {
			verdict = fail("round-trip-streams", "Close of %s failed: %s", describe(i), errLine(err))
		}
	}
	turn := func(i int) {
		if i < 0 || i >= len(readers) || verdict != nil {
			return
		}
		if readers[i] == nil { // open
			spec := p.Readers[i]
			if spec.Target < 0 || spec.Target >= len(paths) {
				return
			}
			if targetsOpen[spec.Target] > 0 && c.Base != "disk" {
				// memfs keeps a file's data lock while a base Reader is open: a second reader on
				// the same file is only generated/executed on disk
				v.Count("streams_same_file_skipped", 1)
				return
			}
			fs, path := r, prefix+paths[spec.Target]
			if spec.Child && childR != nil {
				fs, path = childR, paths[spec.Target]
			}
			o := &openReader{spec: spec, path: path, want: plains[spec.Target]}
			var err error
			if pan := try(func() { o.rd, err = fs.Reader(path) }); pan != "" {
				verdict = fail("panic", "Reader(%q) panicked: %s", path, pan)
				return
			}
			if err != nil || o.rd == nil {
				verdict = fail("round-trip-streams", "Reader(%q) of %d bytes written with the same key failed: %s", path, len(o.want), errLine(err))
				return
			}
			for _, x := range readers {
				if x != nil && !x.done {
					x.overlap = true // x still has to deliver data after another reader was opened
				}
			}
			if targetsOpen[spec.Target] > 0 {
				sameTwice = true
			}
			targetsOpen[spec.Target]++
			readers[i] = o
			return
		}
		o := readers[i]
		if o.done {
			return
		}
		var problem string
		if pan := try(func() { problem = o.step() }); pan != "" {
			verdict = fail("panic", "%s panicked: %s", describe(i), pan)
			return
		}
		if problem != "" {
			verdict = fail("round-trip-streams", "%s: %s", describe(i), problem)
			return
		}
		if o.done {
			finish(i)
			if !p.CloseLate {
				closeReader(i)
			}
		}
	}
	for _, i := range p.Sched {
		turn(i)
	}
	for i := range readers {
		for guard := 0; verdict == nil && (readers[i] == nil || !readers[i].done) && guard < 1<<20; guard++ {
			before := readers[i]
			turn(i)
			if before == nil && readers[i] == nil {
				break // could not be opened (same file on a locking base)
			}
		}
	}
	// late closes; also after a failure, so that no base stream stays open
	for i := range readers {
		closeReader(i)
	}
	if verdict != nil {
		return verdict
	}
	// classification
	labels := map[string]bool{}
	for _, o := range readers {
		if o == nil {
			continue
		}
		labels["style:"+o.spec.Style] = true
		if o.overlap {
			labels["streams:overlap"] = true
		}
		if _, ok := o.rd.(io.WriterTo); ok {
			labels["streams:writerto-present"] = true
		}
		if o.prefix > 0 && o.prefix < len(o.want) {
			labels["streams:prefix-then-bulk"] = true
		}
		v.Count("stream_readers", 1)
	}
	if p.CloseLate {
		labels["streams:close-late"] = true
	}
	if sameTwice {
		v.Label("streams:same-file-twice")
	}
	for _, l := range []string{"style:read", "style:readall", "style:copy", "style:copy-plain", "style:read+copy", "style:read+writeto", "style:readfull+readall",
		"streams:overlap", "streams:writerto-present", "streams:prefix-then-bulk", "streams:close-late"} {
		if labels[l] {
			v.Label(l)
		}
	}
	return nil
}
