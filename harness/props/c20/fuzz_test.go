package c20

import (
	"bytes"
	"encoding/json"
	"io"
	"strings"
	"testing"
	"unicode/utf8"

	"verif/harness/hx"
)

// docInDomain decides whether raw bytes are a document the read clause quantifies over:
// valid UTF-8, a single JSON value whose top level is an object, every object (outside
// arrays, whose content is a skipped leaf) with unique, non-empty, dot-free keys, and no
// lone surrogate escape anywhere (encoding/json would silently replace it by U+FFFD).
func docInDomain(doc []byte) bool {
	if len(doc) > 1<<12 || !utf8.Valid(doc) || !surrogatesPaired(doc) {
		return false
	}
	dec := json.NewDecoder(bytes.NewReader(doc))
	dec.UseNumber()
	tok, err := dec.Token()
	if err != nil || tok != json.Delim('{') {
		return false
	}
	type frame struct {
		obj   bool
		keys  map[string]bool
		inArr bool // this frame is inside an array: keys are not constrained
		isKey bool // next token of an object frame is a key
	}
	stack := []*frame{{obj: true, keys: map[string]bool{}, isKey: true}}
	for len(stack) > 0 {
		tok, err := dec.Token()
		if err != nil {
			return false
		}
		top := stack[len(stack)-1]
		if d, ok := tok.(json.Delim); ok {
			switch d {
			case '}', ']':
				stack = stack[:len(stack)-1]
				if len(stack) > 0 && stack[len(stack)-1].obj {
					stack[len(stack)-1].isKey = true
				}
			case '{':
				stack = append(stack, &frame{obj: true, keys: map[string]bool{}, inArr: top.inArr || !top.obj, isKey: true})
			case '[':
				stack = append(stack, &frame{inArr: true})
			}
			continue
		}
		if top.obj && top.isKey {
			k, ok := tok.(string)
			if !ok {
				return false
			}
			if !top.inArr {
				if k == "" || strings.Contains(k, ".") || top.keys[k] {
					return false
				}
				top.keys[k] = true
			}
			top.isKey = false
			continue
		}
		if top.obj {
			top.isKey = true
		}
	}
	// nothing but white space may follow
	if _, err := dec.Token(); err != io.EOF {
		return false
	}
	return true
}

// surrogatesPaired scans the string literals of a document: every \uD800-\uDBFF escape must be
// followed directly by a \uDC00-\uDFFF escape and no low surrogate may stand alone.
func surrogatesPaired(doc []byte) bool {
	hex := func(i int) (int, bool) {
		if i+4 > len(doc) {
			return 0, false
		}
		v := 0
		for _, c := range doc[i : i+4] {
			switch {
			case c >= '0' && c <= '9':
				v = v<<4 | int(c-'0')
			case c >= 'a' && c <= 'f':
				v = v<<4 | int(c-'a'+10)
			case c >= 'A' && c <= 'F':
				v = v<<4 | int(c-'A'+10)
			default:
				return 0, false
			}
		}
		return v, true
	}
	in := false
	for i := 0; i < len(doc); i++ {
		c := doc[i]
		if !in {
			in = c == '"'
			continue
		}
		switch c {
		case '"':
			in = false
		case '\\':
			if i+1 >= len(doc) {
				return false
			}
			if doc[i+1] != 'u' {
				i++
				continue
			}
			v, ok := hex(i + 2)
			if !ok {
				return false
			}
			i += 5
			if v >= 0xDC00 && v <= 0xDFFF {
				return false
			}
			if v >= 0xD800 && v <= 0xDBFF {
				if i+6 >= len(doc) || doc[i+1] != '\\' || doc[i+2] != 'u' {
					return false
				}
				w, ok := hex(i + 3)
				if !ok || w < 0xDC00 || w > 0xDFFF {
					return false
				}
				i += 6
			}
		}
	}
	return true
}

var fuzzDocSeeds = []string{
	`{}`,
	`{"k":"v"}`,
	`{"a":{"b":"x\ny","c":-1.5e3},"d":"é😀\/"}`,
	`{ "a" : [1,{"x":"y"},"s"], "b":null, "c":true, "d":{}, "e":"\"\\\b\f\r\t" }`,
	`{"a\"b":"q","A":{"n":0,"m":-0.0E+1}}`,
	"{\"k\":\" \u007f\",\"l\":{\"m\":{\"n\":\"deep\"}}}",
}

// FuzzReadDoc is the native fuzz target of the read clause (thorough tier): raw bytes that
// are a document of the quantified domain go through the same executor as generated ones.
func FuzzReadDoc(f *testing.F) {
	for _, s := range fuzzDocSeeds {
		f.Add([]byte(s))
	}
	f.Fuzz(func(t *testing.T, doc []byte) {
		if !docInDomain(doc) {
			return
		}
		hx.One(t, "read", Case{Kind: "read", Read: &ReadCase{Doc: string(doc)}}, Exec)
	})
}

// FuzzWriteMap is the native fuzz target of the write clause: up to three entries of a flat
// map taken from the fuzzer's strings (cases outside the domain of flat maps are dropped).
func FuzzWriteMap(f *testing.F) {
	f.Add("k", "v", "a.b", "x\"y\\z\n", "a.c", "é")
	f.Add("a", "", "b.c.d", "\x00\x1f\x7f", "b.c.e", " ")
	f.Add("a\"b", "1", "a\\b.c", "2", "z", "\U0001F600")
	f.Add("h", `<b>\u003cb\u003e & \u0026</b>`, "e", `\n\"\\`, "amp", "&amp;&lt;")
	f.Fuzz(func(t *testing.T, k1, v1, k2, v2, k3, v3 string) {
		es := []KV{{K: k1, V: v1}}
		if k2 != "" {
			es = append(es, KV{K: k2, V: v2})
		}
		if k3 != "" {
			es = append(es, KV{K: k3, V: v3})
		}
		keys := make([]string, len(es))
		n := 0
		for i, e := range es {
			if !utf8.ValidString(e.K) || !utf8.ValidString(e.V) {
				return
			}
			keys[i] = e.K
			n += len(e.K) + len(e.V)
		}
		if n > 1<<12 || validFlatKeys(keys) != nil {
			return
		}
		hx.One(t, "write", Case{Kind: "write", Write: &WriteCase{Entries: es}}, Exec)
	})
}

// FuzzMaps drives the rapid generator of the maps kind from the fuzzer's bytes.
func FuzzMaps(f *testing.F) { hx.FuzzRapid(f, "maps", GenMaps, Exec) }
