//go:build !linux

package c20

func confineCPUs(n, skip int) (restore func(), ok bool) { return func() {}, false }
