// Package c20: config and translation maps survive flattening, JSON and loading unchanged.
//
// Four case kinds share one self-describing Case type:
//
//	maps   nested map <-> dotted flat map (RecursiveMapToPlainMap / ToRecursiveMap / StringMapToRecursiveMap)
//	read   a rendered JSON document -> JSONToPlainStringMap, compared with encoding/json(UseNumber)+flatten
//	write  a flat string map -> PlainStringMapToJSON / ...FormattedJSON -> valid JSON read back by both readers
//	load   a directory layout of translation files -> fsi18loader.Load -> Translate for every key
package c20

import (
	"bytes"
	"encoding/json"
	"fmt"
	"github.com/goatcms/goatcore/filesystem"
	"io"
	"reflect"
	"runtime"
	"sort"
	"strings"
	"sync"
	"time"
	"unicode/utf8"

	"github.com/goatcms/goatcore/filesystem/filespace/memfs"
	"github.com/goatcms/goatcore/i18n/fsi18loader"
	"github.com/goatcms/goatcore/i18n/i18mem"
	"github.com/goatcms/goatcore/varutil/plainmap"
	"github.com/goatcms/goatcore/workers"
	"verif/harness/fsmodel"
	"verif/harness/hx"
)

// Case is one generated case of any of the four kinds.
type Case struct {
	Kind   string      `json:"kind"`
	Maps   *MapsCase   `json:"maps,omitempty"`
	Read   *ReadCase   `json:"read,omitempty"`
	Write  *WriteCase  `json:"write,omitempty"`
	Load   *LoadCase   `json:"load,omitempty"`
	Config *ConfigCase `json:"config,omitempty"`
}

// Node is one entry of a nested map: either a leaf or a non-empty sub-map.
type Node struct {
	Key  string `json:"k"`
	Leaf *Leaf  `json:"leaf,omitempty"`
	Kids []Node `json:"kids,omitempty"`
}

// Leaf is a scalar (or otherwise non-map) leaf value.
type Leaf struct {
	T string  `json:"t"` // s string, i int, f float64, b bool, nil, arr []interface{}, smap map[string]string
	S string  `json:"s,omitempty"`
	N float64 `json:"n,omitempty"`
	B bool    `json:"b,omitempty"`
}

// MapsCase is a nested map (ordered list form; keys are dot-free, non-empty and unique among siblings).
type MapsCase struct {
	Root []Node `json:"root"`
}

// ReadCase is a rendered JSON document whose top level is an object.
type ReadCase struct {
	Doc string `json:"doc"`
}

// KV is one entry of a flat string map.
type KV struct {
	K string `json:"k"`
	V string `json:"v"`
}

// WriteCase is a flat string map with prefix-free dotted keys.
type WriteCase struct {
	Entries []KV `json:"entries"`
}

// LFile is one file of a translation directory (path relative to the loaded directory).
type LFile struct {
	Path string `json:"path"`
	Doc  string `json:"doc"`
}

// LoadCase is a translation directory plus the scheduling parameters the harness controls.
type LoadCase struct {
	GoMaxProcs int     `json:"gomaxprocs"`
	MaxJob     int     `json:"maxjob"` // workers.MaxJob (goroutines per pool; the library default is NumCPU); 0 = leave as is
	Base       string  `json:"base"`   // base path handed to Load ("" , "./", "sub/", "./sub/")
	Reps       int     `json:"reps"`   // number of independent Load runs over the same directory
	CPUs       int     `json:"cpus"`   // confine the process to this many CPUs while loading (0 = all): OS-level time slicing of the GOMAXPROCS threads
	Files      []LFile `json:"files"`  // translation files (*.json)
	Other      []LFile `json:"other"`  // files whose name does not end in .json
	// FailAt > 0: the filespace call number FailAt-1 made by Load (listings, reads, opening and
	// reading streams) fails with an injected I/O error. A Load that then returns nil must still
	// have made every key translatable (it reports success); a Load that returns the error is
	// not judged further.
	FailAt int `json:"fail_at,omitempty"`
	// Preset: before every Load the store already holds every third key of the files with another
	// value (built-in texts set before loading, an earlier load of an older edition of a file):
	// afterwards the key must translate to the FILE's value.
	Preset bool `json:"preset,omitempty"`
}

// Exec runs a case of any kind.
func Exec(c Case) hx.Verdict {
	return hx.Guard(func() hx.Verdict {
		switch {
		case c.Maps != nil:
			return execMaps(*c.Maps)
		case c.Read != nil:
			return execRead(*c.Read)
		case c.Write != nil:
			return execWrite(*c.Write)
		case c.Load != nil:
			return execLoad(c)
		case c.Config != nil:
			return execConfig(*c.Config)
		}
		return hx.Fail("harness", "empty case")
	})
}

// ---------------------------------------------------------------------------------------
// reference side

func needsEscape(s string) bool {
	for i := 0; i < len(s); i++ {
		if s[i] == '"' || s[i] == '\\' || s[i] < 0x20 {
			return true
		}
	}
	return false
}

type docInfo struct {
	depth     int // deepest object nesting that holds a string/number leaf (top level = 1)
	strings   int
	numbers   int
	skipped   int
	emptyObj  int
	needsEsc  bool // some decoded string leaf contains a quote, backslash or control character
	nonASCII  bool
	keyNeedsE bool
}

// refDecodeFlat is the reference reader: encoding/json with UseNumber, then flatten to
// dotted keys keeping string and number leaves only.
func refDecodeFlat(doc []byte) (map[string]string, docInfo, error) {
	var info docInfo
	dec := json.NewDecoder(bytes.NewReader(doc))
	dec.UseNumber()
	var top interface{}
	if err := dec.Decode(&top); err != nil {
		return nil, info, err
	}
	var extra interface{}
	if err := dec.Decode(&extra); err != io.EOF {
		return nil, info, fmt.Errorf("trailing data after the top-level value")
	}
	obj, ok := top.(map[string]interface{})
	if !ok {
		return nil, info, fmt.Errorf("top level is not an object")
	}
	out := map[string]string{}
	var walk func(prefix string, m map[string]interface{}, depth int)
	walk = func(prefix string, m map[string]interface{}, depth int) {
		if len(m) == 0 {
			info.emptyObj++
		}
		for k, val := range m {
			if needsEscape(k) {
				info.keyNeedsE = true
			}
			full := k
			if prefix != "" {
				full = prefix + "." + k
			}
			switch x := val.(type) {
			case map[string]interface{}:
				walk(full, x, depth+1)
			case string:
				out[full] = x
				info.strings++
				if needsEscape(x) {
					info.needsEsc = true
				}
				for i := 0; i < len(x); i++ {
					if x[i] >= 0x80 {
						info.nonASCII = true
						break
					}
				}
				if depth > info.depth {
					info.depth = depth
				}
			case json.Number:
				out[full] = string(x)
				info.numbers++
				if depth > info.depth {
					info.depth = depth
				}
			default:
				info.skipped++
			}
		}
	}
	walk("", obj, 1)
	return out, info, nil
}

type escInfo struct {
	short, slash, uLower, uUpper, surrogate bool
}

// scanEscapes classifies the escape sequences occurring inside the strings of a document (labels only).
func scanEscapes(doc string) escInfo {
	var e escInfo
	in := false
	for i := 0; i < len(doc); i++ {
		c := doc[i]
		if !in {
			if c == '"' {
				in = true
			}
			continue
		}
		switch c {
		case '"':
			in = false
		case '\\':
			if i+1 >= len(doc) {
				return e
			}
			n := doc[i+1]
			switch n {
			case 'u':
				if i+5 < len(doc) {
					hex := doc[i+2 : i+6]
					if strings.ToLower(hex) != hex {
						e.uUpper = true
					} else {
						e.uLower = true
					}
					if (hex[0] == 'd' || hex[0] == 'D') && strings.ContainsRune("89abAB", rune(hex[1])) {
						e.surrogate = true
					}
				}
				i += 5
			case '/':
				e.slash = true
				i++
			default:
				e.short = true
				i++
			}
		}
	}
	return e
}

func diffStringMaps(got, want map[string]string) string {
	keys := make([]string, 0, len(want))
	for k := range want {
		keys = append(keys, k)
	}
	sort.Strings(keys)
	for _, k := range keys {
		g, ok := got[k]
		if !ok {
			return fmt.Sprintf("key %q missing (want value %q)", k, want[k])
		}
		if g != want[k] {
			return fmt.Sprintf("key %q: got %q, want %q", k, g, want[k])
		}
	}
	if len(got) != len(want) {
		extra := make([]string, 0)
		for k := range got {
			if _, ok := want[k]; !ok {
				extra = append(extra, k)
			}
		}
		sort.Strings(extra)
		if len(extra) > 0 {
			return fmt.Sprintf("unexpected key %q = %q", extra[0], got[extra[0]])
		}
	}
	return ""
}

// ---------------------------------------------------------------------------------------
// maps

func buildLeaf(l *Leaf) interface{} {
	switch l.T {
	case "s":
		return l.S
	case "i":
		return int(l.N)
	case "f":
		return l.N
	case "b":
		return l.B
	case "arr":
		return []interface{}{l.S, l.N, l.B}
	case "smap":
		return map[string]string{l.S: l.S}
	}
	return nil
}

func buildNested(nodes []Node) map[string]interface{} {
	m := map[string]interface{}{}
	for i := range nodes {
		n := &nodes[i]
		if n.Leaf != nil {
			m[n.Key] = buildLeaf(n.Leaf)
		} else {
			m[n.Key] = buildNested(n.Kids)
		}
	}
	return m
}

func refFlatten(nodes []Node, prefix string, out map[string]interface{}) {
	for i := range nodes {
		n := &nodes[i]
		full := n.Key
		if prefix != "" {
			full = prefix + "." + n.Key
		}
		if n.Leaf != nil {
			out[full] = buildLeaf(n.Leaf)
		} else {
			refFlatten(n.Kids, full, out)
		}
	}
}

// validNodes checks the generator's domain: dot-free non-empty keys, unique among siblings,
// no empty sub-maps. Returns depth and leaf count.
func validNodes(nodes []Node) (depth, leaves int, allStrings bool, err error) {
	seen := map[string]bool{}
	allStrings = true
	for i := range nodes {
		n := &nodes[i]
		if n.Key == "" || strings.Contains(n.Key, ".") {
			return 0, 0, false, fmt.Errorf("key %q outside the domain", n.Key)
		}
		if seen[n.Key] {
			return 0, 0, false, fmt.Errorf("duplicate key %q", n.Key)
		}
		seen[n.Key] = true
		if n.Leaf != nil {
			leaves++
			if n.Leaf.T != "s" {
				allStrings = false
			}
			if depth < 1 {
				depth = 1
			}
			continue
		}
		if len(n.Kids) == 0 {
			return 0, 0, false, fmt.Errorf("empty sub-map at %q", n.Key)
		}
		d, l, as, e := validNodes(n.Kids)
		if e != nil {
			return 0, 0, false, e
		}
		if d+1 > depth {
			depth = d + 1
		}
		leaves += l
		allStrings = allStrings && as
	}
	return depth, leaves, allStrings, nil
}

func execMaps(c MapsCase) hx.Verdict {
	depth, leaves, allStrings, err := validNodes(c.Root)
	if err != nil {
		return hx.Fail("harness", "maps case outside the domain: %v", err)
	}
	v := hx.Pass()
	v.Label("kind:maps")
	wantFlat := map[string]interface{}{}
	refFlatten(c.Root, "", wantFlat)

	// flatten, then rebuild
	flat, err := plainmap.RecursiveMapToPlainMap(buildNested(c.Root))
	if err != nil {
		return hx.Fail("flatten-error", "RecursiveMapToPlainMap: %v", err)
	}
	if !reflect.DeepEqual(flat, wantFlat) {
		return hx.Fail("flatten-dotted-keys", "flatten gave %v, dotted-key form is %v", flat, wantFlat)
	}
	back, err := plainmap.ToRecursiveMap(flat)
	if err != nil {
		return hx.Fail("rebuild-error", "ToRecursiveMap(flatten(m)): %v", err)
	}
	if want := buildNested(c.Root); !reflect.DeepEqual(back, want) {
		return hx.Fail("rebuild-inverts-flatten", "rebuild(flatten(m)) = %v, m = %v", back, want)
	}
	// rebuild, then flatten (starting from the flat form)
	fresh := map[string]interface{}{}
	refFlatten(c.Root, "", fresh)
	reb, err := plainmap.ToRecursiveMap(fresh)
	if err != nil {
		return hx.Fail("rebuild-error", "ToRecursiveMap(flat): %v", err)
	}
	if want := buildNested(c.Root); !reflect.DeepEqual(reb, want) {
		return hx.Fail("rebuild-from-dotted-keys", "rebuild(%v) = %v, want %v", wantFlat, reb, want)
	}
	flat2, err := plainmap.RecursiveMapToPlainMap(reb)
	if err != nil {
		return hx.Fail("flatten-error", "RecursiveMapToPlainMap(rebuild(flat)): %v", err)
	}
	if !reflect.DeepEqual(flat2, wantFlat) {
		return hx.Fail("flatten-inverts-rebuild", "flatten(rebuild(f)) = %v, f = %v", flat2, wantFlat)
	}
	if allStrings {
		v.Label("maps:string-map-rebuild")
		sm := map[string]string{}
		for k, x := range wantFlat {
			sm[k] = x.(string)
		}
		reb, err := plainmap.StringMapToRecursiveMap(sm)
		if err != nil {
			return hx.Fail("rebuild-error", "StringMapToRecursiveMap(flat): %v", err)
		}
		if want := buildNested(c.Root); !reflect.DeepEqual(reb, want) {
			return hx.Fail("rebuild-from-dotted-keys", "StringMapToRecursiveMap(%v) = %v, want %v", sm, reb, want)
		}
		flat3, err := plainmap.RecursiveMapToPlainMap(reb)
		if err != nil {
			return hx.Fail("flatten-error", "RecursiveMapToPlainMap(StringMapToRecursiveMap(flat)): %v", err)
		}
		if !reflect.DeepEqual(flat3, wantFlat) {
			return hx.Fail("flatten-inverts-rebuild", "flatten(StringMapToRecursiveMap(f)) = %v, f = %v", flat3, wantFlat)
		}
	}
	if depth >= 2 {
		v.NonTrivial = true
		v.Label("depth>=2")
	}
	if depth >= 3 {
		v.Label("maps:depth>=3")
	}
	if leaves >= 4 {
		v.Label("maps:leaves>=4")
	}
	return v
}

// ---------------------------------------------------------------------------------------
// read

func labelDoc(v *hx.Verdict, doc string, info docInfo) {
	if info.needsEsc {
		v.Label("value-needs-escape")
	}
	if info.depth >= 2 {
		v.Label("depth>=2")
	}
	if info.numbers > 0 {
		v.Label("number-leaf")
	}
	if info.skipped > 0 {
		v.Label("skipped-leaf")
	}
	if info.nonASCII {
		v.Label("non-ascii-value")
	}
	if info.keyNeedsE {
		v.Label("key-needs-escape")
	}
	if info.emptyObj > 0 {
		v.Label("empty-object")
	}
	e := scanEscapes(doc)
	if e.short {
		v.Label("esc:short")
	}
	if e.slash {
		v.Label("esc:slash")
	}
	if e.uLower || e.uUpper {
		v.Label("esc:unicode")
	}
	if e.uUpper {
		v.Label("esc:unicode-uppercase-hex")
	}
	if e.surrogate {
		v.Label("esc:surrogate-pair")
	}
}

func execRead(c ReadCase) hx.Verdict {
	if !utf8.ValidString(c.Doc) {
		return hx.Fail("harness", "document is not valid UTF-8")
	}
	want, info, err := refDecodeFlat([]byte(c.Doc))
	if err != nil {
		return hx.Fail("harness", "generated document is not a JSON object for encoding/json: %v\n%s", err, c.Doc)
	}
	v := hx.Pass()
	v.Label("kind:read")
	got, err := plainmap.JSONToPlainStringMap([]byte(c.Doc))
	if err != nil {
		return hx.Fail("read-error", "JSONToPlainStringMap failed on a valid document: %v\ndoc: %s", err, c.Doc)
	}
	if d := diffStringMaps(got, want); d != "" {
		return hx.Fail("read-equals-standard-decoder", "%s\ndoc: %s", d, c.Doc)
	}
	labelDoc(&v, c.Doc, info)
	if info.needsEsc || info.depth >= 2 {
		v.NonTrivial = true
	}
	return v
}

// ---------------------------------------------------------------------------------------
// write

// validFlatKeys checks the domain of flat maps: non-empty dot-separated segments, unique keys,
// no key is a dotted prefix of another.
func validFlatKeys(keys []string) error {
	set := map[string]bool{}
	for _, k := range keys {
		if k == "" {
			return fmt.Errorf("empty key")
		}
		for _, seg := range strings.Split(k, ".") {
			if seg == "" {
				return fmt.Errorf("key %q has an empty segment", k)
			}
		}
		if set[k] {
			return fmt.Errorf("duplicate key %q", k)
		}
		set[k] = true
	}
	for _, k := range keys {
		for i := 0; i < len(k); i++ {
			if k[i] == '.' && set[k[:i]] {
				return fmt.Errorf("key %q is a prefix of %q", k[:i], k)
			}
		}
	}
	return nil
}

func execWrite(c WriteCase) hx.Verdict {
	keys := make([]string, len(c.Entries))
	m := map[string]string{}
	depth := 0
	esc, keyEsc, nonASCII := false, false, false
	for i, e := range c.Entries {
		if !utf8.ValidString(e.K) || !utf8.ValidString(e.V) {
			return hx.Fail("harness", "entry %d is not valid UTF-8", i)
		}
		keys[i] = e.K
		m[e.K] = e.V
		if d := strings.Count(e.K, ".") + 1; d > depth {
			depth = d
		}
		esc = esc || needsEscape(e.V)
		keyEsc = keyEsc || needsEscape(e.K)
		for j := 0; j < len(e.V); j++ {
			if e.V[j] >= 0x80 {
				nonASCII = true
				break
			}
		}
	}
	if err := validFlatKeys(keys); err != nil {
		return hx.Fail("harness", "write case outside the domain: %v", err)
	}
	v := hx.Pass()
	v.Label("kind:write")
	writers := []struct {
		name string
		f    func(map[string]string) (string, error)
	}{
		{"PlainStringMapToJSON", plainmap.PlainStringMapToJSON},
		{"PlainStringMapToFormattedJSON", plainmap.PlainStringMapToFormattedJSON},
	}
	for _, w := range writers {
		in := map[string]string{}
		for k, x := range m {
			in[k] = x
		}
		out, err := w.f(in)
		if err != nil {
			return hx.Fail("write-error", "%s(%q): %v", w.name, m, err)
		}
		if !json.Valid([]byte(out)) {
			return hx.Fail("write-valid-json", "%s(%q) is not valid JSON:\n%s", w.name, m, out)
		}
		std, _, err := refDecodeFlat([]byte(out))
		if err != nil {
			return hx.Fail("write-valid-json", "%s(%q) is not a JSON object: %v\n%s", w.name, m, err, out)
		}
		if d := diffStringMaps(std, m); d != "" {
			return hx.Fail("write-read-back-standard-decoder", "%s then encoding/json: %s\noutput: %s", w.name, d, out)
		}
		lib, err := plainmap.JSONToPlainStringMap([]byte(out))
		if err != nil {
			return hx.Fail("write-read-back", "%s then JSONToPlainStringMap: %v\noutput: %s", w.name, err, out)
		}
		if d := diffStringMaps(lib, m); d != "" {
			return hx.Fail("write-read-back", "%s then JSONToPlainStringMap: %s\noutput: %s", w.name, d, out)
		}
	}
	if esc {
		v.Label("value-needs-escape")
	}
	if keyEsc {
		v.Label("key-needs-escape")
	}
	if nonASCII {
		v.Label("non-ascii-value")
	}
	if depth >= 2 {
		v.Label("depth>=2")
	}
	if len(m) == 0 {
		v.Label("write:empty-map")
	}
	if esc || depth >= 2 {
		v.NonTrivial = true
	}
	return v
}

// ---------------------------------------------------------------------------------------
// load

const loadWatchdog = 90 * time.Second

// watchdogOf: the first load of a directory gets the long watchdog (a timeout there is not judged),
// a reload of a directory that was just loaded completely gets 20 s (a timeout there is a violation).
func watchdogOf(rep int) time.Duration {
	if rep > 0 {
		return 20 * time.Second
	}
	return loadWatchdog
}

var gmpMu sync.Mutex

func execLoad(full Case) hx.Verdict {
	c := *full.Load
	want := map[string]string{}
	var anyInfo docInfo
	paths := map[string]bool{}
	for i, f := range append(append([]LFile{}, c.Files...), c.Other...) {
		isTr := i < len(c.Files)
		if strings.HasSuffix(f.Path, ".json") != isTr || f.Path == "" || strings.HasSuffix(f.Path, "/") {
			return hx.Fail("harness", "file %q in the wrong list", f.Path)
		}
		if paths[f.Path] {
			return hx.Fail("harness", "duplicate path %q", f.Path)
		}
		paths[f.Path] = true
		m, info, err := refDecodeFlat([]byte(f.Doc))
		if err != nil {
			return hx.Fail("harness", "file %q is not a JSON object: %v", f.Path, err)
		}
		if !isTr {
			continue
		}
		for k, x := range m {
			if _, dup := want[k]; dup {
				return hx.Fail("harness", "key %q occurs in two files", k)
			}
			if strings.Contains(x, "%") {
				return hx.Fail("harness", "value of %q contains '%%'", k)
			}
			want[k] = x
		}
		anyInfo.needsEsc = anyInfo.needsEsc || info.needsEsc
		anyInfo.nonASCII = anyInfo.nonASCII || info.nonASCII
		anyInfo.numbers += info.numbers
		anyInfo.skipped += info.skipped
		if info.depth > anyInfo.depth {
			anyInfo.depth = info.depth
		}
	}
	switch c.Base {
	case "", "./", "sub/", "./sub/":
	default:
		return hx.Fail("harness", "base %q outside the domain", c.Base)
	}
	dir := strings.TrimPrefix(c.Base, "./")
	fs, err := memfs.NewFilespace()
	if err != nil {
		return hx.Fail("harness", "NewFilespace: %v", err)
	}
	subdirs := false
	jsonDir := false
	for _, f := range append(append([]LFile{}, c.Files...), c.Other...) {
		if err := fs.WriteFile(dir+f.Path, []byte(f.Doc), 0644); err != nil {
			return hx.Fail("harness", "WriteFile(%q): %v", dir+f.Path, err)
		}
		if i := strings.LastIndex(f.Path, "/"); i >= 0 {
			subdirs = true
			if strings.Contains(f.Path[:i], ".json") {
				jsonDir = true
			}
		}
	}
	if len(c.Files) == 0 {
		return hx.Fail("harness", "no translation file")
	}
	v := hx.Pass()
	v.Label("kind:load")
	reps := c.Reps
	if reps < 1 {
		reps = 1
	}
	gmpMu.Lock()
	defer gmpMu.Unlock()
	if c.GoMaxProcs > 0 {
		old := runtime.GOMAXPROCS(c.GoMaxProcs)
		defer runtime.GOMAXPROCS(old)
	}
	if c.MaxJob > 0 {
		oldJobs := workers.MaxJob
		workers.MaxJob = c.MaxJob
		defer func() { workers.MaxJob = oldJobs }()
	}
	hx.PersistCurrent("load", full)
	defer hx.ClearCurrent()
	if c.CPUs > 0 {
		shard, _ := hx.Shard()
		restore, ok := confineCPUs(c.CPUs, shard*2)
		defer restore()
		if ok {
			v.Label(fmt.Sprintf("load:cpus=%d", c.CPUs))
		}
	}
	for rep := 0; rep < reps; rep++ {
		i18 := i18mem.NewI18N()
		if c.Preset {
			stale := map[string]string{}
			ks := make([]string, 0, len(want))
			for k := range want {
				ks = append(ks, k)
			}
			sort.Strings(ks)
			for i, k := range ks {
				if i%3 == 0 {
					stale[k] = "stale value set before the load"
				}
			}
			i18.Set(stale)
			v.Label("load:store-held-older-values-of-some-keys")
		}
		done := make(chan error, 1)
		var ctl *fsmodel.FaultCtl
		var loadFS filesystem.Filespace = fs
		if c.FailAt > 0 && rep == 0 {
			ctl = fsmodel.NewFaultCtl(c.FailAt - 1)
			loadFS = fsmodel.NewFaultFS(fs, ctl, "translations")
		}
		go func() { done <- fsi18loader.Load(loadFS, c.Base, i18, nil) }()
		select {
		case err = <-done:
		case <-time.After(watchdogOf(rep)):
			if rep > 0 {
				// the same directory was loaded completely a moment ago: a reload that never returns makes
				// no key translatable (something the first load left behind - an open file - blocks it)
				f := hx.Fail("reload-returns", "run %d: Load of a directory that run %d had loaded completely did not return within %v (%d files)", rep, rep-1, watchdogOf(rep), len(c.Files))
				f.Step = rep
				return f
			}
			// the statement does not promise progress in so many words: not judged
			v.Inconclusive = true
			v.Label("load:watchdog")
			return v
		}
		faultNote := ""
		if ctl != nil && ctl.Fired {
			if err != nil {
				v.Label("load:injected-io-failure-reported")
				v.NonTrivial = true
				continue
			}
			v.Label("load:injected-io-failure-not-reported")
			faultNote = fmt.Sprintf(" (Load returned nil although the filespace call #%d, %s, failed with an I/O error)", c.FailAt-1, ctl.What)
		}
		if err != nil {
			f := hx.Fail("load-error", "Load(%q) over %d valid translation files: %v", c.Base, len(c.Files), err)
			f.Step = rep
			return f
		}
		keys := make([]string, 0, len(want))
		for k := range want {
			keys = append(keys, k)
		}
		sort.Strings(keys)
		for _, k := range keys {
			got, err := i18.Translate(k)
			if err != nil {
				f := hx.Fail("every-key-translatable", "run %d, %d files, GOMAXPROCS=%d: Translate(%q): %v (want %q)%s", rep, len(c.Files), c.GoMaxProcs, k, err, want[k], faultNote)
				f.Step = rep
				return f
			}
			if got != want[k] {
				f := hx.Fail("translates-to-its-value", "run %d: Translate(%q) = %q, want %q", rep, k, got, want[k])
				f.Step = rep
				return f
			}
		}
	}
	v.Count("load_runs", int64(reps))
	v.Count("load_files", int64(len(c.Files)*reps))
	n := len(c.Files)
	switch {
	case n == 0:
		v.Label("load:files=0")
	case n == 1:
		v.Label("load:files=1")
	case n == 2:
		v.Label("load:files=2")
	case n <= 8:
		v.Label("load:files=3-8")
	case n <= 40:
		v.Label("load:files=9-40")
	default:
		v.Label("load:files>40")
	}
	if n > 1000 {
		v.Label("load:files>1000(channel-capacity)")
	}
	if n >= 3 {
		v.Label("files>=3")
	}
	switch nk := len(want); {
	case nk > 2048:
		v.Label("load:keys>2048")
		fallthrough
	case nk > 512:
		v.Label("load:keys>512")
	}
	v.Label(fmt.Sprintf("load:gomaxprocs=%d", c.GoMaxProcs))
	v.Label(fmt.Sprintf("load:maxjob=%d", c.MaxJob))
	if len(c.Other) > 0 {
		v.Label("load:ignored-files")
	}
	if subdirs {
		v.Label("load:nested-dirs")
	}
	if jsonDir {
		v.Label("load:dir-named-.json")
	}
	if dir != "" {
		v.Label("load:base-subdir")
	}
	if anyInfo.needsEsc {
		v.Label("value-needs-escape")
	}
	if anyInfo.depth >= 2 {
		v.Label("depth>=2")
	}
	if anyInfo.numbers > 0 {
		v.Label("number-leaf")
	}
	if n >= 3 || anyInfo.needsEsc || anyInfo.depth >= 2 {
		v.NonTrivial = true
	}
	return v
}
