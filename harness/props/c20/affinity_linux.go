//go:build linux

package c20

import (
	"os"
	"strconv"
	"syscall"
	"unsafe"
)

const cpuWords = 16 // 1024 CPUs

func getAffinity(tid int, mask *[cpuWords]uint64) bool {
	_, _, e := syscall.RawSyscall(syscall.SYS_SCHED_GETAFFINITY, uintptr(tid), unsafe.Sizeof(*mask), uintptr(unsafe.Pointer(mask)))
	return e == 0
}

func setAffinity(tid int, mask *[cpuWords]uint64) bool {
	_, _, e := syscall.RawSyscall(syscall.SYS_SCHED_SETAFFINITY, uintptr(tid), unsafe.Sizeof(*mask), uintptr(unsafe.Pointer(mask)))
	return e == 0
}

func allThreads() []int {
	ents, err := os.ReadDir("/proc/self/task")
	if err != nil {
		return nil
	}
	var out []int
	for _, e := range ents {
		if n, err := strconv.Atoi(e.Name()); err == nil {
			out = append(out, n)
		}
	}
	return out
}

// confineCPUs restricts every thread of this process to n of the CPUs it is allowed to
// use (threads created later inherit the restriction) and returns a function that lifts
// the restriction again. With GOMAXPROCS > n the operating system time-slices the Go
// threads, i.e. it preempts goroutines at arbitrary instructions for milliseconds - the
// schedules a loaded or small machine produces. ok=false: not supported here (no effect).
func confineCPUs(n, skip int) (restore func(), ok bool) {
	var orig, want [cpuWords]uint64
	if n <= 0 || !getAffinity(0, &orig) {
		return func() {}, false
	}
	allowed := 0
	for w := 0; w < cpuWords; w++ {
		for b := uint(0); b < 64; b++ {
			if orig[w]&(1<<b) != 0 {
				allowed++
			}
		}
	}
	if allowed <= n {
		return func() {}, false
	}
	// take n allowed CPUs starting at the skip-th one (wrapping around); which CPUs are
	// taken is irrelevant to the case, skip only keeps parallel shards off each other
	skip %= allowed
	idx, left := 0, n
	for pass := 0; pass < 2 && left > 0; pass++ {
		for w := 0; w < cpuWords && left > 0; w++ {
			for b := uint(0); b < 64 && left > 0; b++ {
				if orig[w]&(1<<b) == 0 {
					continue
				}
				if (pass == 1 || idx >= skip) && want[w]&(1<<b) == 0 {
					want[w] |= 1 << b
					left--
				}
				idx++
			}
		}
	}
	okAll := true
	for _, tid := range allThreads() {
		if !setAffinity(tid, &want) {
			okAll = false
		}
	}
	return func() {
		for _, tid := range allThreads() {
			setAffinity(tid, &orig)
		}
	}, okAll
}
