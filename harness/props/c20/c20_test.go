package c20

import (
	"encoding/json"
	"strings"
	"testing"

	"verif/harness/hx"
)

func TestMain(m *testing.M) { hx.Main(m, "C20") }

// TestProp mixes the four kinds; the per-kind tests let the driver size them separately.
func TestProp(t *testing.T)      { hx.Check(t, "mixed", Gen, Exec) }
func TestPropMaps(t *testing.T)  { hx.Check(t, "maps", GenMaps, Exec) }
func TestPropRead(t *testing.T)  { hx.Check(t, "read", GenRead, Exec) }
func TestPropWrite(t *testing.T) { hx.Check(t, "write", GenWrite, Exec) }
func TestPropLoad(t *testing.T)  { hx.Check(t, "load", GenLoad, Exec) }

// TestPropConfig: the configuration path (filesystem/json ReadJSON/WriteJSON + flatten).
func TestPropConfig(t *testing.T) { hx.Check(t, "config", GenConfig, Exec) }

// enumAlphabet: one representative of every character class that JSON treats differently.
var enumAlphabet = []rune{'a', '"', '\\', '/', '\n', '\t', 0x00, 0x1f, 0x7f, 'u', 'é', 0x2028, 0x1F600, '0'}

func enumStrings(maxLen int, f func(string) bool) bool {
	var rec func(prefix string, left int) bool
	rec = func(prefix string, left int) bool {
		if !f(prefix) {
			return false
		}
		if left == 0 {
			return true
		}
		for _, r := range enumAlphabet {
			if !rec(prefix+string(r), left-1) {
				return false
			}
		}
		return true
	}
	return rec("", maxLen)
}

// TestEnum: every string of length <= bound over enumAlphabet (a) written as a value at a
// top-level and at a nested key and read back, (b) rendered in each uniform spelling
// (minimal, all \uXXXX lower-case, all \uXXXX upper-case, short escapes where they exist)
// and read.
func TestEnum(t *testing.T) {
	bound := 3
	if hx.Thorough() {
		bound = 4
	}
	shard, nshards := hx.Shard()
	var n, idx int64
	ok := enumStrings(bound, func(s string) bool {
		idx++
		if int(idx)%nshards != shard {
			return true
		}
		n++
		w := Case{Kind: "write", Write: &WriteCase{Entries: []KV{{K: "k", V: s}, {K: "a.b", V: s}, {K: "a.c", V: "x"}}}}
		if !hx.One(t, "enum-write", w, Exec) {
			return false
		}
		for style := 0; style < 4; style++ {
			var b strings.Builder
			b.WriteString(`{"k":"`)
			for _, c := range s {
				st := style
				mustEscape := c == '"' || c == '\\' || c < 0x20
				hasShort := strings.ContainsRune("\"\\/\b\f\n\r\t", c)
				switch {
				case st == 0 && mustEscape && hasShort:
					st = 3
				case st == 0 && mustEscape:
					st = 1
				case st == 3 && !hasShort && mustEscape:
					st = 2
				case st == 3 && !hasShort:
					st = 0
				}
				writeRune(&b, c, st)
			}
			b.WriteString(`","o":{"n":-1.5e3,"s":"`)
			b.WriteString(`y"}}`)
			r := Case{Kind: "read", Read: &ReadCase{Doc: b.String()}}
			if !hx.One(t, "enum-read", r, Exec) {
				return false
			}
		}
		return true
	})
	hx.AddExhaustive(hx.Exhaustive{What: "single string value written+read back, and read in 4 uniform spellings",
		Alphabet: `a " \ / \n \t NUL US DEL u é U+2028 U+1F600 0`, Bound: "length <= " + string(rune('0'+bound)), Count: n})
	_ = ok
}

func TestReplay(t *testing.T) {
	ex := hx.Exec(Exec)
	hx.Replay(t, map[string]func(json.RawMessage) (hx.Verdict, error){
		"": ex, "mixed": ex, "maps": ex, "read": ex, "write": ex, "load": ex, "config": ex, "enum-write": ex, "enum-read": ex})
}
