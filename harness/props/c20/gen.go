package c20

import (
	"fmt"
	"strconv"
	"strings"

	"pgregory.net/rapid"
	"verif/harness/hx"
)

// ---------------------------------------------------------------------------------------
// text

var (
	plainRunes   = []rune("abcxyzAZ019 _-")
	lookalikes   = []rune("bfnrtu0041dD8")
	bmpRunes     = []rune{'é', 'ß', 'ł', 'Ω', '中', 'ü', 0xA0, 0x2028, 0x2029, 0xFFFD, 0xFEFF, 0xD7FF, 0xE000, 0xFFFF, 0x80, 0x7FF, 0x800}
	astralRunes  = []rune{0x1F600, 0x10000, 0x10FFFF, 0x1D11E, 0x1F1F5}
	structRunes  = []rune("{}[],:")
	htmlRunes    = []rune("<>&'")
	notorious    = []string{`\u0041`, `\\`, `\"`, "x\ny\"z", `\`, `"`, `\u`, `\ud83d\ude00`, `C:\dir\new`, `</script>`, "line1\r\nline2", "tab\there", `{"a":"b"}`, `\/`, "\x00", `"]}`, `\n`, "a\\", "\\\"", "é\"", "\u2028"}
	keyPool      = []string{"a", "b", "c", "d", "en", "pl", "form", "k1", "min_length", "A", "x y", "é", "-", "0"}
	numberShapes = []string{"0", "-0", "7", "11", "-3", "1234567890123456789012", "0.5", "-12.25", "3.0", "1e5", "1E5", "2e+7", "2E-7", "-1.5e-3", "0e0", "0.0", "9007199254740993", "1.7976931348623157e308", "123e100000"}
)

// genRune draws one valid Unicode scalar value from a weighted choice of character classes.
func genRune(rt *rapid.T, allowPercent, allowDot bool) rune {
	for {
		var r rune
		switch w := hx.Uniform(rt, 100, "class"); {
		case w < 28:
			r = plainRunes[hx.Uniform(rt, len(plainRunes), "plain")]
		case w < 36:
			r = '"'
		case w < 46:
			r = '\\'
		case w < 50:
			r = '/'
		case w < 60:
			r = rune(hx.Uniform(rt, 32, "ctl"))
		case w < 68:
			r = lookalikes[hx.Uniform(rt, len(lookalikes), "look")]
		case w < 70:
			r = 0x7f
		case w < 79:
			r = bmpRunes[hx.Uniform(rt, len(bmpRunes), "bmp")]
		case w < 85:
			r = astralRunes[hx.Uniform(rt, len(astralRunes), "astral")]
		case w < 89:
			r = structRunes[hx.Uniform(rt, len(structRunes), "struct")]
		case w < 92:
			r = htmlRunes[hx.Uniform(rt, len(htmlRunes), "html")]
		case w < 94:
			r = '%'
		case w < 96:
			r = '.'
		default:
			r = rune(rapid.Int32Range(0, 0x10FFFF).Draw(rt, "anyrune"))
			if r >= 0xD800 && r <= 0xDFFF {
				r = 0xE000 + (r - 0xD800)
			}
		}
		if (r == '%' && !allowPercent) || (r == '.' && !allowDot) {
			continue
		}
		return r
	}
}

// genText draws a string over all valid Unicode.
func genText(rt *rapid.T, allowPercent, allowDot bool) string {
	if hx.Chance(rt, 12, "notorious") {
		s := notorious[hx.Uniform(rt, len(notorious), "which")]
		if (allowPercent || !strings.Contains(s, "%")) && (allowDot || !strings.Contains(s, ".")) {
			return s
		}
	}
	if hx.Chance(rt, 10, "escapelike") {
		// text that LOOKS like an escape but is literal characters: a backslash followed by
		// uXXXX for the code points JSON/HTML encoders treat specially, HTML entities, and the
		// raw characters themselves - surrounded by a little plain text
		var frag string
		switch hx.Uniform(rt, 3, "ekind") {
		case 0:
			cps := []int{0x3c, 0x3e, 0x26, 0x22, 0x5c, 0x2f, 0x0a, 0x2028, 0x2029, 0x00, 0x41, 0xd800}
			h := fmt.Sprintf("%04x", cps[hx.Uniform(rt, len(cps), "cp")])
			if hx.Chance(rt, 30, "upper") {
				h = strings.ToUpper(h)
			}
			frag = `\u` + h
		case 1:
			frag = []string{"&lt;", "&gt;", "&amp;", "&quot;", "&#39;", "&", "<", ">"}[hx.Uniform(rt, 8, "ent")]
		default:
			frag = []string{`\n`, `\t`, `\"`, `\\`, `\/`, `\b`, `\x41`, `\u{41}`}[hx.Uniform(rt, 8, "esc")]
		}
		pre := []string{"", "a", "x ", "\\"}[hx.Uniform(rt, 4, "pre")]
		post := []string{"", "b", " y", "\\"}[hx.Uniform(rt, 4, "post")]
		if s := pre + frag + post; (allowPercent || !strings.Contains(s, "%")) && (allowDot || !strings.Contains(s, ".")) {
			return s
		}
	}
	if hx.Chance(rt, 25, "plaintext") {
		n := rapid.IntRange(0, 6).Draw(rt, "len")
		var b strings.Builder
		for i := 0; i < n; i++ {
			b.WriteRune(plainRunes[hx.Uniform(rt, len(plainRunes), "plain")])
		}
		return b.String()
	}
	n := rapid.IntRange(0, 8).Draw(rt, "len")
	var b strings.Builder
	for i := 0; i < n; i++ {
		b.WriteRune(genRune(rt, allowPercent, allowDot))
	}
	return b.String()
}

// genKey draws a dot-free non-empty key not in used.
func genKey(rt *rapid.T, used map[string]bool, odd bool) string {
	for try := 0; try < 6; try++ {
		var k string
		if odd && hx.Chance(rt, 12, "oddkey") {
			k = genText(rt, true, false)
		} else {
			k = keyPool[hx.Uniform(rt, len(keyPool), "key")]
		}
		if k != "" && !used[k] {
			used[k] = true
			return k
		}
	}
	for i := 0; ; i++ {
		k := "k" + strconv.Itoa(len(used)+i)
		if !used[k] {
			used[k] = true
			return k
		}
	}
}

// ---------------------------------------------------------------------------------------
// nested maps

func genLeaf(rt *rapid.T, stringsOnly bool, allowPercent bool) *Leaf {
	if stringsOnly {
		return &Leaf{T: "s", S: genText(rt, allowPercent, true)}
	}
	switch hx.Uniform(rt, 10, "leafkind") {
	case 0, 1, 2, 3:
		return &Leaf{T: "s", S: genText(rt, allowPercent, true)}
	case 4:
		return &Leaf{T: "i", N: float64(rapid.IntRange(-3, 1000).Draw(rt, "int"))}
	case 5:
		return &Leaf{T: "f", N: float64(rapid.IntRange(-8, 8).Draw(rt, "num")) / 4}
	case 6:
		return &Leaf{T: "b", B: rapid.Bool().Draw(rt, "bool")}
	case 7:
		return &Leaf{T: "nil"}
	case 8:
		return &Leaf{T: "arr", S: genText(rt, true, true), N: 1.5, B: true}
	default:
		return &Leaf{T: "smap", S: "a.b"}
	}
}

// genNodes draws the entries of one (sub-)map; budget bounds the total number of leaves.
func genNodes(rt *rapid.T, depthLeft int, budget *int, stringsOnly, oddKeys, allowPercent bool) []Node {
	maxw := 4
	if hx.Thorough() {
		maxw = 6
	}
	w := rapid.IntRange(1, maxw).Draw(rt, "width")
	used := map[string]bool{}
	var out []Node
	for i := 0; i < w; i++ {
		if *budget <= 0 && len(out) > 0 {
			break
		}
		k := genKey(rt, used, oddKeys)
		if depthLeft > 0 && *budget > 0 && hx.Chance(rt, 45, "submap") {
			out = append(out, Node{Key: k, Kids: genNodes(rt, depthLeft-1, budget, stringsOnly, oddKeys, allowPercent)})
			continue
		}
		*budget--
		out = append(out, Node{Key: k, Leaf: genLeaf(rt, stringsOnly, allowPercent)})
	}
	return out
}

func maxDepth() int {
	if hx.Thorough() {
		return 6
	}
	return 4
}

// GenMaps draws a nested-map case.
func GenMaps(rt *rapid.T) Case {
	budget := 12
	if hx.Thorough() {
		budget = 40
	}
	stringsOnly := hx.Chance(rt, 30, "stringsOnly")
	return Case{Kind: "maps", Maps: &MapsCase{Root: genNodes(rt, rapid.IntRange(0, maxDepth()).Draw(rt, "depth"), &budget, stringsOnly, true, true)}}
}

func flatEntries(nodes []Node, prefix string, out *[]KV) {
	for i := range nodes {
		n := &nodes[i]
		full := n.Key
		if prefix != "" {
			full = prefix + "." + n.Key
		}
		if n.Leaf != nil {
			*out = append(*out, KV{K: full, V: n.Leaf.S})
		} else {
			flatEntries(n.Kids, full, out)
		}
	}
}

// GenWrite draws a flat string map with prefix-free dotted keys (the flat form of a nested
// string map) and values over all valid Unicode.
func GenWrite(rt *rapid.T) Case {
	if hx.Chance(rt, 1, "empty") {
		return Case{Kind: "write", Write: &WriteCase{Entries: []KV{}}}
	}
	budget := 8
	if hx.Thorough() {
		budget = 30
	}
	nodes := genNodes(rt, rapid.IntRange(0, maxDepth()).Draw(rt, "depth"), &budget, true, hx.Chance(rt, 30, "oddkeys"), true)
	entries := []KV{}
	flatEntries(nodes, "", &entries)
	return Case{Kind: "write", Write: &WriteCase{Entries: entries}}
}

// ---------------------------------------------------------------------------------------
// JSON rendering

type renderer struct {
	rt *rapid.T
	b  strings.Builder
	ws bool // sprinkle whitespace between tokens
}

func (r *renderer) space() {
	if !r.ws {
		return
	}
	switch hx.Uniform(r.rt, 10, "ws") {
	case 0:
		r.b.WriteByte(' ')
	case 1:
		r.b.WriteByte('\n')
	case 2:
		r.b.WriteByte('\t')
	case 3:
		r.b.WriteString("\r\n  ")
	}
}

// renderString writes s as a JSON string literal, choosing for every character one of the
// spellings JSON allows for it.
func renderString(rt *rapid.T, b *strings.Builder, s string, plainOnly bool) {
	b.WriteByte('"')
	for _, c := range s {
		var styles []int // 0 raw, 1 \uXXXX lower, 2 \uXXXX upper, 3 short escape
		mustEscape := c == '"' || c == '\\' || c < 0x20
		if !mustEscape {
			styles = append(styles, 0, 0, 0)
		}
		styles = append(styles, 1, 2)
		switch c {
		case '"', '\\', '/', '\b', '\f', '\n', '\r', '\t':
			styles = append(styles, 3, 3)
		}
		st := styles[0]
		if plainOnly {
			// minimal spelling: raw where legal, short escape or \u00XX otherwise
			st = styles[len(styles)-1]
			if !mustEscape {
				st = 0
			}
		} else {
			st = styles[hx.Uniform(rt, len(styles), "style")]
		}
		writeRune(b, c, st)
	}
	b.WriteByte('"')
}

func writeRune(b *strings.Builder, c rune, style int) {
	hex := func(x rune, upper bool) {
		s := fmt.Sprintf("%04x", x)
		if upper {
			s = strings.ToUpper(s)
		}
		b.WriteString(`\u` + s)
	}
	switch style {
	case 0:
		b.WriteRune(c)
	case 1, 2:
		if c > 0xFFFF {
			c -= 0x10000
			hex(0xD800+(c>>10), style == 2)
			hex(0xDC00+(c&0x3FF), style == 2)
		} else {
			hex(c, style == 2)
		}
	case 3:
		switch c {
		case '"':
			b.WriteString(`\"`)
		case '\\':
			b.WriteString(`\\`)
		case '/':
			b.WriteString(`\/`)
		case '\b':
			b.WriteString(`\b`)
		case '\f':
			b.WriteString(`\f`)
		case '\n':
			b.WriteString(`\n`)
		case '\r':
			b.WriteString(`\r`)
		case '\t':
			b.WriteString(`\t`)
		}
	}
}

func (r *renderer) str(s string) { renderString(r.rt, &r.b, s, false) }

// skipped renders a leaf of a kind the reader must skip: true, false, null or an array
// (whose elements may themselves be strings, numbers and objects).
func (r *renderer) skipped(depthLeft int) {
	switch hx.Uniform(r.rt, 6, "skipkind") {
	case 0:
		r.b.WriteString("true")
	case 1:
		r.b.WriteString("false")
	case 2:
		r.b.WriteString("null")
	default:
		r.array(depthLeft)
	}
}

func (r *renderer) array(depthLeft int) {
	r.b.WriteByte('[')
	n := rapid.IntRange(0, 3).Draw(r.rt, "arrlen")
	for i := 0; i < n; i++ {
		if i > 0 {
			r.b.WriteByte(',')
		}
		r.space()
		switch k := hx.Uniform(r.rt, 8, "elem"); {
		case k < 3:
			r.str(genText(r.rt, true, true))
		case k == 3:
			r.b.WriteString(numberShapes[hx.Uniform(r.rt, len(numberShapes), "num")])
		case k == 4:
			r.b.WriteString([]string{"true", "false", "null"}[hx.Uniform(r.rt, 3, "lit")])
		case k == 5 && depthLeft > 0:
			r.array(depthLeft - 1)
		case k == 6 && depthLeft > 0:
			budget := 3
			r.object(genNodes(r.rt, 1, &budget, true, false, true), depthLeft-1, false)
		default:
			r.str(genText(r.rt, true, true))
		}
		r.space()
	}
	r.b.WriteByte(']')
}

// object renders the entries; string leaves of kind "s" are rendered as strings, "num"
// leaves as raw number literals, and with extras additional skipped leaves / empty objects
// are sprinkled in under fresh keys.
func (r *renderer) object(nodes []Node, depthLeft int, extras bool) {
	r.b.WriteByte('{')
	r.space()
	used := map[string]bool{}
	for i := range nodes {
		used[nodes[i].Key] = true
	}
	first := true
	sep := func() {
		if !first {
			r.b.WriteByte(',')
			r.space()
		}
		first = false
	}
	extra := func() {
		if !extras || !hx.Chance(r.rt, 15, "extra") {
			return
		}
		sep()
		r.str(genKey(r.rt, used, false))
		r.space()
		r.b.WriteByte(':')
		r.space()
		if hx.Chance(r.rt, 25, "emptyobj") {
			r.b.WriteString("{")
			r.space()
			r.b.WriteString("}")
		} else {
			r.skipped(2)
		}
		r.space()
	}
	for i := range nodes {
		extra()
		n := &nodes[i]
		sep()
		r.str(n.Key)
		r.space()
		r.b.WriteByte(':')
		r.space()
		switch {
		case n.Leaf == nil:
			r.object(n.Kids, depthLeft-1, extras)
		case n.Leaf.T == "num":
			r.b.WriteString(n.Leaf.S)
		default:
			r.str(n.Leaf.S)
		}
		r.space()
	}
	extra()
	r.b.WriteByte('}')
}

// toDocLeaves turns some string leaves into number leaves.
func toDocLeaves(rt *rapid.T, nodes []Node, pctNumbers int) {
	for i := range nodes {
		n := &nodes[i]
		if n.Leaf == nil {
			toDocLeaves(rt, n.Kids, pctNumbers)
			continue
		}
		if hx.Chance(rt, pctNumbers, "number") {
			n.Leaf = &Leaf{T: "num", S: numberShapes[hx.Uniform(rt, len(numberShapes), "shape")]}
		}
	}
}

func renderDoc(rt *rapid.T, nodes []Node, extras bool) string {
	r := &renderer{rt: rt, ws: hx.Chance(rt, 50, "whitespace")}
	r.space()
	r.object(nodes, 4, extras)
	r.space()
	return r.b.String()
}

// GenRead draws a JSON document of nested objects.
func GenRead(rt *rapid.T) Case {
	budget := 8
	if hx.Thorough() {
		budget = 30
	}
	var nodes []Node
	if !hx.Chance(rt, 2, "emptydoc") {
		nodes = genNodes(rt, rapid.IntRange(0, maxDepth()).Draw(rt, "depth"), &budget, true, true, true)
		toDocLeaves(rt, nodes, 20)
	}
	return Case{Kind: "read", Read: &ReadCase{Doc: renderDoc(rt, nodes, true)}}
}

// ---------------------------------------------------------------------------------------
// translation directories

var (
	dirPool   = []string{"a", "b", "forms", "d.json", "pl"}
	stemPool  = []string{"en", "pl", "x", "", "a.b", "enform"}
	otherPool = []string{"readme.txt", "json", "en.json.bak", "xjson", "en.jsonx", ".jsonrc", "en.JSON"}
)

type keySet struct {
	keys []string
	full map[string]bool // complete keys
	pref map[string]bool // proper dotted prefixes of complete keys
}

func (ks *keySet) add(k string) bool {
	if ks.full[k] || ks.pref[k] {
		return false
	}
	for i := 0; i < len(k); i++ {
		if k[i] == '.' && ks.full[k[:i]] {
			return false
		}
	}
	ks.full[k] = true
	for i := 0; i < len(k); i++ {
		if k[i] == '.' {
			ks.pref[k[:i]] = true
		}
	}
	ks.keys = append(ks.keys, k)
	return true
}

// genKeySet draws n distinct prefix-free dotted keys that share parents.
func genKeySet(rt *rapid.T, n int) []string {
	ks := &keySet{full: map[string]bool{}, pref: map[string]bool{}}
	for len(ks.keys) < n {
		var segs []string
		if len(ks.keys) > 0 && hx.Chance(rt, 60, "share") {
			// start from a proper prefix of an existing key
			base := strings.Split(ks.keys[hx.Uniform(rt, len(ks.keys), "basekey")], ".")
			segs = append(segs, base[:hx.Uniform(rt, len(base), "cut")]...)
		}
		add := 1 + hx.Uniform(rt, 3, "newsegs")
		for i := 0; i < add && len(segs) < 5; i++ {
			segs = append(segs, keyPool[hx.Uniform(rt, len(keyPool), "seg")])
		}
		if ks.add(strings.Join(segs, ".")) {
			continue
		}
		// collision: make it unique with a numbered last segment
		segs = append(segs[:len(segs)-1], "k"+strconv.Itoa(len(ks.keys)))
		for !ks.add(strings.Join(segs, ".")) {
			segs = []string{"u" + strconv.Itoa(len(ks.keys))}
		}
	}
	return ks.keys
}

// nodesFromKeys builds the nested form of a set of prefix-free dotted keys (input order kept).
func nodesFromKeys(keys []string, leaf func(k string) *Leaf) []Node {
	type tmp struct {
		order []string
		kids  map[string]*tmp
		leaf  *Leaf
	}
	root := &tmp{kids: map[string]*tmp{}}
	for _, k := range keys {
		cur := root
		for _, seg := range strings.Split(k, ".") {
			nx, ok := cur.kids[seg]
			if !ok {
				nx = &tmp{kids: map[string]*tmp{}}
				cur.kids[seg] = nx
				cur.order = append(cur.order, seg)
			}
			cur = nx
		}
		cur.leaf = leaf(k)
	}
	var conv func(t *tmp) []Node
	conv = func(t *tmp) []Node {
		var out []Node
		for _, seg := range t.order {
			c := t.kids[seg]
			if c.leaf != nil {
				out = append(out, Node{Key: seg, Leaf: c.leaf})
			} else {
				out = append(out, Node{Key: seg, Kids: conv(c)})
			}
		}
		return out
	}
	return conv(root)
}

func genDirPath(rt *rapid.T) string {
	d := ""
	for depth := 0; depth < 3 && hx.Chance(rt, 40, "deeper"); depth++ {
		d += dirPool[hx.Uniform(rt, len(dirPool), "dir")] + "/"
	}
	return d
}

// GenLoad draws a directory of translation files with globally disjoint keys.
func GenLoad(rt *rapid.T) Case {
	var nfiles int
	dense, per := false, 1
	switch w := hx.Uniform(rt, 100, "filesclass"); {
	case w < 10:
		nfiles = 1
	case w < 20:
		nfiles = 2
	case w < 60:
		nfiles = 3 + hx.Uniform(rt, 6, "n")
	case w < 67:
		// dense: a moderate number of files with many keys each (hundreds to thousands of keys in
		// total: growth steps of whatever table holds them are crossed while consumers overlap)
		dense = true
		nfiles = 4 + hx.Uniform(rt, 40, "n")
		per = 20 + hx.Uniform(rt, 180, "per")
	case w < 97 || !hx.Thorough():
		nfiles = 9 + hx.Uniform(rt, 32, "n")
	default:
		nfiles = 100 + hx.Uniform(rt, 1400, "n")
	}
	big := nfiles > 40 || dense
	// keys: every file gets at least one
	nkeys := nfiles * per
	if !big {
		nkeys += rapid.IntRange(0, 2*nfiles).Draw(rt, "morekeys")
	}
	var keys []string
	if big {
		for i := 0; i < nkeys; i++ {
			keys = append(keys, []string{"en", "pl", "form"}[i%3]+".m"+strconv.Itoa(i))
		}
	} else {
		keys = genKeySet(rt, nkeys)
	}
	owner := make([]int, nkeys)
	for i := range owner {
		if i < nfiles {
			owner[i] = i
		} else if dense {
			owner[i] = i % nfiles
		} else {
			owner[i] = hx.Uniform(rt, nfiles, "owner")
		}
	}
	// shuffle which key is a file's guaranteed one
	if !big {
		for i := nkeys - 1; i > 0; i-- {
			j := hx.Uniform(rt, i+1, "shuffle")
			keys[i], keys[j] = keys[j], keys[i]
		}
	}
	c := &LoadCase{
		GoMaxProcs: []int{1, 2, 4, 8}[hx.Uniform(rt, 4, "gomaxprocs")],
		MaxJob:     []int{1, 1, 1, 1, 2, 3, 8, 16}[hx.Uniform(rt, 8, "maxjob")],
		CPUs:       []int{0, 1, 1, 2}[hx.Uniform(rt, 4, "cpus")],
		Base:       []string{"./", "./", "", "sub/", "./sub/"}[hx.Uniform(rt, 5, "base")],
		Reps:       1 + hx.Uniform(rt, 3, "reps"),
	}
	if big {
		c.Reps = 1
	}
	c.Preset = hx.Chance(rt, 20, "preset")
	if !big && hx.Chance(rt, 12, "iofault") {
		// one injected I/O failure (a listing or a read) somewhere in the load
		c.FailAt = 1 + hx.Uniform(rt, 2*nfiles+4, "failat")
		c.Reps = 1
	}
	usedPaths := map[string]bool{}
	for f := 0; f < nfiles; f++ {
		var mine []string
		for i, o := range owner {
			if o == f {
				mine = append(mine, keys[i])
			}
		}
		plain := big || hx.Chance(rt, 40, "plainfile")
		nodes := nodesFromKeys(mine, func(string) *Leaf {
			if plain {
				return &Leaf{T: "s", S: "v" + strconv.Itoa(f)}
			}
			if hx.Chance(rt, 10, "number") {
				return &Leaf{T: "num", S: numberShapes[hx.Uniform(rt, len(numberShapes), "shape")]}
			}
			return &Leaf{T: "s", S: genText(rt, false, true)}
		})
		var doc string
		if big {
			r := &renderer{rt: rt}
			r.objectPlain(nodes)
			doc = r.b.String()
		} else {
			doc = renderDoc(rt, nodes, !plain)
		}
		var path string
		if big {
			path = []string{"", "a/", "a/b/", "forms/"}[f%4] + "f" + strconv.Itoa(f) + ".json"
		} else {
			path = genDirPath(rt) + stemPool[hx.Uniform(rt, len(stemPool), "stem")] + ".json"
			if usedPaths[path] || isDirName(path) {
				path = strings.TrimSuffix(path, ".json") + strconv.Itoa(f) + ".json"
			}
		}
		usedPaths[path] = true
		c.Files = append(c.Files, LFile{Path: path, Doc: doc})
	}
	// translation files without any key: the empty object in its shortest spellings
	if !big && hx.Chance(rt, 25, "emptyobj") {
		for k := 0; k < 1+hx.Uniform(rt, 2, "nempty"); k++ {
			path := genDirPath(rt) + "empty" + strconv.Itoa(k) + ".json"
			if usedPaths[path] {
				continue
			}
			usedPaths[path] = true
			c.Files = append(c.Files, LFile{Path: path, Doc: []string{"{}", "{ }", "{\n}"}[hx.Uniform(rt, 3, "edoc")]})
			if c.Reps < 2 {
				c.Reps = 2
			}
		}
	}
	if !big {
		nother := 0
		if hx.Chance(rt, 50, "others") {
			nother = 1 + hx.Uniform(rt, 3, "nother")
		}
		for i := 0; i < nother; i++ {
			path := genDirPath(rt) + otherPool[hx.Uniform(rt, len(otherPool), "other")]
			if usedPaths[path] {
				continue
			}
			usedPaths[path] = true
			c.Other = append(c.Other, LFile{Path: path, Doc: `{"ignored":{"o` + strconv.Itoa(i) + `":"not a translation file"}}`})
		}
	}
	return Case{Kind: "load", Load: c}
}

// isDirName: the last path element equals a directory name of the pool (a file must not
// take a name that another path uses as a directory).
func isDirName(p string) bool {
	if i := strings.LastIndex(p, "/"); i >= 0 {
		p = p[i+1:]
	}
	for _, d := range dirPool {
		if p == d {
			return true
		}
	}
	return false
}

// objectPlain renders without any random choice (large directories).
func (r *renderer) objectPlain(nodes []Node) {
	r.b.WriteByte('{')
	for i := range nodes {
		if i > 0 {
			r.b.WriteByte(',')
		}
		n := &nodes[i]
		renderString(nil, &r.b, n.Key, true)
		r.b.WriteByte(':')
		if n.Leaf == nil {
			r.objectPlain(n.Kids)
		} else {
			renderString(nil, &r.b, n.Leaf.S, true)
		}
	}
	r.b.WriteByte('}')
}

// Gen draws a case of any kind.
func Gen(rt *rapid.T) Case {
	switch w := hx.Uniform(rt, 100, "kind"); {
	case w < 20:
		return GenMaps(rt)
	case w < 55:
		return GenRead(rt)
	case w < 85:
		return GenWrite(rt)
	default:
		return GenLoad(rt)
	}
}
