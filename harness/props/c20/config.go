package c20

import (
	"encoding/json"
	"reflect"

	"github.com/goatcms/goatcore/app"
	"github.com/goatcms/goatcore/app/goatapp"
	"github.com/goatcms/goatcore/filesystem"
	"github.com/goatcms/goatcore/filesystem/filespace/memfs"
	fsjson "github.com/goatcms/goatcore/filesystem/json"
	"github.com/goatcms/goatcore/varutil/plainmap"
	"pgregory.net/rapid"
	"verif/harness/hx"
)

// ConfigCase: the configuration path (filesystem/json.ReadJSON / WriteJSON, the two steps
// goatapp takes to fill the config scope: ReadJSON into a nested map, then
// RecursiveMapToPlainMap).
//
//	Doc   a JSON document of nested objects: ReadJSON must yield what the standard decoder
//	      yields, and flattening it the dotted-key form of that
//	Root  a nested map with string leaves: WriteJSON followed by ReadJSON returns the same map
type ConfigCase struct {
	Doc  string `json:"doc,omitempty"`
	Root []Node `json:"root,omitempty"`
	// App (with Doc): the document is also the configuration file of an application that is booted
	// on an in-memory working directory; the application's config scope must then hold the dotted
	// keys of THAT document. Env is the environment, Via how it is chosen: "params" (Params.Env),
	// "args" (--env=<env> on the command line), "default" (neither: the default environment, Env is
	// ignored). The configuration file of another environment holds a decoy key.
	App bool   `json:"app,omitempty"`
	Env string `json:"env,omitempty"`
	Via string `json:"via,omitempty"`
}

// GenConfig draws a config case.
func GenConfig(rt *rapid.T) Case {
	c := &ConfigCase{}
	if hx.Chance(rt, 50, "cfgread") {
		c.Doc = GenRead(rt).Read.Doc
		if hx.Chance(rt, 40, "cfgapp") {
			c.App = true
			c.Env = []string{"dev", "stage", "test", "prod", "qa_2"}[hx.Uniform(rt, 5, "cfgenv")]
			c.Via = []string{"params", "args", "default", "args"}[hx.Uniform(rt, 4, "cfgvia")]
		}
	} else {
		budget := 10
		c.Root = genNodes(rt, rapid.IntRange(0, maxDepth()).Draw(rt, "depth"), &budget, true, true, true)
	}
	return Case{Kind: "config", Config: c}
}

func flattenIface(m map[string]interface{}, prefix string, out map[string]interface{}) {
	for k, v := range m {
		full := k
		if prefix != "" {
			full = prefix + "." + k
		}
		if sub, ok := v.(map[string]interface{}); ok {
			flattenIface(sub, full, out)
			continue
		}
		out[full] = v
	}
}

func execConfig(c ConfigCase) hx.Verdict {
	v := hx.Pass()
	v.Label("kind:config")
	fs, err := memfs.NewFilespace()
	if err != nil {
		v.Inconclusive = true
		return v
	}
	if c.Doc != "" {
		_, info, rerr := refDecodeFlat([]byte(c.Doc))
		var want map[string]interface{}
		if rerr != nil {
			return hx.Fail("harness", "config document is not a JSON object for encoding/json: %v", rerr)
		}
		if json.Unmarshal([]byte(c.Doc), &want) != nil {
			// a number outside the float64 range: the standard decoder itself refuses the document
			// when it decodes into interface{} (the reference of the read kind keeps numbers as text)
			v.Label("config:standard-decoder-refuses(number-range)")
			return v
		}
		if err := fs.WriteFile("config/config_dev.json", []byte(c.Doc), filesystem.DefaultUnixFileMode); err != nil {
			v.Inconclusive = true
			return v
		}
		got := map[string]interface{}{}
		if err := fsjson.ReadJSON(fs, "config/config_dev.json", &got); err != nil {
			return hx.Fail("config-read-error", "ReadJSON failed on a valid document: %v\ndoc: %s", err, c.Doc)
		}
		if !reflect.DeepEqual(got, want) {
			return hx.Fail("config-read-equals-standard-decoder", "ReadJSON gave %v, the standard decoder %v\ndoc: %s", got, want, c.Doc)
		}
		if info.emptyObj == 0 {
			flat, err := plainmap.RecursiveMapToPlainMap(got)
			if err != nil {
				return hx.Fail("flatten-error", "RecursiveMapToPlainMap of the decoded config: %v\ndoc: %s", err, c.Doc)
			}
			wantFlat := map[string]interface{}{}
			flattenIface(want, "", wantFlat)
			if !reflect.DeepEqual(flat, wantFlat) {
				return hx.Fail("flatten-dotted-keys", "flattened config %v, dotted-key form %v\ndoc: %s", flat, wantFlat, c.Doc)
			}
		}
		if c.App && info.emptyObj == 0 {
			if fv := appConfig(c, want); !fv.OK || fv.Inconclusive {
				return fv
			}
			v.Label("config:application-boot:env-by-" + c.Via)
		}
		labelDoc(&v, c.Doc, info)
		v.Label("config:read")
		v.NonTrivial = info.needsEsc || info.depth >= 2
		return v
	}
	depth, _, allStrings, err := validNodes(c.Root)
	if err != nil || !allStrings {
		return hx.Fail("harness", "config map outside the domain (string leaves only): %v", err)
	}
	nested := buildNested(c.Root)
	if err := fsjson.WriteJSON(fs, "out/config.json", nested); err != nil {
		return hx.Fail("config-write-error", "WriteJSON(%v): %v", nested, err)
	}
	raw, _ := fs.ReadFile("out/config.json")
	var std map[string]interface{}
	if err := json.Unmarshal(raw, &std); err != nil {
		return hx.Fail("config-write-valid-json", "WriteJSON(%v) wrote a document the standard decoder refuses: %v\ndocument: %s", nested, err, raw)
	}
	back := map[string]interface{}{}
	if err := fsjson.ReadJSON(fs, "out/config.json", &back); err != nil {
		return hx.Fail("config-read-back-error", "ReadJSON of what WriteJSON(%v) wrote failed: %v\ndocument: %s", nested, err, raw)
	}
	if len(nested) == 0 {
		nested = map[string]interface{}{}
	}
	if !reflect.DeepEqual(back, nested) || !reflect.DeepEqual(std, nested) {
		return hx.Fail("config-write-read-back", "WriteJSON then ReadJSON gave %v, written %v\ndocument: %s", back, nested, raw)
	}
	v.Label("config:write-read")
	v.NonTrivial = depth >= 2
	for _, kv := range flatKVs(c.Root) {
		if needsEscape(kv.V) {
			v.Label("value-needs-escape")
			v.NonTrivial = true
		}
	}
	return v
}

// appConfig boots an application whose working directory holds the document as the
// configuration file of the chosen environment and compares the config scope with the
// dotted-key form of the standard decoder's result.
func appConfig(c ConfigCase, want map[string]interface{}) hx.Verdict {
	v := hx.Pass()
	env, args, penv := c.Env, []string{"app"}, ""
	switch c.Via {
	case "params":
		penv = env
		args = append(args, "--env=other") // Params.Env is consulted first
	case "args":
		args = append(args, "--env="+env, "run")
	case "default":
		env = app.DefaultEnv
	default:
		v.Inconclusive = true
		return v
	}
	for _, ch := range env {
		if !(ch >= 'a' && ch <= 'z' || ch >= '0' && ch <= '9' || ch == '_') {
			v.Inconclusive = true
			return v
		}
	}
	cwd, err := memfs.NewFilespace()
	if err != nil {
		v.Inconclusive = true
		return v
	}
	decoyEnv := "prod"
	if env == "prod" {
		decoyEnv = "dev"
	}
	for path, doc := range map[string]string{"config/config_" + env + ".json": c.Doc, "config/config_" + decoyEnv + ".json": `{"decoy_of_another_environment":"x"}`,
		"config/config_other.json": `{"decoy_of_another_environment":"y"}`} {
		if path == "config/config_other.json" && env == "other" {
			continue
		}
		if err := cwd.WriteFile(path, []byte(doc), filesystem.DefaultUnixFileMode); err != nil {
			v.Inconclusive = true
			return v
		}
	}
	mapp, err := goatapp.NewMockupApp(goatapp.Params{Arguments: args, Env: penv, Filespaces: goatapp.Filespaces{CWD: cwd}})
	if err != nil {
		return hx.Fail("config-app-boot", "an application whose config file (environment %q chosen by %s) is a valid JSON object did not boot: %v\ndoc: %s", env, c.Via, err, c.Doc)
	}
	cfg := mapp.Scopes().Config()
	wantFlat := map[string]interface{}{}
	flattenIface(want, "", wantFlat)
	for k, w := range wantFlat {
		if got := cfg.Value(k); !reflect.DeepEqual(got, w) {
			return hx.Fail("config-app-scope", "application booted with environment %q (chosen by %s): config key %q is %#v, the document of that environment says %#v\ndoc: %s", env, c.Via, k, got, w, c.Doc)
		}
	}
	if got := cfg.Value("decoy_of_another_environment"); got != nil {
		return hx.Fail("config-app-scope", "application booted with environment %q (chosen by %s): the config scope holds a key of another environment's file (%#v)", env, c.Via, got)
	}
	return v
}

func flatKVs(nodes []Node) []KV {
	var out []KV
	flatEntries(nodes, "", &out)
	return out
}
