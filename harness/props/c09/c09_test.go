package c09

import (
	"encoding/json"
	"testing"

	"verif/harness/hx"
)

func TestMain(m *testing.M) { hx.Main(m, "C09") }

func TestProp(t *testing.T) { hx.Check(t, "program", Gen, Exec) }

// TestPropListRace: listings racing with the last change of a directory (listrace.go).
func TestPropListRace(t *testing.T) { hx.Check(t, "listrace", GenListRace, ExecListRace) }

// TestPropHandles: a goroutine with an open stream handle on a file makes a second call while others use that file (handles.go).
func TestPropHandles(t *testing.T) { hx.Check(t, "handles", GenHandle, ExecHandle) }

func TestReplay(t *testing.T) {
	hx.Replay(t, map[string]func(json.RawMessage) (hx.Verdict, error){"program": hx.Exec(Exec), "": hx.Exec(Exec), "listrace": hx.Exec(ExecListRace), "handles": hx.Exec(ExecHandle)})
}
