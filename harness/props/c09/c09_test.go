package c09

import (
	"encoding/json"
	"testing"

	"verif/harness/hx"
)

func TestMain(m *testing.M) { hx.Main(m, "C09") }

func TestProp(t *testing.T) { hx.Check(t, "program", Gen, Exec) }

func TestReplay(t *testing.T) {
	hx.Replay(t, map[string]func(json.RawMessage) (hx.Verdict, error){"program": hx.Exec(Exec), "": hx.Exec(Exec)})
}
