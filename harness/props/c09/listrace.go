package c09

import (
	"fmt"
	"runtime"
	"sync"
	"sync/atomic"
	"time"

	"github.com/goatcms/goatcore/filesystem"
	"github.com/goatcms/goatcore/filesystem/filespace/memfs"
	"pgregory.net/rapid"
	"verif/harness/hx"
)

// ListRaceCase: listings racing with the LAST change of a directory. Every round takes a fresh
// shared directory; one goroutine makes a single successful change in it (create a file, make a
// sub-directory, copy a file in, remove a file) while several others list the directory in a
// loop. Nothing changes the directory afterwards, so "every successful operation takes effect
// and is visible afterwards" and "listings contain each name once" are judged on a settled
// state: the listing taken after all goroutines have finished must show exactly the change.
// (State derived from a directory - a cached listing, an index - that is refreshed by a racing
// reader can stay stale exactly when no further change follows.)
type ListRaceCase struct {
	Rounds     int    `json:"rounds"`
	Listers    int    `json:"listers"`
	Reads      int    `json:"reads"` // listings per lister and round
	Change     string `json:"change"` // create | mkdir | copy | remove
	Siblings   int    `json:"siblings"` // entries the directory holds before the round
	Gomaxprocs int    `json:"gomaxprocs"`
}

// GenListRace draws a case.
func GenListRace(rt *rapid.T) ListRaceCase {
	return ListRaceCase{
		Rounds:     300 + hx.Uniform(rt, 900, "rounds"),
		Listers:    1 + hx.Uniform(rt, 4, "listers"),
		Reads:      1 + hx.Uniform(rt, 6, "reads"),
		Change:     []string{"create", "mkdir", "copy", "remove"}[hx.Uniform(rt, 4, "change")],
		Siblings:   hx.Uniform(rt, 4, "siblings"),
		Gomaxprocs: []int{2, 4, 16}[hx.Uniform(rt, 3, "gmp")],
	}
}

// ExecListRace runs a case.
func ExecListRace(c ListRaceCase) hx.Verdict {
	hx.PersistCurrent("listrace", c)
	defer hx.ClearCurrent()
	return hx.Guard(func() hx.Verdict { return runListRace(c) })
}

func runListRace(c ListRaceCase) hx.Verdict {
	v := hx.Pass()
	v.Label("listrace")
	v.Label("listrace:" + c.Change)
	if c.Rounds < 1 || c.Rounds > 20000 || c.Listers < 1 || c.Listers > 16 || c.Reads < 1 || c.Reads > 64 || c.Siblings < 0 || c.Siblings > 16 {
		v.Inconclusive = true
		return v
	}
	if c.Gomaxprocs > 0 {
		defer runtime.GOMAXPROCS(runtime.GOMAXPROCS(c.Gomaxprocs))
	}
	fs, err := memfs.NewFilespace()
	if err != nil {
		v.Inconclusive = true
		return v
	}
	if err := fs.WriteFile("src", []byte("copied"), filesystem.DefaultUnixFileMode); err != nil {
		v.Inconclusive = true
		return v
	}
	deadline := time.Now().Add(40 * time.Second)
	var overlapped int64
	for r := 0; r < c.Rounds; r++ {
		d := fmt.Sprintf("d%d", r)
		want := map[string]bool{}
		if err := fs.MkdirAll(d, filesystem.DefaultUnixDirMode); err != nil {
			return hx.Fail("setup", "MkdirAll: %v", err)
		}
		for i := 0; i < c.Siblings; i++ {
			n := fmt.Sprintf("s%d", i)
			if err := fs.WriteFile(d+"/"+n, []byte("sibling"), filesystem.DefaultUnixFileMode); err != nil {
				return hx.Fail("setup", "WriteFile: %v", err)
			}
			want[n] = true
		}
		if c.Change == "remove" {
			if err := fs.WriteFile(d+"/x", []byte("to be removed"), filesystem.DefaultUnixFileMode); err != nil {
				return hx.Fail("setup", "WriteFile: %v", err)
			}
		} else {
			want["x"] = true
		}
		var ready int32
		n := int32(c.Listers + 1)
		var wg sync.WaitGroup
		var changeErr error
		var changeDone int32
		var sawBefore, sawAfter int32
		pans := make([]string, c.Listers+1)
		wg.Add(c.Listers + 1)
		go func() {
			defer wg.Done()
			defer func() {
				if p := recover(); p != nil {
					pans[0] = fmt.Sprint(p)
				}
			}()
			atomic.AddInt32(&ready, 1)
			for atomic.LoadInt32(&ready) < n {
				runtime.Gosched()
			}
			switch c.Change {
			case "create":
				changeErr = fs.WriteFile(d+"/x", []byte("created"), filesystem.DefaultUnixFileMode)
			case "mkdir":
				changeErr = fs.MkdirAll(d+"/x", filesystem.DefaultUnixDirMode)
			case "copy":
				changeErr = fs.CopyFile("src", d+"/x")
			default:
				changeErr = fs.Remove(d + "/x")
			}
			atomic.StoreInt32(&changeDone, 1)
		}()
		for l := 0; l < c.Listers; l++ {
			l := l
			go func() {
				defer wg.Done()
				defer func() {
					if p := recover(); p != nil {
						pans[l+1] = fmt.Sprint(p)
					}
				}()
				atomic.AddInt32(&ready, 1)
				for atomic.LoadInt32(&ready) < n {
					runtime.Gosched()
				}
				for i := 0; i < c.Reads; i++ {
					before := atomic.LoadInt32(&changeDone) == 0
					if _, err := fs.ReadDir(d); err == nil {
						if before {
							atomic.StoreInt32(&sawBefore, 1)
						} else {
							atomic.StoreInt32(&sawAfter, 1)
						}
					}
				}
			}()
		}
		wg.Wait()
		for i, p := range pans {
			if p != "" {
				who := "the changing goroutine"
				if i > 0 {
					who = "a listing goroutine"
				}
				return hx.Fail("panic", "%s panicked while a directory was listed during its last change (%s): %s", who, c.Change, firstLineOf(p))
			}
		}
		if changeErr != nil {
			return hx.Fail("op-failed", "%s of %q on a distinct path failed while the directory was being listed: %v", c.Change, d+"/x", changeErr)
		}
		if sawBefore == 1 && sawAfter == 1 {
			overlapped++
		}
		infos, err := fs.ReadDir(d)
		if err != nil {
			return hx.Fail("listing", "ReadDir(%q) after the round failed: %v", d, err)
		}
		got := map[string]int{}
		for _, fi := range infos {
			if fi == nil {
				return hx.Fail("listing", "ReadDir(%q) returned a nil entry", d)
			}
			got[fi.Name()]++
		}
		for name, k := range got {
			if k > 1 {
				return hx.Fail("listing-once", "after a %s raced with %d listers, the settled listing of the directory contains %q %d times", c.Change, c.Listers, name, k)
			}
			if !want[name] {
				return hx.Fail("visible-afterwards", "after a successful %s raced with %d listers (nothing changed the directory afterwards), the settled listing still shows %q; IsExist=%v", c.Change, c.Listers, name, fs.IsExist(d+"/"+name))
			}
		}
		for name := range want {
			if got[name] == 0 {
				return hx.Fail("visible-afterwards", "after a successful %s raced with %d listers (nothing changed the directory afterwards), the settled listing does not show %q; IsExist=%v", c.Change, c.Listers, name, fs.IsExist(d+"/"+name))
			}
		}
		if err := fs.RemoveAll(d); err != nil {
			return hx.Fail("setup", "RemoveAll: %v", err)
		}
		if time.Now().After(deadline) {
			v.Count("listrace_rounds_cut_by_budget", int64(c.Rounds-r-1))
			break
		}
	}
	v.Count("listrace_rounds", int64(c.Rounds))
	v.Count("listrace_rounds_listed_before_and_after_the_change", overlapped)
	if overlapped > 0 {
		v.Label("listrace:listed-before-and-after-the-change")
		v.NonTrivial = true
	}
	return v
}

func firstLineOf(s string) string {
	for i := 0; i < len(s); i++ {
		if s[i] == '\n' {
			return s[:i]
		}
	}
	return s
}
