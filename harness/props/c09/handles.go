package c09

import (
	"bytes"
	"fmt"
	"io"
	"runtime"
	"strings"
	"sync/atomic"
	"time"

	"github.com/goatcms/goatcore/filesystem"
	"github.com/goatcms/goatcore/filesystem/filespace/memfs"
	"pgregory.net/rapid"
	"verif/harness/hx"
)

// HandleCase: a goroutine that streams one file into a sibling (an open Reader or Writer on d/f
// while it creates d/g - what fshelper.StreamCopy, the Copier and Cache.Copy inside the cache's
// buffer do on one memfs) while other goroutines use d/f as the target of a write or as the
// source of a copy. The holder never waits for anybody in its own code, and the contenders
// never hold anything, so every call must return: "no call ... blocks forever". Afterwards f
// holds one of the values written to it, g the value the holder wrote, and every copy of f one
// complete value.
//
// Every round uses a fresh directory. The holder opens its handle, releases the contenders,
// spins a delay that sweeps 0..MaxSpin over the rounds (so the contender's call reaches every
// point of its own course before the holder's next call starts) and makes its second call.
type HandleCase struct {
	Rounds     int      `json:"rounds"`
	Hold       string   `json:"hold"`       // reader | writer : the handle the holder keeps on d/f
	Then       string   `json:"then"`       // what the holder does while it holds it: writefile | writer | mkdir | copyfile | list | writefile-other-dir
	Contenders []string `json:"contenders"` // each: writefile | writer | readfile | reader | copyfile | copy | copyfile-other-dir | copydir | lstat | list
	MaxSpin    int      `json:"max_spin"`
	Gomaxprocs int      `json:"gomaxprocs"`
}

var (
	handleThen       = []string{"writefile", "writer", "mkdir", "copyfile", "list", "writefile-other-dir", "writefile", "writer"}
	handleContenders = []string{"writefile", "writer", "readfile", "reader", "copyfile", "copy", "copyfile-other-dir", "copydir", "lstat", "list", "writefile", "copyfile"}
)

// GenHandle draws a case.
func GenHandle(rt *rapid.T) HandleCase {
	c := HandleCase{
		Rounds:     150 + hx.Uniform(rt, 450, "rounds"),
		Hold:       []string{"reader", "writer"}[hx.Uniform(rt, 2, "hold")],
		Then:       handleThen[hx.Uniform(rt, len(handleThen), "then")],
		MaxSpin:    []int{0, 60, 300, 1500}[hx.Uniform(rt, 4, "maxspin")],
		Gomaxprocs: []int{2, 4, 16}[hx.Uniform(rt, 3, "gmp")],
	}
	n := 1 + hx.Uniform(rt, 3, "ncont")
	for i := 0; i < n; i++ {
		c.Contenders = append(c.Contenders, handleContenders[hx.Uniform(rt, len(handleContenders), "cont")])
	}
	return c
}

// ExecHandle runs a case.
func ExecHandle(c HandleCase) hx.Verdict {
	hx.PersistCurrent("handles", c)
	defer hx.ClearCurrent()
	return hx.Guard(func() hx.Verdict { return runHandle(c) })
}

func inList(s string, l []string) bool {
	for _, x := range l {
		if x == s {
			return true
		}
	}
	return false
}

var handleSpin int32

func runHandle(c HandleCase) hx.Verdict {
	v := hx.Pass()
	v.Label("handles")
	v.Label("handles:hold-" + c.Hold)
	if c.Rounds < 1 || c.Rounds > 20000 || len(c.Contenders) < 1 || len(c.Contenders) > 8 || c.MaxSpin < 0 || c.MaxSpin > 1000000 ||
		!inList(c.Hold, []string{"reader", "writer"}) || !inList(c.Then, handleThen) {
		v.Inconclusive = true
		return v
	}
	for _, k := range c.Contenders {
		if !inList(k, handleContenders) {
			v.Inconclusive = true
			return v
		}
	}
	if c.Gomaxprocs > 0 {
		defer runtime.GOMAXPROCS(runtime.GOMAXPROCS(c.Gomaxprocs))
	}
	fs, err := memfs.NewFilespace()
	if err != nil {
		v.Inconclusive = true
		return v
	}
	v0 := bytes.Repeat([]byte("initial."), 40)
	vHolder := bytes.Repeat([]byte("holder.."), 55)
	vG := bytes.Repeat([]byte("sibling."), 30)
	valid := func(b []byte) string {
		if bytes.Equal(b, v0) {
			return "initial"
		}
		if bytes.Equal(b, vHolder) {
			return "holder"
		}
		if len(b) > 0 && len(b)%8 == 0 && b[0] == 'c' {
			w := b[:8]
			if bytes.Equal(b, bytes.Repeat(w, len(b)/8)) {
				return "contender"
			}
		}
		return ""
	}
	deadline := time.Now().Add(40 * time.Second)
	var contended int64 // rounds in which a contender's call was still running when the holder made its second call
	for r := 0; r < c.Rounds; r++ {
		d := fmt.Sprintf("d%d", r)
		e := fmt.Sprintf("e%d", r)
		const dn, en = "d<round>", "e<round>" // names in messages (identical messages are what lets rapid shrink)
		pn := func(p string) string { return strings.Replace(strings.Replace(p, d+"/", dn+"/", 1), e+"/", en+"/", 1) }
		if err := fs.WriteFile(d+"/f", v0, filesystem.DefaultUnixFileMode); err != nil {
			return hx.Fail("setup", "WriteFile: %v", err)
		}
		if err := fs.WriteFile(d+"/src2", vG, filesystem.DefaultUnixFileMode); err != nil {
			return hx.Fail("setup", "WriteFile: %v", err)
		}
		if err := fs.MkdirAll(e, filesystem.DefaultUnixDirMode); err != nil {
			return hx.Fail("setup", "MkdirAll: %v", err)
		}
		delay := 0
		if c.MaxSpin > 0 {
			delay = r % (c.MaxSpin + 1)
		}
		var released int32
		var running int32 // contenders inside their call
		var sawRunning int32
		type res struct {
			who  string
			what string
			err  error
			pan  string
			data []byte // what a reading contender saw
		}
		results := make(chan res, len(c.Contenders)+1)
		var phase atomic.Value
		phase.Store("opening the handle")
		go func() {
			rs := res{who: "holder", what: c.Hold + " on " + dn + "/f, then " + c.Then}
			defer func() {
				if p := recover(); p != nil {
					rs.pan = firstLineOf(fmt.Sprint(p)) + " [at " + hx.PanicStack() + "]"
				}
				results <- rs
			}()
			var rd filesystem.Reader
			var wr filesystem.Writer
			if c.Hold == "reader" {
				rd, rs.err = fs.Reader(d + "/f")
			} else {
				wr, rs.err = fs.Writer(d + "/f")
			}
			if rs.err != nil {
				atomic.StoreInt32(&released, 1)
				return
			}
			atomic.StoreInt32(&released, 1)
			for i := 0; i < delay; i++ {
				atomic.AddInt32(&handleSpin, 1)
			}
			if atomic.LoadInt32(&running) > 0 {
				atomic.StoreInt32(&sawRunning, 1)
			}
			phase.Store("its second call (" + c.Then + ") with the handle open")
			switch c.Then {
			case "writefile":
				rs.err = fs.WriteFile(d+"/g", vG, filesystem.DefaultUnixFileMode)
			case "writer":
				var w2 filesystem.Writer
				if w2, rs.err = fs.Writer(d + "/g"); rs.err == nil {
					if rd != nil {
						// the stream copy itself
						_, rs.err = io.Copy(w2, struct{ io.Reader }{rd})
					} else {
						_, rs.err = w2.Write(vG)
					}
					if e2 := w2.Close(); rs.err == nil {
						rs.err = e2
					}
				}
			case "mkdir":
				rs.err = fs.MkdirAll(d+"/g/sub", filesystem.DefaultUnixDirMode)
			case "copyfile":
				rs.err = fs.CopyFile(d+"/src2", d+"/g")
			case "list":
				_, rs.err = fs.ReadDir(d)
			default:
				rs.err = fs.WriteFile(e+"/g", vG, filesystem.DefaultUnixFileMode)
			}
			phase.Store("finishing the handle")
			if rs.err != nil {
				return
			}
			if wr != nil {
				if _, rs.err = wr.Write(vHolder); rs.err != nil {
					return
				}
				rs.err = wr.Close()
			} else {
				if c.Then != "writer" {
					rs.data, rs.err = io.ReadAll(struct{ io.Reader }{rd})
					if rs.err != nil {
						return
					}
				}
				rs.err = rd.Close()
			}
			phase.Store("done")
		}()
		for ci, kind := range c.Contenders {
			ci, kind := ci, kind
			go func() {
				rs := res{who: fmt.Sprintf("contender %d", ci), what: kind}
				defer func() {
					if p := recover(); p != nil {
						rs.pan = firstLineOf(fmt.Sprint(p)) + " [at " + hx.PanicStack() + "]"
					}
					atomic.AddInt32(&running, -1)
					results <- rs
				}()
				for atomic.LoadInt32(&released) == 0 {
					runtime.Gosched()
				}
				atomic.AddInt32(&running, 1)
				val := bytes.Repeat([]byte(fmt.Sprintf("c%d......", ci)[:8]), 20+ci)
				switch kind {
				case "writefile":
					rs.err = fs.WriteFile(d+"/f", val, filesystem.DefaultUnixFileMode)
				case "writer":
					var w filesystem.Writer
					if w, rs.err = fs.Writer(d + "/f"); rs.err == nil {
						if _, rs.err = w.Write(val); rs.err == nil {
							rs.err = w.Close()
						} else {
							w.Close()
						}
					}
				case "readfile":
					rs.data, rs.err = fs.ReadFile(d + "/f")
				case "reader":
					var rd filesystem.Reader
					if rd, rs.err = fs.Reader(d + "/f"); rs.err == nil {
						rs.data, rs.err = io.ReadAll(struct{ io.Reader }{rd})
						if e2 := rd.Close(); rs.err == nil {
							rs.err = e2
						}
					}
				case "copyfile":
					rs.err = fs.CopyFile(d+"/f", fmt.Sprintf("%s/x%d", d, ci))
				case "copy":
					rs.err = fs.Copy(d+"/f", fmt.Sprintf("%s/x%d", d, ci))
				case "copyfile-other-dir":
					rs.err = fs.CopyFile(d+"/f", fmt.Sprintf("%s/x%d", e, ci))
				case "copydir":
					rs.err = fs.CopyDirectory(d, fmt.Sprintf("%s/dd%d", e, ci))
				case "lstat":
					_, rs.err = fs.Lstat(d + "/f")
				default:
					_, rs.err = fs.ReadDir(d)
				}
			}()
		}
		watch := time.After(20 * time.Second)
		var holderRead []byte
		for k := 0; k < len(c.Contenders)+1; k++ {
			select {
			case rs := <-results:
				if rs.pan != "" {
					return hx.Fail("panic", "%s (%s) panicked: %s", rs.who, rs.what, rs.pan)
				}
				if rs.err != nil {
					return hx.Fail("op-failed", "%s (%s) failed although the file exists all the time and every created name is new: %v", rs.who, rs.what, rs.err)
				}
				if rs.who == "holder" {
					holderRead = rs.data
				} else if rs.data != nil || rs.what == "readfile" || rs.what == "reader" {
					if valid(rs.data) == "" {
						return hx.Fail("torn-read", "%s (%s) read %d bytes of %s/f that are none of the values written to it: %s", rs.who, rs.what, len(rs.data), dn, clip(rs.data))
					}
				}
			case <-watch:
				return hx.Fail("blocks-forever", "one goroutine holds an open %s on %s/f and makes a second call (%s) with the handle open; %d other goroutine(s) call %v on the same file at that moment. After 20 s %d of the %d goroutines have not returned (the holder is in: %v). Nobody waits for anybody in the calling code",
					c.Hold, dn, c.Then, len(c.Contenders), c.Contenders, len(c.Contenders)+1-k, len(c.Contenders)+1, phase.Load())
			}
		}
		if sawRunning == 1 {
			contended++
		}
		// settled state
		got, err := fs.ReadFile(d + "/f")
		if err != nil {
			return hx.Fail("visible-afterwards", "ReadFile(%s/f) after the round: %v", dn, err)
		}
		switch valid(got) {
		case "":
			return hx.Fail("one-value", "after the round %s/f holds %d bytes that are none of the values written to it: %s", dn, len(got), clip(got))
		case "holder":
			if c.Hold != "writer" {
				return hx.Fail("one-value", "%s/f holds the holder's value although the holder only read it", dn)
			}
		}
		if c.Hold == "reader" && c.Then != "writer" {
			if valid(holderRead) == "" {
				return hx.Fail("torn-read", "the holder's open reader on %s/f delivered %d bytes that are none of the values written to the file: %s", dn, len(holderRead), clip(holderRead))
			}
		}
		switch c.Then {
		case "writefile", "copyfile":
			if g, err := fs.ReadFile(d + "/g"); err != nil || !bytes.Equal(g, vG) {
				return hx.Fail("visible-afterwards", "%s/g written by the holder (%s) while it held a handle on f: ReadFile gives %d bytes, err=%v", dn, c.Then, len(g), err)
			}
		case "writer":
			g, err := fs.ReadFile(d + "/g")
			if err != nil {
				return hx.Fail("visible-afterwards", "%s/g streamed by the holder: %v", dn, err)
			}
			if c.Hold == "reader" {
				if valid(g) == "" {
					return hx.Fail("torn-read", "the stream copy of %s/f into %s/g delivered %d bytes that are none of the values written to f: %s", dn, dn, len(g), clip(g))
				}
			} else if !bytes.Equal(g, vG) {
				return hx.Fail("visible-afterwards", "%s/g streamed by the holder holds %d bytes, want %d", dn, len(g), len(vG))
			}
		case "mkdir":
			if !fs.IsDir(d + "/g/sub") {
				return hx.Fail("visible-afterwards", "%s/g/sub made by the holder is not a directory afterwards", dn)
			}
		case "writefile-other-dir":
			if g, err := fs.ReadFile(e + "/g"); err != nil || !bytes.Equal(g, vG) {
				return hx.Fail("visible-afterwards", "%s/g written by the holder: %d bytes, err=%v", en, len(g), err)
			}
		}
		for ci, kind := range c.Contenders {
			p := ""
			switch kind {
			case "copyfile", "copy":
				p = fmt.Sprintf("%s/x%d", d, ci)
			case "copyfile-other-dir":
				p = fmt.Sprintf("%s/x%d", e, ci)
			case "copydir":
				p = fmt.Sprintf("%s/dd%d/f", e, ci)
			}
			if p == "" {
				continue
			}
			x, err := fs.ReadFile(p)
			if err != nil {
				return hx.Fail("visible-afterwards", "%s made by a successful %s is not readable afterwards: %v", pn(p), kind, err)
			}
			if valid(x) == "" {
				return hx.Fail("torn-read", "%s, a copy of %s/f made by %s, holds %d bytes that are none of the values written to f: %s", pn(p), dn, kind, len(x), clip(x))
			}
		}
		if err := fs.RemoveAll(d); err != nil {
			return hx.Fail("setup", "RemoveAll: %v", err)
		}
		if err := fs.RemoveAll(e); err != nil {
			return hx.Fail("setup", "RemoveAll: %v", err)
		}
		if time.Now().After(deadline) {
			v.Count("handles_rounds_cut_by_budget", int64(c.Rounds-r-1))
			break
		}
	}
	v.Count("handles_rounds", int64(c.Rounds))
	v.Count("handles_rounds_second_call_made_while_a_contender_was_inside_its_call", contended)
	if contended > 0 {
		v.Label("handles:second-call-while-a-contender-is-inside-its-call")
		v.NonTrivial = true
	}
	for _, k := range c.Contenders {
		if k == "writefile" || k == "writer" {
			v.Label("handles:contender-writes-the-held-file")
		}
		if k == "copyfile" || k == "copy" {
			v.Label("handles:contender-copies-the-held-file-into-the-same-directory")
		}
	}
	return v
}
