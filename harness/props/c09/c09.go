// Package c09: one in-memory filespace used by many goroutines at once stays consistent.
//
// A case is a concurrent program: 2..8 goroutines, each with its own op list over a small
// namespace that mixes SHARED nodes (directories s, s/t, u and the root; files f, h in them;
// burst names b<id> created by several goroutines at the same instant) and nodes that are
// PRIVATE to one goroutine (p<g>a, p<g>b, c<g>a, c<g>b files, q<g> directories, k<g>a/k<g>b
// directory copies at the root) living inside the shared directories. Every written value is
// self-describing (target path, writer, op index, length, position dependent pattern), so a
// value that was never written as a whole - torn, mixed, truncated, scribbled - is recognised
// by a plain set lookup.
//
// The executor runs the program on a fresh memfs, each goroutine keeping an exact model of
// its own private nodes, and judges only what the statement of C09 fixes (see Exec).
package c09

import (
	"bytes"
	"fmt"
	"io"
	"os"
	"runtime"
	"sort"
	"strconv"
	"strings"
	"sync"
	"sync/atomic"
	"time"

	"github.com/goatcms/goatcore/filesystem"
	"github.com/goatcms/goatcore/filesystem/filespace/memfs"
	"github.com/goatcms/goatcore/varutil/verifhook"
	"pgregory.net/rapid"
	"verif/harness/fsmodel"
	"verif/harness/hx"
)

// Op is one operation of one goroutine.
type Op struct {
	K  string `json:"k"`            // W Ws R Rs Rp M L Cf C Cd Rm Ra Q
	P  string `json:"p"`            // target path (cleaned, "" = root)
	S  string `json:"s,omitempty"`  // copy source
	N  int    `json:"n,omitempty"`  // W/Ws: payload length; Rp: maximum number of polls; L: delay code between ReadDir and looking at the result
	Ch []int  `json:"ch,omitempty"` // Ws: chunk sizes; Rs: read buffer sizes
	B  int    `json:"b,omitempty"`  // burst id > 0: spin barrier before and after the op
	D  int    `json:"d,omitempty"`  // harness-side delay before the op (see delay)
}

// Case is a concurrent program plus the schedule knobs.
type Case struct {
	Procs int            `json:"procs"`           // GOMAXPROCS during the case
	G     [][]Op         `json:"g"`               // one op list per goroutine
	Yield map[string]int `json:"yield,omitempty"` // verif yield point -> action code (see hookCtl)
	Every int            `json:"every,omitempty"` // act on every n-th visit of a yield point (0/1 = all)
}

const (
	maxGoroutines = 8
	watchdog      = 30 * time.Second
)

var dirPool = []string{"", "s", "s/t", "u"}

// yield points this check knows about (memfs, build tag verif).
var yieldPoints = []string{"memfs.mkdir.gap", "memfs.create.gap", "memfs.writer.created"}

// ------------------------------------------------------------------ paths

func join(d, n string) string {
	if d == "" {
		return n
	}
	return d + "/" + n
}

func split(p string) (dir, name string) {
	i := strings.LastIndex(p, "/")
	if i < 0 {
		return "", p
	}
	return p[:i], p[i+1:]
}

func segs(p string) []string {
	if p == "" {
		return nil
	}
	return strings.Split(p, "/")
}

// privSeg recognises the private names p<g>a p<g>b c<g>a c<g>b k<g>a k<g>b q<g>.
func privSeg(seg string) (g int, kind byte, ok bool) {
	if len(seg) < 2 {
		return 0, 0, false
	}
	k := seg[0]
	if k != 'p' && k != 'q' && k != 'c' && k != 'k' {
		return 0, 0, false
	}
	d := seg[1]
	if d < '0' || d > '7' {
		return 0, 0, false
	}
	if k == 'q' {
		ok = len(seg) == 2
	} else {
		ok = len(seg) == 3 && (seg[2] == 'a' || seg[2] == 'b')
	}
	return int(d - '0'), k, ok
}

// splitPriv cuts p at its first private segment: top is the path up to and including it,
// rest the segments below. owner is -1 for a fully shared path.
func splitPriv(p string) (top string, rest []string, owner int) {
	ss := segs(p)
	for i, s := range ss {
		if g, _, ok := privSeg(s); ok {
			return strings.Join(ss[:i+1], "/"), ss[i+1:], g
		}
	}
	return p, nil, -1
}

func isBurstName(seg string) bool {
	if len(seg) < 2 || seg[0] != 'b' {
		return false
	}
	_, err := strconv.Atoi(seg[1:])
	return err == nil
}

// value is the self-describing content written by op i of goroutine g to path p.
func value(p string, g, i, n int) []byte {
	h := fmt.Sprintf("%s|%d.%d|%d|", p, g, i, n)
	b := make([]byte, 0, len(h)+n)
	b = append(b, h...)
	for j := 0; j < n; j++ {
		b = append(b, byte('a'+(g*11+i*3+j)%26))
	}
	return b
}

func clip(b []byte) string {
	if len(b) > 60 {
		return fmt.Sprintf("%q...(%d bytes)", b[:60], len(b))
	}
	return fmt.Sprintf("%q", b)
}

func (o Op) String() string {
	s := o.K + " " + strconv.Quote(o.P)
	if o.S != "" || o.K == "Cf" || o.K == "C" || o.K == "Cd" {
		s = o.K + " " + strconv.Quote(o.S) + "->" + strconv.Quote(o.P)
	}
	if o.B > 0 {
		s += " burst" + strconv.Itoa(o.B)
	}
	return s
}

func isCreate(k string) bool {
	switch k {
	case "W", "Ws", "M", "Cf", "C", "Cd":
		return true
	}
	return false
}

// ------------------------------------------------------------------ generator

type genG struct {
	id    int
	files map[string]bool            // private file tops (p, c) that exist
	qdirs map[string]map[string]bool // private q dirs -> inner files
	ktree map[string]bool            // directory copies at the root
	ops   []Op
}

type burstSpec struct {
	dir   string
	class int // 0 pure file, 1 pure dir, 2 mixed, 3 directory traffic only
	role  []int
}

func genLen(rt *rapid.T) int {
	switch x := hx.Uniform(rt, 10, "lenclass"); {
	case x < 5:
		return 1 + hx.Uniform(rt, 16, "len")
	case x < 8:
		return 64 + hx.Uniform(rt, 448, "len")
	default:
		return 2048 + hx.Uniform(rt, 6144, "len")
	}
}

func genSizes(rt *rapid.T, pool []int) []int {
	n := 1 + hx.Uniform(rt, 3, "nsizes")
	out := make([]int, n)
	for i := range out {
		out[i] = pool[hx.Uniform(rt, len(pool), "size")]
	}
	return out
}

func genDelay(rt *rapid.T) int {
	x := hx.Uniform(rt, 10, "delay")
	if x < 5 {
		return 0
	}
	return x - 4 // 1..5
}

func sortedKeys(m map[string]bool) []string {
	out := make([]string, 0, len(m))
	for k := range m {
		out = append(out, k)
	}
	sort.Strings(out)
	return out
}

func (g *genG) privFiles() []string { // every existing private file path, sorted
	out := sortedKeys(g.files)
	qs := make([]string, 0, len(g.qdirs))
	for q := range g.qdirs {
		qs = append(qs, q)
	}
	sort.Strings(qs)
	for _, q := range qs {
		for _, n := range sortedKeys(g.qdirs[q]) {
			out = append(out, join(q, n))
		}
	}
	sort.Strings(out)
	return out
}

func (g *genG) writePriv(rt *rapid.T, dir string, stream bool) Op {
	var p string
	if hx.Chance(rt, 30, "inq") {
		q := join(dir, "q"+strconv.Itoa(g.id))
		n := []string{"a", "b"}[hx.Uniform(rt, 2, "qn")]
		if g.qdirs[q] == nil {
			g.qdirs[q] = map[string]bool{}
		}
		g.qdirs[q][n] = true
		p = join(q, n)
	} else {
		p = join(dir, "p"+strconv.Itoa(g.id)+[]string{"a", "b"}[hx.Uniform(rt, 2, "pn")])
		g.files[p] = true
	}
	op := Op{K: "W", P: p, N: genLen(rt)}
	if stream {
		op.K = "Ws"
		op.Ch = genSizes(rt, []int{1, 7, 64, 1000, 9000})
	}
	return op
}

func (g *genG) removePriv(rt *rapid.T, inDir string) (Op, bool) {
	// candidates: private files (optionally only those directly in inDir), empty q dirs, trees
	var cand []Op
	for _, f := range g.privFiles() {
		d, _ := split(f)
		if inDir != "-" && d != inDir {
			continue
		}
		cand = append(cand, Op{K: "Rm", P: f})
	}
	qs := make([]string, 0)
	for q := range g.qdirs {
		qs = append(qs, q)
	}
	sort.Strings(qs)
	for _, q := range qs {
		d, _ := split(q)
		if inDir != "-" && d != inDir {
			continue
		}
		if len(g.qdirs[q]) == 0 {
			cand = append(cand, Op{K: "Rm", P: q})
		}
		cand = append(cand, Op{K: "Ra", P: q})
	}
	if inDir == "-" || inDir == "" {
		for _, k := range sortedKeys(g.ktree) {
			cand = append(cand, Op{K: "Ra", P: k})
		}
	}
	if len(cand) == 0 {
		return Op{}, false
	}
	op := cand[hx.Uniform(rt, len(cand), "rmpick")]
	top, rest, _ := splitPriv(op.P)
	switch {
	case g.ktree[op.P]:
		delete(g.ktree, op.P)
	case len(rest) > 0:
		delete(g.qdirs[top], rest[0])
	case g.qdirs[op.P] != nil:
		delete(g.qdirs, op.P)
	default:
		delete(g.files, op.P)
	}
	return op, true
}

var sharedFiles = []string{"s/f", "s/h", "s/t/f", "u/f"}
var sharedDirs = []string{"s", "s/t", "u"}

func (g *genG) normalOp(rt *rapid.T) Op {
	dir := dirPool[hx.Uniform(rt, len(dirPool), "dir")]
	sf := sharedFiles[hx.Uniform(rt, len(sharedFiles), "sf")]
	x := hx.Uniform(rt, 100, "kind")
	switch {
	case x < 13:
		return Op{K: "W", P: sf, N: genLen(rt)}
	case x < 19:
		return Op{K: "Ws", P: sf, N: genLen(rt), Ch: genSizes(rt, []int{1, 7, 64, 1000, 9000})}
	case x < 29:
		return Op{K: "R", P: sf}
	case x < 33:
		return Op{K: "Rs", P: sf, Ch: genSizes(rt, []int{1, 3, 16, 512, 4096})}
	case x < 43:
		return g.writePriv(rt, dir, false)
	case x < 46:
		return g.writePriv(rt, dir, true)
	case x < 52: // read a private file (10%: one that does not exist)
		fs := g.privFiles()
		if len(fs) == 0 || hx.Chance(rt, 10, "missing") {
			p := join(dir, "p"+strconv.Itoa(g.id)+"b")
			if hx.Chance(rt, 50, "rs") {
				return Op{K: "R", P: p}
			}
			return Op{K: "Q", P: p}
		}
		p := fs[hx.Uniform(rt, len(fs), "pf")]
		if hx.Chance(rt, 30, "rs") {
			return Op{K: "Rs", P: p, Ch: genSizes(rt, []int{1, 3, 16, 512, 4096})}
		}
		return Op{K: "R", P: p}
	case x < 57:
		return Op{K: "M", P: sharedDirs[hx.Uniform(rt, len(sharedDirs), "sd")]}
	case x < 60:
		q := join(dir, "q"+strconv.Itoa(g.id))
		if g.qdirs[q] == nil {
			g.qdirs[q] = map[string]bool{}
		}
		return Op{K: "M", P: q}
	case x < 74: // listings: shared directories, sometimes an own private directory
		if hx.Chance(rt, 12, "lpriv") {
			var c []string
			for q := range g.qdirs {
				c = append(c, q)
			}
			c = append(c, sortedKeys(g.ktree)...)
			sort.Strings(c)
			if len(c) > 0 {
				return Op{K: "L", P: c[hx.Uniform(rt, len(c), "lp")]}
			}
		}
		return Op{K: "L", P: dir, N: hx.Uniform(rt, 5, "hold")}
	case x < 82: // file copies into a private name
		dst := join(dir, "c"+strconv.Itoa(g.id)+[]string{"a", "b"}[hx.Uniform(rt, 2, "cn")])
		if g.files[dst] {
			delete(g.files, dst)
			return Op{K: "Rm", P: dst}
		}
		src := sf
		if ps := sortedKeys(g.files); len(ps) > 0 && hx.Chance(rt, 30, "psrc") {
			var only []string
			for _, p := range ps {
				if _, n := split(p); n[0] == 'p' {
					only = append(only, p)
				}
			}
			if len(only) > 0 {
				src = only[hx.Uniform(rt, len(only), "ps")]
			}
		}
		// the generator cannot know whether a shared source exists yet: the copy may fail, then
		// the destination stays absent. The generator's model is optimistic; the executor keeps
		// its own model of what really happened and judges later ops on the node by that.
		k := "Cf"
		if hx.Chance(rt, 30, "copy") {
			k = "C"
		}
		g.files[dst] = true // optimistic
		return Op{K: k, S: src, P: dst}
	case x < 86: // directory copies to the root
		dst := "k" + strconv.Itoa(g.id) + []string{"a", "b"}[hx.Uniform(rt, 2, "kn")]
		if g.ktree[dst] {
			delete(g.ktree, dst)
			return Op{K: "Ra", P: dst}
		}
		k := "Cd"
		if hx.Chance(rt, 40, "copy") {
			k = "C"
		}
		return Op{K: k, S: sharedDirs[hx.Uniform(rt, len(sharedDirs), "ksrc")], P: dst}
	case x < 96:
		if op, ok := g.removePriv(rt, "-"); ok {
			return op
		}
		return g.writePriv(rt, dir, false)
	default:
		if hx.Chance(rt, 50, "qshared") {
			return Op{K: "Q", P: sf}
		}
		fs := g.privFiles()
		if len(fs) > 0 {
			return Op{K: "Q", P: fs[hx.Uniform(rt, len(fs), "qf")]}
		}
		return Op{K: "Q", P: dir}
	}
}

func (g *genG) burstOp(rt *rapid.T, id int, b burstSpec) Op {
	name := join(b.dir, "b"+strconv.Itoa(id))
	role := b.role[g.id]
	op := Op{}
	switch {
	case b.class == 3 || role >= 8: // directory traffic next to the creations
		switch hx.Uniform(rt, 4, "traffic") {
		case 0:
			op = Op{K: "L", P: b.dir, N: hx.Uniform(rt, 5, "hold")}
		case 1:
			if o, ok := g.removePriv(rt, b.dir); ok {
				op = o
			} else {
				op = g.writePriv(rt, b.dir, false)
			}
		default:
			op = g.writePriv(rt, b.dir, hx.Chance(rt, 20, "stream"))
		}
	case role >= 6: // watchers of the new name
		switch hx.Uniform(rt, 4, "watch") {
		case 0:
			op = Op{K: "L", P: b.dir}
		case 1:
			op = Op{K: "R", P: name}
		default:
			op = Op{K: "Rp", P: name, N: 20 + hx.Uniform(rt, 200, "polls")}
		}
		if b.class == 1 {
			op = Op{K: "L", P: b.dir}
		}
	default: // creators
		file := Op{K: "W", P: name, N: genLen(rt)}
		if hx.Chance(rt, 35, "stream") {
			file.K = "Ws"
			file.Ch = genSizes(rt, []int{1, 7, 64, 1000, 9000})
		}
		switch b.class {
		case 0:
			op = file
		case 1:
			op = Op{K: "M", P: name}
		default:
			switch hx.Uniform(rt, 3, "mixed") {
			case 0:
				op = file
			case 1:
				op = Op{K: "M", P: name}
			default:
				op = file
				var only []string
				for _, p := range sortedKeys(g.files) {
					if _, n := split(p); n[0] == 'p' {
						only = append(only, p)
					}
				}
				if len(only) > 0 {
					op = Op{K: "Cf", S: only[hx.Uniform(rt, len(only), "cfsrc")], P: name}
				}
			}
		}
	}
	op.B = id
	return op
}

// Gen draws a concurrent program.
func Gen(rt *rapid.T) Case {
	c := Case{}
	nG := 2 + hx.Uniform(rt, maxGoroutines-1, "goroutines")
	c.Procs = []int{4, 2, 16, 1}[hx.Uniform(rt, 4, "procs")]
	maxOps := 24
	maxBursts := 4
	if hx.Thorough() {
		maxOps, maxBursts = 40, 6
	}
	nB := hx.Uniform(rt, maxBursts+1, "bursts")
	bursts := make([]burstSpec, nB)
	for i := range bursts {
		b := burstSpec{dir: dirPool[hx.Uniform(rt, len(dirPool), "bdir")], role: make([]int, nG)}
		switch x := hx.Uniform(rt, 10, "bclass"); {
		case x < 4:
			b.class = 0
		case x < 6:
			b.class = 1
		case x < 8:
			b.class = 2
		default:
			b.class = 3
		}
		for g := 0; g < nG; g++ {
			b.role[g] = hx.Uniform(rt, 12, "role") // 0..5 creator, 6..7 watcher, 8..9 traffic, 10..11 absent
			if g < 2 && b.role[g] >= 6 {
				b.role[g] = 0 // at least two creators
			}
		}
		bursts[i] = b
	}
	c.G = make([][]Op, nG)
	for gi := 0; gi < nG; gi++ {
		g := &genG{id: gi, files: map[string]bool{}, qdirs: map[string]map[string]bool{}, ktree: map[string]bool{}}
		total := rapid.IntRange(5, maxOps).Draw(rt, "nops")
		cuts := make([]int, nB)
		for i := range cuts {
			cuts[i] = hx.Uniform(rt, total+1, "cut")
		}
		sort.Ints(cuts)
		bi := 0
		for n := 0; n <= total; n++ {
			for bi < nB && cuts[bi] == n {
				if bursts[bi].role[gi] < 10 {
					op := g.burstOp(rt, bi+1, bursts[bi])
					op.D = 0
					g.ops = append(g.ops, op)
				}
				bi++
			}
			if n == total {
				break
			}
			op := g.normalOp(rt)
			op.D = genDelay(rt)
			if (op.K == "Cd" || op.K == "C") && op.P[0] == 'k' {
				g.ktree[op.P] = true // optimistic; the executor follows what really happened
			}
			g.ops = append(g.ops, op)
		}
		c.G[gi] = g.ops
	}
	// schedule knobs for the verif yield points
	if hx.Chance(rt, 60, "useyield") {
		c.Yield = map[string]int{}
		for _, pt := range yieldPoints {
			if a := hx.Uniform(rt, 6, "yield"); a > 0 {
				c.Yield[pt] = a
			}
		}
		c.Every = 1 + hx.Uniform(rt, 3, "every")
	}
	return c
}

// ------------------------------------------------------------------ executor state

type failure struct {
	clause string
	detail string
	g, i   int
}

type rec struct {
	i      int
	t0, t1 int64
	ok     bool
}

type gstate struct {
	id   int
	priv map[string]*fsmodel.Node // private top path -> subtree (exact model, owner only)
	ksrc map[string]string        // directory copy top -> source directory
	mu   sync.Mutex
	log  []rec
	cur  atomic.Int32 // op in flight, -1 when finished
	call atomic.Bool  // inside the filespace call(s) of that op (not at a harness barrier)
}

type burst struct {
	n       int32
	in, out atomic.Int32
	name    string // the b<id> path, "" if the burst has none
	creates int
	hard    int // creators other than copies: the first of them to take effect must succeed
	okFile  atomic.Int32
	okDir   atomic.Int32
}

type run struct {
	fs      filesystem.Filespace
	c       Case
	clock   atomic.Int64
	abort   atomic.Bool
	failMu  sync.Mutex
	failed  *failure
	mask    map[string]int          // every path the program may create -> 1 file | 2 dir
	created map[string]*atomic.Bool // shared paths
	shared  []string                // sorted shared paths
	issued  map[string]string       // written value -> its target path
	origins map[string]map[string]bool
	pure    map[string]int // shared path -> 1 only file writers, 2 only MkdirAll, 3 mixed
	bursts  map[int]*burst
	gs      []*gstate
	hookN   [8]atomic.Int64
	skipped atomic.Int64
}

func (r *run) fail(g, i int, clause, format string, a ...interface{}) *failure {
	f := &failure{clause: clause, detail: fmt.Sprintf(format, a...), g: g, i: i}
	r.failMu.Lock()
	if r.failed == nil {
		r.failed = f
	}
	r.failMu.Unlock()
	r.abort.Store(true)
	return f
}

func (r *run) addMask(p string, kind int) {
	if p == "" {
		return
	}
	r.mask[p] |= kind
	for d, _ := split(p); d != ""; d, _ = split(d) {
		r.mask[d] |= 2
	}
}

// prepare derives the static tables from the program.
func (r *run) prepare() string {
	c := r.c
	r.mask = map[string]int{}
	r.issued = map[string]string{}
	r.origins = map[string]map[string]bool{}
	r.pure = map[string]int{}
	r.bursts = map[int]*burst{}
	r.created = map[string]*atomic.Bool{}
	if len(c.G) < 1 || len(c.G) > maxGoroutines {
		return "goroutine count out of range"
	}
	for g, ops := range c.G {
		last := 0
		for i, op := range ops {
			if op.B > 0 {
				if op.B <= last {
					return "burst ids must increase within a goroutine"
				}
				last = op.B
				b := r.bursts[op.B]
				if b == nil {
					b = &burst{}
					r.bursts[op.B] = b
				}
				b.n++
				if _, n := split(op.P); isBurstName(n) && isCreate(op.K) {
					b.name = op.P
					b.creates++
					if op.K != "Cf" { // a copy may legitimately lose (destination exists / source missing)
						b.hard++
					}
				}
			}
			if _, _, o := splitPriv(op.P); o >= 0 && o != g && isCreate(op.K) {
				return fmt.Sprintf("g%d#%d mutates a node private to g%d", g, i, o)
			}
			switch op.K {
			case "W", "Ws":
				v := value(op.P, g, i, op.N)
				r.issued[string(v)] = op.P
				r.addMask(op.P, 1)
				if _, _, o := splitPriv(op.P); o < 0 {
					r.pure[op.P] |= 1
				}
			case "M":
				r.addMask(op.P, 2)
				if _, _, o := splitPriv(op.P); o < 0 {
					r.pure[op.P] |= 2
				}
			case "Cf":
				r.addMask(op.P, 1)
				if r.origins[op.P] == nil {
					r.origins[op.P] = map[string]bool{}
				}
				r.origins[op.P][op.S] = true
				if _, _, o := splitPriv(op.P); o < 0 {
					r.pure[op.P] |= 3
				}
			case "C", "Cd":
				_, sn := split(op.S)
				if op.K == "C" && (sn == "f" || sn == "h" || (len(sn) > 0 && sn[0] == 'p')) {
					r.addMask(op.P, 1)
					if r.origins[op.P] == nil {
						r.origins[op.P] = map[string]bool{}
					}
					r.origins[op.P][op.S] = true
				} else {
					r.addMask(op.P, 2)
				}
				if _, _, o := splitPriv(op.P); o < 0 {
					return "copies into shared names are not part of the domain (except Cf in bursts)"
				}
			}
		}
	}
	for p := range r.mask {
		if _, _, o := splitPriv(p); o < 0 {
			r.created[p] = new(atomic.Bool)
			r.shared = append(r.shared, p)
		}
	}
	sort.Strings(r.shared)
	return ""
}

// setCreated marks the shared part of p (p itself when shared, and every ancestor) as
// existing from now on: shared nodes are never removed by any program.
func (r *run) setCreated(p string) {
	top, _, o := splitPriv(p)
	if o >= 0 {
		p, _ = split(top)
	}
	for ; p != ""; p, _ = split(p) {
		if f := r.created[p]; f != nil {
			f.Store(true)
		}
	}
}

func (r *run) isCreated(p string) bool {
	if p == "" {
		return true
	}
	f := r.created[p]
	return f != nil && f.Load()
}

// validAt: data is, byte for byte, one of the values written to p (or to a file that was
// copied to p).
func (r *run) validAt(p string, data []byte) bool {
	t, ok := r.issued[string(data)]
	return ok && (t == p || r.origins[p][t])
}

// ------------------------------------------------------------------ private model helpers

func (st *gstate) lookup(p string) *fsmodel.Node {
	top, rest, _ := splitPriv(p)
	n := st.priv[top]
	if n == nil {
		return nil
	}
	return n.Lookup(rest)
}

func (st *gstate) putFile(p string, data []byte) {
	top, rest, _ := splitPriv(p)
	if len(rest) == 0 {
		st.priv[top] = fsmodel.NewFile(data)
		return
	}
	n := st.priv[top]
	if n == nil {
		n = fsmodel.NewDir()
		st.priv[top] = n
	}
	for _, s := range rest[:len(rest)-1] {
		k := n.Kids[s]
		if k == nil {
			k = fsmodel.NewDir()
			n.Kids[s] = k
		}
		n = k
	}
	n.Kids[rest[len(rest)-1]] = fsmodel.NewFile(data)
}

func (st *gstate) remove(p string) {
	top, rest, _ := splitPriv(p)
	if len(rest) == 0 {
		delete(st.priv, top)
		delete(st.ksrc, top)
		return
	}
	n := st.priv[top]
	if n == nil {
		return
	}
	par := n.Lookup(rest[:len(rest)-1])
	if par != nil && par.Dir {
		delete(par.Kids, rest[len(rest)-1])
	}
}

// ownTopsIn lists the owner's existing private tops directly inside directory d.
func (st *gstate) ownTopsIn(d string) []string {
	var out []string
	for top := range st.priv {
		if pd, n := split(top); pd == d {
			out = append(out, n)
		}
	}
	sort.Strings(out)
	return out
}

// ------------------------------------------------------------------ observations

func delay(d int) {
	switch {
	case d <= 0:
	case d <= 3:
		for i := 0; i < d*d; i++ {
			runtime.Gosched()
		}
	default:
		var x atomic.Int32
		for i := 0; i < 60<<uint(2*(d-4)); i++ {
			x.Add(1)
		}
	}
}

func scribble(b []byte) {
	for i := range b {
		b[i] = '!'
	}
}

func readSized(rd io.Reader, bufs []int) ([]byte, error) {
	if len(bufs) == 0 {
		bufs = []int{512}
	}
	var out []byte
	for k := 0; k < 200000; k++ {
		n := bufs[k%len(bufs)]
		if n < 1 {
			n = 1
		}
		buf := make([]byte, n)
		m, err := rd.Read(buf)
		if m < 0 || m > n {
			return out, fmt.Errorf("Read returned n=%d for a %d byte buffer", m, n)
		}
		out = append(out, buf[:m]...)
		if err == io.EOF {
			return out, nil
		}
		if err != nil {
			return out, err
		}
	}
	return out, fmt.Errorf("reader did not reach EOF in 200000 reads")
}

// listing check shared by ReadDir observations: no nil entry, no name twice, only names the
// program can create in dir (src is the directory the names are interpreted in: dir itself,
// or the copied source directory for a listing inside a directory copy).
func (r *run) checkListing(infos []os.FileInfo, src string) (names map[string]bool, clause, msg string) {
	names = map[string]bool{}
	for _, fi := range infos {
		if fi == nil {
			return nil, "listing-nil", "listing contains a nil entry"
		}
		n := fi.Name()
		if names[n] {
			return nil, "listing-duplicate", fmt.Sprintf("listing contains %q twice: %v", n, entryNames(infos))
		}
		names[n] = fi.IsDir()
		m, ok := r.mask[join(src, n)]
		if !ok {
			return nil, "listing-unknown-name", fmt.Sprintf("listing contains %q (dir=%v) that no operation creates there: %v", n, fi.IsDir(), entryNames(infos))
		}
		if fi.IsDir() && m&2 == 0 || !fi.IsDir() && m&1 == 0 {
			return nil, "listing-kind", fmt.Sprintf("listing shows %q as dir=%v but only the other kind is ever created there", n, fi.IsDir())
		}
	}
	return names, "", ""
}

func entryNames(infos []os.FileInfo) []string {
	out := make([]string, 0, len(infos))
	for _, fi := range infos {
		if fi == nil {
			out = append(out, "<nil>")
		} else {
			out = append(out, fi.Name())
		}
	}
	sort.Strings(out)
	return out
}

// walkCopy reads the directory copy at dst (source directory src) into a model tree while
// checking every listing and every file value against what may legally be found there.
func (r *run) walkCopy(dst, src string, depth int) (*fsmodel.Node, string, string) {
	if depth > 12 {
		return nil, "listing-unknown-name", "directory copy deeper than 12 levels at " + dst
	}
	infos, err := r.fs.ReadDir(dst)
	if err != nil {
		return nil, "private-visible", fmt.Sprintf("ReadDir(%q) inside a finished private copy failed", dst)
	}
	if _, cl, msg := r.checkListing(infos, src); cl != "" {
		return nil, cl, fmt.Sprintf("in copy %q of %q: %s", dst, src, msg)
	}
	n := fsmodel.NewDir()
	for _, fi := range infos {
		d, s := join(dst, fi.Name()), join(src, fi.Name())
		if fi.IsDir() {
			k, cl, msg := r.walkCopy(d, s, depth+1)
			if cl != "" {
				return nil, cl, msg
			}
			n.Kids[fi.Name()] = k
			continue
		}
		data, err := r.fs.ReadFile(d)
		if err != nil {
			return nil, "private-visible", fmt.Sprintf("ReadFile(%q) of a listed file inside a finished private copy failed", d)
		}
		if !r.validAt(s, data) {
			return nil, "complete-value", fmt.Sprintf("copy %q of %q holds %s, which is not a value written to %q", d, s, clip(data), s)
		}
		n.Kids[fi.Name()] = fsmodel.NewFile(data)
	}
	return n, "", ""
}

// ------------------------------------------------------------------ one operation

type outcome struct {
	ok     bool // the call reported success
	clause string
	msg    string
}

func bad(clause, format string, a ...interface{}) outcome {
	return outcome{clause: clause, msg: fmt.Sprintf(format, a...)}
}

func (r *run) mustSucceedShared(op Op) bool {
	switch op.K {
	case "W", "Ws":
		return r.pure[op.P] == 1
	case "M":
		return r.pure[op.P] == 2
	}
	return false
}

func (r *run) step(g, i int, op Op, st *gstate) outcome {
	fs := r.fs
	_, _, owner := splitPriv(op.P)
	private := owner == g
	switch op.K {
	case "W", "Ws":
		v := value(op.P, g, i, op.N)
		buf := append([]byte{}, v...)
		var err error
		if op.K == "W" {
			err = fs.WriteFile(op.P, buf, filesystem.DefaultUnixFileMode)
		} else {
			var w filesystem.Writer
			if w, err = fs.Writer(op.P); err == nil {
				// handle discipline: nothing but Write and Close while the handle is open
				off, k := 0, 0
				for off < len(buf) && err == nil {
					n := 1
					if len(op.Ch) > 0 && op.Ch[k%len(op.Ch)] > 0 {
						n = op.Ch[k%len(op.Ch)]
					}
					if off+n > len(buf) {
						n = len(buf) - off
					}
					var m int
					m, err = w.Write(buf[off : off+n])
					if err == nil && m != n {
						err = fmt.Errorf("short write %d of %d", m, n)
					}
					off += n
					k++
				}
				if cerr := w.Close(); err == nil {
					err = cerr
				}
			}
		}
		scribble(buf) // the caller owns its buffer again
		if err != nil {
			if private || r.mustSucceedShared(op) {
				return bad("spurious-error", "%s failed although every order of the concurrent operations lets it succeed: %s", op.K, firstLine(err))
			}
			return outcome{}
		}
		r.setCreated(op.P)
		if private {
			st.putFile(op.P, v)
		}
		return outcome{ok: true}

	case "R", "Rs", "Rp":
		was := !private && r.mask[op.P] == 1 && r.isCreated(op.P)
		var data []byte
		var err error
		switch op.K {
		case "R":
			data, err = fs.ReadFile(op.P)
		case "Rp":
			for k := 0; ; k++ {
				if data, err = fs.ReadFile(op.P); err == nil || k >= op.N || r.abort.Load() {
					break
				}
				runtime.Gosched()
			}
		default:
			var rd filesystem.Reader
			if rd, err = fs.Reader(op.P); err == nil {
				data, err = readSized(rd, op.Ch)
				if cerr := rd.Close(); err == nil {
					err = cerr
				}
			}
		}
		if private {
			want := st.lookup(op.P)
			if want == nil || want.Dir {
				if err == nil {
					return bad("private-visible", "read of the private path %q succeeded with %s although its owner removed it or never created a file there", op.P, clip(data))
				}
				return outcome{}
			}
			if err != nil {
				return bad("private-visible", "read of the private file %q failed after its owner wrote it: %s", op.P, firstLine(err))
			}
			if !bytes.Equal(data, want.Data) {
				return bad("private-visible", "private file %q holds %s, its owner's last successful write was %s", op.P, clip(data), clip(want.Data))
			}
			return outcome{ok: true}
		}
		if owner >= 0 {
			return outcome{ok: err == nil} // somebody else's private node: nothing is promised
		}
		if err != nil {
			if was {
				return bad("visible-afterwards", "read of the shared file %q failed although a creation of it had already returned successfully: %s", op.P, firstLine(err))
			}
			return outcome{}
		}
		if !r.validAt(op.P, data) {
			return bad("complete-value", "read of %q returned %s, which is not (as a whole) any value written to it", op.P, clip(data))
		}
		return outcome{ok: true}

	case "M":
		err := fs.MkdirAll(op.P, filesystem.DefaultUnixDirMode)
		if err != nil {
			if private || r.mustSucceedShared(op) {
				return bad("spurious-error", "MkdirAll failed although every order of the concurrent operations lets it succeed: %s", firstLine(err))
			}
			return outcome{}
		}
		r.setCreated(op.P)
		if private {
			top, rest, _ := splitPriv(op.P)
			if len(rest) == 0 && st.priv[top] == nil {
				st.priv[top] = fsmodel.NewDir()
			}
		}
		return outcome{ok: true}

	case "L":
		return r.list(g, op, st)

	case "Cf", "C", "Cd":
		return r.copyOp(g, op, st)

	case "Rm", "Ra":
		if !private {
			r.skipped.Add(1)
			return outcome{}
		}
		want := st.lookup(op.P)
		var err error
		if op.K == "Rm" {
			err = fs.Remove(op.P)
		} else {
			err = fs.RemoveAll(op.P)
		}
		switch {
		case want == nil:
			if op.K == "Rm" && err == nil {
				return bad("private-visible", "Remove of the private path %q succeeded although its owner's model has nothing there", op.P)
			}
			return outcome{ok: err == nil}
		case op.K == "Rm" && want.Dir && len(want.Kids) > 0:
			if err == nil {
				return bad("private-visible", "Remove of the non-empty private directory %q succeeded", op.P)
			}
			return outcome{}
		}
		if err != nil {
			return bad("spurious-error", "%s of the existing private node %q failed: %s", op.K, op.P, firstLine(err))
		}
		st.remove(op.P)
		if fs.IsExist(op.P) {
			return bad("private-visible", "private node %q still exists right after its owner's successful %s", op.P, op.K)
		}
		return outcome{ok: true}

	case "Q":
		was := !private && r.isCreated(op.P)
		ex, isF, isD := fs.IsExist(op.P), fs.IsFile(op.P), fs.IsDir(op.P)
		info, lerr := fs.Lstat(op.P)
		if private {
			want := st.lookup(op.P)
			wEx, wF, wD := want != nil, want != nil && !want.Dir, want != nil && want.Dir
			if ex != wEx || isF != wF || isD != wD || (lerr == nil) != wEx || (lerr == nil && info != nil && info.IsDir() != wD) {
				return bad("private-visible", "private path %q: IsExist=%v IsFile=%v IsDir=%v Lstat ok=%v, owner's model: exists=%v file=%v dir=%v", op.P, ex, isF, isD, lerr == nil, wEx, wF, wD)
			}
			return outcome{ok: true}
		}
		if owner < 0 && was {
			m := r.mask[op.P]
			if !ex || lerr != nil || (m == 1 && !isF) || (m == 2 && !isD) {
				return bad("visible-afterwards", "shared path %q was created before the query started, yet IsExist=%v IsFile=%v IsDir=%v Lstat ok=%v", op.P, ex, isF, isD, lerr == nil)
			}
		}
		return outcome{ok: true}
	}
	r.skipped.Add(1)
	return outcome{}
}

func firstLine(err error) string {
	s := err.Error()
	if i := strings.IndexByte(s, '\n'); i >= 0 {
		s = s[:i]
	}
	if len(s) > 160 {
		s = s[:160]
	}
	return s
}

func (r *run) list(g int, op Op, st *gstate) outcome {
	_, _, owner := splitPriv(op.P)
	if owner >= 0 && owner != g {
		r.skipped.Add(1)
		return outcome{}
	}
	if owner == g { // an own private directory: exact
		want := st.lookup(op.P)
		infos, err := r.fs.ReadDir(op.P)
		if want == nil || !want.Dir {
			if err == nil {
				return bad("private-visible", "ReadDir(%q) succeeded although the owner has no directory there", op.P)
			}
			return outcome{}
		}
		if err != nil {
			return bad("private-visible", "ReadDir of the existing private directory %q failed: %s", op.P, firstLine(err))
		}
		got := map[string]bool{}
		for _, fi := range infos {
			if fi == nil {
				return bad("listing-nil", "listing of %q contains a nil entry", op.P)
			}
			if _, dup := got[fi.Name()]; dup {
				return bad("listing-duplicate", "listing of %q contains %q twice: %v", op.P, fi.Name(), entryNames(infos))
			}
			got[fi.Name()] = fi.IsDir()
		}
		for _, n := range want.Names() {
			if d, ok := got[n]; !ok || d != want.Kids[n].Dir {
				return bad("private-visible", "private directory %q: model has %v, listing %v", op.P, want.Names(), entryNames(infos))
			}
		}
		if len(got) != len(want.Kids) {
			return bad("private-visible", "private directory %q: model has %v, listing %v", op.P, want.Names(), entryNames(infos))
		}
		return outcome{ok: true}
	}
	// a shared directory: what had certainly been created before the call must be listed
	was := op.P == "" || r.mask[op.P] == 2 && r.isCreated(op.P)
	var must []string
	pre := op.P + "/"
	if op.P == "" {
		pre = ""
	}
	for _, p := range r.shared {
		if strings.HasPrefix(p, pre) && !strings.Contains(p[len(pre):], "/") && r.created[p].Load() {
			must = append(must, p[len(pre):])
		}
	}
	infos, err := r.fs.ReadDir(op.P)
	delay(op.N) // the caller owns the returned listing and may look at it whenever it likes
	if err != nil {
		if was {
			return bad("visible-afterwards", "ReadDir of the shared directory %q failed although its creation had already returned: %s", op.P, firstLine(err))
		}
		return outcome{}
	}
	names, cl, msg := r.checkListing(infos, op.P)
	if cl != "" {
		return bad(cl, "ReadDir(%q): %s", op.P, msg)
	}
	for _, n := range must {
		if _, ok := names[n]; !ok {
			return bad("visible-afterwards", "ReadDir(%q) = %v lacks %q whose creation had returned successfully before the listing started", op.P, entryNames(infos), n)
		}
	}
	own := map[string]bool{}
	for _, n := range st.ownTopsIn(op.P) {
		own[n] = true
		if d, ok := names[n]; !ok || d != st.priv[join(op.P, n)].Dir {
			return bad("private-visible", "ReadDir(%q) = %v lacks the private node %q its owner created and did not remove", op.P, entryNames(infos), n)
		}
	}
	for n := range names {
		if og, _, ok := privSeg(n); ok && og == g && !own[n] {
			return bad("private-visible", "ReadDir(%q) = %v still lists the private node %q after its owner removed it (or before it was ever created)", op.P, entryNames(infos), n)
		}
	}
	return outcome{ok: true}
}

func (r *run) copyOp(g int, op Op, st *gstate) outcome {
	_, _, owner := splitPriv(op.P)
	_, sn := split(op.S)
	_, _, sOwner := splitPriv(op.S)
	srcIsFile := sn == "f" || sn == "h" || (len(sn) > 0 && sn[0] == 'p')
	shared := owner < 0
	if !shared && owner != g || sOwner >= 0 && sOwner != g || op.S == "" ||
		(op.K == "Cf" && !srcIsFile) || (op.K == "Cd" && srcIsFile) {
		r.skipped.Add(1)
		return outcome{}
	}
	if !shared && st.lookup(op.P) != nil {
		r.skipped.Add(1) // copying onto an existing destination is outside the contract
		return outcome{}
	}
	// what must succeed: the source certainly exists
	var srcModel *fsmodel.Node
	must := false
	if sOwner == g {
		srcModel = st.lookup(op.S)
		must = srcModel != nil && srcModel.Dir != srcIsFile
	} else {
		must = r.isCreated(op.S)
	}
	// snapshot of what certainly exists below a shared source directory
	var mustHave []string
	if !srcIsFile {
		for _, p := range r.shared {
			if strings.HasPrefix(p, op.S+"/") && r.created[p].Load() {
				mustHave = append(mustHave, p[len(op.S)+1:])
			}
		}
	}
	var err error
	switch op.K {
	case "Cf":
		err = r.fs.CopyFile(op.S, op.P)
	case "Cd":
		err = r.fs.CopyDirectory(op.S, op.P)
	default:
		err = r.fs.Copy(op.S, op.P)
	}
	if shared { // a copy racing other creations of one new name: may lose (destination exists)
		if err == nil {
			r.setCreated(op.P)
		}
		return outcome{ok: err == nil}
	}
	if err != nil {
		if sOwner == g && srcModel == nil {
			return outcome{}
		}
		if must {
			return bad("spurious-error", "%s %q -> %q failed although the source existed and the private destination did not: %s", op.K, op.S, op.P, firstLine(err))
		}
		return outcome{}
	}
	if sOwner == g && srcModel == nil {
		return bad("private-visible", "copy of the private path %q succeeded although its owner has nothing there", op.S)
	}
	r.setCreated(op.P)
	if srcIsFile {
		data, rerr := r.fs.ReadFile(op.P)
		if rerr != nil {
			return bad("private-visible", "the private copy %q is not readable right after the successful %s: %s", op.P, op.K, firstLine(rerr))
		}
		if srcModel != nil {
			if !bytes.Equal(data, srcModel.Data) {
				return bad("private-visible", "copy %q of the private file %q holds %s, the source holds %s", op.P, op.S, clip(data), clip(srcModel.Data))
			}
		} else if !r.validAt(op.S, data) {
			return bad("complete-value", "copy %q of the shared file %q holds %s, which is not (as a whole) any value written to the source", op.P, op.S, clip(data))
		}
		st.putFile(op.P, data)
		return outcome{ok: true}
	}
	snap, cl, msg := r.walkCopy(op.P, op.S, 0)
	if cl != "" {
		return bad(cl, "%s", msg)
	}
	for _, rel := range mustHave {
		if snap.Lookup(segs(rel)) == nil {
			return bad("visible-afterwards", "directory copy %q of %q lacks %q although that node's creation had returned before the copy started", op.P, op.S, rel)
		}
	}
	// the owner's own private nodes below the source are stable: they must be copied exactly
	for top, n := range st.priv {
		if strings.HasPrefix(top, op.S+"/") {
			got := snap.Lookup(segs(top[len(op.S)+1:]))
			if got == nil {
				return bad("private-visible", "directory copy %q of %q lacks the owner's private node %q", op.P, op.S, top)
			}
			if d := fsmodel.Diff(n, got, top); d != "" {
				return bad("private-visible", "directory copy %q of %q differs from the owner's private node: %s", op.P, op.S, d)
			}
		}
	}
	if stale := r.staleOwn(g, st, snap, op.S); stale != "" {
		return bad("private-visible", "directory copy %q of %q contains %q, a private node its owner had removed (or not yet created) when the copy started", op.P, op.S, stale)
	}
	st.priv[op.P] = snap
	st.ksrc[op.P] = op.S
	return outcome{ok: true}
}

// staleOwn finds a private top of g inside the copied tree that g's model does not have.
func (r *run) staleOwn(g int, st *gstate, n *fsmodel.Node, at string) string {
	for _, name := range n.Names() {
		p := join(at, name)
		if og, _, ok := privSeg(name); ok {
			if og == g && st.priv[p] == nil {
				return p
			}
			continue
		}
		if k := n.Kids[name]; k.Dir {
			if s := r.staleOwn(g, st, k, p); s != "" {
				return s
			}
		}
	}
	return ""
}

// ------------------------------------------------------------------ bursts

func (r *run) spin(ctr *atomic.Int32, n int32) bool {
	ctr.Add(1)
	for k := 0; ctr.Load() < n; k++ {
		if r.abort.Load() {
			return false
		}
		switch {
		case k > 4000: // a participant is far away (or the machine is oversubscribed): stop burning the CPU it needs
			time.Sleep(20 * time.Microsecond)
		case r.c.Procs == 1 || k&63 == 63:
			runtime.Gosched()
		}
	}
	return true
}

// afterBurst runs once every participant's op has returned: the concurrent creations of one
// new name left exactly one node of the kind whose creation reported success.
func (r *run) afterBurst(g, i int, b *burst) outcome {
	if b.name == "" || b.creates == 0 {
		return outcome{ok: true}
	}
	okF, okD := b.okFile.Load(), b.okDir.Load()
	if okF+okD == 0 && b.hard == 0 {
		return outcome{ok: true}
	}
	if okF+okD == 0 {
		return bad("one-node", "none of the %d concurrent creations of the new name %q reported success", b.creates, b.name)
	}
	if okF > 0 && okD > 0 {
		return bad("one-node", "concurrent creations of %q reported success both as a file (%d) and as a directory (%d)", b.name, okF, okD)
	}
	dir, name := split(b.name)
	infos, err := r.fs.ReadDir(dir)
	if err != nil {
		return bad("visible-afterwards", "ReadDir(%q) failed after a successful creation inside it: %s", dir, firstLine(err))
	}
	cnt := 0
	for _, fi := range infos {
		if fi != nil && fi.Name() == name {
			cnt++
			if fi.IsDir() != (okD > 0) {
				return bad("one-node", "%q is listed as dir=%v but the creations that reported success were of the other kind", b.name, fi.IsDir())
			}
		}
	}
	if cnt != 1 {
		return bad("one-node", "after %d concurrent creations of %q its directory lists the name %d times: %v", b.creates, b.name, cnt, entryNames(infos))
	}
	if okF > 0 {
		data, err := r.fs.ReadFile(b.name)
		if err != nil {
			return bad("visible-afterwards", "the concurrently created file %q is not readable: %s", b.name, firstLine(err))
		}
		if !r.validAt(b.name, data) {
			return bad("complete-value", "the concurrently created file %q holds %s, not one of the values written to it", b.name, clip(data))
		}
	}
	return outcome{ok: true}
}

// ------------------------------------------------------------------ hook controller

func (r *run) hook(point string) {
	idx := -1
	for k, p := range yieldPoints {
		if p == point {
			idx = k
		}
	}
	if idx < 0 {
		return
	}
	n := r.hookN[idx].Add(1)
	a := r.c.Yield[point]
	if a == 0 || (r.c.Every > 1 && n%int64(r.c.Every) != 0) {
		return
	}
	switch a {
	case 1:
		runtime.Gosched()
	case 2:
		for k := 0; k < 4; k++ {
			runtime.Gosched()
		}
	case 3:
		time.Sleep(5 * time.Microsecond)
	case 4:
		time.Sleep(100 * time.Microsecond)
	default:
		var x atomic.Int32
		for k := 0; k < 2000; k++ {
			x.Add(1)
		}
	}
}

// ------------------------------------------------------------------ executor

var hookMu sync.Mutex // one case at a time owns the process-wide controller

// Exec runs the program and judges it.
//
// Clauses (statement phrase -> clause name):
//
//	"no call panics"                                   panic
//	"or blocks forever"                                blocks-forever (30 s watchdog)
//	"every successful operation on a distinct path
//	 takes effect and is visible afterwards"           private-visible, visible-afterwards
//	"a file always holds exactly one of the values
//	 written to it and readers only ever see complete
//	 written values"                                   complete-value
//	"two concurrent creations of the same new node
//	 yield one node"                                   one-node, spurious-error
//	"listings contain each name once"                  listing-duplicate, listing-nil,
//	                                                   listing-unknown-name, listing-kind
func Exec(c Case) hx.Verdict {
	hookMu.Lock()
	defer hookMu.Unlock()
	// an unrecoverable runtime error inside memfs ("concurrent map writes") kills the
	// process: the driver attributes such a crash to the case persisted here
	hx.PersistCurrent("program", c)
	defer hx.ClearCurrent()
	r := &run{c: c}
	if msg := r.prepare(); msg != "" {
		v := hx.Pass()
		v.Inconclusive = true
		v.Label("malformed-case")
		hx.Note("malformed case skipped: %s", msg)
		return v
	}
	fs, err := memfs.NewFilespace()
	if err != nil {
		return hx.Fail("setup", "memfs.NewFilespace: %v", err)
	}
	r.fs = fs
	procs := c.Procs
	if procs < 1 {
		procs = 1
	}
	prev := runtime.GOMAXPROCS(procs)
	defer runtime.GOMAXPROCS(prev)
	verifhook.Set(r.hook) // visits are counted even when the case plans no action
	defer verifhook.Set(nil)
	r.gs = make([]*gstate, len(c.G))
	for g := range c.G {
		r.gs[g] = &gstate{id: g, priv: map[string]*fsmodel.Node{}, ksrc: map[string]string{}}
	}
	var wg sync.WaitGroup
	var start atomic.Int32
	n := int32(len(c.G))
	for g := range c.G {
		wg.Add(1)
		go func(g int) {
			defer wg.Done()
			st := r.gs[g]
			v := hx.Guard(func() hx.Verdict {
				r.spin(&start, n) // common start line
				for i, op := range c.G[g] {
					if r.abort.Load() {
						return hx.Pass()
					}
					st.cur.Store(int32(i))
					delay(op.D)
					var b *burst
					if op.B > 0 {
						b = r.bursts[op.B]
						if !r.spin(&b.in, b.n) {
							return hx.Pass()
						}
					}
					st.call.Store(true)
					t0 := r.clock.Add(1)
					o := r.step(g, i, op, st)
					t1 := r.clock.Add(1)
					st.call.Store(false)
					st.mu.Lock()
					st.log = append(st.log, rec{i: i, t0: t0, t1: t1, ok: o.ok})
					st.mu.Unlock()
					if o.clause != "" {
						r.fail(g, i, o.clause, "g%d#%d %s: %s", g, i, op, o.msg)
						return hx.Pass()
					}
					if b != nil {
						if o.ok && b.name == op.P && isCreate(op.K) {
							if op.K == "M" {
								b.okDir.Add(1)
							} else {
								b.okFile.Add(1)
							}
						}
						if !r.spin(&b.out, b.n) {
							return hx.Pass()
						}
						st.call.Store(true)
						o2 := r.afterBurst(g, i, b)
						st.call.Store(false)
						if o2.clause != "" {
							r.fail(g, i, o2.clause, "burst %d (seen by g%d after its #%d %s): %s", op.B, g, i, op, o2.msg)
							return hx.Pass()
						}
					}
				}
				st.cur.Store(-1)
				return hx.Pass()
			})
			if !v.OK {
				i := int(st.cur.Load())
				what := "?"
				if i >= 0 && i < len(c.G[g]) {
					what = c.G[g][i].String()
				}
				r.fail(g, i, "panic", "g%d#%d %s panicked: %s", g, i, what, v.Detail)
			}
		}(g)
	}
	done := make(chan struct{})
	go func() { wg.Wait(); close(done) }()
	timer := time.NewTimer(watchdog)
	defer timer.Stop()
	select {
	case <-done:
	case <-timer.C:
		r.abort.Store(true)
		select { // let the goroutines that can still run reach their exit
		case <-done:
		case <-time.After(500 * time.Millisecond):
		}
		r.failMu.Lock()
		f := r.failed
		r.failMu.Unlock()
		if f == nil {
			return hx.Fail("blocks-forever", "not all goroutines finished within %v:\n%s", watchdog, r.history())
		}
	}
	v := r.verdict()
	return v
}

// history renders, per goroutine, the ops that returned and the one in flight.
func (r *run) history() string {
	var sb strings.Builder
	for g, st := range r.gs {
		st.mu.Lock()
		log := append([]rec{}, st.log...)
		st.mu.Unlock()
		cur := int(st.cur.Load())
		fmt.Fprintf(&sb, "g%d: %d of %d ops returned", g, len(log), len(r.c.G[g]))
		if cur >= 0 && cur < len(r.c.G[g]) && len(log) <= cur {
			if st.call.Load() {
				fmt.Fprintf(&sb, "; BLOCKED inside #%d %s", cur, r.c.G[g][cur])
			} else {
				fmt.Fprintf(&sb, "; waiting at the harness barrier of #%d %s", cur, r.c.G[g][cur])
			}
		} else if cur < 0 {
			sb.WriteString("; finished")
		}
		from := len(log) - 6
		if from < 0 {
			from = 0
		}
		sb.WriteString("; last returned:")
		for _, e := range log[from:] {
			res := "err"
			if e.ok {
				res = "ok"
			}
			fmt.Fprintf(&sb, " #%d %s=%s", e.i, r.c.G[g][e.i], res)
		}
		sb.WriteString("\n")
	}
	return sb.String()
}

// verdict: first failure seen by a goroutine, else the final whole-tree check; then labels.
func (r *run) verdict() hx.Verdict {
	v := hx.Pass()
	r.failMu.Lock()
	f := r.failed
	r.failMu.Unlock()
	if f != nil {
		v = hx.Fail(f.clause, "%s", f.detail)
		v.Step = f.i
	} else if cl, msg := r.finalCheck(); cl != "" {
		v = hx.Fail(cl, "final tree: %s", msg)
	}
	r.classify(&v)
	return v
}

// finalCheck walks the whole filespace after every goroutine has finished.
func (r *run) finalCheck() (string, string) {
	root, problem := fsmodel.Walk(r.fs, true)
	if problem != "" {
		cl := "final-walk"
		if strings.Contains(problem, "twice") {
			cl = "listing-duplicate"
		}
		return cl, problem
	}
	// 1. everything certainly created and never removed is there; shared content is a whole value
	for _, p := range r.shared {
		n := root.Lookup(segs(p))
		if r.created[p].Load() && n == nil {
			return "visible-afterwards", fmt.Sprintf("shared node %q whose creation returned successfully is missing", p)
		}
		if n == nil {
			continue
		}
		m := r.mask[p]
		if n.Dir && m&2 == 0 || !n.Dir && m&1 == 0 {
			return "one-node", fmt.Sprintf("shared node %q exists as dir=%v but only the other kind is ever created there", p, n.Dir)
		}
		if !n.Dir && !r.validAt(p, n.Data) {
			return "complete-value", fmt.Sprintf("shared file %q finally holds %s, which is not (as a whole) any value written to it", p, clip(n.Data))
		}
	}
	// 2. private nodes: exactly the owner's model
	for g, st := range r.gs {
		tops := make([]string, 0, len(st.priv))
		for t := range st.priv {
			tops = append(tops, t)
		}
		sort.Strings(tops)
		for _, t := range tops {
			got := root.Lookup(segs(t))
			if got == nil {
				return "private-visible", fmt.Sprintf("private node %q of g%d is missing although its owner created it and did not remove it", t, g)
			}
			if d := fsmodel.Diff(st.priv[t], got, t); d != "" {
				return "private-visible", fmt.Sprintf("private node of g%d differs from its owner's model: %s", g, d)
			}
		}
	}
	// 3. nothing else exists: every node is a known shared path or a private node of its owner's model
	var extra func(n *fsmodel.Node, at string) string
	extra = func(n *fsmodel.Node, at string) string {
		for _, name := range n.Names() {
			p := join(at, name)
			if og, _, ok := privSeg(name); ok {
				if og >= len(r.gs) || r.gs[og].priv[p] == nil {
					return fmt.Sprintf("private node %q exists although its owner removed it or never created it", p)
				}
				continue
			}
			if _, ok := r.mask[p]; !ok {
				return fmt.Sprintf("node %q exists although no operation creates it", p)
			}
			if k := n.Kids[name]; k.Dir {
				if msg := extra(k, p); msg != "" {
					return msg
				}
			}
		}
		return ""
	}
	if msg := extra(root, ""); msg != "" {
		return "private-visible", msg
	}
	return "", ""
}

// classify attaches labels, counters and the non-triviality verdict.
func (r *run) classify(v *hx.Verdict) {
	c := r.c
	v.Label("procs=" + strconv.Itoa(c.Procs))
	switch n := len(c.G); {
	case n == 2:
		v.Label("goroutines=2")
	case n <= 4:
		v.Label("goroutines=3-4")
	default:
		v.Label("goroutines=5-8")
	}
	type iv struct {
		g      int
		t0, t1 int64
		op     Op
		ok     bool
	}
	var all []iv
	kinds := map[string]bool{}
	for g, st := range r.gs {
		st.mu.Lock()
		for _, e := range st.log {
			op := c.G[g][e.i]
			all = append(all, iv{g, e.t0, e.t1, op, e.ok})
			kinds[op.K] = true
		}
		st.mu.Unlock()
	}
	for _, k := range []string{"Ws", "Rs", "Rp", "Cf", "Cd", "Rm", "Ra"} {
		if kinds[k] {
			v.Label("op-" + k)
		}
	}
	bl := map[string]bool{}
	for _, b := range r.bursts {
		if b.n < 2 {
			continue
		}
		switch {
		case b.name == "" || b.creates < 2:
			bl["burst-dir-traffic"] = true
		case r.pure[b.name] == 1:
			bl["burst-same-name-files"] = true
		case r.pure[b.name] == 2:
			bl["burst-same-name-dirs"] = true
		default:
			bl["burst-same-name-mixed"] = true
		}
	}
	for _, l := range []string{"burst-dir-traffic", "burst-same-name-files", "burst-same-name-dirs", "burst-same-name-mixed"} {
		if bl[l] {
			v.Label(l)
		}
	}
	overlap := func(a, b iv) bool { return a.g != b.g && a.t0 < b.t1 && b.t0 < a.t1 }
	createList, createRemove, ww, rw := false, false, false, false
	for x := 0; x < len(all); x++ {
		a := all[x]
		if !a.ok || !isCreate(a.op.K) {
			continue
		}
		ad, _ := split(a.op.P)
		for y := 0; y < len(all); y++ {
			b := all[y]
			if !overlap(a, b) {
				continue
			}
			bd, _ := split(b.op.P)
			_, _, ao := splitPriv(ad)
			if ao < 0 { // a shared directory received a new child ...
				if b.op.K == "L" && b.op.P == ad {
					createList = true
				}
				if (b.op.K == "Rm" || b.op.K == "Ra") && bd == ad && b.ok {
					createRemove = true
				}
			}
			if (a.op.K == "W" || a.op.K == "Ws") && a.op.P == b.op.P {
				if (b.op.K == "W" || b.op.K == "Ws") && b.ok {
					ww = true
				}
				if b.op.K == "R" || b.op.K == "Rs" || b.op.K == "Rp" {
					rw = true
				}
			}
		}
	}
	if createList {
		v.Label("overlap-create-list")
	}
	if createRemove {
		v.Label("overlap-create-remove")
	}
	if ww {
		v.Label("overlap-write-write")
	}
	if rw {
		v.Label("overlap-read-write")
	}
	v.NonTrivial = len(c.G) >= 2 && (createList || createRemove)
	var hits int64
	for k := range yieldPoints {
		n := r.hookN[k].Load()
		hits += n
		if n > 0 {
			v.Count("hook:"+yieldPoints[k], n)
		}
	}
	if len(c.Yield) > 0 && hits > 0 {
		v.Label("yield-plan")
	}
	v.Count("ops-executed", int64(len(all)))
	if s := r.skipped.Load(); s > 0 {
		v.Count("ops-outside-domain-skipped", s)
	}
}
