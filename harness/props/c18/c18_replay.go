package c18

// Delimiter replay (two-step, metamorphic): whatever scheme a builder uses to fence a value
// inside the start-up script, a value must not be able to reproduce the fence. The case
// builds the script of a base environment once, reads out of that script every fence token
// it can recognise (here-document delimiters after `<<` / `<<-`, and - independent of the
// scheme - the structural text that follows each value), then configures values that carry
// those very tokens on a line of their own followed by an attack payload, builds the script
// AGAIN with the real builder and hands it to the ordinary oracle (verbatim, exported,
// no-other-variable, exit-0, no-command-ran). A fence that is random per build makes the
// replayed token plain data; a constant, per-process, per-environment or name-derived
// fence lets the payload run.

import (
	"fmt"
	"runtime"
	"strings"

	"pgregory.net/rapid"
	"verif/harness/hx"
)

// Attack rewrites the value of one base variable using a token read from script 1.
type Attack struct {
	Target  int    `json:"target"`  // index into Base (mod len): the variable whose value carries the attack
	Owner   string `json:"owner"`   // "own": a token that fenced Target's own value; "other": one that fenced another variable; "any"
	Pick    int    `json:"pick"`    // which candidate token (mod count)
	Form    int    `json:"form"`    // 0 token on a line of its own; 1 token glued to the prefix; 2 token + the structural lines that followed it in script 1
	Prefix  B      `json:"prefix"`  // value text before the token
	Payload int    `json:"payload"` // index into the payload list (mod len)
	Victim  int    `json:"victim"`  // index into Base (mod len): the OTHER variable a payload tries to alter
	Reopen  bool   `json:"reopen"`  // end with the opener line seen in script 1 (dummy name) so that the rest of the script still parses
}

// ReplayCase is the delimiter-replay case kind.
type ReplayCase struct {
	Builder string   `json:"builder"`
	Base    []Var    `json:"base"`     // documented, distinct names
	Attacks []Attack `json:"attacks"`  // applied in order
	SameEnv bool     `json:"same_env"` // second build on the same Environments object (values overwritten) instead of a fresh one
	// GC: two garbage collections run between the two builds (whatever the builders keep in
	// pools or caches between calls is dropped and re-created: a re-created generator that starts
	// over repeats the fences of script 1).
	GC bool `json:"gc,omitempty"`
}

// token is one fence text recognised in script 1.
type token struct {
	text   string
	owner  string   // variable it fenced ("" unknown)
	kind   string   // heredoc | closer-line | closer-inline
	tail   []string // structural lines that followed the token in script 1 (e.g. ")")
	opener string   // the script line that opened the fence, with a dummy variable name
	bodyAt int      // heredoc: offset in the script of the first byte of the here-document body
}

func isIdentByte(c byte) bool { return isLetter(c) || isDigit(c) || c == '_' }

// assignedName returns the NAME of a leading `NAME=` / `export NAME=` in line.
func assignedName(line string) (name string, rest int) {
	s := strings.TrimLeft(line, " \t")
	off := len(line) - len(s)
	for _, kw := range []string{"export ", "readonly ", "local "} {
		if strings.HasPrefix(s, kw) {
			s = s[len(kw):]
			off += len(kw)
		}
	}
	i := 0
	for i < len(s) && isIdentByte(s[i]) {
		i++
	}
	if i == 0 || i >= len(s) || s[i] != '=' || isDigit(s[0]) {
		return "", 0
	}
	return s[:i], off + i
}

func punctuationOnly(line string) bool {
	if line == "" {
		return false
	}
	for i := 0; i < len(line); i++ {
		if !strings.ContainsRune(")]}'\"`; \t", rune(line[i])) {
			return false
		}
	}
	return true
}

// extractTokens reads the fences out of a script. base maps names to the values that were
// configured when the script was built.
func extractTokens(script string, base []Var) []token {
	var out []token
	seen := map[string]bool{}
	add := func(t token) {
		if t.text == "" || strings.ContainsAny(t.text, "\n\x00") {
			return
		}
		key := t.kind + "\x00" + t.owner + "\x00" + t.text
		if seen[key] {
			return
		}
		seen[key] = true
		out = append(out, t)
	}
	lines := strings.Split(script, "\n")
	// 1. here-document delimiters: << or <<-, optional blanks, a quoted or plain word
	pos := 0
	for li, line := range lines {
		nextLine := pos + len(line) + 1
		pos = nextLine
		for at := 0; at+1 < len(line); at++ {
			if line[at] != '<' || line[at+1] != '<' {
				continue
			}
			j := at + 2
			if j < len(line) && line[j] == '<' { // here-string
				at = j
				continue
			}
			if j < len(line) && line[j] == '-' {
				j++
			}
			for j < len(line) && (line[j] == ' ' || line[j] == '\t') {
				j++
			}
			var word strings.Builder
			for j < len(line) {
				c := line[j]
				if c == '\'' || c == '"' {
					end := strings.IndexByte(line[j+1:], c)
					if end < 0 {
						word.WriteString(line[j+1:])
						j = len(line)
						break
					}
					word.WriteString(line[j+1 : j+1+end])
					j += end + 2
					continue
				}
				if c == '\\' && j+1 < len(line) {
					word.WriteByte(line[j+1])
					j += 2
					continue
				}
				if strings.ContainsRune(" \t;&|()<>", rune(c)) {
					break
				}
				word.WriteByte(c)
				j++
			}
			t := token{text: word.String(), kind: "heredoc", bodyAt: nextLine}
			if t.bodyAt > len(script) {
				t.bodyAt = -1
			}
			if name, eq := assignedName(line); name != "" {
				t.owner = name
				t.opener = "C18_DUMMY" + line[eq:]
			}
			// the structural lines after the closing delimiter line
			for k := li + 1; k < len(lines); k++ {
				if strings.TrimLeft(lines[k], "\t") == t.text {
					for m := k + 1; m < len(lines) && punctuationOnly(lines[m]) && len(t.tail) < 3; m++ {
						t.tail = append(t.tail, lines[m])
					}
					break
				}
			}
			add(t)
			at = j
		}
	}
	// 2. scheme-independent: what follows each configured value in the script
	for _, kv := range base {
		val := strings.TrimRight(string(kv.Value), "\n")
		if len(val) < 6 {
			continue
		}
		idx := strings.Index(script, val)
		if idx < 0 {
			continue
		}
		rest := script[idx+len(val):]
		nl := strings.IndexByte(rest, '\n')
		if nl < 0 {
			add(token{text: rest, owner: string(kv.Name), kind: "closer-inline"})
			continue
		}
		if nl > 0 {
			add(token{text: rest[:nl], owner: string(kv.Name), kind: "closer-inline"})
		}
		after := strings.Split(rest[nl+1:], "\n")
		for len(after) > 0 && after[0] == "" { // trailing newlines of the value
			after = after[1:]
		}
		if len(after) > 0 {
			if n, _ := assignedName(after[0]); n == "" && !strings.HasPrefix(after[0], "export ") {
				t := token{text: after[0], owner: string(kv.Name), kind: "closer-line"}
				for m := 1; m < len(after) && punctuationOnly(after[m]) && len(t.tail) < 3; m++ {
					t.tail = append(t.tail, after[m])
				}
				add(t)
			}
		}
	}
	return out
}

var replayPayloads = []string{
	"touch canary",
	"%VICTIM%=pwned",
	sentinelName + "=pwned",
	"export C18_INJECTED=1",
	"touch canary; %VICTIM%=pwned; export %VICTIM%",
	"exit 0",
}

// GenReplay draws a delimiter-replay case.
func GenReplay(rt *rapid.T) ReplayCase {
	c := ReplayCase{Builder: Builders[hx.Uniform(rt, 2, "builder")], SameEnv: hx.Chance(rt, 50, "sameenv"), GC: hx.Chance(rt, 30, "gc")}
	nb := 1 + hx.Uniform(rt, 4, "nbase")
	used := map[string]bool{}
	for i := 0; i < nb; i++ {
		name := genValidName(rt)
		if !documented(name) { // keep letters and underscores only, start with a letter
			var b []byte
			for j := 0; j < len(name); j++ {
				if isLetter(name[j]) || name[j] == '_' {
					b = append(b, name[j])
				}
			}
			name = "Q" + string(b)
		}
		for used[name] || reserved(name) {
			name = "q" + name
		}
		used[name] = true
		val := fmt.Sprintf("c18m%dx", i) // distinctive: lets the scheme-independent extraction find the value
		if hx.Chance(rt, 40, "basevalue") {
			val += genValue(rt)
		}
		c.Base = append(c.Base, Var{Name: B(name), Value: B(val)})
	}
	na := 1 + hx.Uniform(rt, 2, "nattacks")
	for i := 0; i < na; i++ {
		a := Attack{Target: hx.Uniform(rt, nb, "target"), Pick: hx.Uniform(rt, 8, "pick"), Form: hx.Uniform(rt, 3, "form"),
			Payload: hx.Uniform(rt, len(replayPayloads), "payload"), Victim: hx.Uniform(rt, nb, "victim"), Reopen: hx.Chance(rt, 50, "reopen")}
		switch k := hx.Uniform(rt, 10, "owner"); {
		case k < 5:
			a.Owner = "own"
		case k < 8:
			a.Owner = "other"
		default:
			a.Owner = "any"
		}
		n := hx.Uniform(rt, 4, "prefixlen")
		var sb strings.Builder
		for j := 0; j < n; j++ {
			sb.WriteByte(Alphabet[hx.Uniform(rt, len(Alphabet), "pch")])
		}
		a.Prefix = B(sb.String())
		c.Attacks = append(c.Attacks, a)
	}
	return c
}

// ExecReplay runs one delimiter-replay case.
func ExecReplay(c ReplayCase) hx.Verdict {
	return hx.Guard(func() hx.Verdict { return execReplay(c) })
}

func execReplay(c ReplayCase) hx.Verdict {
	r := newRunner()
	if c.Builder != "container" && c.Builder != "ssh" || len(c.Base) == 0 {
		return r.done(inconclusive("malformed replay case"))
	}
	r.lab["replay"] = true
	seenName := map[string]bool{}
	var baseSets []SetOp
	for _, kv := range c.Base {
		if !documented(string(kv.Name)) || seenName[string(kv.Name)] || reserved(string(kv.Name)) {
			return r.done(inconclusive("replay base names must be distinct documented names"))
		}
		seenName[string(kv.Name)] = true
		baseSets = append(baseSets, SetOp{Vars: []Var{kv}})
	}
	// step 1: base environment, script 1 (built, not run)
	if v, ok := r.apply(baseSets, 0); !ok {
		return r.done(v)
	}
	script1, v, ok := r.build(c.Builder)
	if !ok {
		return r.done(v)
	}
	// step 2: the fences actually used
	tokens := extractTokens(string(script1), c.Base)
	nHeredoc := 0
	for _, t := range tokens {
		if t.kind == "heredoc" {
			nHeredoc++
		}
	}
	if nHeredoc > 0 {
		r.lab["replay-heredoc-delimiter-extracted"] = true
	} else {
		r.lab["replay-no-heredoc-found"] = true
	}
	if len(tokens) == 0 {
		r.lab["replay-no-token"] = true
	} else {
		r.lab["replay-fence-token-extracted"] = true
	}
	if c.GC {
		runtime.GC()
		runtime.GC()
		r.lab["replay-gc-between-builds"] = true
	}
	// step 3: values carrying those fences + payload
	values := map[string]string{}
	order := make([]string, 0, len(c.Base))
	for _, kv := range c.Base {
		values[string(kv.Name)] = string(kv.Value)
		order = append(order, string(kv.Name))
	}
	attacked := map[string]bool{}
	usedToken := false
	for _, a := range c.Attacks {
		if len(tokens) == 0 {
			break
		}
		target := order[mod(a.Target, len(order))]
		victim := order[mod(a.Victim, len(order))]
		if victim == target {
			victim = sentinelName
			if len(order) > 1 {
				victim = order[mod(a.Victim+1, len(order))]
			}
		}
		var cands []token
		for _, t := range tokens {
			switch a.Owner {
			case "own":
				if t.owner == target {
					cands = append(cands, t)
				}
			case "other":
				if t.owner != "" && t.owner != target {
					cands = append(cands, t)
				}
			default:
				cands = append(cands, t)
			}
		}
		ownerLabel := a.Owner
		if len(cands) == 0 {
			cands, ownerLabel = tokens, "any"
		}
		t := cands[mod(a.Pick, len(cands))]
		if ownerLabel == "any" {
			switch {
			case t.owner == target:
				ownerLabel = "own"
			case t.owner != "":
				ownerLabel = "other"
			}
		}
		payload := strings.ReplaceAll(replayPayloads[mod(a.Payload, len(replayPayloads))], "%VICTIM%", victim)
		var sb strings.Builder
		sb.WriteString(string(a.Prefix))
		switch mod(a.Form, 3) {
		case 0:
			sb.WriteString("\n" + t.text + "\n")
		case 1:
			sb.WriteString(t.text + "\n")
			r.lab["replay-form-glued"] = true
		default:
			sb.WriteString("\n" + t.text + "\n")
			for _, l := range t.tail {
				sb.WriteString(l + "\n")
			}
			if len(t.tail) > 0 {
				r.lab["replay-form-with-structural-tail"] = true
			}
		}
		sb.WriteString(payload + "\n")
		if a.Reopen && t.opener != "" {
			sb.WriteString(t.opener)
			r.lab["replay-reopen"] = true
		} else {
			sb.WriteString("c18tail")
		}
		values[target] = sb.String()
		attacked[target] = true
		usedToken = true
		r.lab["replay-"+ownerLabel+"-delimiter"] = true
		r.lab["replay-token-"+t.kind] = true
		switch {
		case strings.Contains(payload, "touch"):
			r.lab["replay-payload-runs-command"] = true
		case strings.Contains(payload, victim+"="):
			r.lab["replay-payload-alters-other-variable"] = true
		}
	}
	var sets2 []SetOp
	if c.SameEnv {
		r.lab["replay-same-environment-object"] = true
		for _, k := range order {
			if attacked[k] {
				sets2 = append(sets2, SetOp{Vars: []Var{{Name: B(k), Value: B(values[k])}}})
			}
		}
	} else {
		r.e, r.model = newRunner().e, map[string]string{}
		op := SetOp{All: true}
		for _, k := range order {
			op.Vars = append(op.Vars, Var{Name: B(k), Value: B(values[k])})
		}
		sets2 = []SetOp{op}
	}
	if v, ok := r.apply(sets2, len(baseSets)); !ok {
		return r.done(v)
	}
	script2, v, ok := r.build(c.Builder)
	if !ok {
		return r.done(v)
	}
	out := r.judge(c.Builder, script2)
	if out.OK && !out.Inconclusive {
		out.NonTrivial = usedToken
	}
	return r.done(out)
}

func mod(a, n int) int {
	a %= n
	if a < 0 {
		a += n
	}
	return a
}
