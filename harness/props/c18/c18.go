// Package c18: environment values reach sandbox shells verbatim, with no shell
// interpretation; names that are not plain identifiers are rejected when they are set.
//
// A case is a short program of Set/SetAll calls on a real envs.Environments followed by
// one of the two start-up script builders (dcmd.InitSequence for containers, the private
// builder of the SSH sandbox through the verif hook). The produced script, followed by a
// dump trailer standing in for the user's input, is piped to the real /bin/sh in an empty
// directory with a scrubbed environment, exactly the way both sandboxes feed it (stdin).
package c18

import (
	"bytes"
	"context"
	"encoding/json"
	"fmt"
	"io"
	"os"
	"os/exec"
	"path/filepath"
	"sort"
	"strings"
	"sync"
	"time"
	"unicode/utf8"

	"github.com/goatcms/goatcore/app/modules/commonm/commservices"
	"github.com/goatcms/goatcore/app/modules/commonm/commservices/envs"
	"github.com/goatcms/goatcore/app/modules/ocm/ocservices/dcmd"
	"github.com/goatcms/goatcore/app/modules/pipelinem/pipservices/sandboxes/sshsb"
	"pgregory.net/rapid"
	"verif/harness/hx"
)

// B is a byte string that survives JSON unchanged: every byte is written as the code
// point with the same number (Latin-1), so ASCII reads verbatim in case files and bytes
// 0x80-0xFF (which encoding/json would replace by U+FFFD) are kept.
type B string

// MarshalJSON implements json.Marshaler.
func (b B) MarshalJSON() ([]byte, error) {
	r := make([]rune, len(b))
	for i := 0; i < len(b); i++ {
		r[i] = rune(b[i])
	}
	return json.Marshal(string(r))
}

// UnmarshalJSON implements json.Unmarshaler.
func (b *B) UnmarshalJSON(raw []byte) error {
	var s string
	if err := json.Unmarshal(raw, &s); err != nil {
		return err
	}
	out := make([]byte, 0, len(s))
	for _, r := range s {
		if r > 0xFF || r == utf8.RuneError {
			return fmt.Errorf("c18.B: code point %U outside Latin-1", r)
		}
		out = append(out, byte(r))
	}
	*b = B(out)
	return nil
}

// Var is one name/value pair.
type Var struct {
	Name  B `json:"name"`
	Value B `json:"value"`
}

// SetOp is one call: Set(Vars[0]) or, when All, SetAll(map of Vars; later entries win).
type SetOp struct {
	All  bool  `json:"all,omitempty"`
	Vars []Var `json:"vars"`
}

// Case: calls on a fresh Environments, then one builder.
type Case struct {
	Builder string  `json:"builder"` // "container" | "ssh"
	Sets    []SetOp `json:"sets"`
}

// Builders are the two sandbox kinds.
var Builders = []string{"container", "ssh"}

// ---------------------------------------------------------------------------------------
// name classes

func isLetter(c byte) bool { return c >= 'a' && c <= 'z' || c >= 'A' && c <= 'Z' }
func isDigit(c byte) bool  { return c >= '0' && c <= '9' }

// shellIdent: a plain (POSIX shell) identifier. Everything else must be rejected.
func shellIdent(s string) bool {
	if s == "" {
		return false
	}
	for i := 0; i < len(s); i++ {
		c := s[i]
		if !(isLetter(c) || c == '_' || (i > 0 && isDigit(c))) {
			return false
		}
	}
	return true
}

// documented: the rule of the doc comments of Set/SetAll ("letters and underscores,
// first char must be letter"). These must be accepted.
func documented(s string) bool {
	if s == "" || !isLetter(s[0]) {
		return false
	}
	for i := 1; i < len(s); i++ {
		if !(isLetter(s[i]) || s[i] == '_') {
			return false
		}
	}
	return true
}

// reserved names have a meaning for the shell or for the oracle itself (PATH finds cat,
// HOME/PWD are part of the scrubbed baseline); configuring them changes what a correct
// script does, so the generator never uses them and the executor does not judge them.
var reservedNames = map[string]bool{"PATH": true, "HOME": true, "PWD": true, "OLDPWD": true, "IFS": true, "PS": true,
	"ENV": true, "CDPATH": true, "OPTIND": true, "OPTARG": true, "PPID": true, "MAIL": true, "MAILPATH": true, "MAILCHECK": true,
	"TERM": true, "HISTSIZE": true, "FCEDIT": true, "LINENO": true, "LANG": true, "LANGUAGE": true, "TMPDIR": true, "SHELL": true,
	"POSIXLY_CORRECT": true, "NLSPATH": true, "TZ": true, "COLUMNS": true, "LINES": true}

func reserved(s string) bool {
	u := strings.ToUpper(s)
	return reservedNames[u] || strings.HasPrefix(u, "LC_") || strings.HasPrefix(u, "PS") && len(u) == 3 ||
		strings.HasPrefix(u, "LD_") || strings.HasPrefix(u, "C18")
}

// ---------------------------------------------------------------------------------------
// generator

// Alphabet is the exhaustive-enumeration alphabet of shell-significant characters.
const Alphabet = "$`\"'\\\n();# Ea"

// significant: characters that mean something to a shell somewhere.
const significant = "$`\"'\\\n();# \t&|<>*?[]{}~!=%\r"

var fragments = []string{
	"$(touch canary)", "`touch canary`", "${HOME}", "$HOME", "$PATH", "~", "~/x", "$$", "$?", "$((1+1))", "$C18_SENTINEL",
	"\\", "\\\\", "\\n", "\\$", "\\`", "\n", "EOF", "\nEOF\n", "EOFABC", "EOFAAAAAAAAAA", "'EOF'", "\n'EOF'\n", "'", "\"",
	"'$(touch canary)'", "\"$(touch canary)\"", "'`touch canary`'", ")", "\n)\n", "(", "$(", "${", "#", " # x", ";touch canary;",
	"|touch canary", "&", "&&touch canary", "> canary", ">canary", "< /dev/null", "*", "?", "[a-z]", "{a,b}", "!", "%s", "\\c",
	"-n", "\r", "\t", "  ", " ", "$A", "${Vx}", "$b", "hello", "a b", "=", "A=pwned", "export A=pwned",
	"\nEOF\n)\nA=pwned\ntouch canary\n: $(cat <<EOF", "\nEOF\n)\nC18_SENTINEL=pwned\n: $(cat <<'EOF'",
	"$(cat <<EOF\nx\nEOF\n)", "$(echo pwned > canary)", "`echo x`", "$(printf 'A\\000B')", "${A:-dflt}", "${#A}", "$1", "$@", "$*", "$0",
}

var namePool = []string{"A", "b", "Vx", "FOO_BAR", "EOF", "a_", "Z__z", "cat", "export", "set"}
var eitherNames = []string{"_a", "A1", "a_1", "__", "x9_"}
var invalidNames = []string{"", "1A", "9", "A B", " A", "A ", "A\t", "A=B", "A=", "=A", "A-B", "A.B", "A$", "$A", "${A}", "A;touch canary;",
	"A;touch canary", "A\n", "\nA", "A\nB", "A\ntouch canary", "\xc3\xa9", "A\xc3\xa9", "A\x00", "A`touch canary`", "A$(touch canary)", "A(",
	"A()", "A+", "A[0]", "A*", "A/B", "A:B", "A,B", "A'", "A\"", "A\\", "A#", "A&touch canary", "A|touch canary", "A>canary", "-A", "A\r"}

const letters = "abcdefghijklmnopqrstuvwxyzABCDEFGHIJKLMNOPQRSTUVWXYZ"

// unlikely is true with probability pct/100 and false on the shrunk (all-zero) draw.
func unlikely(rt *rapid.T, pct int, label string) bool { return !hx.Chance(rt, 100-pct, label) }

func genValidName(rt *rapid.T) string {
	var s string
	switch {
	case hx.Chance(rt, 45, "namepool"):
		s = namePool[hx.Uniform(rt, len(namePool), "poolname")]
	case unlikely(rt, 8, "nameeither"):
		s = eitherNames[hx.Uniform(rt, len(eitherNames), "eithername")]
	default:
		n := rapid.IntRange(0, 6).Draw(rt, "namelen")
		b := []byte{letters[hx.Uniform(rt, len(letters), "l0")]}
		for i := 0; i < n; i++ {
			k := hx.Uniform(rt, len(letters)+6, "l")
			if k >= len(letters) {
				b = append(b, '_')
			} else {
				b = append(b, letters[k])
			}
		}
		s = string(b)
	}
	for reserved(s) {
		s = "x" + s
	}
	return s
}

func genInvalidName(rt *rapid.T) string {
	if hx.Chance(rt, 60, "invpool") {
		return invalidNames[hx.Uniform(rt, len(invalidNames), "invname")]
	}
	// a documented name with one non-identifier byte spliced in at a uniform position
	base := genValidName(rt)
	var c byte
	for {
		c = byte(hx.Uniform(rt, 256, "badbyte"))
		if !(isLetter(c) || isDigit(c) || c == '_') {
			break
		}
	}
	pos := hx.Uniform(rt, len(base)+1, "badpos")
	return base[:pos] + string([]byte{c}) + base[pos:]
}

func genValue(rt *rapid.T) string {
	var sb strings.Builder
	alpha := func(max int) {
		n := hx.Uniform(rt, max+1, "alen")
		for i := 0; i < n; i++ {
			sb.WriteByte(Alphabet[hx.Uniform(rt, len(Alphabet), "ach")])
		}
	}
	frags := func(max int) {
		n := 1 + hx.Uniform(rt, max, "fn")
		for i := 0; i < n; i++ {
			sb.WriteString(fragments[hx.Uniform(rt, len(fragments), "frag")])
		}
	}
	raw := func(max int) {
		n := hx.Uniform(rt, max+1, "rlen")
		for i := 0; i < n; i++ {
			sb.WriteByte(byte(1 + hx.Uniform(rt, 255, "rb")))
		}
	}
	big := hx.Thorough() && unlikely(rt, 10, "big")
	switch k := hx.Uniform(rt, 100, "vkind"); {
	case k < 28:
		alpha(8)
	case k < 58:
		frags(4)
	case k < 80:
		raw(12)
	default:
		n := 1 + hx.Uniform(rt, 4, "mixn")
		for i := 0; i < n; i++ {
			switch hx.Uniform(rt, 3, "mixk") {
			case 0:
				alpha(4)
			case 1:
				frags(2)
			default:
				raw(5)
			}
		}
	}
	if big {
		// a long body (pipe/heredoc buffering): repeat what was drawn
		s := sb.String()
		rep := 1 + hx.Uniform(rt, 400, "rep")
		for i := 0; i < rep && sb.Len() < 20000; i++ {
			sb.WriteString(s)
			sb.WriteByte(Alphabet[hx.Uniform(rt, len(Alphabet), "bigsep")])
		}
	}
	if unlikely(rt, 10, "trailnl") {
		sb.WriteString(strings.Repeat("\n", 1+hx.Uniform(rt, 3, "ntrail")))
	}
	val := sb.String()
	if hx.Excluded(ClassDelimPrefixHighByte) {
		if fixed, n := avoidDelimPrefixHighByte(val); n > 0 {
			hx.CountExcluded(ClassDelimPrefixHighByte)
			val = fixed
		}
	}
	return val
}

// ClassDelimPrefixHighByte names the generator class excluded while the open finding
// C18-dash-delimiter-prefix-highbyte stands: a value with a line that starts with a
// non-empty prefix of a possible here-document terminator ("E", "EO", "EOF" + up to ten
// capitals) immediately followed by a byte >= 0x80. dash 0.5.12 drops that byte while it
// looks for the terminator, whatever the quoting of the here-document.
const ClassDelimPrefixHighByte = "c18.delimPrefixHighByte"

// delimPrefixHighByteAt returns the index of the first offending byte of val, or -1.
func delimPrefixHighByteAt(val string) int {
	const tagHead = "EOF"
	for at := 0; at < len(val); {
		end := strings.IndexByte(val[at:], '\n')
		if end < 0 {
			end = len(val)
		} else {
			end += at
		}
		line := val[at:end]
		i := 0
		for i < len(line) && i < len(tagHead) && line[i] == tagHead[i] {
			i++
		}
		if i == len(tagHead) {
			for i < len(line) && i < len(tagHead)+10 && line[i] >= 'A' && line[i] <= 'Z' {
				i++
			}
		}
		if i > 0 && i < len(line) && line[i] >= 0x80 {
			return at + i
		}
		at = end + 1
	}
	return -1
}

// delimPrefixHighByteFor is the terminator-relative form of the class: the index of a byte
// >= 0x80 that directly follows a non-empty (proper or full) prefix of delim at the start
// of a line of val, or -1.
func delimPrefixHighByteFor(val, delim string) int {
	if delim == "" {
		return -1
	}
	for at := 0; at < len(val); {
		end := strings.IndexByte(val[at:], '\n')
		if end < 0 {
			end = len(val)
		} else {
			end += at
		}
		line := val[at:end]
		i := 0
		for i < len(line) && i < len(delim) && line[i] == delim[i] {
			i++
		}
		if i > 0 && i < len(line) && line[i] >= 0x80 {
			return at + i
		}
		at = end + 1
	}
	return -1
}

// guardingDelimiters reads from the script the here-document terminators that guard the
// value of each configured variable: a `NAME=...<<['"]WORD['"]` line of a configured NAME
// whose here-document body begins with the configured value.
func guardingDelimiters(script string, model map[string]string) map[string][]string {
	out := map[string][]string{}
	if !strings.Contains(script, "<<") {
		return out
	}
	for _, t := range extractTokens(script, nil) {
		if t.kind != "heredoc" || t.owner == "" || t.bodyAt < 0 {
			continue
		}
		val, ok := model[t.owner]
		if !ok || !strings.HasPrefix(script[t.bodyAt:], val) {
			continue
		}
		out[t.owner] = append(out[t.owner], t.text)
	}
	return out
}

// avoidDelimPrefixHighByte rewrites val out of the excluded class (the offending byte
// loses its top bit) and reports how many bytes were changed.
func avoidDelimPrefixHighByte(val string) (string, int) {
	n := 0
	for {
		i := delimPrefixHighByteAt(val)
		if i < 0 {
			return val, n
		}
		b := []byte(val)
		b[i] &= 0x7f
		if b[i] == 0 || b[i] == '\n' {
			b[i] = '~'
		}
		val = string(b)
		n++
	}
}

// NameGuesses lists fence texts that a builder could derive from a variable name.
func NameGuesses(name string) []string {
	u, l := strings.ToUpper(name), strings.ToLower(name)
	return []string{"EOF_" + u, "EOF" + u, name, "EOF_" + name, "EOF" + name, "EOF_" + l, "EOF" + l, u, u + "_EOF", "END_" + u, "EOF_" + u + "_EOF", "__" + u + "__"}
}

func withNameGuess(rt *rapid.T, value, name string) string {
	g := NameGuesses(name)
	guess := g[hx.Uniform(rt, len(g), "guess")]
	value = strings.TrimRight(value, "\n")
	if hx.Excluded(ClassDelimPrefixHighByte) && len(value) > 0 && value[len(value)-1] >= 0x80 {
		value += "~" // keep "prefix of a delimiter + high byte" out of reach when the guess is glued below
	}
	var tail string
	switch hx.Uniform(rt, 4, "guesstail") {
	case 0:
		tail = "touch canary\n"
	case 1:
		tail = ")\ntouch canary\n" + sentinelName + "=pwned\n: $(cat <<'" + guess + "'\n"
	case 2:
		tail = ")\nexport C18_INJECTED=1\n"
	default:
		tail = "" // the bare line
	}
	return value + "\n" + guess + "\n" + tail
}

// Gen draws a case: 0-6 variables spread over Set / SetAll calls, about one name in seven
// deliberately not an identifier.
func Gen(rt *rapid.T) Case {
	c := Case{Builder: Builders[hx.Uniform(rt, 2, "builder")]}
	if b := os.Getenv("VERIF_C18_BUILDER"); b != "" { // triage aid: restrict to one sandbox kind
		c.Builder = b
	}
	nvars := hx.Uniform(rt, 13, "nvars") // 0 with 1/13, 1..6 with 2/13 each
	if nvars > 6 {
		nvars -= 6
	}
	prevName := ""
	for nvars > 0 {
		op := SetOp{}
		k := 1
		if unlikely(rt, 30, "setall") {
			op.All = true
			k = 1 + hx.Uniform(rt, 3, "allsize")
			if k > nvars {
				k = nvars
			}
			if unlikely(rt, 4, "emptyall") {
				k = 0
			}
		}
		for i := 0; i < k; i++ {
			var name string
			if unlikely(rt, 14, "invalid") {
				name = genInvalidName(rt)
			} else {
				name = genValidName(rt)
			}
			value := genValue(rt)
			if unlikely(rt, 12, "nameguess") {
				// a delimiter guessed from a variable name (own or the previously drawn one) on a
				// line of its own, followed by a payload
				from := name
				if prevName != "" && unlikely(rt, 30, "guessother") {
					from = prevName
				}
				if !shellIdent(from) { // invalid names may hold NUL or newlines; values never contain NUL
					from = "A"
				}
				value = withNameGuess(rt, value, from)
			}
			prevName = name
			op.Vars = append(op.Vars, Var{Name: B(name), Value: B(value)})
		}
		c.Sets = append(c.Sets, op)
		if k == 0 {
			k = 1
		}
		nvars -= k
	}
	return c
}

// ---------------------------------------------------------------------------------------
// executor

const (
	sentinelName  = "C18_SENTINEL"
	sentinelValue = "sentinel-value"
	markBegin     = "C18-BEGIN"
	markMid       = "C18-MID"
	markEnd       = "C18-END"
)

var tools struct {
	once sync.Once
	err  error
	path map[string]string
}

func lookupTools() error {
	tools.once.Do(func() {
		tools.path = map[string]string{}
		for _, t := range []string{"cat", "touch", "env"} {
			found := ""
			for _, dir := range []string{"/bin", "/usr/bin"} {
				p := filepath.Join(dir, t)
				if st, err := os.Stat(p); err == nil && !st.IsDir() {
					found = p
					break
				}
			}
			if found == "" {
				tools.err = fmt.Errorf("tool %s not found", t)
				return
			}
			tools.path[t] = found
		}
		if _, err := os.Stat("/bin/sh"); err != nil {
			tools.err = err
		}
	})
	return tools.err
}

func q(s string) string {
	if len(s) > 300 {
		s = s[:300] + "..."
	}
	return fmt.Sprintf("%q", s)
}

func inconclusive(format string, a ...interface{}) hx.Verdict {
	v := hx.Pass()
	v.Inconclusive = true
	v.Label("inconclusive: " + fmt.Sprintf(format, a...))
	return v
}

// Exec runs one case.
func Exec(c Case) hx.Verdict {
	return hx.Guard(func() hx.Verdict { return exec1(c) })
}

// runner carries one execution: the real Environments, the model of what was set
// successfully, the labels and the pieces that make failure messages reproducible.
type runner struct {
	v        hx.Verdict // the passing verdict being accumulated (NonTrivial, counters)
	lab      map[string]bool
	tmpDir   string
	shellPid string
	e        commservices.Environments
	model    map[string]string
}

func newRunner() *runner {
	return &runner{v: hx.Pass(), lab: map[string]bool{}, e: envs.NewEnvironments(), model: map[string]string{}}
}

// done attaches the collected labels to the verdict that is returned.
func (r *runner) done(v hx.Verdict) hx.Verdict {
	ls := make([]string, 0, len(r.lab))
	for l := range r.lab {
		ls = append(ls, l)
	}
	sort.Strings(ls)
	v.Labels = append(v.Labels, ls...)
	return v
}

func (r *runner) fail(step int, clause, format string, a ...interface{}) hx.Verdict {
	f := hx.Fail(clause, format, a...)
	f.Step = step
	// keep the message reproducible (rapid shrinks only then)
	if r.tmpDir != "" {
		f.Detail = strings.ReplaceAll(f.Detail, r.tmpDir, "<TMP>")
	}
	if r.shellPid != "" {
		f.Detail = strings.ReplaceAll(f.Detail, r.shellPid, "<PID>")
	}
	return f
}

func exec1(c Case) hx.Verdict {
	r := newRunner()
	if c.Builder != "container" && c.Builder != "ssh" {
		return r.done(inconclusive("unknown builder"))
	}
	if len(c.Sets) == 0 {
		r.lab["empty-map"] = true
	}
	if v, ok := r.apply(c.Sets, 0); !ok {
		return r.done(v)
	}
	script, v, ok := r.build(c.Builder)
	if !ok {
		return r.done(v)
	}
	return r.done(r.judge(c.Builder, script))
}

// apply runs Set / SetAll calls on the real Environments and judges the name clauses.
// ok=false: the returned verdict ends the case.
func (r *runner) apply(sets []SetOp, stepBase int) (hx.Verdict, bool) {
	e, model, lab := r.e, r.model, r.lab
	for i, op := range sets {
		step := stepBase + i
		var err error
		mustReject, mustAccept := false, len(op.Vars) > 0
		for _, kv := range op.Vars {
			n := string(kv.Name)
			switch {
			case !shellIdent(n):
				mustReject, mustAccept = true, false
				lab["name-not-identifier"] = true
			case !documented(n):
				mustAccept = false
				lab["name-identifier-undocumented"] = true
			}
			if _, dup := model[n]; dup {
				lab["overwrites-variable"] = true
			}
		}
		if op.All {
			lab["setall"] = true
			m := map[string]string{}
			for _, kv := range op.Vars {
				m[string(kv.Name)] = string(kv.Value)
			}
			err = e.SetAll(m)
			if err == nil {
				for k, val := range m {
					model[k] = val
				}
			} else {
				// the statement does not say whether the valid siblings of a rejected name are
				// kept: the model follows the implementation for identifiers only
				all := e.All()
				for k, val := range m {
					if got, ok := all[k]; ok && shellIdent(k) && got == val {
						model[k] = val
					}
				}
			}
		} else {
			if len(op.Vars) != 1 {
				return inconclusive("Set op without exactly one variable"), false
			}
			err = e.Set(string(op.Vars[0].Name), string(op.Vars[0].Value))
			if err == nil {
				model[string(op.Vars[0].Name)] = string(op.Vars[0].Value)
			}
		}
		if mustReject && err == nil {
			return r.fail(step, "name-rejected", "%s accepted a name that is not a plain identifier: %s", opName(op), qnames(op)), false
		}
		if mustAccept && err != nil {
			return r.fail(step, "documented-name-accepted", "%s rejected names of letters/underscores starting with a letter: %s: %v", opName(op), qnames(op), err), false
		}
		// whatever the call returned, no non-identifier may be configured afterwards
		all := e.All()
		for k := range all {
			if !shellIdent(k) {
				return r.fail(step, "name-rejected", "after %s the environment contains the non-identifier name %s", opName(op), q(k)), false
			}
		}
		if len(all) != len(model) {
			return r.fail(step, "name-rejected", "after %s the environment has %d names, %d were set successfully", opName(op), len(all), len(model)), false
		}
		for k := range model {
			if _, ok := all[k]; !ok {
				return r.fail(step, "name-rejected", "after %s the successfully set name %s is missing", opName(op), q(k)), false
			}
		}
	}
	return r.v, true
}

// build asks the real builder for the start-up script of the current environment.
func (r *runner) build(builder string) ([]byte, hx.Verdict, bool) {
	var (
		rd  io.Reader
		err error
	)
	if builder == "container" {
		rd, err = dcmd.InitSequence(r.e)
	} else {
		rd, err = sshsb.VerifInitSequence(":", r.e)
	}
	if err != nil || rd == nil {
		return nil, r.fail(0, "script-built", "%s builder returned an error for a valid environment: %v", builder, err), false
	}
	script, err := io.ReadAll(rd)
	if err != nil {
		return nil, r.fail(0, "script-built", "reading the %s script: %v", builder, err), false
	}
	return script, r.v, true
}

// judge runs the script under the real /bin/sh and compares the outcome with the model.
func (r *runner) judge(builder string, script []byte) hx.Verdict {
	model, lab := r.model, r.lab
	fail := r.fail
	lab["builder-"+builder] = true
	names := make([]string, 0, len(model))
	for k, val := range model {
		if reserved(k) {
			return inconclusive("reserved name configured")
		}
		names = append(names, k)
		classifyValue(val, lab)
		for other := range model {
			for _, g := range NameGuesses(other) {
				if hasLine(val, g) {
					if other == k {
						lab["value-line-own-name-derived-delimiter"] = true
					} else {
						lab["value-line-other-name-derived-delimiter"] = true
					}
					break
				}
			}
		}
		if strings.ContainsAny(val, significant) {
			r.v.NonTrivial = true
		}
	}
	sort.Strings(names)
	// The open finding C18-dash-delimiter-prefix-highbyte is defined by its cause: a value
	// line that starts with a non-empty prefix of the here-document terminator actually
	// guarding THAT variable, directly followed by a byte >= 0x80 (dash drops the byte).
	// While the finding is open such a variable is not judged for verbatim/exported; every
	// other clause and every other variable is judged as usual.
	skipValue := map[string]bool{}
	for k, delims := range guardingDelimiters(string(script), model) {
		for _, d := range delims {
			if delimPrefixHighByteFor(model[k], d) >= 0 {
				lab["value-own-terminator-prefix-then-high-byte"] = true
				if hx.Excluded(ClassDelimPrefixHighByte) && !skipValue[k] {
					skipValue[k] = true
					hx.CountExcluded(ClassDelimPrefixHighByte)
					lab["known-finding-class-not-judged"] = true
				}
			}
		}
	}
	switch {
	case len(names) >= 20:
		lab["vars>=20"] = true
	case len(names) >= 4:
		lab["vars>=4"] = true
	}

	// run it under the real /bin/sh, the way both sandboxes do: script on stdin, followed
	// by the "user input" (here: the dump trailer)
	if err := lookupTools(); err != nil {
		return inconclusive("tools: %v", err)
	}
	tmp, err := os.MkdirTemp("", "c18-")
	if err != nil {
		return inconclusive("mkdtemp")
	}
	defer os.RemoveAll(tmp)
	r.tmpDir = tmp
	bin, work := filepath.Join(tmp, "bin"), filepath.Join(tmp, "w")
	if os.Mkdir(bin, 0755) != nil || os.Mkdir(work, 0755) != nil {
		return inconclusive("mkdir")
	}
	for t, p := range tools.path {
		if os.Symlink(p, filepath.Join(bin, t)) != nil {
			return inconclusive("symlink")
		}
	}
	var in bytes.Buffer
	in.Write(script)
	fmt.Fprintf(&in, "\nprintf '%%s\\000' %s\n", markBegin)
	for _, k := range names {
		fmt.Fprintf(&in, "printf '%%s\\000' \"$%s\"\n", k)
	}
	fmt.Fprintf(&in, "printf '%%s\\000' %s\nenv -0\nprintf '%%s\\000' %s\n", markMid, markEnd)

	ctx, cancel := context.WithTimeout(context.Background(), 60*time.Second)
	defer cancel()
	cmd := exec.CommandContext(ctx, "/bin/sh")
	cmd.Dir = work
	cmd.Env = []string{"PATH=" + bin, "HOME=" + work, sentinelName + "=" + sentinelValue}
	cmd.Stdin = &in
	var stdout, stderr bytes.Buffer
	cmd.Stdout, cmd.Stderr = &stdout, &stderr
	runErr := cmd.Run()
	r.v.Count("shell-runs", 1)
	if cmd.Process != nil {
		r.shellPid = fmt.Sprint(cmd.Process.Pid)
	}
	if ctx.Err() != nil {
		return inconclusive("shell watchdog")
	}
	if _, isExit := runErr.(*exec.ExitError); runErr != nil && !isExit {
		return inconclusive("could not run /bin/sh")
	}
	final := 0 // shell-phase failures carry no step: the message must not depend on the number of calls (shrinking)
	// rapid only shrinks failures whose message is reproducible; the script (random
	// terminator, map order) and the shell's stderr are therefore shown on request only
	diag := func() string {
		if os.Getenv("VERIF_C18_DIAG") == "" {
			return ""
		}
		return fmt.Sprintf(" [stderr %s] [stdout %s] [script %s]", q(stderr.String()), q(stdout.String()), q(string(script)))
	}

	// a. every configured variable holds exactly its value (up to trailing newlines)
	recs := strings.Split(stdout.String(), "\x00")
	if len(recs) < 1 || recs[0] != markBegin {
		return fail(final, "verbatim", "%s sandbox: the shell did not get through the start-up script (%s)%s", builder, exitText(runErr), diag())
	}
	recs = recs[1:]
	if len(recs) < len(names)+1 || recs[len(names)] != markMid {
		return fail(final, "verbatim", "%s sandbox: the shell stopped before all %d variables were dumped (%s)%s", builder, len(names), exitText(runErr), diag())
	}
	for i, k := range names {
		if skipValue[k] {
			continue
		}
		// "up to trailing newlines": stripping and preserving them are both allowed
		want, got := strings.TrimRight(model[k], "\n"), strings.TrimRight(recs[i], "\n")
		if got != want {
			return fail(final, "verbatim", "%s sandbox: variable %s is %s in the shell, configured %s%s", builder, k, q(recs[i]), q(model[k]), diag())
		}
	}
	recs = recs[len(names)+1:]
	// b. exported, and no other variable differs from the scrubbed baseline
	endAt := -1
	for i, rec := range recs {
		if rec == markEnd {
			endAt = i
		}
	}
	if endAt < 0 {
		return fail(final, "no-other-variable", "environment dump is incomplete (%s)%s", exitText(runErr), diag())
	}
	seen := map[string]string{}
	for _, rec := range recs[:endAt] {
		i := strings.IndexByte(rec, '=')
		if i < 0 {
			return fail(final, "no-other-variable", "malformed environment record %s%s", q(rec), diag())
		}
		seen[rec[:i]] = rec[i+1:]
	}
	expect := map[string]string{"PATH": bin, "HOME": work, sentinelName: sentinelValue}
	for _, k := range names {
		expect[k] = strings.TrimRight(model[k], "\n")
	}
	for k, want := range expect {
		if skipValue[k] {
			continue
		}
		got, ok := seen[k]
		if _, mine := model[k]; mine {
			got = strings.TrimRight(got, "\n") // equality up to trailing newlines, both sides
		}
		if !ok {
			clause := "no-other-variable"
			if _, mine := model[k]; mine {
				clause = "exported"
			}
			return fail(final, clause, "variable %s is not in the environment of child processes%s", k, diag())
		}
		if got != want {
			return fail(final, "no-other-variable", "variable %s is %s in the environment of child processes, expected %s%s", k, q(got), q(want), diag())
		}
	}
	for k, got := range seen {
		if _, ok := expect[k]; ok {
			continue
		}
		if k == "PWD" && got == work { // dash exports PWD on its own
			continue
		}
		return fail(final, "no-other-variable", "unexpected variable %s=%s in the environment%s", k, q(got), diag())
	}
	// c. exit status
	if runErr != nil {
		return fail(final, "exit-0", "shell exited with %v%s", runErr, diag())
	}
	// d. no value ran a command: the working directory (= HOME) is still empty
	ents, err := os.ReadDir(work)
	if err != nil {
		return inconclusive("readdir")
	}
	if len(ents) > 0 {
		return fail(final, "no-command-ran", "the empty working directory now contains %s%s", q(ents[0].Name()), diag())
	}
	if stderr.Len() > 0 {
		lab["shell-wrote-stderr"] = true
	}
	return r.v
}

func hasLine(val, line string) bool {
	for _, l := range strings.Split(val, "\n") {
		if l == line {
			return true
		}
	}
	return false
}

func exitText(err error) string {
	if err == nil {
		return "exit 0"
	}
	return err.Error()
}

func opName(op SetOp) string {
	if op.All {
		return "SetAll"
	}
	return "Set"
}

func qnames(op SetOp) string {
	var s []string
	for _, kv := range op.Vars {
		s = append(s, q(string(kv.Name)))
	}
	return strings.Join(s, ",")
}

func classifyValue(val string, lab map[string]bool) {
	body := strings.TrimRight(val, "\n")
	if body != val {
		lab["value-trailing-newline"] = true
	}
	if val == "" {
		lab["value-empty"] = true
	}
	if strings.Contains(val, "$") {
		lab["value-dollar"] = true
	}
	if strings.Contains(val, "`") {
		lab["value-backquote"] = true
	}
	if strings.Contains(val, "\\") {
		lab["value-backslash"] = true
	}
	if strings.ContainsAny(val, "'\"") {
		lab["value-quote"] = true
	}
	if strings.Contains(body, "\n") {
		lab["value-inner-newline"] = true
	}
	if strings.Contains(val, "$(") || strings.Count(val, "`") >= 2 {
		lab["value-command-substitution"] = true
	}
	if strings.Contains(val, "canary") {
		lab["value-canary-command"] = true
	}
	for _, line := range strings.Split(val, "\n") {
		if strings.HasPrefix(line, "EOF") {
			lab["value-eof-like-line"] = true
			if line == "EOF" {
				lab["value-line-equal-EOF"] = true
			}
		}
	}
	for i := 0; i < len(val); i++ {
		if val[i] >= 0x80 {
			lab["value-high-byte"] = true
		} else if val[i] < 0x20 && val[i] != '\n' || val[i] == 0x7f {
			lab["value-control-byte"] = true
		}
	}
	if len(val) > 4000 {
		lab["value-long"] = true
	}
	if delimPrefixHighByteAt(val) >= 0 {
		lab["value-delimiter-prefix-then-high-byte"] = true
	}
}

// ---------------------------------------------------------------------------------------
// exhaustive enumeration of short values

// EnumValues lists every string over Alphabet of length <= maxLen in a fixed order.
func EnumValues(maxLen int) []string {
	out := []string{""}
	prev := []string{""}
	for l := 1; l <= maxLen; l++ {
		var cur []string
		for _, p := range prev {
			for i := 0; i < len(Alphabet); i++ {
				cur = append(cur, p+string(Alphabet[i]))
			}
		}
		out = append(out, cur...)
		prev = cur
	}
	return out
}

// BatchName is the i-th variable name of a batch (letters only).
func BatchName(i int) string {
	return "V" + string(rune('a'+i/26)) + string(rune('a'+i%26))
}

// BatchCase packs values into one case: a single SetAll (odd batches) or one Set per
// value (even batches).
func BatchCase(builder string, batch int, values []string) Case {
	c := Case{Builder: builder}
	if batch%2 == 1 {
		op := SetOp{All: true}
		for i, val := range values {
			op.Vars = append(op.Vars, Var{Name: B(BatchName(i)), Value: B(val)})
		}
		c.Sets = []SetOp{op}
		return c
	}
	for i, val := range values {
		c.Sets = append(c.Sets, SetOp{Vars: []Var{{Name: B(BatchName(i)), Value: B(val)}}})
	}
	return c
}
