package c18

import (
	"encoding/json"
	"fmt"
	"os"
	"testing"

	"verif/harness/hx"
)

func TestMain(m *testing.M) { hx.Main(m, "C18") }

// TestProp: random environment programs, both builders.
func TestProp(t *testing.T) { hx.Check(t, "env-map", Gen, Exec) }

// TestPropReplay: delimiter replay (two builds; fences read from the first script are replayed
// inside the values of the second), both builders.
func TestPropReplay(t *testing.T) { hx.Check(t, "delimiter-replay", GenReplay, ExecReplay) }

const batchSize = 40

// TestEnum: every value of length <= 3 (quick) / <= 4 (thorough) over Alphabet, batched 40
// variables per shell run, through both builders; then every name of length <= 3 over a
// 10-character alphabet of identifier and non-identifier characters.
func TestEnum(t *testing.T) {
	maxLen := 3
	if hx.Thorough() {
		maxLen = 4
	}
	if n := hx.EnvInt("VERIF_C18_ENUMLEN", 0); n > 0 {
		maxLen = n
	}
	shard, nshards := hx.Shard()
	values := EnumValues(maxLen)
	var done int64
	batch := 0
	for at := 0; at < len(values); at += batchSize {
		end := at + batchSize
		if end > len(values) {
			end = len(values)
		}
		batch++
		if batch%nshards != shard {
			continue
		}
		for _, b := range Builders {
			if only := os.Getenv("VERIF_C18_BUILDER"); only != "" && only != b {
				continue
			}
			c := BatchCase(b, batch, values[at:end])
			if v := Exec(c); !v.OK {
				// report the smallest single-variable case of the batch when one exists
				for _, val := range values[at:end] {
					one := BatchCase(b, 0, []string{val})
					if !hx.One(t, "enum-values", one, Exec) {
						return
					}
				}
			}
			if !hx.One(t, "enum-values", c, Exec) {
				return
			}
		}
		done += int64(end - at)
	}
	hx.AddExhaustive(hx.Exhaustive{What: "values set through Set/SetAll and run through both builders under /bin/sh (this shard)",
		Alphabet: fmt.Sprintf("%q", Alphabet), Bound: fmt.Sprintf("length <= %d", maxLen), Count: done})

	// names
	const nameAlphabet = "Az_1 $\n=;-"
	names := []string{""}
	prev := []string{""}
	for l := 1; l <= 3; l++ {
		var cur []string
		for _, p := range prev {
			for i := 0; i < len(nameAlphabet); i++ {
				cur = append(cur, p+string(nameAlphabet[i]))
			}
		}
		names = append(names, cur...)
		prev = cur
	}
	var ndone int64
	batch = 0
	for at := 0; at < len(names); at += batchSize {
		end := at + batchSize
		if end > len(names) {
			end = len(names)
		}
		batch++
		if batch%nshards != shard {
			continue
		}
		c := Case{Builder: Builders[batch%2]}
		if only := os.Getenv("VERIF_C18_BUILDER"); only != "" {
			c.Builder = only
		}
		for i, n := range names[at:end] {
			val := "v" + Alphabet[i%len(Alphabet):i%len(Alphabet)+1]
			if batch%3 == 0 {
				c.Sets = append(c.Sets, SetOp{All: true, Vars: []Var{{Name: B(n), Value: B(val)}}})
			} else {
				c.Sets = append(c.Sets, SetOp{Vars: []Var{{Name: B(n), Value: B(val)}}})
			}
		}
		if !hx.One(t, "enum-names", c, Exec) {
			return
		}
		ndone += int64(end - at)
	}
	hx.AddExhaustive(hx.Exhaustive{What: "names offered to Set/SetAll (this shard)", Alphabet: fmt.Sprintf("%q", nameAlphabet), Bound: "length <= 3", Count: ndone})
}

func TestReplay(t *testing.T) {
	ex := hx.Exec(Exec)
	hx.Replay(t, map[string]func(json.RawMessage) (hx.Verdict, error){"env-map": ex, "enum-values": ex, "enum-names": ex, "": ex,
		"delimiter-replay": hx.Exec(ExecReplay)})
}

// TestBytesRoundTrip: the case-file encoding of byte strings is lossless (harness self-test).
func TestBytesRoundTrip(t *testing.T) {
	all := make([]byte, 256)
	for i := range all {
		all[i] = byte(i)
	}
	raw, err := json.Marshal(Var{Name: "A", Value: B(all)})
	if err != nil {
		t.Fatal(err)
	}
	var back Var
	if err := json.Unmarshal(raw, &back); err != nil || string(back.Value) != string(all) {
		t.Fatalf("round trip failed: %v", err)
	}
}
