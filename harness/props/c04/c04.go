// Package c04: streams and cross-filespace copies are byte-exact and replace old content.
package c04

import (
	"bytes"
	"fmt"
	"io"
	"os"
	"strings"
	"time"

	"github.com/goatcms/goatcore/filesystem"
	"github.com/goatcms/goatcore/filesystem/filespace/diskfs"
	"github.com/goatcms/goatcore/filesystem/filespace/encryptfs"
	"github.com/goatcms/goatcore/filesystem/filespace/encryptfs/cipherfs/aesgcm256cfs"
	"github.com/goatcms/goatcore/filesystem/filespace/encryptfs/cipherfs/extcfs"
	"github.com/goatcms/goatcore/filesystem/filespace/memfs"
	"github.com/goatcms/goatcore/filesystem/fscache"
	"github.com/goatcms/goatcore/filesystem/fshelper"
	"pgregory.net/rapid"
	"verif/harness/fsmodel"
	"verif/harness/hx"
)

// Backends under test.
var Backends = []string{"mem", "disk", "enc-mem", "enc-disk", "cache"}

type backend struct {
	kind string
	fs   fsmodel.FS
	dir  string
}

func (b *backend) close() {
	if b.dir != "" {
		os.RemoveAll(b.dir)
	}
}

func mk(kind string) (*backend, error) {
	b := &backend{kind: kind}
	var base fsmodel.FS
	var err error
	if strings.HasSuffix(kind, "disk") {
		if b.dir, err = os.MkdirTemp("", "c04-"); err != nil {
			return nil, err
		}
		base, err = diskfs.NewFilespace(b.dir)
	} else {
		base, err = memfs.NewFilespace()
	}
	if err != nil {
		b.close()
		return nil, err
	}
	switch {
	case strings.HasPrefix(kind, "enc-"):
		ciph := aesgcm256cfs.NewCipher()
		if kind == "enc-disk" {
			ciph = extcfs.NewDefaultCipher()
		}
		b.fs, err = encryptfs.NewEncryptFS(base, encryptfs.Settings{Secret: []byte("c04 secret"), Salt: []byte("c04 salt"), Cipher: ciph})
	case kind == "cache":
		b.fs, err = fscache.NewMemCache(base)
	default:
		b.fs = base
	}
	if err != nil {
		b.close()
		return nil, err
	}
	return b, nil
}

// createsParents: does Writer() on this backend create missing parent directories?
func createsParents(kind string) bool { return kind == "mem" || kind == "enc-mem" || kind == "cache" }

// ---------------------------------------------------------------- writer cases

// WriterCase: open a writer on a path in a given prior state, write chunks, close, read back.
type WriterCase struct {
	Backend  string   `json:"backend"`
	Path     string   `json:"path"`
	HasPrior bool     `json:"has_prior"`
	Prior    []byte   `json:"prior,omitempty"`
	PriorVia string   `json:"prior_via,omitempty"` // WriteFile | Writer
	Chunks   [][]byte `json:"chunks"`
	Bufs     []int    `json:"bufs"`
	// Backup (with HasPrior): "backup" = the prior file is copied to <path>.orig with the
	// filespace's own CopyFile before the stream write (backup, then rewrite); "from" = the prior
	// content lives in <path>.orig and the target is a CopyFile of it. Either way <path>.orig must
	// still hold the prior content afterwards (a copy that shares storage with its source shows
	// here when the stream rewrites one of the two in place).
	Backup string `json:"backup,omitempty"`
}

func genBytes(rt *rapid.T, label string) []byte {
	switch c := hx.Uniform(rt, 100, label+"c"); {
	case c < 12:
		return []byte{}
	case c < 70:
		return rapid.SliceOfN(rapid.Byte(), 1, 40).Draw(rt, label)
	case c < 94:
		return rapid.SliceOfN(rapid.Byte(), 41, 300).Draw(rt, label)
	default:
		n := 60000 + hx.Uniform(rt, 15000, label+"n")
		seed := byte(hx.Uniform(rt, 256, label+"s"))
		b := make([]byte, n)
		for i := range b {
			b[i] = byte(i*13) ^ seed ^ byte(i>>8)
		}
		return b
	}
}

func genBufs(rt *rapid.T) []int {
	n := 1 + hx.Uniform(rt, 3, "nb")
	out := make([]int, n)
	for i := range out {
		out[i] = []int{1, 2, 3, 5, 16, 31, 64, 512, 4096, 100000}[hx.Uniform(rt, 10, "bsz")]
	}
	return out
}

// GenWriter draws a writer case.
func GenWriter(rt *rapid.T) WriterCase {
	c := WriterCase{Backend: Backends[hx.Uniform(rt, len(Backends), "be")], Bufs: genBufs(rt)}
	c.Path = []string{"f", "d/f", "d/e/f", "a b", "é.txt"}[hx.Uniform(rt, 5, "path")]
	n := hx.Uniform(rt, 6, "nch")
	total := 0
	for i := 0; i < n; i++ {
		ch := genBytes(rt, "chunk")
		if total+len(ch) > 200000 {
			ch = ch[:10]
		}
		total += len(ch)
		c.Chunks = append(c.Chunks, ch)
	}
	switch hx.Uniform(rt, 6, "prior") {
	case 0: // absent
	case 1: // empty
		c.HasPrior, c.Prior = true, []byte{}
	case 2: // shorter
		c.HasPrior = true
		if total > 1 {
			c.Prior = bytes.Repeat([]byte{'s'}, 1+hx.Uniform(rt, total-1, "pl"))
		} else {
			c.Prior = []byte{}
		}
	case 3: // equal length
		c.HasPrior, c.Prior = true, bytes.Repeat([]byte{'e'}, total)
	default: // longer
		c.HasPrior, c.Prior = true, bytes.Repeat([]byte{'L'}, total+1+hx.Uniform(rt, 300, "pl"))
	}
	c.PriorVia = []string{"WriteFile", "Writer"}[hx.Uniform(rt, 2, "pv")]
	if c.HasPrior {
		c.Backup = []string{"", "", "backup", "from"}[hx.Uniform(rt, 4, "bk")]
	}
	return c
}

// ExecWriter runs a writer case.
func ExecWriter(c WriterCase) hx.Verdict {
	return hx.Guard(func() hx.Verdict {
		b, err := mk(c.Backend)
		if err != nil {
			v := hx.Pass()
			v.Inconclusive = true
			return v
		}
		defer b.close()
		fs := b.fs
		v := hx.Pass()
		v.Label("writer:" + c.Backend)
		// the parent directory exists (a stated precondition for disk-like backends)
		if i := strings.LastIndex(c.Path, "/"); i > 0 {
			if err := fs.MkdirAll(c.Path[:i], filesystem.DefaultUnixDirMode); err != nil {
				return hx.Fail("setup", "MkdirAll: %v", err)
			}
		}
		want := bytes.Join(c.Chunks, nil)
		// siblings with names derived from the target (typical staging/backup names) must survive
		siblings := map[string][]byte{}
		for i, suf := range []string{".tmp", "~", ".bak", ".part", ".new"} {
			sp := c.Path + suf
			siblings[sp] = []byte(fmt.Sprintf("sibling-%d-of-%s", i, c.Path))
			if err := fs.WriteFile(sp, append([]byte{}, siblings[sp]...), filesystem.DefaultUnixFileMode); err != nil {
				return hx.Fail("setup", "WriteFile sibling: %v", err)
			}
		}
		defer func() {}()
		if c.HasPrior {
			if c.PriorVia == "Writer" {
				w, err := fs.Writer(c.Path)
				if err != nil {
					return hx.Fail("writer-open", "[%s] Writer(%q) for the prior content failed: %v", c.Backend, c.Path, err)
				}
				w.Write(append([]byte{}, c.Prior...))
				if err := w.Close(); err != nil {
					return hx.Fail("writer-close", "[%s] Close failed: %v", c.Backend, err)
				}
			} else if err := fs.WriteFile(c.Path, append([]byte{}, c.Prior...), filesystem.DefaultUnixFileMode); err != nil {
				return hx.Fail("setup", "WriteFile prior: %v", err)
			}
			orig := c.Path + ".orig"
			switch c.Backup {
			case "backup":
				if err := fs.CopyFile(c.Path, orig); err != nil {
					return hx.Fail("setup", "[%s] CopyFile(%q,%q) of the prior file failed: %v", c.Backend, c.Path, orig, err)
				}
				v.Label("prior-backed-up-by-copyfile")
			case "from":
				if err := fs.CopyFile(c.Path, orig); err != nil {
					return hx.Fail("setup", "[%s] CopyFile(%q,%q) failed: %v", c.Backend, c.Path, orig, err)
				}
				if err := fs.Remove(c.Path); err != nil {
					return hx.Fail("setup", "[%s] Remove(%q) failed: %v", c.Backend, c.Path, err)
				}
				if err := fs.CopyFile(orig, c.Path); err != nil {
					return hx.Fail("setup", "[%s] CopyFile(%q,%q) failed: %v", c.Backend, orig, c.Path, err)
				}
				v.Label("target-is-a-copyfile-copy")
			}
			if c.Backup != "" {
				siblings[orig] = append([]byte{}, c.Prior...)
			}
			switch {
			case len(c.Prior) > len(want):
				v.Label("prior-longer")
				v.NonTrivial = true
			case len(c.Prior) == len(want):
				v.Label("prior-equal")
			default:
				v.Label("prior-shorter")
			}
		} else {
			v.Label("prior-absent")
		}
		w, err := fs.Writer(c.Path)
		if err != nil {
			return hx.Fail("writer-open", "[%s] Writer(%q) failed: %v", c.Backend, c.Path, err)
		}
		for i, ch := range c.Chunks {
			buf := append([]byte{}, ch...)
			// Write / io.Copy from a plain reader (ReadFrom of the writer, if any) / io.WriteString
			var n int
			var err error
			switch (len(ch) + i) % 3 {
			case 0:
				n, err = w.Write(buf)
			case 1:
				var n64 int64
				n64, err = io.Copy(w, struct{ io.Reader }{bytes.NewReader(buf)})
				n = int(n64)
			default:
				n, err = io.WriteString(w, string(buf))
			}
			for j := range buf {
				buf[j] ^= 0x5a // the caller reuses its buffer
			}
			if err != nil || n != len(ch) {
				w.Close()
				return hx.Fail("writer-write", "[%s] Write of chunk %d (%d bytes) returned n=%d err=%v", c.Backend, i, len(ch), n, err)
			}
		}
		if err := w.Close(); err != nil {
			return hx.Fail("writer-close", "[%s] Close failed: %v", c.Backend, err)
		}
		got, err := fs.ReadFile(c.Path)
		if err != nil {
			return hx.Fail("read-after-write", "[%s] ReadFile after Writer failed: %v", c.Backend, err)
		}
		if !bytes.Equal(got, want) {
			return hx.Fail("writer-content", "[%s] after Writer+%d chunks+Close on a path with prior=%v(%d bytes): ReadFile gives %d bytes %q, want %d bytes %q",
				c.Backend, len(c.Chunks), c.HasPrior, len(c.Prior), len(got), clip(got), len(want), clip(want))
		}
		r, err := fs.Reader(c.Path)
		if err != nil {
			return hx.Fail("reader-open", "[%s] Reader failed: %v", c.Backend, err)
		}
		data, reads, rerr := fsmodel.ReadAllSized(r, c.Bufs, len(want))
		cerr := r.Close()
		if rerr != nil {
			return hx.Fail("reader", "[%s] Reader with buffer sizes %v: %v (after %d reads)", c.Backend, c.Bufs, rerr, reads)
		}
		if cerr != nil {
			return hx.Fail("reader-close", "[%s] reader Close: %v", c.Backend, cerr)
		}
		if !bytes.Equal(data, want) {
			return hx.Fail("reader-content", "[%s] Reader with buffer sizes %v returned %d bytes %q, stored %d bytes %q", c.Backend, c.Bufs, len(data), clip(data), len(want), clip(want))
		}
		for sp, sd := range siblings {
			got, err := fs.ReadFile(sp)
			if err != nil || !bytes.Equal(got, sd) {
				return hx.Fail("writer-touched-sibling", "[%s] after Writer(%q)+Close the sibling file %q changed or vanished (err=%v, %d bytes, want %d)", c.Backend, c.Path, sp, err, len(got), len(sd))
			}
		}
		if len(want) > 4096 {
			v.Label("large")
		}
		return v
	})
}

func clip(b []byte) []byte {
	if len(b) > 32 {
		return b[:32]
	}
	return b
}

// ---------------------------------------------------------------- copy cases

// CopyCase: copy a file or tree between two backends with a given helper.
type CopyCase struct {
	Src      string          `json:"src"`
	Dst      string          `json:"dst"`
	SrcTree  []fsmodel.TNode `json:"src_tree"`
	DstTree  []fsmodel.TNode `json:"dst_tree"`
	Helper   string          `json:"helper"` // StreamCopy | CopierFile | CopierDir | Copy
	SrcPath  string          `json:"src_path"`
	DestPath string          `json:"dest_path"`
	FailAt   int             `json:"fail_at"` // -1 = no injected fault
}

// GenCopy draws a fault-free copy case.
func GenCopy(rt *rapid.T) CopyCase {
	c := CopyCase{Src: Backends[hx.Uniform(rt, len(Backends), "src")], Dst: Backends[hx.Uniform(rt, len(Backends), "dst")], FailAt: -1}
	src := fsmodel.GenTree(rt, 14, true)
	c.SrcTree = fsmodel.Flatten(src)
	// destination: a mutated partial image of the source (same kinds, different often longer bytes) plus extras
	dst := fsmodel.NewDir()
	var img func(s, d *fsmodel.Node)
	img = func(s, d *fsmodel.Node) {
		for _, k := range s.Names() {
			n := s.Kids[k]
			if hx.Chance(rt, 6, "kindconflict") {
				// kind conflict: the destination holds a file where the source has a directory, or an
				// (empty) directory where the source has a file. The copy cannot succeed silently:
				// it reports an error or it really replaces the node.
				if n.Dir {
					d.Kids[k] = fsmodel.NewFile([]byte("a-file-where-the-source-has-a-directory"))
				} else {
					d.Kids[k] = fsmodel.NewDir()
				}
				continue
			}
			if n.Dir {
				if hx.Chance(rt, 70, "keepd") {
					nd := fsmodel.NewDir()
					d.Kids[k] = nd
					img(n, nd)
				}
			} else if hx.Chance(rt, 60, "keepf") {
				extra := 1 + hx.Uniform(rt, 40, "xl")
				if hx.Chance(rt, 25, "shorter") {
					d.Kids[k] = fsmodel.NewFile([]byte("o"))
				} else {
					d.Kids[k] = fsmodel.NewFile(append(bytes.Repeat([]byte{'O'}, len(n.Data)), bytes.Repeat([]byte{'X'}, extra)...))
				}
			}
		}
		if hx.Chance(rt, 40, "extra") {
			d.Kids[[]string{"x", "y", "z"}[hx.Uniform(rt, 3, "xn")]] = fsmodel.NewFile([]byte("untouched-extra"))
		}
	}
	img(src, dst)
	c.DstTree = fsmodel.Flatten(dst)
	var files, dirs []string
	for _, t := range c.SrcTree {
		if t.Dir {
			dirs = append(dirs, t.Path)
		} else {
			files = append(files, t.Path)
		}
	}
	var ddirs []string
	for _, t := range c.DstTree {
		if t.Dir {
			ddirs = append(ddirs, t.Path)
		}
	}
	h := hx.Uniform(rt, 4, "helper")
	if len(files) == 0 && h < 2 {
		h = 3
	}
	switch h {
	case 0:
		c.Helper, c.SrcPath = "StreamCopy", files[hx.Uniform(rt, len(files), "sf")]
		c.DestPath = c.SrcPath
	case 1:
		c.Helper, c.SrcPath = "CopierFile", files[hx.Uniform(rt, len(files), "sf")]
		if hx.Chance(rt, 50, "samep") {
			c.DestPath = c.SrcPath
		} else {
			base := ""
			if len(ddirs) > 0 && hx.Chance(rt, 60, "ind") {
				base = ddirs[hx.Uniform(rt, len(ddirs), "dd")] + "/"
			}
			c.DestPath = base + "copied"
		}
	case 2:
		c.Helper = "CopierDir"
		if len(dirs) > 0 && hx.Chance(rt, 75, "sd") {
			c.SrcPath = dirs[hx.Uniform(rt, len(dirs), "sdi")]
		}
		switch hx.Uniform(rt, 3, "dp") {
		case 0:
			c.DestPath = c.SrcPath
		case 1:
			c.DestPath = "newdir"
		default:
			c.DestPath = "newdir/deeper"
		}
	default:
		c.Helper = "Copy"
	}
	return c
}

type outcome struct {
	err      error
	panicked string
	timeout  bool
}

func runHelper(c CopyCase, s, d fsmodel.FS) outcome {
	ch := make(chan outcome, 1)
	go func() {
		var o outcome
		defer func() {
			if r := recover(); r != nil {
				o.panicked = fmt.Sprint(r)
			}
			ch <- o
		}()
		switch c.Helper {
		case "StreamCopy":
			o.err = fshelper.StreamCopy(s, d, c.SrcPath)
		case "CopierFile", "CopierDir":
			o.err = fshelper.Copier{SrcFS: s, SrcPath: c.SrcPath, DestFS: d, DestPath: c.DestPath}.Do()
		default:
			o.err = fshelper.Copy(s, d, nil)
		}
	}()
	select {
	case o := <-ch:
		return o
	case <-time.After(30 * time.Second):
		return outcome{timeout: true}
	}
}

// expected computes the destination tree after a successful copy and whether the stated
// preconditions hold (so that the fault-free copy must succeed).
func expected(c CopyCase) (want *fsmodel.Node, pre bool) {
	want, pre, _ = expected3(c)
	return want, pre
}

// kindConflict: copying the source subtree sn to dest (segments) meets a node of the other
// kind in the destination (a file where a directory is needed or the reverse).
func kindConflict(sn *fsmodel.Node, dst *fsmodel.Node, dest []string) bool {
	for i := 1; i <= len(dest); i++ {
		if n := dst.Lookup(dest[:i]); n != nil && !n.Dir {
			return true
		}
	}
	for _, t := range fsmodel.Flatten(sn) {
		segs, _ := fsmodel.Resolve(t.Path)
		p := append(append([]string{}, dest...), segs...)
		if n := dst.Lookup(p); n != nil && n.Dir != t.Dir {
			return true
		}
	}
	return false
}

func expected3(c CopyCase) (want *fsmodel.Node, pre bool, conflict bool) {
	src, dst := fsmodel.Build(c.SrcTree), fsmodel.Build(c.DstTree)
	want = dst.Clone()
	m := &fsmodel.Model{Root: want, Views: [][]string{{}}}
	pre = true
	segs, _ := fsmodel.Resolve(c.DestPath)
	parentExists := func(p []string) bool {
		if len(p) == 0 {
			return true
		}
		n := dst.Lookup(p[:len(p)-1])
		return n != nil && n.Dir
	}
	switch c.Helper {
	case "StreamCopy", "CopierFile":
		s, _ := fsmodel.Resolve(c.SrcPath)
		sn := src.Lookup(s)
		if sn == nil || sn.Dir {
			return want, false, false
		}
		if !parentExists(segs) && !createsParents(c.Dst) {
			pre = false
		}
		if n := dst.Lookup(segs); n != nil && n.Dir {
			pre = false
		}
		for i := 1; i < len(segs); i++ {
			if n := dst.Lookup(segs[:i]); n != nil && !n.Dir {
				return want, false, true // a file where a parent directory is needed
			}
		}
		m.Apply(fsmodel.Op{Op: "WriteFile", Path: c.DestPath, Data: sn.Data})
	default:
		s, _ := fsmodel.Resolve(c.SrcPath)
		sn := src.Lookup(s)
		if sn == nil || !sn.Dir {
			return want, false, false
		}
		if kindConflict(sn, dst, segs) {
			return want, false, true
		}
		if c.Helper == "CopierDir" {
			m.Apply(fsmodel.Op{Op: "MkdirAll", Path: c.DestPath})
		}
		for _, t := range fsmodel.Flatten(sn) {
			p := t.Path
			if c.DestPath != "" {
				p = c.DestPath + "/" + t.Path
			}
			if t.Dir {
				m.Apply(fsmodel.Op{Op: "MkdirAll", Path: p})
			} else {
				m.Apply(fsmodel.Op{Op: "WriteFile", Path: p, Data: t.Data})
			}
		}
	}
	return want, pre, conflict
}

// ExecCopy runs one copy case (with or without an injected fault).
func ExecCopy(c CopyCase) hx.Verdict {
	v, _ := execCopy(c)
	return v
}

// execCopy also returns the number of counted I/O calls.
func execCopy(c CopyCase) (hx.Verdict, int) {
	calls := 0
	v := hx.Guard(func() hx.Verdict {
		sb, err := mk(c.Src)
		if err != nil {
			v := hx.Pass()
			v.Inconclusive = true
			return v
		}
		defer sb.close()
		db, err := mk(c.Dst)
		if err != nil {
			v := hx.Pass()
			v.Inconclusive = true
			return v
		}
		defer db.close()
		if err := fsmodel.Populate(sb.fs, c.SrcTree); err != nil {
			return hx.Fail("setup", "populate source [%s]: %v", c.Src, err)
		}
		if err := fsmodel.Populate(db.fs, c.DstTree); err != nil {
			return hx.Fail("setup", "populate destination [%s]: %v", c.Dst, err)
		}
		want, pre, conflict := expected3(c)
		ctl := fsmodel.NewFaultCtl(c.FailAt)
		var s, d fsmodel.FS = fsmodel.NewFaultFS(sb.fs, ctl, "src"), fsmodel.NewFaultFS(db.fs, ctl, "dst")
		o := runHelper(c, s, d)
		calls = ctl.Count()
		v := hx.Pass()
		v.Label("copy:" + c.Src + "->" + c.Dst)
		v.Label("helper:" + c.Helper)
		if o.timeout {
			v.Inconclusive = true
			v.Label("helper-timeout")
			return v
		}
		if o.panicked != "" {
			return hx.Fail("panic", "%s %s->%s panicked: %s", c.Helper, c.Src, c.Dst, o.panicked)
		}
		if c.FailAt >= 0 && ctl.Fired {
			v.Label("fault-fired")
			v.Count("fault_positions_fired", 1)
			v.NonTrivial = true
		}
		if o.err != nil {
			if c.FailAt < 0 && pre {
				return hx.Fail("copy-failed", "%s %s->%s (src %q dest %q) failed without any injected fault although the preconditions hold: %v",
					c.Helper, c.Src, c.Dst, c.SrcPath, c.DestPath, o.err)
			}
			v.Label("reported-error")
			if conflict {
				v.Label("kind-conflict-reported")
			}
			return v
		}
		if conflict {
			// nil although a node of the other kind was in the way: then the copy must really be there
			v.Label("kind-conflict-not-reported")
			got, prob := fsmodel.Walk(db.fs, false)
			if prob != "" {
				return hx.Fail("dest-tree", "%s %s->%s returned nil but the destination cannot be walked: %s", c.Helper, c.Src, c.Dst, prob)
			}
			ss, _ := fsmodel.Resolve(c.SrcPath)
			sn := fsmodel.Build(c.SrcTree).Lookup(ss)
			ds, _ := fsmodel.Resolve(c.DestPath)
			if sn != nil && !sn.Dir {
				if n := got.Lookup(ds); n == nil || n.Dir || !bytes.Equal(n.Data, sn.Data) {
					return hx.Fail("copy-incomplete", "%s %s->%s (src %q dest %q) returned nil although a file was in the way of a parent directory, and the destination file is missing or has other bytes",
						c.Helper, c.Src, c.Dst, c.SrcPath, c.DestPath)
				}
				return v
			}
			for _, t := range fsmodel.Flatten(sn) {
				segs, _ := fsmodel.Resolve(t.Path)
				n := got.Lookup(append(append([]string{}, ds...), segs...))
				if n == nil || n.Dir != t.Dir || (!t.Dir && !bytes.Equal(n.Data, t.Data)) {
					return hx.Fail("copy-incomplete", "%s %s->%s (src %q dest %q) returned nil although a node of the other kind was in the way, and the destination is not a copy: %q is missing, of the wrong kind or has other bytes",
						c.Helper, c.Src, c.Dst, c.SrcPath, c.DestPath, t.Path)
				}
			}
			return v
		}
		if !pre {
			v.Label("outside-preconditions")
			return v
		}
		got, prob := fsmodel.Walk(db.fs, false)
		if prob != "" {
			return hx.Fail("dest-tree", "%s %s->%s returned nil but the destination cannot be walked: %s", c.Helper, c.Src, c.Dst, prob)
		}
		if dd := fsmodel.Diff(want, got, ""); dd != "" {
			what := "copy-incomplete"
			if c.FailAt >= 0 && ctl.Fired {
				what = "fault-unreported"
			}
			return hx.Fail(what, "%s %s->%s (src %q dest %q, fault at %d: %s) returned nil but the destination is not a complete copy: %s",
				c.Helper, c.Src, c.Dst, c.SrcPath, c.DestPath, c.FailAt, ctl.What, dd)
		}
		nfiles, overlap := 0, false
		dm := fsmodel.Build(c.DstTree)
		for _, t := range c.SrcTree {
			if !t.Dir {
				nfiles++
				if segs, _ := fsmodel.Resolve(t.Path); dm.Lookup(segs) != nil {
					overlap = true
				}
			}
		}
		if nfiles >= 2 && overlap && c.Helper != "StreamCopy" && c.Helper != "CopierFile" {
			v.NonTrivial = true
			v.Label("tree-with-overlap")
		}
		if (c.Helper == "StreamCopy" || c.Helper == "CopierFile") && overlap {
			v.NonTrivial = true
		}
		return v
	})
	return v, calls
}
