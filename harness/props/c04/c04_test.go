package c04

import (
	"encoding/json"
	"testing"

	"pgregory.net/rapid"
	"verif/harness/hx"
)

func TestMain(m *testing.M) { hx.Main(m, "C04") }

func TestPropWriter(t *testing.T) { hx.Check(t, "writer", GenWriter, ExecWriter) }
func TestPropCopy(t *testing.T)   { hx.Check(t, "copy", GenCopy, ExecCopy) }

// TestPropFaults: for each drawn copy case, count the I/O calls of the fault-free run and
// then fail every single position once (sampled above 200 positions).
func TestPropFaults(t *testing.T) {
	rapid.Check(t, func(rt *rapid.T) {
		c := GenCopy(rt)
		v, n := execCopy(c)
		hx.Record("copy", c, v)
		if !v.OK {
			hx.ReportFailure("copy", c, v)
			rt.Fatalf("VIOLATION clause=%s: %s", v.Clause, v.Detail)
		}
		step := 1
		if n > 200 {
			step = n/200 + 1
		}
		hx.AddCounter("fault_positions_enumerated", int64((n+step-1)/step))
		for k := 0; k < n; k += step {
			fc := c
			fc.FailAt = k
			fv := ExecCopy(fc)
			hx.Record("copy-fault", fc, fv)
			if !fv.OK {
				hx.ReportFailure("copy-fault", fc, fv)
				rt.Fatalf("VIOLATION clause=%s: %s", fv.Clause, fv.Detail)
			}
		}
	})
}

func TestReplay(t *testing.T) {
	hx.Replay(t, map[string]func(json.RawMessage) (hx.Verdict, error){
		"writer": hx.Exec(ExecWriter), "copy": hx.Exec(ExecCopy), "copy-fault": hx.Exec(ExecCopy)})
}
