package c10

import (
	"testing"

	"verif/harness/hx"
)

// Native fuzz targets over the rapid generators (thorough tier): the fuzzer's bytes are the bit
// stream the generator draws from, so coverage feedback steers the case space TestProp samples.
func FuzzProgram(f *testing.F) { hx.FuzzRapid(f, "program", Gen, Exec) }
