package c10

import (
	"encoding/json"
	"testing"

	"verif/harness/hx"
)

func TestMain(m *testing.M) { hx.Main(m, "C10") }

func TestProp(t *testing.T) { hx.Check(t, "program", Gen, Exec) }

// TestEnum enumerates two small families completely:
//   - precedence table: one name, every explicit kind x every default kind x both registration
//     orders x every pair of requests from {Get, InjectTo required, InjectTo optional};
//   - pre-populated targets: one name, 6 definition kinds x {required, optional} x {*Inst, interface{}} field x previous
//     content {zero, foreign, second provider's, own} x {one provider, second provider first, second provider last} x
//     {first request, after a Get}, at top level and from inside a factory;
//   - rings: every ring N0 -> N1 -> ... -> N0 of length 1..5 (1..6 in the thorough tier) with every
//     edge being {Get, InjectTo} x {required, optional}, entered at N0, then every name requested twice.
func TestEnum(t *testing.T) {
	shard, nshards := hx.Shard()
	idx := 0
	var count int64
	one := func(c Case) bool {
		idx++
		if idx%nshards != shard {
			return true
		}
		count++
		return hx.One(t, "program", c, Exec)
	}
	defer func() {
		hx.AddExhaustive(hx.Exhaustive{What: "precedence table (1 name), pre-populated injection targets (1 name) and dependency rings", Alphabet: "explicit{none,Set,AddFactory ok,AddFactory err} x default{none,SetDefault,AddDefaultFactory ok,AddDefaultFactory err} x order x request pairs; ring edges {Get,InjectTo}x{required,optional}", Bound: "ring length <= 5 (6 thorough)", Count: count})
	}()
	reqKinds := []Req{
		{Kind: "get", Target: 0},
		{Kind: "inject", Fields: []Field{{Tag: "dep", Target: 0}}},
		{Kind: "inject", Fields: []Field{{Tag: "dep", Target: 0, Optional: true, Iface: true}}},
	}
	explicit := []*DefOp{nil, {Op: "Set"}, {Op: "AddFactory", Factory: &Factory{Result: "ok"}}, {Op: "AddFactory", Factory: &Factory{Result: "err"}}}
	defaults := []*DefOp{nil, {Op: "SetDefault"}, {Op: "AddDefaultFactory", Factory: &Factory{Result: "ok"}}, {Op: "AddDefaultFactory", Factory: &Factory{Result: "err"}}}
	for _, e := range explicit {
		for _, d := range defaults {
			for order := 0; order < 2; order++ {
				var defs []DefOp
				if e != nil {
					defs = append(defs, *e)
				}
				if d != nil {
					defs = append(defs, *d)
				}
				if order == 1 {
					if len(defs) < 2 {
						continue
					}
					defs[0], defs[1] = defs[1], defs[0]
				}
				for _, r1 := range reqKinds {
					for _, r2 := range reqKinds {
						c := Case{Container: "plain", Extra: "none", Defs: defs, Reqs: []Req{r1, r2, {Kind: "define", Def: &DefOp{Op: "Set", Name: 1}}}}
						if !one(c) {
							return
						}
					}
				}
			}
		}
	}
	// pre-populated targets: one name, definition kind x field kind x previous content x two-provider order x
	// (requested before or not, so that "own" exists), followed by a late definition and a second Get
	for _, e := range []*DefOp{nil, {Op: "Set"}, {Op: "SetDefault"}, {Op: "AddFactory", Factory: &Factory{Result: "ok"}}, {Op: "AddDefaultFactory", Factory: &Factory{Result: "ok"}}, {Op: "AddFactory", Factory: &Factory{Result: "err"}}} {
		for _, optional := range []bool{false, true} {
			for _, iface := range []bool{false, true} {
				for _, pre := range []string{"", "foreign", "other", "own"} {
					for _, pool := range []string{"", "before", "after"} {
						for first := 0; first < 2; first++ {
							var defs []DefOp
							if e != nil {
								defs = append(defs, *e)
							}
							var reqs []Req
							if first == 1 {
								reqs = append(reqs, Req{Kind: "get", Target: 0})
							}
							reqs = append(reqs, Req{Kind: "inject", Pool: pool, Fields: []Field{{Tag: "dep", Target: 0, Optional: optional, Iface: iface, Pre: pre}}},
								Req{Kind: "define", Def: &DefOp{Op: "Set", Name: 1}}, Req{Kind: "get", Target: 0})
							if !one(Case{Container: "plain", Extra: "none", Defs: defs, Reqs: reqs}) {
								return
							}
							// the same injection issued from inside a factory
							in := append(append([]DefOp(nil), defs...), DefOp{Op: "AddFactory", Name: 2, Factory: &Factory{Result: "ok", Steps: []Step{{Kind: "inject", Pool: pool, Optional: true,
								Fields: []Field{{Tag: "dep", Target: 0, Optional: optional, Iface: iface, Pre: pre}}}}}})
							rq := []Req{{Kind: "get", Target: 2}, {Kind: "get", Target: 0}}
							if first == 1 {
								rq = append([]Req{{Kind: "get", Target: 0}}, rq...)
							}
							if !one(Case{Container: "plain", Extra: "none", Defs: in, Reqs: rq}) {
								return
							}
						}
					}
				}
			}
		}
	}
	maxLen := 5
	if hx.Thorough() {
		maxLen = 6
	}
	for l := 1; l <= maxLen; l++ {
		total := 1
		for i := 0; i < l; i++ {
			total *= 4
		}
		for code := 0; code < total; code++ {
			var defs []DefOp
			k := code
			for i := 0; i < l; i++ {
				e := k % 4
				k /= 4
				next := (i + 1) % l
				var st Step
				if e < 2 {
					st = Step{Kind: "get", Target: next, Optional: e == 1}
				} else {
					st = Step{Kind: "inject", Fields: []Field{{Tag: "dep", Target: next, Optional: e == 3}}}
				}
				defs = append(defs, DefOp{Op: "AddFactory", Name: i, Factory: &Factory{Steps: []Step{st}, Result: "ok"}})
			}
			var reqs []Req
			for round := 0; round < 2; round++ {
				for i := 0; i < l; i++ {
					reqs = append(reqs, Req{Kind: "get", Target: i})
				}
			}
			if !one(Case{Container: "plain", Extra: "none", Defs: defs, Reqs: reqs}) {
				return
			}
		}
	}
}

func TestReplay(t *testing.T) {
	hx.Replay(t, map[string]func(json.RawMessage) (hx.Verdict, error){"program": hx.Exec(Exec), "": hx.Exec(Exec)})
}
