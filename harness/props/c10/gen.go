package c10

import (
	"pgregory.net/rapid"
	"verif/harness/hx"
)

type genState struct {
	rt     *rapid.T
	budget int // remaining factory edges (get steps + inject fields) in the whole case
	cfgOK  bool
}

func (g *genState) target() int { return hx.Uniform(g.rt, NNames+1, "target") }

func (g *genState) fields(max int) []Field {
	n := 1 + hx.Uniform(g.rt, max, "nfields")
	out := make([]Field, 0, n)
	for i := 0; i < n; i++ {
		k := hx.Uniform(g.rt, 100, "fieldkind")
		switch {
		case k < 68:
			out = append(out, Field{Tag: "dep", Target: g.target(), Optional: rare(g.rt, 40, "fopt"), Iface: rare(g.rt, 30, "fiface"), Pre: g.pre()})
		case k < 92:
			// required fields prefer keys that exist so that the extra injector does not dominate failures
			f := Field{Tag: "cfg", Optional: rare(g.rt, 50, "copt"), Iface: rare(g.rt, 30, "ciface")}
			if f.Optional || rare(g.rt, 15, "cmiss") {
				f.Target = hx.Uniform(g.rt, 3, "ckey")
			} else {
				f.Target = 2 * hx.Uniform(g.rt, 2, "ckey2")
			}
			if rare(g.rt, 10, "cpre") {
				f.Pre = "stale"
			}
			out = append(out, f)
		default:
			out = append(out, Field{})
		}
	}
	return out
}

// pre draws what a dependency field holds before InjectTo is called (zero in 3 of 4 cases).
func (g *genState) pre() string {
	if !rare(g.rt, 24, "pre") {
		return ""
	}
	return []string{"foreign", "other", "own"}[hx.Uniform(g.rt, 3, "prekind")]
}

// pool draws the two-providers-in-turn scenario for an InjectTo.
func (g *genState) pool() string {
	if !rare(g.rt, 18, "pool") {
		return ""
	}
	return []string{"before", "after", "foreign"}[hx.Uniform(g.rt, 3, "poolkind")]
}

func (g *genState) anyDef() *DefOp {
	ops := []string{"Set", "SetDefault", "AddFactory", "AddDefaultFactory"}
	d := &DefOp{Op: ops[hx.Uniform(g.rt, 4, "lateop")], Name: hx.Uniform(g.rt, NNames, "latename")}
	if isFactoryOp(d.Op) {
		d.Factory = &Factory{Result: "ok"}
	}
	return d
}

func (g *genState) factory(allowDefine bool) *Factory {
	f := &Factory{}
	n := []int{0, 1, 1, 1, 2, 2, 3}[hx.Uniform(g.rt, 7, "nsteps")]
	for i := 0; i < n && g.budget > 0; i++ {
		k := hx.Uniform(g.rt, 100, "stepkind")
		switch {
		case k < 55:
			f.Steps = append(f.Steps, Step{Kind: "get", Target: g.target(), Optional: rare(g.rt, 35, "sopt")})
			g.budget--
		case k < 94 || !allowDefine:
			fs := g.fields(3)
			f.Steps = append(f.Steps, Step{Kind: "inject", Fields: fs, Optional: rare(g.rt, 20, "iopt"), Pool: g.pool()})
			g.budget -= len(fs)
		default:
			f.Steps = append(f.Steps, Step{Kind: "define", Def: g.anyDef()})
		}
	}
	switch r := hx.Uniform(g.rt, 100, "result"); {
	case r < 76:
		f.Result = "ok"
	case r < 90:
		f.Result = "err"
	default:
		f.Result = "nil"
	}
	return f
}

// Gen draws a case.
func Gen(rt *rapid.T) Case {
	g := &genState{rt: rt, budget: 16}
	if hx.Thorough() {
		g.budget = 22
	}
	c := Case{}
	switch k := hx.Uniform(rt, 100, "container"); {
	case k < 66:
		c.Container = "plain"
	case k < 83:
		c.Container = "static"
	default:
		c.Container = "goatapp"
	}
	c.Extra = []string{"none", "map", "multi", "datascope"}[hx.Uniform(rt, 4, "extra")]
	static := c.Container == "static"

	// which definitions exist per name
	expl := map[int]string{}
	deflt := map[int]string{}
	var defs []DefOp
	add := func(op string, name int) {
		d := DefOp{Op: op, Name: name}
		if isFactoryOp(op) {
			d.Factory = g.factory(true)
		}
		defs = append(defs, d)
		if isExplicit(op) {
			expl[name] = op
		} else {
			deflt[name] = op
		}
	}
	for n := 0; n < NNames; n++ {
		if rare(rt, 58, "hasexpl") {
			if hx.Chance(rt, 30, "explinst") {
				add("Set", n)
			} else {
				add("AddFactory", n)
			}
		}
		if !static && rare(rt, 42, "hasdef") {
			if hx.Chance(rt, 40, "definst") {
				add("SetDefault", n)
			} else {
				add("AddDefaultFactory", n)
			}
		}
	}
	// planted ring N(a0) -> N(a1) -> ... -> N(a0) of length 1..5 over factory-defined names
	if rare(rt, 35, "ring") {
		l := 1 + hx.Uniform(rt, 5, "ringlen")
		perm := []int{0, 1, 2, 3, 4, 5}
		for i := 0; i < l; i++ {
			j := i + hx.Uniform(rt, NNames-i, "ringpick")
			perm[i], perm[j] = perm[j], perm[i]
		}
		ring := perm[:l]
		for i, n := range ring {
			next := ring[(i+1)%l]
			// make the effective definition of n a factory
			if expl[n] == "Set" {
				for k := range defs {
					if defs[k].Name == n && defs[k].Op == "Set" {
						defs[k].Op = "AddFactory"
						defs[k].Factory = g.factory(true)
						expl[n] = "AddFactory"
					}
				}
			}
			if expl[n] == "" && deflt[n] != "AddDefaultFactory" {
				if deflt[n] == "" && !static && rare(rt, 35, "ringdefault") {
					add("AddDefaultFactory", n)
				} else {
					add("AddFactory", n)
				}
			}
			want := "AddDefaultFactory"
			if expl[n] != "" {
				want = "AddFactory"
			}
			for k := range defs {
				if defs[k].Name == n && defs[k].Op == want {
					var st Step
					if hx.Chance(rt, 60, "ringget") {
						st = Step{Kind: "get", Target: next, Optional: rare(rt, 30, "ringopt")}
					} else {
						st = Step{Kind: "inject", Fields: []Field{{Tag: "dep", Target: next, Optional: rare(rt, 30, "ringfopt"), Iface: rare(rt, 30, "ringiface")}}, Optional: rare(rt, 10, "ringiopt")}
					}
					f := defs[k].Factory
					at := hx.Uniform(rt, len(f.Steps)+1, "ringat")
					f.Steps = append(f.Steps[:at], append([]Step{st}, f.Steps[at:]...)...)
					break
				}
			}
		}
	}
	// same-kind duplicates
	if len(defs) > 0 && rare(rt, 12, "dup") {
		src := defs[hx.Uniform(rt, len(defs), "dupsrc")]
		d := DefOp{Op: src.Op, Name: src.Name}
		if isFactoryOp(d.Op) {
			d.Factory = g.factory(false)
		}
		defs = append(defs, d)
	}
	// registration order: uniform permutation
	for i := len(defs) - 1; i > 0; i-- {
		j := hx.Uniform(rt, i+1, "perm")
		defs[i], defs[j] = defs[j], defs[i]
	}
	// keep some definitions back for the request phase (issued before or after the first resolution)
	held := 0
	if !static && len(defs) > 1 && rare(rt, 20, "hold") {
		held = 1 + hx.Uniform(rt, 2, "nheld")
		if held > len(defs)-1 {
			held = len(defs) - 1
		}
	}
	c.Defs = defs[:len(defs)-held]
	heldDefs := defs[len(defs)-held:]
	c.InjAt = hx.Uniform(rt, len(c.Defs)+1, "injat")

	// request program
	nreq := 2 + hx.Uniform(rt, 7, "nreq")
	if hx.Thorough() {
		nreq = 2 + hx.Uniform(rt, 11, "nreq")
	}
	resolved := false
	var asked []int
	pick := func() int {
		if len(asked) > 0 && hx.Chance(rt, 45, "again") {
			return asked[hx.Uniform(rt, len(asked), "againwhich")]
		}
		t := g.target()
		asked = append(asked, t)
		return t
	}
	for i := 0; i < nreq; i++ {
		if len(heldDefs) > 0 && rare(rt, 40, "release") {
			d := heldDefs[0]
			heldDefs = heldDefs[1:]
			if resolved || !crossKind(expl, deflt, d) {
				c.Reqs = append(c.Reqs, Req{Kind: "define", Def: &d})
			}
			continue
		}
		k := hx.Uniform(rt, 100, "reqkind")
		switch {
		case k < 52:
			c.Reqs = append(c.Reqs, Req{Kind: "get", Target: pick()})
			resolved = true
		case k < 82:
			fs := g.fields(3)
			for j := range fs {
				if fs[j].Tag == "dep" {
					fs[j].Target = pick()
					resolved = true
				}
			}
			c.Reqs = append(c.Reqs, Req{Kind: "inject", Fields: fs, Pool: g.pool()})
		case k < 87:
			if resolved {
				c.Reqs = append(c.Reqs, Req{Kind: "keys"})
			}
		default:
			if resolved {
				c.Reqs = append(c.Reqs, Req{Kind: "define", Def: g.anyDef()})
			}
		}
	}
	return c
}

// rare is true with probability pct/100 and false when the draw shrinks to 0, so that
// shrinking removes structure instead of adding it.
func rare(rt *rapid.T, pct int, label string) bool { return hx.Uniform(rt, 100, label) >= 100-pct }

// crossKind: would d be a second, different-kind explicit (or default) definition of its name?
// (held-back definitions come from the same per-name plan, so this is only a safety net)
func crossKind(expl, deflt map[int]string, d DefOp) bool {
	if isExplicit(d.Op) {
		return expl[d.Name] != "" && expl[d.Name] != d.Op
	}
	return deflt[d.Name] != "" && deflt[d.Name] != d.Op
}
