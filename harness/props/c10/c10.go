// Package c10: the dependency container gives lazy singletons, a fixed explicit>default
// precedence, frozen definitions after the first resolution, cycle errors instead of
// recursion, and failed/optional resolutions that do not disturb other requests.
//
// A case is a definition program (Set/SetDefault/AddFactory/AddDefaultFactory over the
// names N0..N5, factories being generated step lists) followed by a request program
// (Get, InjectTo of reflect-built tagged structs, Keys, late definitions). The executor
// runs it on the real container (plain provider, static provider, or the provider wired
// by goatapp) while a small reference container predicts every request - top level and
// nested inside factories - from the current state.
package c10

import (
	"errors"
	"fmt"
	"reflect"
	"strconv"
	"strings"
	"sync"

	"github.com/goatcms/goatcore/app"
	"github.com/goatcms/goatcore/app/dependency"
	"github.com/goatcms/goatcore/app/goatapp"
	"github.com/goatcms/goatcore/app/injector"
	"github.com/goatcms/goatcore/app/scope/datascope"
	"github.com/goatcms/goatcore/filesystem/filespace/memfs"
	"verif/harness/hx"
)

const (
	// NNames is the number of definable names N0..N5; index NNames is the name "NX" that
	// is never defined (the optional-and-missing target).
	NNames = 6
	// Missing is the index of the never defined name.
	Missing = NNames

	depTag = app.DependencyTagName // "dependency"
	cfgTag = app.ConfigTagName     // "config"

	maxDepth  = 12     // Go-stack bound inside generated factories (7 names can nest at most 7 deep)
	simBudget = 300000 // reference-container visits per case before the case is given up as inconclusive
)

// cfgData is what the extra injector serves: k0 and k2 exist, k1 does not.
var cfgData = map[string]string{"k0": "v0", "k2": "v2"}

func nameOf(i int) string {
	if i >= 0 && i < NNames {
		return "N" + strconv.Itoa(i)
	}
	return "NX"
}

func norm(i int) int {
	if i >= 0 && i < NNames {
		return i
	}
	return Missing
}

func keyOf(i int) string { return "k" + strconv.Itoa(((i%3)+3)%3) }

// Field is one field of an injection target struct.
type Field struct {
	Tag      string `json:"tag"`           // "dep" | "cfg" | "" (untagged)
	Target   int    `json:"t"`             // name index (dep) or key index (cfg)
	Optional bool   `json:"opt,omitempty"` // '?' marker
	Iface    bool   `json:"iface,omitempty"`
	// Pre: what the field holds BEFORE InjectTo is called: "" (zero) | "foreign" (an instance no container owns) |
	// "other" (the instance a second provider holds for the same name) | "own" (this container's instance if it
	// already exists, else a foreign one); cfg fields: any non-empty Pre = a stale string.
	Pre string `json:"pre,omitempty"`
}

// Step is one action of a generated factory.
type Step struct {
	Kind     string  `json:"kind"`             // "get" | "inject" | "define"
	Target   int     `json:"t,omitempty"`      // get
	Optional bool    `json:"opt,omitempty"`    // the factory ignores an error of this step
	Fields   []Field `json:"fields,omitempty"` // inject
	Pool     string  `json:"pool,omitempty"`   // inject: "" | "before" | "after" | "foreign" (see Req.Pool)
	Def      *DefOp  `json:"def,omitempty"`    // define (always late: a factory only runs inside a resolution)
}

// Factory is a generated factory: its steps in order, then its result.
type Factory struct {
	Steps  []Step `json:"steps,omitempty"`
	Result string `json:"result"` // "ok" | "err" | "nil"
}

// DefOp is one definition call.
type DefOp struct {
	Op      string   `json:"op"` // Set | SetDefault | AddFactory | AddDefaultFactory
	Name    int      `json:"name"`
	Factory *Factory `json:"factory,omitempty"`
}

// Req is one request of the request program.
type Req struct {
	Kind   string  `json:"kind"` // get | inject | keys | define
	Target int     `json:"t,omitempty"`
	Fields []Field `json:"fields,omitempty"`
	// Pool: one struct value injected by two providers in turn. "before": a second provider (defining every name)
	// injects the struct first, then the container under test; "after": the other way round, and the second
	// provider's instances must then be in the fields. "foreign": a provider reading another tag name is given
	// the struct first; it must leave it alone and must not change what the container under test does with it.
	Pool string `json:"pool,omitempty"`
	Def  *DefOp `json:"def,omitempty"`
}

// Case is a definition program plus a request program on one container flavour.
type Case struct {
	Container string  `json:"container"` // plain | static | goatapp
	Extra     string  `json:"extra"`     // none | map | multi | datascope (plain and static; goatapp wires its own)
	InjAt     int     `json:"inj_at"`    // plain: AddInjectors is called before definition number InjAt
	Defs      []DefOp `json:"defs"`
	Reqs      []Req   `json:"reqs"`
}

// Inst is the instance type of every dependency in a case.
type Inst struct {
	Def  int
	Run  int
	Name string
}

func isExplicit(op string) bool { return op == "Set" || op == "AddFactory" }
func isFactoryOp(op string) bool {
	return op == "AddFactory" || op == "AddDefaultFactory"
}
func validOp(op string) bool {
	return op == "Set" || op == "SetDefault" || op == "AddFactory" || op == "AddDefaultFactory"
}

// rdef is a definition at run time.
type rdef struct {
	id       int
	op       string
	name     int
	fac      *Factory
	inst     *Inst // Set / SetDefault value
	produced *Inst // first instance a factory returned
	runs     int
}

type flags struct {
	cycle, selfLoop, failing, nilResult, optMiss, missing bool
	cycleLen, fails                                       int
}

type executor struct {
	c        Case
	dp       app.DependencyProvider
	injectTo func(interface{}) error
	hasExtra bool

	expl, deflt map[int]*rdef
	all         []*rdef
	resolved    bool
	// maybeResolved: an InjectTo request was made that resolved nothing through this provider (no
	// field tagged for it). Whether that request already is "the first resolution" after which
	// definitions are refused is not said by the statement: the next definition decides.
	maybeResolved bool
	memo        map[int]*Inst
	stack       []int
	pending     [][]int
	depth       int
	viol        *hx.Verdict
	step        int
	giveUp      bool // accepted duplicate / budget: the rest of the case is not judged
	simVisits   int

	fl             flags
	labels         map[string]bool
	requests       int // top-level get/inject requests
	edgesRun       int // nested requests issued by factories
	failures       int // requests (any level) predicted to fail
	pairRequested  bool
	requestedNames map[int]int
	skipped        int64

	aux     app.DependencyProvider // the second provider: every name (also NX) is Set to an instance of its own
	auxInst map[int]*Inst
	frn     app.DependencyProvider // a provider that reads another tag name (pool "foreign")
}

var errFactory = errors.New("generated factory failure")
var errAbort = errors.New("c10: aborted after a violation")

func (x *executor) fail(clause, format string, a ...interface{}) {
	if x.viol != nil {
		return
	}
	v := hx.Fail(clause, format, a...)
	v.Step = x.step
	x.viol = &v
}

func (x *executor) effective(name int) *rdef {
	if d := x.expl[name]; d != nil {
		return d
	}
	return x.deflt[name]
}

func (x *executor) canonical(name int) *Inst {
	d := x.effective(name)
	if d == nil {
		return nil
	}
	if d.fac == nil {
		return d.inst
	}
	return d.produced
}

func (x *executor) onStack(name int) int {
	for i, n := range x.stack {
		if n == name {
			return i
		}
	}
	return -1
}

// ---------------------------------------------------------------------------------
// reference container: pure prediction of a request in the current state

type sim struct {
	x     *executor
	stack []int
	extra map[int]bool // names that get an instance during the simulated request
	fl    *flags
	over  bool
}

func (x *executor) newSim() *sim {
	return &sim{x: x, stack: append([]int(nil), x.stack...), extra: map[int]bool{}, fl: &x.fl}
}

func (s *sim) get(name int) bool {
	s.x.simVisits++
	if s.x.simVisits > simBudget {
		s.over = true
		return false
	}
	for i, n := range s.stack {
		if n == name {
			s.fl.cycle = true
			if l := len(s.stack) - i; l > s.fl.cycleLen {
				s.fl.cycleLen = l
			}
			if i == len(s.stack)-1 {
				s.fl.selfLoop = true
			}
			return false
		}
	}
	if s.x.memo[name] != nil || s.extra[name] {
		return true
	}
	d := s.x.effective(name)
	if d == nil {
		s.fl.missing = true
		return false
	}
	if d.fac == nil || d.produced != nil {
		return true
	}
	s.stack = append(s.stack, name)
	ok := s.steps(d.fac)
	s.stack = s.stack[:len(s.stack)-1]
	if !ok {
		return false
	}
	switch d.fac.Result {
	case "ok":
		s.extra[name] = true
		return true
	case "nil":
		s.fl.nilResult = true
	default:
		s.fl.failing = true
	}
	return false
}

func (s *sim) steps(f *Factory) bool {
	for i := range f.Steps {
		st := &f.Steps[i]
		ok := true
		switch st.Kind {
		case "get":
			ok = s.get(norm(st.Target))
		case "inject":
			ok, _ = s.inject(st.Fields)
		}
		if !ok {
			if !st.Optional {
				return false
			}
			s.fl.optMiss = true
			s.fl.fails++
		}
	}
	return true
}

// inject predicts InjectTo: dependency fields in struct order, then the extra injector's
// fields in struct order. res[i] tells whether field i receives a value.
func (s *sim) inject(fields []Field) (bool, []bool) {
	res := make([]bool, len(fields))
	for i, f := range fields {
		if f.Tag != "dep" {
			continue
		}
		res[i] = s.get(norm(f.Target))
		if !res[i] {
			if !f.Optional {
				return false, res
			}
			s.fl.optMiss = true
			s.fl.fails++
		}
	}
	if s.x.hasExtra {
		for i, f := range fields {
			if f.Tag != "cfg" {
				continue
			}
			_, res[i] = cfgData[keyOf(f.Target)]
			if !res[i] && !f.Optional {
				return false, res
			}
		}
	}
	return true, res
}

// ---------------------------------------------------------------------------------
// struct types for InjectTo

var typeCache sync.Map

var (
	instPtrType = reflect.TypeOf((*Inst)(nil))
	ifaceType   = reflect.TypeOf((*interface{})(nil)).Elem()
	stringType  = reflect.TypeOf("")
	intType     = reflect.TypeOf(0)
)

func structFor(fields []Field) reflect.Type {
	var key strings.Builder
	sf := make([]reflect.StructField, len(fields))
	for i, f := range fields {
		q := ""
		if f.Optional {
			q = "?"
		}
		var tag string
		typ := intType
		switch f.Tag {
		case "dep":
			tag = fmt.Sprintf(`%s:"%s%s"`, depTag, q, nameOf(f.Target))
			typ = instPtrType
			if f.Iface {
				typ = ifaceType
			}
		case "cfg":
			tag = fmt.Sprintf(`%s:"%s%s"`, cfgTag, q, keyOf(f.Target))
			typ = stringType
			if f.Iface {
				typ = ifaceType
			}
		}
		sf[i] = reflect.StructField{Name: "F" + strconv.Itoa(i), Type: typ, Tag: reflect.StructTag(tag)}
		key.WriteString(tag)
		key.WriteString(typ.String())
		key.WriteByte(';')
	}
	if t, ok := typeCache.Load(key.String()); ok {
		return t.(reflect.Type)
	}
	t := reflect.StructOf(sf)
	typeCache.Store(key.String(), t)
	return t
}

func capFields(f []Field) []Field {
	if len(f) > 6 {
		return f[:6]
	}
	return f
}

// ---------------------------------------------------------------------------------
// requests against the real container (top level and from inside factories)

func (x *executor) noteRequest(name int) {
	if x.expl[name] != nil && x.deflt[name] != nil {
		x.pairRequested = true
		x.labels["explicit+default"] = true
		e, d := x.expl[name], x.deflt[name]
		if e.op == "AddFactory" && d.op == "SetDefault" {
			x.labels["explicit-factory+default-instance"] = true
		}
	}
}

// checkValue judges the value a successful request returned for name.
func (x *executor) checkValue(name int, v interface{}, how string) *Inst {
	want := x.canonical(name)
	got, _ := v.(*Inst)
	if got == nil || got != want {
		clause := "same-instance"
		if got != nil && want != nil && got.Def != want.Def {
			if d := x.effective(name); d != nil && isExplicit(d.op) && x.deflt[name] != nil && got.Def == x.deflt[name].id {
				clause = "precedence"
			}
		}
		if got != nil && want == nil {
			if d := x.effective(name); d != nil && isExplicit(d.op) && x.deflt[name] != nil && got.Def == x.deflt[name].id {
				clause = "precedence"
			}
		}
		x.fail(clause, "%s of %s yielded %s, want %s (effective definition: %s)", how, nameOf(name), descInst(v), descInst(want), x.descDef(x.effective(name)))
		return nil
	}
	x.memo[name] = want
	return want
}

func descInst(v interface{}) string {
	switch i := v.(type) {
	case nil:
		return "<nil>"
	case *Inst:
		if i == nil {
			return "<nil *Inst>"
		}
		return fmt.Sprintf("instance(def#%d %s run %d)", i.Def, i.Name, i.Run)
	}
	return fmt.Sprintf("%T(%v)", v, v)
}

func (x *executor) descDef(d *rdef) string {
	if d == nil {
		return "none"
	}
	return fmt.Sprintf("def#%d %s(%s)", d.id, d.op, nameOf(d.name))
}

func (x *executor) get(dp app.DependencyProvider, name int, nested bool) bool {
	s := x.newSim()
	pred := s.get(name)
	if s.over {
		x.giveUp = true
		return false
	}
	if !pred {
		x.failures++
	}
	x.failures += x.fl.fails
	x.fl.fails = 0
	x.noteRequest(name)
	x.resolved = true
	hadInst := x.memo[name] != nil
	x.pending = append(x.pending, []int{name})
	v, err := dp.Get(nameOf(name))
	x.pending = x.pending[:len(x.pending)-1]
	if x.viol != nil || x.giveUp {
		return false
	}
	where := "Get"
	if nested {
		where = fmt.Sprintf("Get inside the factory of %s (construction stack %s)", nameOf(x.stack[len(x.stack)-1]), x.descStack())
	}
	if pred && err != nil {
		clause := "outcome"
		if hadInst {
			clause = "same-instance"
		}
		x.fail(clause, "%s(%s) failed but must succeed (instance existed before: %v; earlier failed/optional resolutions in this case: %d): %v", where, nameOf(name), hadInst, x.failures, err)
		return false
	}
	if !pred && err == nil {
		clause := "outcome"
		if x.onStack(name) >= 0 {
			clause = "cycle"
		}
		x.fail(clause, "%s(%s) succeeded with %s but must fail (on construction stack: %v, effective definition: %s)", where, nameOf(name), descInst(v), x.onStack(name) >= 0, x.descDef(x.effective(name)))
		return false
	}
	if pred {
		if x.checkValue(name, v, where) == nil {
			return false
		}
	}
	return pred
}

func (x *executor) descStack() string {
	p := make([]string, len(x.stack))
	for i, n := range x.stack {
		p[i] = nameOf(n)
	}
	return "[" + strings.Join(p, " ") + "]"
}

const foreignTag = "inject"

// foreign returns a provider that reads the tag name "inject" and defines every name (built on first use).
func (x *executor) foreign() app.DependencyProvider {
	if x.frn == nil {
		x.frn = dependency.NewProvider(foreignTag)
		for n := 0; n <= NNames; n++ {
			if err := x.frn.Set(nameOf(n), &Inst{Def: -3, Name: nameOf(n) + "@foreign-provider"}); err != nil {
				x.fail("setup", "foreign provider: %v", err)
			}
		}
	}
	return x.frn
}

// second returns the second provider (built on first use).
func (x *executor) second() app.DependencyProvider {
	if x.aux == nil {
		x.aux = dependency.NewProvider(depTag)
		x.auxInst = map[int]*Inst{}
		for n := 0; n <= NNames; n++ {
			x.auxInst[n] = &Inst{Def: -2, Name: nameOf(n) + "@second-provider"}
			if err := x.aux.Set(nameOf(n), x.auxInst[n]); err != nil {
				x.fail("setup", "second provider: %v", err)
			}
		}
	}
	return x.aux
}

// prepopulate fills the fields of a fresh target as the case says; it reports which fields are non-zero.
func (x *executor) prepopulate(obj reflect.Value, fields []Field, nested bool) []bool {
	pre := make([]bool, len(fields))
	for i, f := range fields {
		if f.Pre == "" || f.Tag == "" {
			continue
		}
		fv := obj.Elem().Field(i)
		if f.Tag == "cfg" {
			fv.Set(reflect.ValueOf("stale"))
			pre[i] = true
			x.labels["prepopulated-cfg-field"] = true
			continue
		}
		n := norm(f.Target)
		var v *Inst
		kind := f.Pre
		switch kind {
		case "other":
			x.second()
			v = x.auxInst[n]
		case "own":
			v = x.canonical(n)
			if v == nil || x.memo[n] == nil {
				v, kind = nil, "foreign"
			}
		default:
			kind = "foreign"
		}
		if v == nil {
			v = &Inst{Def: -1, Name: "foreign-placeholder"}
		}
		fv.Set(reflect.ValueOf(v))
		pre[i] = true
		x.labels["prepopulated-field"] = true
		x.labels["prepopulated-"+kind] = true
		if f.Optional {
			x.labels["prepopulated-optional-field"] = true
		}
		if nested {
			x.labels["prepopulated-in-factory"] = true
		}
	}
	return pre
}

func (x *executor) inject(call func(interface{}) error, fields []Field, nested bool, pool string) bool {
	fields = capFields(fields)
	s := x.newSim()
	pred, res := s.inject(fields)
	if s.over {
		x.giveUp = true
		return false
	}
	if !pred {
		x.failures++
	}
	x.failures += x.fl.fails
	x.fl.fails = 0
	var targets []int
	anyDep := false
	for _, f := range fields {
		if f.Tag == "dep" {
			anyDep = true
		}
	}
	if !anyDep && !x.resolved {
		x.maybeResolved = true
	}
	for _, f := range fields {
		if f.Tag == "dep" {
			n := norm(f.Target)
			targets = append(targets, n)
			x.noteRequest(n)
			x.resolved = true
		}
		if f.Tag == "cfg" && x.hasExtra {
			x.labels["extra-injector"] = true
		}
	}
	obj := reflect.New(structFor(fields))
	pre := x.prepopulate(obj, fields, nested)
	where := "InjectTo"
	if nested {
		where = fmt.Sprintf("InjectTo inside the factory of %s (construction stack %s)", nameOf(x.stack[len(x.stack)-1]), x.descStack())
	}
	if pool == "before" && len(targets) > 0 {
		// the struct comes out of another container first (pooled handler, package level deps struct)
		x.labels["two-providers-second-first"] = true
		if nested {
			x.labels["two-providers-in-factory"] = true
		}
		if err := x.second().InjectTo(obj.Interface()); err != nil {
			x.fail("outcome", "%s(%s): the second provider defines every name but its InjectTo failed: %v", where, descFields(fields), err)
			return false
		}
		for i, f := range fields {
			if f.Tag == "dep" && !obj.Elem().Field(i).IsNil() {
				pre[i] = true
			}
		}
	}
	if pool == "foreign" {
		// a provider that reads ANOTHER tag name sees the struct first (two containers in one process, one
		// wired with "dependency" tags, one with "inject" tags): it has nothing to do with these fields,
		// and whatever it learned about the struct type must not change what this container does with it
		x.labels["two-providers-foreign-tag-name"] = true
		before := reflect.New(obj.Elem().Type())
		before.Elem().Set(obj.Elem())
		if err := x.foreign().InjectTo(obj.Interface()); err != nil {
			x.fail("outcome", "%s(%s): a provider for the tag name %q was given the struct first (no field carries that tag) and failed: %v", where, descFields(fields), foreignTag, err)
			return false
		}
		if !reflect.DeepEqual(before.Elem().Interface(), obj.Elem().Interface()) {
			x.fail("same-instance", "%s(%s): a provider for the tag name %q was given the struct first; no field carries that tag, yet it changed the struct from %+v to %+v", where, descFields(fields), foreignTag, before.Elem().Interface(), obj.Elem().Interface())
			return false
		}
	}
	x.pending = append(x.pending, targets)
	err := call(obj.Interface())
	x.pending = x.pending[:len(x.pending)-1]
	if x.viol != nil || x.giveUp {
		return false
	}
	if pool == "after" && len(targets) > 0 {
		// whatever this container left in the fields, the second provider's injection must put ITS instances there
		x.labels["two-providers-second-last"] = true
		if nested {
			x.labels["two-providers-in-factory"] = true
		}
		cp := reflect.New(obj.Elem().Type())
		cp.Elem().Set(obj.Elem())
		if err2 := x.second().InjectTo(cp.Interface()); err2 != nil {
			x.fail("outcome", "%s(%s): the second provider defines every name but its InjectTo failed: %v", where, descFields(fields), err2)
			return false
		}
		for i, f := range fields {
			if f.Tag != "dep" {
				continue
			}
			var got interface{}
			if fv := cp.Elem().Field(i); !fv.IsNil() {
				got = fv.Interface()
			}
			if gi, _ := got.(*Inst); gi == nil || gi != x.auxInst[norm(f.Target)] {
				x.fail("same-instance", "%s(%s) then InjectTo of the same struct by a second provider: field %d (%s) holds %s, want the second provider's instance of %s", where, descFields(fields), i, nameOf(f.Target), descInst(got), nameOf(f.Target))
				return false
			}
		}
	}
	if pred && err != nil {
		x.fail("outcome", "%s(%s) failed but must succeed (earlier failed/optional resolutions in this case: %d): %v", where, descFields(fields), x.failures, err)
		return false
	}
	if !pred && err == nil {
		x.fail("outcome", "%s(%s) succeeded but must fail", where, descFields(fields))
		return false
	}
	if !pred {
		return false
	}
	for i, f := range fields {
		fv := obj.Elem().Field(i)
		switch f.Tag {
		case "dep":
			n := norm(f.Target)
			if res[i] {
				var v interface{}
				if !fv.IsNil() {
					v = fv.Interface()
				}
				if x.checkValue(n, v, fmt.Sprintf("%s field %d", where, i)) == nil {
					return false
				}
			} else if pre[i] {
				// an optional field that held something before the call and cannot be resolved: the statement
				// does not say whether the old content stays or is cleared
				x.labels["prepopulated-optional-unresolved"] = true
			} else if !fv.IsNil() {
				x.fail("outcome", "%s(%s): optional field %d (%s) cannot be resolved but was set to %s", where, descFields(fields), i, nameOf(n), descInst(fv.Interface()))
				return false
			}
		case "cfg":
			if !x.hasExtra {
				continue
			}
			var got interface{} = fv.Interface()
			if f.Iface && fv.IsNil() {
				got = nil
			}
			if res[i] {
				if got != interface{}(cfgData[keyOf(f.Target)]) {
					x.fail("extra-injector", "%s(%s): field %d = %v, want %q", where, descFields(fields), i, got, cfgData[keyOf(f.Target)])
					return false
				}
			}
		}
	}
	return true
}

func descFields(fields []Field) string {
	var p []string
	for _, f := range fields {
		q := ""
		if f.Optional {
			q = "?"
		}
		switch f.Tag {
		case "dep":
			p = append(p, depTag+":"+q+nameOf(f.Target))
		case "cfg":
			p = append(p, cfgTag+":"+q+keyOf(f.Target))
		default:
			p = append(p, "-")
		}
	}
	return strings.Join(p, ",")
}

// ---------------------------------------------------------------------------------
// generated factories

func (x *executor) factory(d *rdef) app.Factory {
	return func(dp app.DependencyProvider) (interface{}, error) { return x.runFactory(d, dp) }
}

func (x *executor) runFactory(d *rdef, dp app.DependencyProvider) (interface{}, error) {
	d.runs++
	if x.viol != nil || x.giveUp {
		return nil, errAbort
	}
	if x.depth >= maxDepth {
		x.fail("cycle", "factory of %s entered at nesting depth %d (construction stack %s): unbounded recursion", nameOf(d.name), x.depth, x.descStack())
		return nil, errAbort
	}
	if len(x.pending) == 0 {
		x.fail("lazy", "factory %s ran although no request is in progress", x.descDef(d))
		return nil, errAbort
	}
	admitted := false
	for _, t := range x.pending[len(x.pending)-1] {
		if t == d.name {
			admitted = true
		}
	}
	if !admitted {
		x.fail("lazy", "factory %s ran although the request in progress asks for %v only", x.descDef(d), names(x.pending[len(x.pending)-1]))
		return nil, errAbort
	}
	if x.effective(d.name) != d {
		x.fail("precedence", "factory %s ran although the effective definition of %s is %s", x.descDef(d), nameOf(d.name), x.descDef(x.effective(d.name)))
		return nil, errAbort
	}
	if d.produced != nil {
		x.fail("once", "factory %s ran again (run %d) after it had produced %s", x.descDef(d), d.runs, descInst(d.produced))
		return nil, errAbort
	}
	if x.onStack(d.name) >= 0 {
		x.fail("cycle", "factory of %s entered while %s is already under construction (stack %s): recursion instead of an error", nameOf(d.name), nameOf(d.name), x.descStack())
		return nil, errAbort
	}
	x.stack = append(x.stack, d.name)
	x.depth++
	defer func() {
		x.stack = x.stack[:len(x.stack)-1]
		x.depth--
	}()
	for i := range d.fac.Steps {
		st := &d.fac.Steps[i]
		ok := true
		switch st.Kind {
		case "get":
			x.edgesRun++
			ok = x.get(dp, norm(st.Target), true)
		case "inject":
			x.edgesRun++
			x.labels["inject-in-factory"] = true
			ok = x.inject(dp.InjectTo, st.Fields, true, st.Pool)
		case "define":
			if st.Def != nil {
				x.labels["late-definition-in-factory"] = true
				x.define(dp, *st.Def)
			}
		}
		if x.viol != nil || x.giveUp {
			return nil, errAbort
		}
		if !ok && !st.Optional {
			return nil, errFactory
		}
	}
	switch d.fac.Result {
	case "ok":
		inst := &Inst{Def: d.id, Run: d.runs, Name: nameOf(d.name)}
		d.produced = inst
		return inst, nil
	case "nil":
		x.labels["nil-factory-run"] = true
		return nil, nil
	}
	x.labels["failing-factory-run"] = true
	return nil, errFactory
}

func names(l []int) []string {
	p := make([]string, len(l))
	for i, n := range l {
		p[i] = nameOf(n)
	}
	return p
}

// ---------------------------------------------------------------------------------
// definitions

func (x *executor) newDef(op DefOp) *rdef {
	d := &rdef{id: len(x.all), op: op.Op, name: norm(op.Name)}
	if isFactoryOp(op.Op) {
		d.fac = op.Factory
		if d.fac == nil {
			d.fac = &Factory{Result: "ok"}
		}
	} else {
		d.inst = &Inst{Def: d.id, Name: nameOf(d.name)}
	}
	x.all = append(x.all, d)
	return d
}

func (x *executor) call(dp app.DependencyProvider, d *rdef) error {
	switch d.op {
	case "Set":
		return dp.Set(nameOf(d.name), d.inst)
	case "SetDefault":
		return dp.SetDefault(nameOf(d.name), d.inst)
	case "AddFactory":
		return dp.AddFactory(nameOf(d.name), x.factory(d))
	}
	return dp.AddDefaultFactory(nameOf(d.name), x.factory(d))
}

// define issues one definition call and judges its result.
func (x *executor) define(dp app.DependencyProvider, op DefOp) {
	if !validOp(op.Op) || norm(op.Name) == Missing {
		x.skipped++
		return
	}
	name := norm(op.Name)
	table := x.deflt
	if isExplicit(op.Op) {
		table = x.expl
	}
	if x.resolved {
		d := x.newDef(op)
		x.labels["late-definition"] = true
		if err := x.call(dp, d); err == nil {
			x.fail("late-definition", "%s(%s) was accepted after the first resolution", op.Op, nameOf(name))
		}
		return
	}
	prev := table[name]
	if prev == nil {
		d := x.newDef(op)
		if err := x.call(dp, d); err != nil {
			if x.maybeResolved {
				// the earlier InjectTo without a tagged field counted as the first resolution here
				x.resolved = true
				x.labels["inject-without-tagged-field-counted-as-first-resolution"] = true
				return
			}
			x.fail("definition", "%s(%s) before any resolution, first definition of its kind for that name, was refused: %v", op.Op, nameOf(name), err)
			return
		}
		x.maybeResolved = false // accepted: the provider is still open
		table[name] = d
		return
	}
	if prev.op != op.Op {
		// two different explicit (or two different default) kinds for one name: outside the quantifier
		x.skipped++
		return
	}
	// same-kind duplicate: the statement does not say; refused = first one stays
	d := x.newDef(op)
	x.labels["duplicate-definition"] = true
	if err := x.call(dp, d); err == nil {
		if !isExplicit(op.Op) && x.expl[name] != nil {
			return // a default that can never be effective
		}
		x.labels["duplicate-accepted-unjudged"] = true
		x.giveUp = true
	}
}

// ---------------------------------------------------------------------------------
// container construction

func (x *executor) extraInjectors() []app.Injector {
	data := map[string]interface{}{}
	dsd := map[interface{}]interface{}{}
	for k, v := range cfgData {
		data[k] = v
		dsd[k] = v
	}
	switch x.c.Extra {
	case "map":
		return []app.Injector{injector.NewMapInjector(cfgTag, data)}
	case "multi":
		return []app.Injector{injector.NewMultiInjector([]app.Injector{injector.NewNilInjector(), injector.NewMapInjector(cfgTag, data)})}
	case "datascope":
		return []app.Injector{datascope.NewInjector(cfgTag, datascope.New(dsd))}
	}
	return nil
}

func (x *executor) setup() error {
	switch x.c.Container {
	case "static":
		facs := map[string]app.Factory{}
		insts := map[string]interface{}{}
		for _, op := range x.c.Defs {
			name := norm(op.Name)
			if !isExplicit(op.Op) || name == Missing || x.expl[name] != nil {
				x.skipped++
				continue
			}
			d := x.newDef(op)
			x.expl[name] = d
			if d.fac != nil {
				facs[nameOf(name)] = x.factory(d)
			} else {
				insts[nameOf(name)] = d.inst
			}
		}
		inj := x.extraInjectors()
		x.hasExtra = len(inj) > 0
		if inj == nil {
			inj = []app.Injector{}
		}
		x.dp = dependency.NewStaticProvider(depTag, facs, insts, inj)
		x.injectTo = x.dp.InjectTo
		x.labels["static-provider"] = true
		return nil
	case "goatapp":
		cwd, err := memfs.NewFilespace()
		if err != nil {
			return err
		}
		if err = cwd.MkdirAll("config", 0766); err != nil {
			return err
		}
		if err = cwd.WriteFile("config/config_prod.json", []byte(`{"k0":"v0","k2":"v2"}`), 0666); err != nil {
			return err
		}
		m, err := goatapp.NewMockupApp(goatapp.Params{Name: "c10", Arguments: []string{"c10"}, Filespaces: goatapp.Filespaces{CWD: cwd}})
		if err != nil {
			return err
		}
		x.dp = m.DependencyProvider()
		x.injectTo = m.InjectTo
		x.hasExtra = true
		x.labels["goatapp-provider"] = true
	default:
		x.dp = dependency.NewProvider(depTag)
		x.injectTo = x.dp.InjectTo
	}
	at := x.c.InjAt
	if at < 0 || at > len(x.c.Defs) {
		at = len(x.c.Defs)
	}
	for i, op := range x.c.Defs {
		if i == at {
			if err := x.addInjectors(); err != nil {
				return err
			}
		}
		x.step = i
		x.define(x.dp, op)
		if x.viol != nil || x.giveUp {
			return nil
		}
	}
	return x.addInjectors()
}

func (x *executor) addInjectors() error {
	inj := x.extraInjectors()
	if len(inj) == 0 || x.hasExtra || x.c.Container == "goatapp" {
		return nil
	}
	x.hasExtra = true
	return x.dp.AddInjectors(inj)
}

// ---------------------------------------------------------------------------------

// Exec runs a case.
func Exec(c Case) hx.Verdict {
	return hx.Guard(func() hx.Verdict { return run(c) })
}

func run(c Case) hx.Verdict {
	x := &executor{c: c, expl: map[int]*rdef{}, deflt: map[int]*rdef{}, memo: map[int]*Inst{}, labels: map[string]bool{}, requestedNames: map[int]int{}}
	if err := x.setup(); err != nil {
		return hx.Fail("setup", "container setup: %v", err)
	}
	if x.viol != nil {
		return *x.viol
	}
	repeatAfterFailure := false
	for i := 0; i < len(c.Reqs) && !x.giveUp; i++ {
		r := &c.Reqs[i]
		x.step = len(c.Defs) + i
		switch r.Kind {
		case "get":
			if x.failures > 0 {
				repeatAfterFailure = true
			}
			n := norm(r.Target)
			x.requests++
			x.requestedNames[n]++
			x.get(x.dp, n, false)
		case "inject":
			if x.failures > 0 {
				repeatAfterFailure = true
			}
			x.requests++
			x.labels["inject-request"] = true
			for _, f := range capFields(r.Fields) {
				if f.Tag == "dep" {
					x.requestedNames[norm(f.Target)]++
				}
			}
			x.inject(x.injectTo, r.Fields, false, r.Pool)
		case "keys":
			if _, err := x.dp.Keys(); err != nil {
				x.skipped++
			}
		case "define":
			if r.Def == nil || (c.Container == "static" && !x.resolved) {
				x.skipped++
				continue
			}
			x.define(x.dp, *r.Def)
		default:
			x.skipped++
		}
		if x.viol != nil {
			return *x.viol
		}
		if len(x.stack) != 0 || len(x.pending) != 0 {
			return hx.Fail("harness", "unbalanced bookkeeping after request %d", i)
		}
	}
	v := hx.Pass()
	if x.simVisits > simBudget {
		v.Inconclusive = true
	}
	// "never again once it has produced an instance", seen from the end of the case
	for _, d := range x.all {
		if d.fac != nil && d.produced != nil && d.produced.Run != d.runs {
			return hx.Fail("once", "factory %s produced its instance in run %d but ran %d times", x.descDef(d), d.produced.Run, d.runs)
		}
	}
	repeated := false
	for _, n := range x.requestedNames {
		if n >= 2 {
			repeated = true
		}
	}
	if repeated {
		x.labels["repeat-request"] = true
	}
	if repeatAfterFailure {
		x.labels["request-after-failure"] = true
	}
	if x.fl.cycle {
		x.labels["cycle-hit"] = true
		if x.fl.cycleLen >= 3 {
			x.labels["cycle-len>=3"] = true
		}
	}
	if x.fl.selfLoop {
		x.labels["self-loop"] = true
	}
	if x.fl.optMiss {
		x.labels["optional-edge-failed"] = true
	}
	if x.fl.missing {
		x.labels["missing-name"] = true
	}
	if x.edgesRun > 0 {
		x.labels["factory-edge-run"] = true
	}
	for l := range x.labels {
		v.Label(l)
	}
	v.Count("skipped_ops", x.skipped)
	v.Count("nested_requests", int64(x.edgesRun))
	v.Count("sim_visits", int64(x.simVisits))
	v.NonTrivial = !x.giveUp && x.requests >= 2 && x.edgesRun >= 1 &&
		(x.fl.failing || x.fl.nilResult || x.fl.optMiss || x.fl.missing && x.failures > 0 || x.fl.cycle || x.pairRequested)
	return v
}
