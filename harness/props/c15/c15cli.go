package c15

// Argument layer: tasks are submitted as `pip:run --name=… --rlock=… --wlock=… --body=…`
// command lines through the terminal service, so the lock map is built by pip:run
// (pipc.Run + helpers.go markBoolMapForNamespace) from the two lists. Consecutive top-level
// pip:run commands of ONE terminal loop run one after another (the command scope's Close
// waits for the task), so every holder is its own terminal session (own scope, own
// goroutine) on one app; the sessions share the application-wide CommonSharedMutex.
//
// Model: a resource a task names under --wlock was asked for write access, whatever else the
// lists contain (the same name also under --rlock, repeated names, blanks around commas);
// a name only under --rlock was asked for read access. '@name' is a global resource, a plain
// name lives in the session's lock namespace (the default "" for every session here).
//
// Kinds: "cli-holders" / "cli-gated" reuse the holders / gated executors (interval-overlap
// exclusion, non-serialisation, completion); "cli-map" replaces PipRunner by a recording
// stand-in and compares the Pip.Lock map that pip:run hands over with the model.

import (
	"fmt"
	"regexp"
	"strings"
	"sync"
	"sync/atomic"

	"github.com/goatcms/goatcore/app"
	"github.com/goatcms/goatcore/app/bootstrap"
	"github.com/goatcms/goatcore/app/gio"
	"github.com/goatcms/goatcore/app/goatapp"
	"github.com/goatcms/goatcore/app/modules/commonm"
	"github.com/goatcms/goatcore/app/modules/commonm/commservices"
	"github.com/goatcms/goatcore/app/modules/pipelinem/pipcommands/pipc"
	"github.com/goatcms/goatcore/app/modules/pipelinem/pipservices"
	"github.com/goatcms/goatcore/app/modules/pipelinem/pipservices/namespaces"
	"github.com/goatcms/goatcore/app/modules/pipelinem/pipservices/runner"
	"github.com/goatcms/goatcore/app/modules/pipelinem/pipservices/sandboxes"
	"github.com/goatcms/goatcore/app/modules/pipelinem/pipservices/sandboxes/selfsb"
	"github.com/goatcms/goatcore/app/modules/pipelinem/pipservices/tasks"
	"github.com/goatcms/goatcore/app/modules/terminalm"
	"github.com/goatcms/goatcore/app/modules/terminalm/termservices"
	"github.com/goatcms/goatcore/app/scope"
	"github.com/goatcms/goatcore/app/terminal"
	"github.com/goatcms/goatcore/filesystem/filespace/memfs"
	"github.com/goatcms/goatcore/varutil/goaterr"
	"pgregory.net/rapid"
	"verif/harness/hx"
)

// cliPool: resource spellings of the argument layer (pip:run's name pattern is
// ^[a-zA-Z_]+[a-zA-Z0-9_]*$, optionally behind '@').
var cliPool = []string{"r0", "@g0", "r1", "@g1", "_x9"}

var cliEntry = regexp.MustCompile(`^[ \t]*(@?[a-zA-Z_]+[a-zA-Z0-9_]*)[ \t]*$`)

// cliModelMap is the model of the argument layer.
func cliModelMap(l CliLists) (commservices.LockMap, error) {
	m := commservices.LockMap{}
	for _, e := range l.RLock {
		g := cliEntry.FindStringSubmatch(e)
		if g == nil {
			return nil, fmt.Errorf("rlock entry %q is outside the domain", e)
		}
		if _, ok := m[g[1]]; !ok {
			m[g[1]] = commservices.LockR
		}
	}
	for _, e := range l.WLock {
		g := cliEntry.FindStringSubmatch(e)
		if g == nil {
			return nil, fmt.Errorf("wlock entry %q is outside the domain", e)
		}
		m[g[1]] = commservices.LockRW
	}
	return m, nil
}

// cliCommand spells the pip:run command line of a holder.
func cliCommand(id string, l CliLists, body string) string {
	s := "pip:run --name=" + id
	if len(l.RLock) > 0 {
		s += ` --rlock="` + strings.Join(l.RLock, ",") + `"`
	}
	if len(l.WLock) > 0 {
		s += ` --wlock="` + strings.Join(l.WLock, ",") + `"`
	}
	return s + ` --body="` + body + `"`
}

// genCliLists draws the two lists for a model map: write names go to --wlock and, with
// probability 45 %, also to --rlock; entries are repeated, shuffled and padded with blanks.
func genCliLists(rt *rapid.T, locks []LockEnt) CliLists {
	l := CliLists{Cli: true}
	for _, e := range locks {
		n := cliPool[e.R]
		if e.W {
			l.WLock = append(l.WLock, n)
			if hx.Chance(rt, 45, "both") {
				l.RLock = append(l.RLock, n)
			}
		} else {
			l.RLock = append(l.RLock, n)
		}
	}
	noise := func(in []string, lab string) []string {
		out := append([]string{}, in...)
		if len(out) > 0 && hx.Chance(rt, 25, lab+"-rep?") {
			out = append(out, out[hx.Uniform(rt, len(out), lab+"-rep")])
		}
		for i := len(out) - 1; i > 0; i-- { // shuffle
			j := hx.Uniform(rt, i+1, lab+"-sh")
			out[i], out[j] = out[j], out[i]
		}
		for i := range out {
			if hx.Chance(rt, 25, lab+"-pad?") {
				pads := []string{" ", "\t", "  "}
				if hx.Chance(rt, 50, lab+"-lead") {
					out[i] = pads[hx.Uniform(rt, 3, lab+"-p")] + out[i]
				} else {
					out[i] = out[i] + pads[hx.Uniform(rt, 3, lab+"-p")]
				}
			}
		}
		return out
	}
	l.RLock = noise(l.RLock, "rl")
	l.WLock = noise(l.WLock, "wl")
	return l
}

// cliLabels classifies the lists of a case.
func cliLabels(ls []CliLists, lab map[string]bool) {
	bothBy := map[string]map[int]bool{} // name -> holders listing it in both lists
	for hi, l := range ls {
		r := map[string]bool{}
		seen := map[string]bool{}
		for _, e := range l.RLock {
			g := cliEntry.FindStringSubmatch(e)
			if g == nil {
				continue
			}
			if e != g[1] {
				lab["cli-blanks"] = true
			}
			if r[g[1]] {
				lab["cli-repeated-name"] = true
			}
			r[g[1]] = true
		}
		for _, e := range l.WLock {
			g := cliEntry.FindStringSubmatch(e)
			if g == nil {
				continue
			}
			if e != g[1] {
				lab["cli-blanks"] = true
			}
			if seen[g[1]] {
				lab["cli-repeated-name"] = true
			}
			seen[g[1]] = true
			if r[g[1]] {
				lab["cli-name-in-both-lists"] = true
			}
			if strings.HasPrefix(g[1], "@") {
				lab["cli-global-name"] = true
			}
		}
		for n := range seen {
			if r[n] {
				if bothBy[n] == nil {
					bothBy[n] = map[int]bool{}
				}
				bothBy[n][hi] = true
			}
		}
	}
	// some other holder names a resource that a holder lists in both lists
	for n, who := range bothBy {
		for hi, l := range ls {
			m, _ := cliModelMap(l)
			if _, ok := m[n]; ok && (!who[hi] || len(who) > 1) {
				lab["cli-both-lists-shared"] = true
			}
		}
	}
}

// GenCli draws a "holders" case of the argument layer: 2-6 sessions, one round each.
func GenCli(rt *rapid.T) Case {
	c := Case{Names: append([]string{}, cliPool...), Reps: 1}
	c.Procs = procChoices[hx.Uniform(rt, len(procChoices), "procs")]
	npool := 1 + hx.Uniform(rt, 3, "npool")
	nh := 2 + hx.Uniform(rt, 5, "nh")
	pInc := []int{50, 80, 100}[hx.Uniform(rt, 3, "pinc")]
	pW := []int{30, 60, 100}[hx.Uniform(rt, 3, "pw")]
	for i := 0; i < nh; i++ {
		h := Holder{Locks: genLocks(rt, npool, pInc, pW)}
		h.CliLists = genCliLists(rt, h.Locks)
		if hx.Chance(rt, 40, "start?") {
			h.Start = genDelay(rt, "start", 100)
		}
		hold := genDelay(rt, "hold", 150)
		if hold.SleepUS == 0 && hx.Chance(rt, 60, "hold-sleep") {
			hold.SleepUS = 20 + hx.Uniform(rt, 200, "hold-us")
		}
		h.Holds = []Delay{hold}
		c.Holders = append(c.Holders, h)
	}
	return c
}

// GenCliGated draws a "gated" case of the argument layer.
func GenCliGated(rt *rapid.T) GCase {
	c := GenGated(rt)
	c.Names = append([]string{}, cliPool...)
	c.Prewarm = false
	npool := 1 + hx.Uniform(rt, 3, "cli-npool")
	for i := range c.Holders {
		h := &c.Holders[i]
		// fold the drawn map onto a small pool so that holders meet on the same names
		seen := map[int]int{}
		locks := []LockEnt{}
		for _, e := range h.Locks {
			r := e.R % npool
			if k, ok := seen[r]; ok {
				locks[k].W = locks[k].W || e.W
				continue
			}
			seen[r] = len(locks)
			locks = append(locks, LockEnt{R: r, W: e.W})
		}
		h.Locks = locks
		h.NilMap = false
		h.CliLists = genCliLists(rt, locks)
	}
	return c
}

// ---- terminal-session backend -----------------------------------------------------------

type cliApp struct {
	mapp     app.App
	sections sync.Map // probe id -> func()
	deps     struct {
		Terminal termservices.Terminal `dependency:"TerminalService"`
		// resolved before any session starts: concurrent sessions must not be the first users
		Runner         pipservices.Runner         `dependency:"PipRunner"`
		NamespacesUnit pipservices.NamespacesUnit `dependency:"PipNamespacesUnit"`
		TasksUnit      pipservices.TasksUnit      `dependency:"PipTasksUnit"`
		SharedMutex    commservices.SharedMutex   `dependency:"CommonSharedMutex"`
	}
}

// newCliApp boots terminal + common + the pipeline services and commands (what
// pipelinem.NewModule registers, self sandbox only). runnerFactory replaces the PipRunner
// factory when not nil.
func newCliApp(runnerFactory app.Factory) (*cliApp, error) {
	var err error
	a := &cliApp{}
	if a.mapp, err = goatapp.NewMockupApp(goatapp.Params{}); err != nil {
		return nil, err
	}
	if runnerFactory == nil {
		runnerFactory = runner.Factory
	}
	dp := a.mapp.DependencyProvider()
	a.mapp.Terminal().SetCommand(pipc.Commands()...)
	if err = goaterr.ToError(goaterr.AppendError(nil,
		dp.AddDefaultFactory(pipservices.NamespacesUnitService, namespaces.UnitFactory),
		dp.AddDefaultFactory(pipservices.TasksUnitService, tasks.UnitFactory),
		dp.AddDefaultFactory(pipservices.SandboxesManagerService, sandboxes.ManagerFactory),
		dp.AddDefaultFactory(pipservices.RunnerService, runnerFactory),
	)); err != nil {
		return nil, err
	}
	boot := bootstrap.NewBootstrap(a.mapp)
	if err = goaterr.ToError(goaterr.AppendError(nil,
		boot.Register(terminalm.NewModule()),
		boot.Register(commonm.NewModule()),
		boot.Init(),
	)); err != nil {
		return nil, err
	}
	var sdeps struct {
		Manager  pipservices.SandboxesManager `dependency:"PipSandboxesManager"`
		Terminal termservices.Terminal        `dependency:"TerminalService"`
	}
	if err = dp.InjectTo(&sdeps); err != nil {
		return nil, err
	}
	var sb pipservices.SandboxBuilder
	if sb, err = selfsb.NewSandboxBuilder(sdeps.Terminal); err != nil {
		return nil, err
	}
	sdeps.Manager.Add(sb)
	a.mapp.Terminal().SetCommand(terminal.NewCommand(terminal.CommandParams{
		Name: probeCommand,
		Callback: func(_ app.App, ctx app.IOContext) error {
			var args struct {
				ID string `command:"?id"`
			}
			if err := ctx.Scope().InjectTo(&args); err != nil {
				return err
			}
			f, ok := a.sections.Load(args.ID)
			if !ok {
				return fmt.Errorf("c15probe: unknown id %q", args.ID)
			}
			f.(func())()
			return nil
		},
	}))
	if err = dp.InjectTo(&a.deps); err != nil {
		return nil, err
	}
	return a, nil
}

// session runs one command line as its own terminal session and returns after the session's
// scope finished (for pip:run: after the task was closed, i.e. after its locks were released).
func (a *cliApp) session(line string) error {
	cwd, err := memfs.NewFilespace()
	if err != nil {
		return err
	}
	scp := scope.New(scope.Params{})
	ctx := gio.NewIOContext(scp, gio.NewIO(gio.IOParams{
		In:  gio.NewInput(strings.NewReader(line + "\n")),
		Out: gio.NewNilOutput(),
		Err: gio.NewNilOutput(),
		CWD: cwd,
	}))
	if err = a.deps.Terminal.RunLoop(ctx, ""); err != nil {
		return err
	}
	if err = scp.Wait(); err != nil {
		return err
	}
	return scp.Close()
}

type cliBackend struct {
	a       *cliApp
	pending atomic.Int64
	errOnce sync.Once
}

func newCli() (backend, error) {
	a, err := newCliApp(nil)
	if err != nil {
		return nil, err
	}
	return &cliBackend{a: a}, nil
}

func (b *cliBackend) hold(id string, sp holdSpec, section func()) (bool, error) {
	b.pending.Add(1)
	defer b.pending.Add(-1)
	ran := false
	b.a.sections.Store(id, func() { ran = true; section() })
	err := b.a.session(cliCommand(id, sp.cli, probeCommand+" --id="+id))
	if err != nil {
		b.errOnce.Do(func() { hx.Note("cli session error (first): %v", err) })
	}
	return ran, err
}

func (b *cliBackend) prewarm(names []string) { prewarm(b.a.deps.SharedMutex, names) }

func (b *cliBackend) close() {
	if b.pending.Load() != 0 {
		return // a session never finished (reported as a violation): abandon the app
	}
	b.a.mapp.Scopes().App().Close()
}

// ExecCliHolders runs an argument-layer "holders" case: every holder is a terminal session.
func ExecCliHolders(c Case) hx.Verdict {
	v := withMemo("cli-holders", c, func() hx.Verdict { return runHolders(c, newCli) })
	if v.OK {
		lab := map[string]bool{"cli": true}
		var ls []CliLists
		for _, h := range c.Holders {
			ls = append(ls, h.CliLists)
		}
		cliLabels(ls, lab)
		flush(&v, lab)
	}
	return v
}

// ExecCliGated runs an argument-layer "gated" case.
func ExecCliGated(c GCase) hx.Verdict {
	v := withMemo("cli-gated", c, func() hx.Verdict { return runGated(c, newCli) })
	if v.OK {
		lab := map[string]bool{"cli-gated": true}
		var ls []CliLists
		for _, h := range c.Holders {
			ls = append(ls, h.CliLists)
		}
		cliLabels(ls, lab)
		flush(&v, lab)
	}
	return v
}

// ---- recording stand-in for PipRunner -----------------------------------------------------

// MapCase is the "cli-map" kind: one pip:run command line whose Pip is handed to a recording
// PipRunner; the received lock map is compared with the model.
type MapCase struct {
	CliLists
}

// GenCliMap draws a "cli-map" case.
func GenCliMap(rt *rapid.T) MapCase {
	pInc := []int{40, 70, 100}[hx.Uniform(rt, 3, "pinc")]
	pW := []int{30, 60, 100}[hx.Uniform(rt, 3, "pw")]
	return MapCase{CliLists: genCliLists(rt, genLocks(rt, len(cliPool), pInc, pW))}
}

type recRunner struct {
	mu   sync.Mutex
	pips []pipservices.Pip
}

func (r *recRunner) Run(p pipservices.Pip) error {
	r.mu.Lock()
	r.pips = append(r.pips, p)
	r.mu.Unlock()
	return nil
}

var (
	recOnce sync.Once
	recApp  *cliApp
	recRun  = &recRunner{}
	recErr  error
	recMu   sync.Mutex
)

// ExecCliMap runs a "cli-map" case (one shared app per process; the stand-in starts nothing).
func ExecCliMap(c MapCase) hx.Verdict {
	return hx.Guard(func() hx.Verdict {
		v := hx.Pass()
		want, err := cliModelMap(c.CliLists)
		if err != nil {
			return hx.Fail("bad-case", "%v", err)
		}
		recOnce.Do(func() {
			recApp, recErr = newCliApp(func(app.DependencyProvider) (interface{}, error) {
				return pipservices.Runner(recRun), nil
			})
		})
		if recErr != nil {
			v.Inconclusive = true
			hx.Note("recording app setup failed: %v", recErr)
			return v
		}
		recMu.Lock()
		defer recMu.Unlock()
		recRun.mu.Lock()
		recRun.pips = nil
		recRun.mu.Unlock()
		line := cliCommand("t", c.CliLists, "x")
		if err := recApp.session(line); err != nil {
			v.Inconclusive = true
			hx.Note("cli-map session error: %v (%s)", err, line)
			return v
		}
		recRun.mu.Lock()
		pips := recRun.pips
		recRun.mu.Unlock()
		if len(pips) != 1 {
			v.Inconclusive = true
			hx.Note("cli-map: %d pips recorded for %s", len(pips), line)
			return v
		}
		got := pips[0].Lock
		for n, w := range want {
			mode, ok := got[n]
			if !ok {
				return hx.Fail("lock-map", "%s: resource %q is missing from the task's lock map %s", line, n, showMap(got))
			}
			if mode != w {
				return hx.Fail("lock-map", "%s: resource %q was asked for %s but the task's lock map is %s", line, n, modeName(w), showMap(got))
			}
		}
		if len(got) != len(want) {
			return hx.Fail("lock-map", "%s: the task's lock map %s names resources the lists do not (model %s)", line, showMap(got), showMap(want))
		}
		lab := map[string]bool{"cli-map": true}
		cliLabels([]CliLists{c.CliLists}, lab)
		delete(lab, "cli-both-lists-shared")
		flush(&v, lab)
		v.NonTrivial = len(want) > 0
		return v
	})
}

func modeName(w bool) string {
	if w {
		return "write (--wlock)"
	}
	return "read (--rlock only)"
}
