package c15

import (
	"encoding/json"
	"testing"

	"verif/harness/hx"
)

func TestMain(m *testing.M) { hx.Main(m, "C15") }

// TestProp: free-running holders (exclusion intervals, completion watchdog).
func TestProp(t *testing.T) { hx.Check(t, "holders", Gen, Exec) }

// TestPropGated: scripted start/release scenarios (non-serialisation, exclusion, completion).
func TestPropGated(t *testing.T) { hx.Check(t, "gated", GenGated, ExecGated) }

// TestPropPip / TestPropPipGated: the same cases as pipeline tasks through Runner.Run.
func TestPropPip(t *testing.T)      { hx.Check(t, "pip-holders", GenPip, ExecPipHolders) }
func TestPropPipGated(t *testing.T) { hx.Check(t, "pip-gated", GenGated, ExecPipGated) }

// TestPropWaitLock: pipeline tasks with a lock map AND a wait list (c15wait.go).
func TestPropWaitLock(t *testing.T) { hx.Check(t, "pip-waitlock", GenWaitLock, ExecWaitLock) }

// Argument layer (c15cli.go): holders are `pip:run --rlock=… --wlock=…` terminal sessions.
func TestPropCli(t *testing.T)      { hx.Check(t, "cli-holders", GenCli, ExecCliHolders) }
func TestPropCliGated(t *testing.T) { hx.Check(t, "cli-gated", GenCliGated, ExecCliGated) }
func TestPropCliMap(t *testing.T)   { hx.Check(t, "cli-map", GenCliMap, ExecCliMap) }

// TestEnum: every two-holder gated scenario over a 3-resource pool.
func TestEnum(t *testing.T) {
	shard, n := hx.Shard()
	nres := 3
	cnt := EnumGated(nres, shard, n, func(c GCase) bool { return hx.One(t, "gated", c, ExecGated) })
	hx.AddExhaustive(hx.Exhaustive{What: "two-holder gated scenarios: start A, start B, release in both orders", Alphabet: "per resource absent/R/RW", Bound: "3 resources, all 27x27 map pairs x 2 release orders", Count: cnt})
}

func TestReplay(t *testing.T) {
	hx.Replay(t, map[string]func(json.RawMessage) (hx.Verdict, error){
		"holders": hx.Exec(Exec), "": hx.Exec(Exec), "gated": hx.Exec(ExecGated),
		"pip-holders": hx.Exec(ExecPipHolders), "pip-gated": hx.Exec(ExecPipGated), "pip-waitlock": hx.Exec(ExecWaitLock),
		"cli-holders": hx.Exec(ExecCliHolders), "cli-gated": hx.Exec(ExecCliGated), "cli-map": hx.Exec(ExecCliMap),
	})
}
