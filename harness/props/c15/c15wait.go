package c15

// Pipeline tasks that have BOTH a lock map and a wait list (kind "pip-waitlock"): a task that
// waits for another task while the two name a common resource. "Any set of holders with any
// lock maps always all get their turn: acquisition never deadlocks" - the holders here are
// tasks, and a task that sits on its resources while it waits for a task that needs one of
// them never lets that task have its turn.

import (
	"fmt"
	"strings"
	"sync"
	"sync/atomic"
	"time"

	"github.com/goatcms/goatcore/app/gio"
	"github.com/goatcms/goatcore/app/modules/commonm/commservices"
	"github.com/goatcms/goatcore/app/modules/pipelinem/pipservices"
	"github.com/goatcms/goatcore/app/scope"
	"pgregory.net/rapid"
	"verif/harness/hx"
)

// WTask is one task: lock map, tasks (earlier ones) it waits for, time spent inside.
type WTask struct {
	Locks  []LockEnt `json:"locks"`
	Wait   []int     `json:"wait,omitempty"`
	Hold   Delay     `json:"hold"`
	Before Delay     `json:"before"`         // harness delay before the submission
	Fail   bool      `json:"fail,omitempty"` // its body fails after the section (the pipeline's scope is stopped while others wait for resources)
}

// WCase is the "pip-waitlock" kind.
type WCase struct {
	Names []string `json:"names"`
	Procs int      `json:"procs"`
	Tasks []WTask  `json:"tasks"`
}

// GenWaitLock draws a case: 3-6 tasks over a pool of 2-4 resources; most tasks wait for some
// earlier task and most maps overlap.
func GenWaitLock(rt *rapid.T) WCase {
	c := WCase{Names: []string{"a", "b", "c", "d"}[:2+hx.Uniform(rt, 3, "npool")], Procs: procChoices[hx.Uniform(rt, len(procChoices), "procs")]}
	n := 3 + hx.Uniform(rt, 4, "ntasks")
	for i := 0; i < n; i++ {
		t := WTask{Locks: genLocks(rt, len(c.Names), 60, 70), Hold: genDelay(rt, "hold", 3000), Before: genDelay(rt, "before", 300)}
		for j := 0; j < i; j++ {
			if hx.Chance(rt, 45, "wait") {
				t.Wait = append(t.Wait, j)
			}
		}
		c.Tasks = append(c.Tasks, t)
	}
	if hx.Chance(rt, 35, "failing") {
		c.Tasks[hx.Uniform(rt, len(c.Tasks), "which")].Fail = true
	}
	return c
}

// ExecWaitLock runs a case.
func ExecWaitLock(c WCase) hx.Verdict {
	return hx.Guard(func() hx.Verdict { return runWaitLock(c) })
}

func runWaitLock(c WCase) hx.Verdict {
	v := hx.Pass()
	v.Label("pip-waitlock")
	if len(c.Tasks) == 0 || len(c.Tasks) > 10 || validNames(c.Names) != nil {
		v.Inconclusive = true
		return v
	}
	maps := make([]commservices.LockMap, len(c.Tasks))
	for i, t := range c.Tasks {
		m, err := lockMap(c.Names, t.Locks, false)
		if err != nil {
			v.Inconclusive = true
			return v
		}
		maps[i] = m
		for _, w := range t.Wait {
			if w < 0 || w >= i {
				v.Inconclusive = true
				return v
			}
		}
	}
	defer setProcs(c.Procs)()
	be, err := newPipeline()
	if err != nil {
		v.Inconclusive = true
		hx.Note("pipeline bootstrap failed: %v", err)
		return v
	}
	b := be.(*pipBackend)
	var seq atomic.Int64
	type span struct{ in, out int64 }
	spans := make([]span, len(c.Tasks))
	var mu sync.Mutex
	for i := range c.Tasks {
		i := i
		b.sections.Store(fmt.Sprintf("w%d", i), func() {
			in := seq.Add(1)
			c.Tasks[i].Hold.run()
			out := seq.Add(1)
			mu.Lock()
			spans[i] = span{in, out}
			mu.Unlock()
		})
	}
	anyFail := false
	for i, t := range c.Tasks {
		if t.Fail {
			anyFail = true
			b.failing.Store(fmt.Sprintf("w%d", i), true)
		}
	}
	b.pending.Add(1) // released when every task is known to be over
	type res struct {
		refused int
		err     error
	}
	done := make(chan res, 1)
	var phase atomic.Value
	phase.Store("start")
	go func() {
		for i, t := range c.Tasks {
			t.Before.run()
			wait := []string{}
			for _, w := range t.Wait {
				wait = append(wait, fmt.Sprintf("w%d", w))
			}
			phase.Store(fmt.Sprintf("Runner.Run of task w%d", i))
			err := b.deps.Runner.Run(pipservices.Pip{
				Context: pipservices.PipContext{
					In:    gio.NewInput(strings.NewReader(fmt.Sprintf("%s --id=w%d", probeCommand, i))),
					Out:   gio.NewNilOutput(),
					Err:   gio.NewNilOutput(),
					Scope: b.scp,
					CWD:   b.cwd,
				},
				Name:       fmt.Sprintf("w%d", i),
				Namespaces: b.ns,
				Sandbox:    "self",
				Lock:       maps[i],
				Wait:       wait,
			})
			if err != nil {
				if anyFail {
					continue // the pipeline's scope may already be done: later submissions may be refused
				}
				done <- res{refused: i, err: err}
				return
			}
		}
		tm, err := b.deps.TasksUnit.FromScope(b.scp)
		if err != nil {
			done <- res{refused: -1, err: err}
			return
		}
		for i := range c.Tasks {
			phase.Store(fmt.Sprintf("Task.Wait of task w%d", i))
			if task, ok := tm.Get(fmt.Sprintf("w%d", i)); ok {
				task.Wait()
			}
		}
		done <- res{refused: -1}
	}()
	select {
	case r := <-done:
		b.pending.Add(-1)
		if r.err != nil {
			b.close()
			return hx.Fail("accepted", "Runner.Run refused task w%d (lock map %s, waits for earlier tasks only): %v", r.refused, showMap(maps[maxInt(r.refused, 0)]), r.err)
		}
	case <-time.After(Watchdog):
		var stuck []string
		mu.Lock()
		for i := range c.Tasks {
			if spans[i].out == 0 {
				w := []string{}
				for _, x := range c.Tasks[i].Wait {
					w = append(w, fmt.Sprintf("w%d", x))
				}
				stuck = append(stuck, fmt.Sprintf("w%d locks %s waits for [%s]", i, showMap(maps[i]), strings.Join(w, " ")))
			}
		}
		mu.Unlock()
		return hx.Fail("no-deadlock", "tasks with lock maps and wait lists: after %v the driver is still in %v; tasks that never got their turn: %s",
			Watchdog, phase.Load(), strings.Join(stuck, "; "))
	}
	if anyFail {
		// the pipeline failed, possibly while tasks were waiting for resources. Whatever became of
		// them, the resources must be free again: a task of ANOTHER pipeline that names every
		// resource for writing gets its turn.
		v.Label("pip-waitlock:pipeline-failed")
		all := commservices.LockMap{}
		for _, n := range c.Names {
			all[n] = commservices.LockRW
		}
		scp2 := scope.New(scope.Params{})
		ran := make(chan struct{}, 1)
		b.sections.Store("z", func() { ran <- struct{}{} })
		zdone := make(chan error, 1)
		b.pending.Add(1)
		go func() {
			err := b.deps.Runner.Run(pipservices.Pip{
				Context: pipservices.PipContext{
					In:    gio.NewInput(strings.NewReader(probeCommand + " --id=z")),
					Out:   gio.NewNilOutput(),
					Err:   gio.NewNilOutput(),
					Scope: scp2,
					CWD:   b.cwd,
				},
				Name:       "z",
				Namespaces: b.ns,
				Sandbox:    "self",
				Lock:       all,
				Wait:       []string{},
			})
			if err == nil {
				if tm2, e2 := b.deps.TasksUnit.FromScope(scp2); e2 == nil {
					if t, ok := tm2.Get("z"); ok {
						t.Wait()
					}
				}
			}
			zdone <- err
		}()
		select {
		case err := <-zdone:
			b.pending.Add(-1)
			if err != nil {
				return hx.Fail("accepted", "Runner.Run refused a task of a fresh pipeline after another pipeline had failed: %v", err)
			}
			select {
			case <-ran:
			default:
				return hx.Fail("turn", "a task of a fresh pipeline finished without executing its body after another pipeline had failed")
			}
			scp2.Close()
		case <-time.After(Watchdog):
			return hx.Fail("no-deadlock", "a pipeline failed while some of its tasks were waiting for resources; afterwards a task of another pipeline that names the same resources (%s) did not get its turn within %v", showMap(all), Watchdog)
		}
	}
	defer b.close()
	// every task had its turn; conflicting tasks never inside together
	sharedRes := false
	for i := range c.Tasks {
		if spans[i].out == 0 {
			if anyFail {
				continue // cancelled with its pipeline
			}
			return hx.Fail("turn", "task w%d finished without executing its body", i)
		}
		for j := 0; j < i; j++ {
			_, nconf := relate(maps[i], maps[j])
			if nconf > 0 && spans[j].out != 0 && spans[i].in < spans[j].out && spans[j].in < spans[i].out {
				return hx.Fail("exclusion", "tasks w%d (%s) and w%d (%s) were inside at the same time", j, showMap(maps[j]), i, showMap(maps[i]))
			}
		}
		for _, w := range c.Tasks[i].Wait {
			if _, nconf := relate(maps[i], maps[w]); nconf > 0 {
				sharedRes = true
			}
		}
	}
	if sharedRes {
		v.Label("pip-waitlock:waits-for-a-task-it-conflicts-with")
		v.NonTrivial = true
	}
	return v
}

func maxInt(a, b int) int {
	if a > b {
		return a
	}
	return b
}
