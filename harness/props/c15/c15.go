// Package c15: named resource locks (commservices.SharedMutex) — holders that name a
// common resource with at least one write request never hold it together, holders with
// disjoint or read-only-overlapping maps are not serialised against each other, and every
// set of holders finishes (no deadlock).
//
// Two case kinds drive the shared mutex service directly (holders are goroutines):
//
//	"holders"  free-running holders with generated maps, start offsets, hold durations,
//	           rounds and GOMAXPROCS. Oracle: critical-section intervals (exclusion) and a
//	           20 s watchdog on completion (no deadlock).
//	"gated"    a script of start/release/pause steps executed by the harness goroutine;
//	           every holder parks inside its section on a channel until released. Oracle:
//	           a holder started while it is compatible with every holder still alive must
//	           acquire while those stay parked (non-serialisation), intervals, completion.
//
// A third kind "pipeline" (c15pip.go) pushes the same maps through pipservices.Runner.Run.
package c15

import (
	"encoding/json"
	"fmt"
	"runtime"
	"sort"
	"sync"
	"sync/atomic"
	"time"

	"github.com/goatcms/goatcore/app/modules/commonm/commservices"
	"github.com/goatcms/goatcore/app/modules/commonm/commservices/mutex"
	"pgregory.net/rapid"
	"verif/harness/hx"
)

// Watchdog is the progress bound. The statement promises progress ("always all get their
// turn", "are not serialised"), the work takes micro- to milliseconds.
const Watchdog = 20 * time.Second

// LockEnt is one entry of a lock map: resource index into Case.Names and the access mode.
type LockEnt struct {
	R int  `json:"r"`
	W bool `json:"w,omitempty"` // true = commservices.LockRW, false = LockR
}

// Delay is a harness-side delay: Gosched calls, a busy spin and a sleep.
type Delay struct {
	Yields  int `json:"y,omitempty"`
	Spin    int `json:"spin,omitempty"`
	SleepUS int `json:"us,omitempty"`
}

var spinSink atomic.Int64

func (d Delay) run() {
	for i := 0; i < d.Yields; i++ {
		runtime.Gosched()
	}
	for i := 0; i < d.Spin; i++ {
		spinSink.Add(1)
	}
	if d.SleepUS > 0 {
		time.Sleep(time.Duration(d.SleepUS) * time.Microsecond)
	}
}

// CliLists is the argument-layer form of a lock map (kinds "cli-*", c15cli.go): the raw
// entries of pip:run's --rlock and --wlock lists. When Cli is set the holder's map is
// derived from the lists (a name asked for write if it occurs in WLock at all) and Locks is
// ignored.
type CliLists struct {
	Cli   bool     `json:"cli,omitempty"`
	RLock []string `json:"rlock,omitempty"`
	WLock []string `json:"wlock,omitempty"`
}

// holdSpec is what a backend gets to take a holder's locks.
type holdSpec struct {
	m   commservices.LockMap
	cli CliLists
}

// Holder is one free-running holder: it waits Start, then for every element of Holds takes
// its lock map, stays inside for that delay, unlocks and waits Gap.
type Holder struct {
	Locks  []LockEnt `json:"locks"`
	NilMap bool      `json:"nil,omitempty"` // pass a nil LockMap (only when Locks is empty)
	CliLists
	Start Delay   `json:"start"`
	Holds []Delay `json:"holds"`
	Gap   Delay   `json:"gap"`
}

// Case is the "holders" kind.
type Case struct {
	Names   []string `json:"names"`
	Procs   int      `json:"procs"`             // GOMAXPROCS during the case
	Prewarm bool     `json:"prewarm,omitempty"` // create every per-name mutex before the holders start
	Reps    int      `json:"reps"`              // the scenario is run this many times, each on a fresh service
	Holders []Holder `json:"holders"`
}

var namePools = [][]string{
	{"r0", "r1", "r2", "r3", "r4"},
	{"r0", "r1", "r2", "r3", "r4"},
	{"b", "a", "a.b", "@g", "B"},
	{"r10", "r9", "r", "", "r1"},
}

var procChoices = []int{1, 2, 4, 8}

func genDelay(rt *rapid.T, lab string, maxSleep int) Delay {
	var d Delay
	d.Yields = hx.Uniform(rt, 4, lab+"-y")
	if hx.Chance(rt, 30, lab+"-spin?") {
		d.Spin = hx.Uniform(rt, 3000, lab+"-spin")
	}
	if hx.Chance(rt, 25, lab+"-sleep?") {
		d.SleepUS = 1 + hx.Uniform(rt, maxSleep, lab+"-us")
	}
	return d
}

// genLocks draws a lock map over the first npool names: each name is included with
// probability pInc %, and an included name is a write request with probability pW %.
func genLocks(rt *rapid.T, npool, pInc, pW int) []LockEnt {
	locks := []LockEnt{}
	for r := 0; r < npool; r++ {
		if hx.Chance(rt, pInc, "inc") {
			locks = append(locks, LockEnt{R: r, W: hx.Chance(rt, pW, "w")})
		}
	}
	return locks
}

// Gen draws a "holders" case.
func Gen(rt *rapid.T) Case {
	c := Case{}
	pool := namePools[hx.Uniform(rt, len(namePools), "pool")]
	npool := 1 + hx.Uniform(rt, len(pool), "npool")
	c.Names = append([]string{}, pool[:npool]...)
	c.Procs = procChoices[hx.Uniform(rt, len(procChoices), "procs")]
	c.Prewarm = hx.Chance(rt, 50, "prewarm")
	c.Reps = 1 + hx.Uniform(rt, 2, "reps")
	nh := 2 + hx.Uniform(rt, 11, "nh")
	pInc := []int{30, 50, 80, 100}[hx.Uniform(rt, 4, "pinc")]
	pW := []int{0, 20, 50, 80, 100, 100}[hx.Uniform(rt, 6, "pw")]
	maxSleep := 150
	if hx.Thorough() {
		maxSleep = 400
	}
	for i := 0; i < nh; i++ {
		h := Holder{Locks: genLocks(rt, npool, pInc, pW)}
		if len(h.Locks) == 0 {
			h.NilMap = hx.Chance(rt, 50, "nil")
		}
		if hx.Chance(rt, 50, "start?") {
			h.Start = genDelay(rt, "start", maxSleep)
		}
		nr := 1 + hx.Uniform(rt, 3, "rounds")
		for r := 0; r < nr; r++ {
			h.Holds = append(h.Holds, genDelay(rt, "hold", maxSleep))
		}
		if nr > 1 {
			h.Gap = genDelay(rt, "gap", maxSleep)
		}
		c.Holders = append(c.Holders, h)
	}
	return c
}

// ---- shared executor pieces -------------------------------------------------------

func lockMap(names []string, locks []LockEnt, nilMap bool) (commservices.LockMap, error) {
	if len(locks) == 0 && nilMap {
		return nil, nil
	}
	m := commservices.LockMap{}
	for _, e := range locks {
		if e.R < 0 || e.R >= len(names) {
			return nil, fmt.Errorf("resource index %d outside the name pool", e.R)
		}
		if _, dup := m[names[e.R]]; dup {
			return nil, fmt.Errorf("resource %q named twice in one map", names[e.R])
		}
		m[names[e.R]] = e.W
	}
	return m, nil
}

func holderMap(names []string, locks []LockEnt, nilMap bool, cli CliLists) (commservices.LockMap, error) {
	if cli.Cli {
		return cliModelMap(cli)
	}
	return lockMap(names, locks, nilMap)
}

func validNames(names []string) error {
	seen := map[string]bool{}
	for _, n := range names {
		if seen[n] {
			return fmt.Errorf("duplicate resource name %q", n)
		}
		seen[n] = true
	}
	return nil
}

// conflict: the two maps name a common resource and at least one of them asks for write.
// common: they name a common resource at all. nconf: number of conflicting resources.
func relate(a, b commservices.LockMap) (common bool, nconf int) {
	for n, wa := range a {
		if wb, ok := b[n]; ok {
			common = true
			if wa || wb {
				nconf++
			}
		}
	}
	return
}

func showMap(m commservices.LockMap) string {
	keys := make([]string, 0, len(m))
	for k := range m {
		keys = append(keys, k)
	}
	sort.Strings(keys)
	s := "{"
	for i, k := range keys {
		if i > 0 {
			s += " "
		}
		mode := "R"
		if m[k] {
			mode = "RW"
		}
		s += fmt.Sprintf("%q:%s", k, mode)
	}
	return s + "}"
}

// span is one pass of one holder through Lock ... Unlock. All three numbers come from one
// global atomic counter: att is taken before Lock is called, enter after Lock returned,
// exit before Unlock is called. [enter, exit] is therefore a sub-interval of the time the
// holder really held its map, so two overlapping spans prove simultaneous holding.
type span struct {
	att, enter, exit atomic.Int64
}

type spanRec struct {
	holder, round    int
	att, enter, exit int64
}

// judgeSpans applies the exclusion clause to completed spans and derives the
// classification used for the non-trivial rule and the labels.
func judgeSpans(recs []spanRec, maps []commservices.LockMap, v *hx.Verdict, lab map[string]bool, pre string) *hx.Verdict {
	for i := 0; i < len(recs); i++ {
		a := recs[i]
		for j := i + 1; j < len(recs); j++ {
			b := recs[j]
			if a.holder == b.holder {
				continue
			}
			common, nconf := relate(maps[a.holder], maps[b.holder])
			inside := a.enter != 0 && b.enter != 0 && a.exit != 0 && b.exit != 0 && a.enter < b.exit && b.enter < a.exit
			if nconf > 0 && inside {
				f := hx.Fail("exclusion", "holder %d %s was inside its section during seq [%d,%d] while holder %d %s was inside during [%d,%d]; they conflict on %d resource(s)",
					a.holder, showMap(maps[a.holder]), a.enter, a.exit, b.holder, showMap(maps[b.holder]), b.enter, b.exit, nconf)
				return &f
			}
			// windows from the call of Lock to the call of Unlock
			aw, bw := a.exit, b.exit
			if aw == 0 {
				aw = 1 << 62
			}
			if bw == 0 {
				bw = 1 << 62
			}
			window := a.att < bw && b.att < aw
			if common && window {
				v.NonTrivial = true
			}
			if window && nconf > 0 {
				lab[pre+"conflict-contended"] = true
			}
			if window && nconf >= 2 {
				lab[pre+"deadlock-prone-pair"] = true
			}
			if inside && common && nconf == 0 {
				lab[pre+"readers-shared-overlap"] = true
			}
			if inside && !common && len(maps[a.holder]) > 0 && len(maps[b.holder]) > 0 {
				lab[pre+"disjoint-overlap"] = true
			}
		}
	}
	return nil
}

func setProcs(n int) func() {
	if n < 1 {
		n = 1
	}
	if n > 64 {
		n = 64
	}
	old := runtime.GOMAXPROCS(n)
	return func() { runtime.GOMAXPROCS(old) }
}

// backend is the way a holder takes its lock map: directly at the shared mutex service, or
// as a pipeline task submitted to pipservices.Runner.Run (c15pip.go).
type backend interface {
	// hold acquires m, calls section while holding, releases, and returns after the release.
	// ran=false means the backend could not even bring the holder to its section for a
	// reason that has nothing to do with the lock (harness/bootstrap problem).
	hold(id string, sp holdSpec, section func()) (ran bool, err error)
	// prewarm makes every per-name mutex exist before the holders start.
	prewarm(names []string)
	close()
}

type directBackend struct{ sm commservices.SharedMutex }

func newDirect() (backend, error) {
	return &directBackend{sm: commservices.SharedMutex(mutex.NewSharedMutex())}, nil
}

func (d *directBackend) hold(id string, sp holdSpec, section func()) (bool, error) {
	uh := d.sm.Lock(sp.m)
	section()
	uh.Unlock()
	return true, nil
}

func (d *directBackend) prewarm(names []string) { prewarm(d.sm, names) }
func (d *directBackend) close()                 {}

func prewarm(sm commservices.SharedMutex, names []string) {
	for _, n := range names {
		sm.Lock(commservices.LockMap{n: commservices.LockRW}).Unlock()
	}
}

// A watchdog verdict costs 20 s and rapid re-executes the final failing case twice more
// (reproduction and log output). A case that already ran into the full watchdog in this
// process is therefore answered from memory when it is executed again unchanged.
var (
	wdMemo  sync.Map // kind|case JSON -> hx.Verdict
	wdMemoN atomic.Int64
)

func memoKey(kind string, c interface{}) string {
	b, _ := json.Marshal(c)
	return kind + "|" + string(b)
}

func withMemo(kind string, c interface{}, run func() hx.Verdict) hx.Verdict {
	if wdMemoN.Load() > 0 {
		if v, ok := wdMemo.Load(memoKey(kind, c)); ok {
			return v.(hx.Verdict)
		}
	}
	hx.PersistCurrent(kind, c)
	v := hx.Guard(run)
	hx.ClearCurrent()
	if !v.OK && (v.Clause == "deadlock" || v.Clause == "not-serialised") {
		wdMemo.Store(memoKey(kind, c), v)
		wdMemoN.Add(1)
	}
	return v
}

// ---- kind "holders" -----------------------------------------------------------------

// Exec runs a "holders" case.
func Exec(c Case) hx.Verdict {
	return withMemo("holders", c, func() hx.Verdict { return runHolders(c, newDirect) })
}

func runHolders(c Case, mk func() (backend, error)) hx.Verdict {
	if err := validNames(c.Names); err != nil {
		return hx.Fail("bad-case", "%v", err)
	}
	maps := make([]commservices.LockMap, len(c.Holders))
	for i, h := range c.Holders {
		m, err := holderMap(c.Names, h.Locks, h.NilMap, h.CliLists)
		if err != nil {
			return hx.Fail("bad-case", "holder %d: %v", i, err)
		}
		maps[i] = m
	}
	defer setProcs(c.Procs)()
	v := hx.Pass()
	lab := map[string]bool{}
	reps := c.Reps
	if reps < 1 {
		reps = 1
	}
	for rep := 0; rep < reps; rep++ {
		be, err := mk()
		if err != nil {
			v.Inconclusive = true
			hx.Note("backend setup failed: %v", err)
			return v
		}
		defer be.close()
		if c.Prewarm {
			be.prewarm(c.Names)
		}
		var seq atomic.Int64
		var problems atomic.Int64
		spans := make([][]span, len(c.Holders))
		start := make(chan struct{})
		done := make(chan int, len(c.Holders))
		for i := range c.Holders {
			spans[i] = make([]span, len(c.Holders[i].Holds))
			go func(i int) {
				h := c.Holders[i]
				<-start
				h.Start.run()
				for r, hold := range h.Holds {
					sp := &spans[i][r]
					sp.att.Store(seq.Add(1))
					ran, err := be.hold(fmt.Sprintf("h%dr%d", i, r), holdSpec{m: maps[i], cli: c.Holders[i].CliLists}, func() {
						sp.enter.Store(seq.Add(1))
						hold.run()
						sp.exit.Store(seq.Add(1))
					})
					if !ran || err != nil {
						problems.Add(1)
					}
					if r+1 < len(h.Holds) {
						h.Gap.run()
					}
				}
				done <- i
			}(i)
		}
		close(start)
		finished := make([]bool, len(c.Holders))
		nfin := 0
		timer := time.NewTimer(Watchdog)
		timedOut := false
		for nfin < len(c.Holders) && !timedOut {
			select {
			case i := <-done:
				finished[i] = true
				nfin++
			case <-timer.C:
				timedOut = true
			}
		}
		timer.Stop()
		var recs []spanRec
		for i := range spans {
			for r := range spans[i] {
				sp := &spans[i][r]
				if a := sp.att.Load(); a != 0 {
					recs = append(recs, spanRec{holder: i, round: r, att: a, enter: sp.enter.Load(), exit: sp.exit.Load()})
				}
			}
		}
		if f := judgeSpans(recs, maps, &v, lab, ""); f != nil {
			return *f
		}
		if timedOut {
			stuck := ""
			for i, ok := range finished {
				if !ok {
					st := "before its first Lock"
					for r := range spans[i] {
						sp := &spans[i][r]
						if sp.att.Load() != 0 && sp.enter.Load() == 0 {
							st = fmt.Sprintf("blocked in Lock (round %d)", r)
						} else if sp.enter.Load() != 0 && sp.exit.Load() == 0 {
							st = fmt.Sprintf("inside its section (round %d)", r)
						} else if sp.exit.Load() != 0 && r == len(spans[i])-1 {
							st = "blocked in Unlock"
						}
					}
					stuck += fmt.Sprintf(" holder %d %s %s;", i, showMap(maps[i]), st)
				}
			}
			return hx.Fail("deadlock", "after %v %d of %d holders had not finished (rep %d, GOMAXPROCS %d):%s", Watchdog, len(c.Holders)-nfin, len(c.Holders), rep, c.Procs, stuck)
		}
		if problems.Load() != 0 {
			v.Inconclusive = true
			v.Count("backend_problems", problems.Load())
		}
	}
	for i, h := range c.Holders {
		if len(h.Locks) == 0 {
			if h.NilMap {
				lab["nil-map"] = true
			} else {
				lab["empty-map"] = true
			}
		}
		if len(maps[i]) >= 3 {
			lab["map-size>=3"] = true
		}
	}
	lab[fmt.Sprintf("procs-%d", c.Procs)] = true
	if len(c.Holders) >= 8 {
		lab["holders>=8"] = true
	}
	if c.Prewarm {
		lab["prewarmed"] = true
	} else {
		lab["racing-first-get"] = true
	}
	flush(&v, lab)
	return v
}

func flush(v *hx.Verdict, lab map[string]bool) {
	keys := make([]string, 0, len(lab))
	for k := range lab {
		keys = append(keys, k)
	}
	sort.Strings(keys)
	for _, k := range keys {
		v.Label(k)
	}
}

// ---- kind "gated" -------------------------------------------------------------------

// GStep is one step of the harness goroutine: "start" holder H, "release" holder H (open
// the gate it is, or will be, parked on inside its section), or "pause".
type GStep struct {
	Op    string `json:"op"`
	H     int    `json:"h,omitempty"`
	Pause *Delay `json:"pause,omitempty"`
}

// GHolder is a gated holder: Lock(map); park until released; Unlock.
type GHolder struct {
	Locks  []LockEnt `json:"locks"`
	NilMap bool      `json:"nil,omitempty"`
	CliLists
}

// GCase is the "gated" kind.
type GCase struct {
	Names   []string  `json:"names"`
	Procs   int       `json:"procs"`
	Prewarm bool      `json:"prewarm,omitempty"`
	Holders []GHolder `json:"holders"`
	Steps   []GStep   `json:"steps"`
}

// genCompatible draws a map that conflicts with none of the earlier maps: a name somebody
// already names may only be read (and only if all of them read it).
func genCompatible(rt *rapid.T, npool int, earlier [][]LockEnt, pInc int) []LockEnt {
	used := make([]int, npool) // 0 unused, 1 read by someone, 2 written by someone
	for _, m := range earlier {
		for _, e := range m {
			if e.W {
				used[e.R] = 2
			} else if used[e.R] == 0 {
				used[e.R] = 1
			}
		}
	}
	locks := []LockEnt{}
	for r := 0; r < npool; r++ {
		if used[r] == 2 || !hx.Chance(rt, pInc, "inc") {
			continue
		}
		if used[r] == 1 {
			locks = append(locks, LockEnt{R: r})
		} else {
			locks = append(locks, LockEnt{R: r, W: hx.Chance(rt, 50, "w")})
		}
	}
	return locks
}

// GenGated draws a "gated" case.
func GenGated(rt *rapid.T) GCase {
	c := GCase{}
	pool := namePools[hx.Uniform(rt, len(namePools), "pool")]
	npool := 1 + hx.Uniform(rt, len(pool), "npool")
	c.Names = append([]string{}, pool[:npool]...)
	c.Procs = procChoices[hx.Uniform(rt, len(procChoices), "procs")]
	c.Prewarm = hx.Chance(rt, 50, "prewarm")
	nh := 2
	if hx.Chance(rt, 50, "more") {
		nh = 3 + hx.Uniform(rt, 4, "nh")
	}
	pInc := []int{40, 60, 80, 100}[hx.Uniform(rt, 4, "pinc")]
	pW := []int{0, 30, 50, 80}[hx.Uniform(rt, 4, "pw")]
	var earlier [][]LockEnt
	for i := 0; i < nh; i++ {
		var locks []LockEnt
		if i > 0 && hx.Chance(rt, 65, "compat") {
			locks = genCompatible(rt, npool, earlier, pInc)
		} else {
			locks = genLocks(rt, npool, pInc, pW)
		}
		earlier = append(earlier, locks)
		h := GHolder{Locks: locks}
		if len(locks) == 0 {
			h.NilMap = hx.Chance(rt, 50, "nil")
		}
		c.Holders = append(c.Holders, h)
	}
	// a random interleaving of start(h) < release(h), biased to start before releasing
	var fresh, parked []int
	for i := 0; i < nh; i++ {
		fresh = append(fresh, i)
	}
	for len(fresh) > 0 || len(parked) > 0 {
		doStart := len(fresh) > 0 && (len(parked) == 0 || hx.Chance(rt, 70, "start?"))
		if doStart {
			k := hx.Uniform(rt, len(fresh), "which")
			if hx.Chance(rt, 70, "in-order") {
				k = 0
			}
			h := fresh[k]
			fresh = append(fresh[:k], fresh[k+1:]...)
			parked = append(parked, h)
			c.Steps = append(c.Steps, GStep{Op: "start", H: h})
			if hx.Chance(rt, 60, "pause?") {
				d := genDelay(rt, "pause", 150)
				c.Steps = append(c.Steps, GStep{Op: "pause", Pause: &d})
			}
		} else {
			k := hx.Uniform(rt, len(parked), "which")
			h := parked[k]
			parked = append(parked[:k], parked[k+1:]...)
			c.Steps = append(c.Steps, GStep{Op: "release", H: h})
		}
	}
	return c
}

// ExecGated runs a "gated" case.
func ExecGated(c GCase) hx.Verdict {
	return withMemo("gated", c, func() hx.Verdict { return runGated(c, newDirect) })
}

type gholder struct {
	m        commservices.LockMap
	cli      CliLists
	sp       span
	gate     chan struct{} // closed by the harness: leave the section
	acquired chan struct{} // closed by the holder right after Lock returned
	done     chan struct{} // closed by the holder after Unlock returned
	started  bool
	released bool // gate closed
	inside   bool // harness has seen `acquired` and has not opened the gate: parked inside
	gone     bool // harness has seen `done`
}

func runGated(c GCase, mk func() (backend, error)) hx.Verdict {
	if err := validNames(c.Names); err != nil {
		return hx.Fail("bad-case", "%v", err)
	}
	hs := make([]*gholder, len(c.Holders))
	maps := make([]commservices.LockMap, len(c.Holders))
	for i, h := range c.Holders {
		m, err := holderMap(c.Names, h.Locks, h.NilMap, h.CliLists)
		if err != nil {
			return hx.Fail("bad-case", "holder %d: %v", i, err)
		}
		maps[i] = m
		hs[i] = &gholder{m: m, cli: h.CliLists, gate: make(chan struct{}), acquired: make(chan struct{}), done: make(chan struct{})}
	}
	for si, s := range c.Steps {
		if (s.Op == "start" || s.Op == "release") && (s.H < 0 || s.H >= len(hs)) {
			return hx.Fail("bad-case", "step %d names holder %d", si, s.H)
		}
	}
	defer setProcs(c.Procs)()
	v := hx.Pass()
	lab := map[string]bool{}
	be, err := mk()
	if err != nil {
		v.Inconclusive = true
		hx.Note("backend setup failed: %v", err)
		return v
	}
	defer be.close()
	if c.Prewarm {
		be.prewarm(c.Names)
	}
	var seq atomic.Int64
	var problems atomic.Int64
	// whatever happens, open every gate at the end so that no goroutine of a finished case
	// stays parked on the harness (goroutines blocked inside goatcore cannot be helped)
	defer func() {
		for _, h := range hs {
			if !h.released {
				h.released = true
				close(h.gate)
			}
		}
	}()
	poll := func() {
		for _, h := range hs {
			if h.started && !h.gone {
				select {
				case <-h.done:
					h.gone, h.inside = true, false
				default:
				}
			}
			if h.started && !h.gone && !h.inside && !h.released {
				select {
				case <-h.acquired: // Lock returned and the gate is shut: parked inside
					h.inside = true
				default:
				}
			}
		}
	}
	describeAlive := func() string {
		s := ""
		for i, h := range hs {
			if h.started && !h.gone {
				st := "pending or inside"
				if h.inside {
					st = "parked inside"
				} else if h.released {
					st = "released, not seen finished"
				}
				s += fmt.Sprintf(" holder %d %s (%s);", i, showMap(h.m), st)
			}
		}
		return s
	}
	for si, s := range c.Steps {
		switch s.Op {
		case "pause":
			if s.Pause != nil {
				s.Pause.run()
			}
		case "start":
			h := hs[s.H]
			if h.started {
				continue
			}
			poll()
			// h must acquire iff it conflicts with no holder that is still alive (started and
			// not seen finished): neither the ones parked inside nor the ones that may be
			// queued in Lock can then legitimately stand in its way.
			must := true
			nParked, readShare, disjointParked := 0, false, false
			for j, o := range hs {
				if j == s.H || !o.started || o.gone {
					continue
				}
				common, nconf := relate(h.m, o.m)
				if nconf > 0 {
					must = false
				}
				if o.inside {
					nParked++
					if common && nconf == 0 {
						readShare = true
					}
					if !common && len(h.m) > 0 && len(o.m) > 0 {
						disjointParked = true
					}
				}
			}
			h.started = true
			go func(id string) {
				h.sp.att.Store(seq.Add(1))
				ran, err := be.hold(id, holdSpec{m: h.m, cli: h.cli}, func() {
					h.sp.enter.Store(seq.Add(1))
					close(h.acquired)
					<-h.gate
					h.sp.exit.Store(seq.Add(1))
				})
				if !ran || err != nil {
					problems.Add(1)
					if !ran {
						close(h.acquired) // never reached its section: do not let the harness wait for it
					}
				}
				close(h.done)
			}(fmt.Sprintf("h%d", s.H))
			if !must {
				lab["gated-conflicting-start"] = true
				continue
			}
			t := time.NewTimer(Watchdog)
			select {
			case <-h.acquired:
				t.Stop()
				h.inside = true
			case <-t.C:
				clause := "not-serialised"
				if alive := describeAlive(); alive == fmt.Sprintf(" holder %d %s (pending or inside);", s.H, showMap(h.m)) {
					clause = "deadlock" // nobody else is alive at all: it simply never gets its turn
				}
				f := hx.Fail(clause, "holder %d %s did not acquire within %v although it conflicts with no live holder:%s", s.H, showMap(h.m), Watchdog, describeAlive())
				f.Step = si
				return f
			}
			if nParked > 0 {
				if readShare || disjointParked {
					v.NonTrivial = true
				}
				v.Count("must_acquire_beside_parked", 1)
				if readShare {
					lab["gated-read-overlap"] = true
				}
				if disjointParked {
					lab["gated-disjoint"] = true
				}
				if len(h.m) == 0 {
					lab["gated-empty-beside-parked"] = true
				}
			} else {
				lab["gated-alone"] = true
			}
		case "release":
			h := hs[s.H]
			if !h.started || h.released {
				continue
			}
			poll()
			if h.gone {
				continue
			}
			h.released = true
			close(h.gate)
			if h.inside {
				// known to be inside: Unlock cannot legitimately block
				t := time.NewTimer(Watchdog)
				select {
				case <-h.done:
					t.Stop()
					h.gone, h.inside = true, false
				case <-t.C:
					f := hx.Fail("deadlock", "holder %d %s was released inside its section and did not finish Unlock within %v;%s", s.H, showMap(h.m), Watchdog, describeAlive())
					f.Step = si
					return f
				}
			} else {
				lab["gated-release-of-pending"] = true
			}
		default:
			return hx.Fail("bad-case", "step %d: unknown op %q", si, s.Op)
		}
	}
	// end: open all gates; every started holder must get its turn and finish
	for _, h := range hs {
		if !h.released {
			h.released = true
			close(h.gate)
		}
	}
	timer := time.NewTimer(Watchdog)
	timedOut := false
	for _, h := range hs {
		if !h.started || h.gone || timedOut {
			continue
		}
		select {
		case <-h.done:
			h.gone = true
		case <-timer.C:
			timedOut = true
		}
	}
	timer.Stop()
	var recs []spanRec
	for i, h := range hs {
		if a := h.sp.att.Load(); a != 0 {
			recs = append(recs, spanRec{holder: i, att: a, enter: h.sp.enter.Load(), exit: h.sp.exit.Load()})
		}
	}
	if f := judgeSpans(recs, maps, &v, lab, "gated-"); f != nil {
		return *f
	}
	if timedOut {
		poll()
		return hx.Fail("deadlock", "all gates open, after %v these holders had not finished:%s", Watchdog, describeAlive())
	}
	if problems.Load() != 0 {
		v.Inconclusive = true
		v.Count("backend_problems", problems.Load())
	}
	lab[fmt.Sprintf("gated-procs-%d", c.Procs)] = true
	if len(c.Holders) == 2 {
		lab["gated-two-holders"] = true
	}
	flush(&v, lab)
	return v
}

// EnumGated enumerates every two-holder gated scenario over nres resources: both maps range
// over all 3^nres maps (absent / R / RW per resource), both release orders. It calls f for
// every case whose index is in this shard and returns the number of cases produced.
func EnumGated(nres int, shard, nshards int, f func(GCase) bool) int64 {
	names := namePools[0][:nres]
	nm := 1
	for i := 0; i < nres; i++ {
		nm *= 3
	}
	mk := func(code int) []LockEnt {
		locks := []LockEnt{}
		for r := 0; r < nres; r++ {
			switch code % 3 {
			case 1:
				locks = append(locks, LockEnt{R: r})
			case 2:
				locks = append(locks, LockEnt{R: r, W: true})
			}
			code /= 3
		}
		return locks
	}
	var n int64
	idx := 0
	for a := 0; a < nm; a++ {
		for b := 0; b < nm; b++ {
			for order := 0; order < 2; order++ {
				idx++
				if idx%nshards != shard {
					continue
				}
				first, second := 0, 1
				if order == 1 {
					first, second = 1, 0
				}
				c := GCase{Names: append([]string{}, names...), Procs: 2 + 2*(idx%2),
					Holders: []GHolder{{Locks: mk(a)}, {Locks: mk(b)}},
					Steps: []GStep{{Op: "start", H: 0}, {Op: "start", H: 1}, {Op: "pause", Pause: &Delay{Yields: 2}},
						{Op: "release", H: first}, {Op: "release", H: second}}}
				n++
				if !f(c) {
					return n
				}
			}
		}
	}
	return n
}
