package c15

// Pipeline-level variant: the same lock maps travel as pipservices.Pip.Lock through
// pipservices.Runner.Run on a goatapp MockupApp. The task body is one probe command; the
// harness section (sequence numbers, hold or gate) runs inside that command, i.e. inside
// the window in which runner.runGo holds the task's lock map.

import (
	"fmt"
	"strings"
	"sync"
	"sync/atomic"

	"github.com/goatcms/goatcore/app"
	"github.com/goatcms/goatcore/app/bootstrap"
	"github.com/goatcms/goatcore/app/gio"
	"github.com/goatcms/goatcore/app/goatapp"
	"github.com/goatcms/goatcore/app/modules/commonm"
	"github.com/goatcms/goatcore/app/modules/commonm/commservices"
	"github.com/goatcms/goatcore/app/modules/pipelinem/pipservices"
	"github.com/goatcms/goatcore/app/modules/pipelinem/pipservices/namespaces"
	"github.com/goatcms/goatcore/app/modules/pipelinem/pipservices/runner"
	"github.com/goatcms/goatcore/app/modules/pipelinem/pipservices/sandboxes"
	"github.com/goatcms/goatcore/app/modules/pipelinem/pipservices/sandboxes/selfsb"
	"github.com/goatcms/goatcore/app/modules/pipelinem/pipservices/tasks"
	"github.com/goatcms/goatcore/app/modules/terminalm"
	"github.com/goatcms/goatcore/app/modules/terminalm/termservices"
	"github.com/goatcms/goatcore/app/scope"
	"github.com/goatcms/goatcore/app/terminal"
	"github.com/goatcms/goatcore/filesystem"
	"github.com/goatcms/goatcore/filesystem/filespace/memfs"
	"github.com/goatcms/goatcore/varutil/goaterr"
	"pgregory.net/rapid"
	"verif/harness/hx"
)

const probeCommand = "c15probe"

type pipBackend struct {
	mapp     app.App
	scp      app.Scope
	cwd      filesystem.Filespace
	ns       pipservices.Namespaces
	sections sync.Map     // task id -> func()
	failing  sync.Map     // task id -> true: the probe command returns an error after its section
	pending  atomic.Int64 // hold calls that have not returned
	deps     struct {
		Runner      pipservices.Runner       `dependency:"PipRunner"`
		TasksUnit   pipservices.TasksUnit    `dependency:"PipTasksUnit"`
		SharedMutex commservices.SharedMutex `dependency:"CommonSharedMutex"`
	}
}

// newPipeline boots a MockupApp with the terminal, common and pipeline services the way
// goatcore's own runner tests do (self sandbox only) and registers the probe command.
func newPipeline() (backend, error) {
	var err error
	b := &pipBackend{}
	if b.mapp, err = goatapp.NewMockupApp(goatapp.Params{}); err != nil {
		return nil, err
	}
	dp := b.mapp.DependencyProvider()
	if err = goaterr.ToError(goaterr.AppendError(nil,
		dp.AddDefaultFactory(pipservices.NamespacesUnitService, namespaces.UnitFactory),
		dp.AddDefaultFactory(pipservices.TasksUnitService, tasks.UnitFactory),
		dp.AddDefaultFactory(pipservices.SandboxesManagerService, sandboxes.ManagerFactory),
		dp.AddDefaultFactory(pipservices.RunnerService, runner.Factory),
	)); err != nil {
		return nil, err
	}
	boot := bootstrap.NewBootstrap(b.mapp)
	if err = goaterr.ToError(goaterr.AppendError(nil,
		boot.Register(terminalm.NewModule()),
		boot.Register(commonm.NewModule()),
		boot.Init(),
	)); err != nil {
		return nil, err
	}
	var sdeps struct {
		Manager  pipservices.SandboxesManager `dependency:"PipSandboxesManager"`
		Terminal termservices.Terminal        `dependency:"TerminalService"`
	}
	if err = dp.InjectTo(&sdeps); err != nil {
		return nil, err
	}
	var sb pipservices.SandboxBuilder
	if sb, err = selfsb.NewSandboxBuilder(sdeps.Terminal); err != nil {
		return nil, err
	}
	sdeps.Manager.Add(sb)
	if err = dp.InjectTo(&b.deps); err != nil {
		return nil, err
	}
	b.mapp.Terminal().SetCommand(terminal.NewCommand(terminal.CommandParams{
		Name: probeCommand,
		Callback: func(a app.App, ctx app.IOContext) error {
			var args struct {
				ID string `command:"?id"`
			}
			if err := ctx.Scope().InjectTo(&args); err != nil {
				return err
			}
			f, ok := b.sections.Load(args.ID)
			if !ok {
				return fmt.Errorf("c15probe: unknown id %q", args.ID)
			}
			f.(func())()
			if _, bad := b.failing.Load(args.ID); bad {
				return fmt.Errorf("c15probe: injected failure of %s", args.ID)
			}
			return nil
		},
	}))
	if b.cwd, err = memfs.NewFilespace(); err != nil {
		return nil, err
	}
	b.scp = scope.New(scope.Params{})
	b.ns = namespaces.NewNamespaces(pipservices.NamasepacesParams{Task: "", Lock: ""})
	return b, nil
}

func (b *pipBackend) hold(id string, sp holdSpec, section func()) (bool, error) {
	m := sp.m
	b.pending.Add(1)
	defer b.pending.Add(-1)
	ran := false
	b.sections.Store(id, func() { ran = true; section() })
	err := b.deps.Runner.Run(pipservices.Pip{
		Context: pipservices.PipContext{
			In:    gio.NewInput(strings.NewReader(probeCommand + " --id=" + id)),
			Out:   gio.NewNilOutput(),
			Err:   gio.NewNilOutput(),
			Scope: b.scp,
			CWD:   b.cwd,
		},
		Name:       id,
		Namespaces: b.ns,
		Sandbox:    "self",
		Lock:       m,
		Wait:       []string{},
	})
	if err != nil {
		return false, err
	}
	tm, err := b.deps.TasksUnit.FromScope(b.scp)
	if err != nil {
		return false, err
	}
	task, ok := tm.Get(id)
	if !ok {
		return false, fmt.Errorf("task %s not registered", id)
	}
	err = task.Wait() // returns after runner.runGo unlocked and closed the task
	return ran, err
}

func (b *pipBackend) prewarm(names []string) { prewarm(b.deps.SharedMutex, names) }

func (b *pipBackend) close() {
	if b.pending.Load() != 0 {
		// some task never finished (the case is being reported as a violation): closing the
		// scopes would wait for it forever, so the app of this case is abandoned
		return
	}
	b.scp.Close()
	b.mapp.Scopes().App().Close()
}

// GenPip draws a "holders" case of pipeline size: at most 6 holders, one service per case.
func GenPip(rt *rapid.T) Case {
	c := Gen(rt)
	if len(c.Holders) > 6 {
		c.Holders = c.Holders[:6]
	}
	c.Reps = 1
	return c
}

// ExecPipHolders runs a "holders" case with every holder round as a pipeline task.
func ExecPipHolders(c Case) hx.Verdict {
	v := withMemo("pip-holders", c, func() hx.Verdict { return runHolders(c, newPipeline) })
	v.Label("pipeline")
	return v
}

// ExecPipGated runs a "gated" case with every holder as a pipeline task.
func ExecPipGated(c GCase) hx.Verdict {
	v := withMemo("pip-gated", c, func() hx.Verdict { return runGated(c, newPipeline) })
	v.Label("pipeline-gated")
	return v
}
