package c06

import (
	"encoding/json"
	"testing"

	"pgregory.net/rapid"
	"verif/harness/hx"
)

func TestMain(m *testing.M) { hx.Main(m, "C06") }

func TestProp(t *testing.T) { hx.Check(t, "cache-commit", Gen, Exec) }

// TestPropFaults: every remote I/O call of the first Commit is failed once.
func TestPropFaults(t *testing.T) {
	rapid.Check(t, func(rt *rapid.T) {
		c := Gen(rt)
		v, n := exec(c)
		hx.Record("cache-commit", c, v)
		if !v.OK {
			hx.ReportFailure("cache-commit", c, v)
			rt.Fatalf("VIOLATION clause=%s: %s", v.Clause, v.Detail)
		}
		step := 1
		if n > 120 {
			step = n/120 + 1
		}
		hx.AddCounter("fault_positions_enumerated", int64((n+step-1)/step))
		for k := 0; k < n; k += step {
			fc := c
			fc.FailAt = k
			fv := Exec(fc)
			fv.NonTrivial = fv.NonTrivial || true
			hx.Record("cache-commit-fault", fc, fv)
			if !fv.OK {
				hx.ReportFailure("cache-commit-fault", fc, fv)
				rt.Fatalf("VIOLATION clause=%s: %s", fv.Clause, fv.Detail)
			}
		}
	})
}

func TestReplay(t *testing.T) {
	e := hx.Exec(Exec)
	hx.Replay(t, map[string]func(json.RawMessage) (hx.Verdict, error){"cache-commit": e, "cache-commit-fault": e, "": e})
}
