// Package c06: write-back cache — nothing reaches the remote before Commit, everything after.
package c06

import (
	"fmt"
	"os"
	"time"

	"github.com/goatcms/goatcore/filesystem/filespace/diskfs"
	"github.com/goatcms/goatcore/filesystem/filespace/memfs"
	"github.com/goatcms/goatcore/filesystem/fscache"
	"pgregory.net/rapid"
	"verif/harness/fsmodel"
	"verif/harness/hx"
)

// Case: initial remote, cache ops with "Commit" pseudo-ops interleaved; a final Commit is
// always executed. FailAt >= 0 fails the k-th remote I/O call of the FIRST Commit.
type Case struct {
	Remote []fsmodel.TNode `json:"remote"`
	Ops    []fsmodel.Op    `json:"ops"`
	FailAt int             `json:"fail_at"`
	Disk   bool            `json:"disk,omitempty"` // the remote is a disk filespace in a temp dir instead of memfs
}

// Excluded generator classes of open findings.
const (
	ExRemoveRemoteDir = "c06.removeOfRemoteDirectory"
	ExDirCopy         = "c06.directoryCopy"
	ExMkdirLeafRemove = "c06.removeOfCacheCreatedDirLeaf"
)

// Gen draws a fault-free case.
func Gen(rt *rapid.T) Case {
	remote := fsmodel.GenTree(rt, 10, true)
	max := 15
	if hx.Thorough() {
		max = 40
	}
	c := Case{Remote: fsmodel.Flatten(remote), FailAt: -1, Disk: hx.Chance(rt, 8, "disk")}
	ops := fsmodel.GenHistory(rt, fsmodel.GenCfg{MinOps: 1, MaxOps: max, OddNames: true, NoisyPaths: true, Initial: remote, DropFailingMutations: true,
		Weights: map[string]int{"Remove": 10, "RemoveAll": 8, "CopyDirectory": 7, "Copy": 6, "MkdirAll": 10,
			"ReadDir": 2, "IsExist": 1, "IsDir": 1, "IsFile": 1, "ReadFile": 2, "Reader": 1, "Lstat": 1}})
	ncommit := hx.Uniform(rt, 3, "ncommit")
	for _, op := range ops {
		if ncommit > 0 && hx.Chance(rt, 12, "commit") {
			c.Ops = append(c.Ops, fsmodel.Op{Op: "Commit"})
			ncommit--
		}
		c.Ops = append(c.Ops, op)
	}
	return c
}

// Exec runs the case.
func Exec(c Case) hx.Verdict {
	v, _ := exec(c)
	return v
}

// exec also returns the number of remote I/O calls made by the first Commit.
func exec(c Case) (hx.Verdict, int) {
	calls := 0
	v := hx.Guard(func() hx.Verdict {
		v, n := run(c)
		calls = n
		return v
	})
	return v, calls
}

func run(c Case) (hx.Verdict, int) {
	var remoteFS fsmodel.FS
	var err error
	if c.Disk {
		dir, derr := os.MkdirTemp("", "c06-")
		if derr != nil {
			v := hx.Pass()
			v.Inconclusive = true
			return v, 0
		}
		defer os.RemoveAll(dir)
		remoteFS, err = diskfs.NewFilespace(dir)
	} else {
		remoteFS, err = memfs.NewFilespace()
	}
	if err != nil {
		return hx.Fail("setup", "%v", err), 0
	}
	if err := fsmodel.Populate(remoteFS, c.Remote); err != nil {
		return hx.Fail("setup", "populate remote: %v", err), 0
	}
	ctl := fsmodel.NewFaultCtl(-1)
	cache, err := fscache.NewMemCache(fsmodel.NewFaultFS(remoteFS, ctl, "remote"))
	if err != nil {
		return hx.Fail("setup", "%v", err), 0
	}
	initial := fsmodel.Build(c.Remote)
	committed := initial.Clone() // what the remote must look like right now
	m := fsmodel.NewModel(fsmodel.Options{})
	m.Root = initial.Clone()
	b := fsmodel.NewBackend("cache", cache)
	v := hx.Pass()
	if c.Disk {
		v.Label("remote-on-disk")
	}
	fail := func(i int, clause, detail string) hx.Verdict {
		f := hx.Fail(clause, "%s", detail)
		f.Step = i
		return f
	}
	firstCommitCalls := 0
	commits := 0
	// after a failed Commit the cache must stay usable: "a later successful Commit still brings the
	// remote to that same tree" can only hold if the operations and the Commit that follow return
	faultFired := false
	blocked := func(i int, what string) hx.Verdict {
		return fail(i, "usable-after-failed-commit", fmt.Sprintf("%s, issued after a Commit that failed at remote call %d (%s), did not return within 20 s", what, c.FailAt, ctl.What))
	}
	commitGuarded := func() (error, bool) {
		if !faultFired {
			return cache.Commit(), true
		}
		ch := make(chan error, 1)
		go func() { ch <- cache.Commit() }()
		select {
		case e := <-ch:
			return e, true
		case <-time.After(20 * time.Second):
			return nil, false
		}
	}
	sharedPrefix := map[string]int{}
	touchedRemote := false
	remoteIs := func(want *fsmodel.Node, i int, clause, when string) *hx.Verdict {
		got, prob := fsmodel.Walk(remoteFS, false)
		if prob != "" {
			f := fail(i, clause, fmt.Sprintf("%s: remote: %s", when, prob))
			return &f
		}
		if d := fsmodel.Diff(want, got, ""); d != "" {
			f := fail(i, clause, fmt.Sprintf("%s: remote differs from the expected tree: %s", when, d))
			return &f
		}
		return nil
	}
	doCommit := func(i int) *hx.Verdict {
		commits++
		armed := commits == 1 && c.FailAt >= 0
		before := ctl.Count()
		if armed {
			ctl.FailAt = before + c.FailAt
		}
		err, returned := commitGuarded()
		if !returned {
			f := blocked(i, "Commit")
			return &f
		}
		ctl.FailAt = -1
		if commits == 1 {
			firstCommitCalls = ctl.Count() - before
		}
		if armed && ctl.Fired {
			v.Label("fault-fired")
			v.Count("fault_positions_fired", 1)
			if err == nil {
				f := fail(i, "fault-unreported", fmt.Sprintf("remote I/O call %d of Commit failed (%s) but Commit returned nil", c.FailAt, ctl.What))
				return &f
			}
			faultFired = true
			// a later successful Commit still brings the remote to the same tree
			err2, returned := commitGuarded()
			if !returned {
				f := blocked(i, "the next Commit")
				return &f
			}
			if err2 != nil {
				f := fail(i, "recommit-failed", fmt.Sprintf("Commit after a failed Commit (fault at call %d: %s) failed again without any fault: %v", c.FailAt, ctl.What, err2))
				return &f
			}
			if f := remoteIs(m.Root, i, "recommit-tree", fmt.Sprintf("after a failed Commit (fault at call %d: %s) and a successful one", c.FailAt, ctl.What)); f != nil {
				return f
			}
			committed = m.Root.Clone()
			return nil
		}
		if err != nil {
			f := fail(i, "commit-failed", fmt.Sprintf("Commit failed without an injected fault: %v", err))
			return &f
		}
		if f := remoteIs(m.Root, i, "commit-tree", "after a successful Commit"); f != nil {
			return f
		}
		committed = m.Root.Clone()
		return nil
	}
	for i, op := range c.Ops {
		if op.Op == "Commit" {
			if f := doCommit(i); f != nil {
				return *f, firstCommitCalls
			}
			if commits >= 2 {
				v.Label("second-commit")
			}
			continue
		}
		op.Recv = 0
		if fsmodel.Mutating(op.Op) {
			probe := &fsmodel.Model{Root: m.Root.Clone(), Views: m.Views, Opt: m.Opt}
			if e := probe.Apply(op); e.Skip || e.Err != fsmodel.No {
				v.Count("skipped_ops", 1)
				continue
			}
			rel, _ := fsmodel.Resolve(op.Path)
			n := m.Root.Lookup(rel)
			switch {
			case (op.Op == "Remove" || op.Op == "RemoveAll") && n != nil && n.Dir && initial.Lookup(rel) != nil && initial.Lookup(rel).Dir:
				if hx.Excluded(ExRemoveRemoteDir) {
					hx.CountExcluded(ExRemoveRemoteDir)
					continue
				}
				v.Label("remove-of-remote-dir")
			case (op.Op == "CopyDirectory" || op.Op == "Copy") && n != nil && n.Dir:
				if hx.Excluded(ExDirCopy) {
					hx.CountExcluded(ExDirCopy)
					continue
				}
				v.Label("dir-copy")
			case (op.Op == "Remove" || op.Op == "RemoveAll") && n != nil && n.Dir && initial.Lookup(rel) == nil:
				if hx.Excluded(ExMkdirLeafRemove) {
					hx.CountExcluded(ExMkdirLeafRemove)
					continue
				}
				v.Label("remove-of-cache-created-dir")
			}
			if initial.Lookup(rel) != nil {
				touchedRemote = true
				if n != nil && !n.Dir && (op.Op == "WriteFile" || op.Op == "Writer") {
					v.Label("overwrite-remote-file")
				}
			}
			if len(rel) > 0 {
				sharedPrefix[rel[0]]++
			}
		} else if e := (&fsmodel.Model{Root: m.Root, Views: m.Views}); e != nil {
			_ = e
		}
		snapshot := m.Root.Clone()
		e := m.Apply(op)
		if e.Skip {
			continue
		}
		var o fsmodel.Obs
		if faultFired {
			ch := make(chan fsmodel.Obs, 1)
			go func() { ch <- b.Run(op) }()
			select {
			case o = <-ch:
			case <-time.After(20 * time.Second):
				return blocked(i, op.String()), firstCommitCalls
			}
		} else {
			o = b.Run(op)
		}
		b.DropKept()
		if o.Panic != "" {
			return fail(i, "panic", fmt.Sprintf("%s panicked: %s", op, o.Panic)), firstCommitCalls
		}
		if fsmodel.Mutating(op.Op) && o.Err != nil {
			// "the same successful operations": an operation the cache refused is not applied to the model
			m.Root = snapshot
			v.Label("cache-refused-valid-op")
		}
		if f := remoteIs(committed, i, "remote-touched-before-commit", fmt.Sprintf("after %s (no Commit since the last check)", op)); f != nil {
			return *f, firstCommitCalls
		}
	}
	if f := doCommit(len(c.Ops)); f != nil {
		return *f, firstCommitCalls
	}
	shared := false
	for _, n := range sharedPrefix {
		if n >= 2 {
			shared = true
		}
	}
	v.NonTrivial = shared && touchedRemote
	return v, firstCommitCalls
}
