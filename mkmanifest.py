#!/usr/bin/env python3
"""Regenerates MANIFEST.json from checkcfg.py + manifest_texts.py (kept in sync by hand)."""
import json, os, sys
sys.path.insert(0, os.path.dirname(os.path.abspath(__file__)))
import checkcfg, manifest_texts as T

props = [json.loads(l)["id"] for l in open(os.path.join(os.path.dirname(os.path.abspath(__file__)), "properties.jsonl"))]
checks = []
for pid in props:
    if pid not in checkcfg.CHECKS or pid not in T.TEXTS:
        continue
    t = T.TEXTS[pid]
    checks.append({
        "property_id": pid,
        "quick_cmd": "./check %s --tier quick" % pid,
        "thorough_cmd": "./check %s --tier thorough" % pid,
        "evidence_file": "/verif/evidence/%s.json" % pid,
        "replay_cmd_template": "./check %s --replay {path}" % pid,
        "engine": "harness",
        "level_claimed": {"category": checkcfg.CHECKS[pid].get("level", "exploration"), "text": t["level_text"], "design_ref": t["design_ref"]},
        "level_note": t["level_note"],
        "technique": t["technique"],
    })
na = [{"property_id": p, "reason": T.NOT_APPLICABLE.get(p, "check not built yet in this round (planned, see DESIGN.md section 4); no claim is made")} for p in props if p not in [c["property_id"] for c in checks]]
m = {
    "version": 1,
    "setup_cmd": "./setup.sh",
    "hooks": {"guard": "verif", "enable": "go test -tags verif (the driver builds every check with -tags verif)",
              "baseline_off_cmd": "/verif/baseline_off.sh", "source_commits": T.HOOK_COMMITS, "add_only": True},
    "engines": [{"name": "harness", "path": "/verif/harness", "serves_properties": [c["property_id"] for c in checks],
                 "kind_free_text": "Go module: rapid v1.3.0 property-based tests (model-based histories, differential, round-trip, fault and schedule generation) + exhaustive small-alphabet enumerations + native go fuzz targets in the thorough tier; python3 driver ./check"}],
    "checks": checks,
    "not_applicable": na,
    "notes": T.NOTES,
}
json.dump(m, open(os.path.join(os.path.dirname(os.path.abspath(__file__)), "MANIFEST.json"), "w"), indent=1)
print("MANIFEST.json: %d checks, %d not claimed" % (len(checks), len(na)))
