#!/bin/sh
# MANIFEST.setup_cmd: offline warm build of the harness (all property packages), so that
# the first check does not pay for compiling the standard library and goatcore.
set -e
cd "$(dirname "$0")/harness"
export GOFLAGS=-mod=mod GOPROXY=off GOSUMDB=off GOTOOLCHAIN=local
mkdir -p ../.build
go build -tags verif ./... 
for d in props/*/; do
  go test -c -tags verif -o ../.build/warm.test "./$d" >/dev/null 2>&1 || echo "warning: $d does not build"
done
rm -f ../.build/warm.test
echo setup-ok
