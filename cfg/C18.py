CHECK = {'rule': 'rapid-generated programs of Set/SetAll calls (0-6 variables, ~14% names that are not identifiers) on a real envs.Environments, then the '
         'start-up script of one sandbox kind (dcmd.InitSequence / sshsb builder via the verif hook) piped, followed by a dump trailer, to the real '
         '/bin/sh (dash) in an empty directory with a scrubbed environment; plus every value of length <=3 (thorough <=4) over the 13-character '
         'alphabet {$ ` " \' backslash newline ( ) ; # space E a} batched 40 per shell run through both builders, plus every name of length <=3 over '
         '10 characters; plus delimiter replay (TestPropReplay): the script of a base environment is built, every here-document delimiter '
         '(<< / <<-, quoted or not) and the structural text following each value are read out of it, values carrying those very tokens on a '
         'line of their own + an attack payload (own and other variables) are configured on the same or a fresh Environments, the script is '
         'built again and judged by the same oracle; ordinary values also get delimiter guesses derived from variable names (12%). Non-trivial: the script was executed and >=1 configured value contains a shell-significant character. Distinct = distinct '
         'case JSON (FNV-64).',
 'assumptions': ["decided against the /bin/sh of this image (dash 0.5.12); cat/touch/env are the image's coreutils reached through a private PATH",
                 'names with a meaning for the shell or the oracle (PATH, HOME, PWD, IFS, LC_*, PS1...) are never configured',
                 'plain identifier = [A-Za-z_][A-Za-z0-9_]*; names of letters/underscores starting with a letter must be accepted (doc comment of '
                 'Set/SetAll); identifiers outside the documented rule may be accepted or rejected',
                 'values never contain NUL; equality is up to trailing newlines on both sides (a builder may strip or preserve them)',
                 'the open finding C18-dash-delimiter-prefix-highbyte is recognised by its cause relative to the here-document terminator actually read from the '
                 'script: such a variable is counted as excluded and not judged for verbatim/exported while the finding is open',
                 'the SSH key pair of the environment is left empty (the statement speaks about environment variables only)'],
 'essential_labels': {'all': ['replay-gc-between-builds', 'builder-container',
                              'builder-ssh',
                              'value-dollar',
                              'value-backquote',
                              'value-backslash',
                              'value-quote',
                              'value-command-substitution',
                              'value-inner-newline',
                              'value-line-equal-EOF',
                              'value-high-byte',
                              'name-not-identifier',
                              'setall',
                              'replay-fence-token-extracted',
                              'replay-own-delimiter',
                              'replay-other-delimiter',
                              'replay-same-environment-object',
                              'value-line-own-name-derived-delimiter']},
 'tiers': {'quick': [{'test': '^TestProp$', 'checks': 500, 'shards': 6, 'timeout': 240}, {'test': '^TestEnum$', 'shards': 2, 'timeout': 240},
                     {'test': '^TestPropReplay$', 'checks': 300, 'shards': 2, 'timeout': 240}],
           'thorough': [{'test': '^TestProp$', 'checks': 5000, 'shards': 16, 'timeout': 3000}, {'test': '^TestEnum$', 'shards': 8, 'timeout': 3000},
                        {'test': '^TestPropReplay$', 'checks': 3000, 'shards': 4, 'timeout': 3000}]}}

TEXT = {'technique': 'property-based testing (rapid) + bounded exhaustive enumeration of shell-significant values and names, executing the generated '
              'start-up scripts of both sandbox builders with the real /bin/sh and comparing the resulting environment',
 'level_text': 'Exploration with exhaustive core: all values of length <= 3 (thorough <= 4) over 13 shell-significant characters and all names of '
               'length <= 3 over 10 characters, plus random Set/SetAll programs with attack fragments and bytes 0x01-0xFF, through both builders; '
               'a two-build delimiter replay (fences read from the first script are replayed inside the values of the second); every script is run by /bin/sh in an empty directory with a scrubbed environment; variables, exported environment, directory and '
               'exit status are compared with the configured map.',
 'level_note': "Trusts the image's /bin/sh (dash 0.5.12) and coreutils cat/touch/env. Open finding C18-dash-delimiter-prefix-highbyte is excluded by "
               'construction and reported as KNOWN-FINDING. SSH builder reached through the verif-tagged export VerifInitSequence.',
 'design_ref': 'DESIGN.md 2.7, 4/C18'}
