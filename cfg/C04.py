CHECK = {'rule': '(a) writer cases: backend in {mem, disk, encrypted(mem), encrypted(disk), cache}, prior state of the path in {absent, empty, shorter, '
         'equal, longer}, 0-5 chunks (up to 75 KiB), read back by ReadFile and by Reader with generated buffer sizes; (b) copy cases: generated '
         'source tree, destination pre-populated with overlapping different (often longer) content plus untouched extras, all 25 backend pairs, '
         'helper in {StreamCopy, Copier file, Copier dir, fshelper.Copy}; (c) faults: every single I/O call position of the fault-free copy is '
         'failed once (sampled above 200). Oracle: content == concatenation; destination == expected merged tree; err==nil implies complete copy; '
         'fault-free copy inside preconditions must succeed; no panic. Non-trivial: writer with a longer prior file, copy with >=2 files and an '
         'overlapping destination file, or a fault that fired.',
 'assumptions': ['file helpers on disk-like destinations require the destination parent to exist (stated precondition); kind conflicts between '
                 'source and destination are not generated',
                 'a helper that does not return within 30 s is inconclusive, not a violation'],
 'essential_labels': {'all': ['prior-longer', 'fault-fired', 'tree-with-overlap', 'helper:Copy', 'helper:CopierDir', 'helper:StreamCopy', 'large']},
 'level': 'fault_enumeration',
 'tiers': {'quick': [{'test': '^TestPropWriter$', 'checks': 1500, 'shards': 2, 'timeout': 240},
                     {'test': '^TestPropCopy$', 'checks': 700, 'shards': 2, 'timeout': 240, 'seed_offset': 100},
                     {'test': '^TestPropFaults$', 'checks': 25, 'shards': 4, 'timeout': 240, 'seed_offset': 200}],
           'thorough': [{'test': '^TestPropWriter$', 'checks': 20000, 'shards': 4, 'timeout': 3000},
                        {'test': '^TestPropCopy$', 'checks': 6000, 'shards': 4, 'timeout': 3000, 'seed_offset': 100},
                        {'test': '^TestPropFaults$', 'checks': 250, 'shards': 8, 'timeout': 3000, 'seed_offset': 200}]}}

TEXT = {'technique': 'round-trip property testing of writers/readers over 5 backends and prior states; model-based copy cases over 25 backend pairs; '
              'exhaustive single-fault enumeration over every I/O call of each generated copy (rapid)',
 'level_text': 'Fault enumeration + exploration: every I/O call position of each generated copy is failed once (torn write on a failed Close) and '
               "'nil error implies complete copy' is checked; writer/reader round-trips and fault-free copies are explored over generated contents, "
               'chunkings, buffer sizes, trees and pre-existing destination states.',
 'level_note': 'Trusts the expected-merge model in props/c04 and the fault wrapper (fsmodel/faultfs.go); only single faults; helpers that hang are '
               'inconclusive.',
 'design_ref': 'DESIGN.md 4/C04'}

# native coverage-guided campaign over the rapid generator (hx.FuzzRapid), thorough tier only
CHECK['tiers']['thorough'].append({'test': '^$', 'fuzz': '^FuzzWriter$', 'fuzztime': '90s', 'gomaxprocs': 4, 'timeout': 400})
CHECK['tiers']['thorough'].append({'test': '^$', 'fuzz': '^FuzzCopy$', 'fuzztime': '90s', 'gomaxprocs': 4, 'timeout': 400})
TEXT['technique'] += '; thorough adds a native coverage-guided go fuzzing campaign over the same generator (rapid.MakeFuzz)'
