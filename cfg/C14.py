CHECK = {'rule': 'rapid-generated task programs driven directly at pipservices.Runner.Run on a bootstrapped MockupApp (terminalm, commonm, ocm, pipelinem): '
         '2-10 submissions made by one driver goroutine with generated pauses, acyclic wait lists over earlier names, bodies of 1-4 commands (probe '
         'commands with a generated duration of 0-3 ms, an optional failing probe that returns an error or appends one to its scope, nested pip:run '
         'submissions with their own wait lists, detached submissions: a harness command that calls Runner.Run itself with the root scope / a fresh isolated child / the isolated scope of the submitter, own wait list over earlier tasks and the submitter, own body, so that the submitter can finish first and the task is registered while TasksManager.Wait is already waiting), top-level submissions made either through Runner.Run or through the callback of the real pip:run command (own unclosed command scope, --wait text with blanks around the commas), task names from a pool with suffix/prefix/case relations (b, ab, cab, b1, ab1, B, aB, _b, a_b ...) and wait lists in both orders, submissions that wait for an unknown name or for themselves, two context configurations (one '
         'shared scope / one isolated-context child per task below the root scope that owns the task manager), GOMAXPROCS in {1,2,4,8}. Oracle: '
         'validity predicates over the sequence-numbered begin/end log written by the probes plus Task.Errors(): wait order, failed prerequisite => '
         'no event and task failed, per-body nesting/script order/stop at first failure, invalid submissions refused (top level and nested), valid '
         'ones accepted, clean task => whole body ran, errors only with a cause, TasksManager.Wait returns within 20 s, not before the last event, '
         'with an error iff a task has errors. Second test (waitlist): the pip:run callback is called with a recording stand-in for PipRunner and generated --wait texts (1-5 related names, blanks, namespaces); the Pip.Wait it hands over must equal, as a set, the named tasks with the namespace prefix. Non-trivial: the bodies of >=2 different top-level tasks overlap in time (from the log) and >=1 wait '
         'edge between accepted tasks.',
 'assumptions': ['a watchdog of 20 s on the submissions plus TasksManager.Wait counts as "never finishes" (the statement promises progress; the work '
                 'takes milliseconds); after the first expiry in a process the shrinking attempts use 6 s, every replay uses 20 s again',
                 'in the shared-scope configuration a failure anywhere stops every task of that scope at its next command boundary and later valid '
                 'submissions may be refused (scope done): both are accepted, only a task that reports no error must have run its whole body',
                 'what a parent task does after one of its nested tasks failed is not fixed by the statement and accepted both ways',
                 'names of refused submissions are never reused and never waited for by the generator; duplicate task names are not generated'],
 'essential_labels': {'all': ['nosandbox:later-submission-waits-for-it',
                              'mode:shared',
                              'mode:isolated',
                              'bodies-overlap',
                              'wait-edge',
                              'wait-chain>=2',
                              'failing-task',
                              'dependant-of-failed-task-skipped',
                              'nested-submission',
                              'refused:unknown',
                              'refused:cycle',
                              'refused:nested',
                              'refused:scope-done',
                              'detached-submission',
                              'detached-with-wait-list',
                              'detached-outlives-submitter',
                              'detached-registered-while-wait-is-waiting',
                              'detached-registered-during-wait-finishes-last',
                              'detached-fails',
                              'refused:detached',
                              'via-piprun',
                              'via-runner',
                              'piprun-wait-list>=2',
                              'piprun-wait-list-with-blanks',
                              'piprun-wait-list:later-name-is-suffix-of-earlier',
                              'piprun-wait-list:earlier-name-is-suffix-of-later',
                              'piprun-wait-list:prefix-related-names',
                              'piprun-wait-list:names-differ-in-case-only',
                              'waitlist:later-name-is-suffix-of-earlier',
                              'waitlist:earlier-name-is-suffix-of-later',
                              'waitlist:prefix-related-names',
                              'waitlist:substring-related-names',
                              'waitlist:names-differ-in-case-only',
                              'waitlist:same-name-twice',
                              'waitlist:namespaced',
                              'waitlist:blanks']},
 'tiers': {'quick': [{'test': '^TestProp$', 'checks': 1200, 'shards': 8, 'timeout': 240, 'shrinktime': '60s'},
                     {'test': '^TestPropWaitList$', 'checks': 20000, 'shards': 1, 'timeout': 120},
                     {'test': '^TestPropNoSandbox$', 'checks': 250, 'shards': 2, 'timeout': 240, 'seed_offset': 700}],
           'thorough': [{'test': '^TestProp$', 'checks': 16000, 'shards': 16, 'timeout': 3000, 'shrinktime': '120s'},
                        {'test': '^TestPropWaitList$', 'checks': 200000, 'shards': 2, 'timeout': 600},
                        {'test': '^TestPropNoSandbox$', 'checks': 6000, 'shards': 4, 'timeout': 3000, 'seed_offset': 700}]}}

TEXT = {'technique': 'property-based testing of concurrent task programs (rapid): generated task graphs with wait lists, failing commands, nested and '
              'invalid submissions are driven at the pipeline runner of a bootstrapped app; validity predicates over the event log of harness probe '
              'commands, task states and TasksManager.Wait under a watchdog; submissions whose sandbox cannot be provided (refused or accepted-and-failed, '
              'judged from the observed decision) with later submissions waiting for them',
 'level_text': 'Exploration: thousands of generated task programs whose tasks really overlap (driven at Runner.Run, not through the serialising '
               'terminal), in a shared scope and in isolated-context children; the interleaving of the tasks is sampled by the Go scheduler under '
               'generated command durations, submission pauses and GOMAXPROCS 1/2/4/8, not enumerated.',
 'level_note': 'No hook needed: all schedule control is harness-side (probe durations, driver pauses). A hang (20 s watchdog) is a violation because '
               'the statement promises that accepted submissions finish and Wait returns. A crash in a goatcore goroutine is attributed through the '
               'persisted current case.',
 'design_ref': 'DESIGN.md 4/C14'}
