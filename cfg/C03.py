CHECK = {'rule': "(a) exhaustive: every path of 1..N segments over {in,out,.,..,''} with/without leading '/', x 22 op forms (13 single-path ops; 3 copy ops "
         'with the path as first, second and both arguments) x 18 view kinds (memory/disk child and child-of-child, SubFS, read-only mask + child, '
         'encrypted + child, cache + child, mixed nestings); each call on a fresh fixture whose parent tree holds marker files outside the view '
         'root; (b) rapid: single calls with paths up to 12 segments and sequences of 2-11 calls. Oracle: parent tree outside the view root '
         'byte-identical after the call (cache: after Commit), no returned bytes/listing/FileInfo/boolean reveals an outside-only node, views '
         'returned by Filespace() are probed too, no panic. Non-trivial: a path argument climbs above the view root.',
 'assumptions': ['escaping paths may be rejected or clamped into the root; both are accepted',
                 "removing a view's own root directory is not judged",
                 'encrypted kinds: outside files are encrypted with the same key so that an escaping read would be visible'],
 'essential_labels': {'all': ['escaping', 'inside-control', 'kind:cache-child-mem', 'kind:disk-child', 'kind:ro-child-mem', 'kind:enc-child-mem']},
 'tiers': {'quick': [{'test': '^TestEnum$', 'shards': 8, 'timeout': 280},
                     {'test': '^TestPropLong$', 'checks': 6000, 'shards': 2, 'timeout': 240, 'seed_offset': 100},
                     {'test': '^TestPropSeq$', 'checks': 2500, 'shards': 2, 'timeout': 240, 'seed_offset': 200}],
           'thorough': [{'test': '^TestEnum$', 'shards': 16, 'timeout': 3400},
                        {'test': '^TestPropLong$', 'checks': 40000, 'shards': 8, 'timeout': 3000, 'seed_offset': 100},
                        {'test': '^TestPropSeq$', 'checks': 20000, 'shards': 8, 'timeout': 3000, 'seed_offset': 200},
                       {'test': '^$', 'fuzz': '^FuzzCall$', 'fuzztime': '120s', 'gomaxprocs': 4, 'timeout': 400}]}}

TEXT = {'technique': 'exhaustive small-alphabet path enumeration x all op forms x 18 view kinds, plus rapid-generated long paths and call sequences; '
              'containment oracle (parent tree outside the root unchanged, no outside content observable)',
 'level_text': "Exploration with an exhaustive core: all paths up to 4 (disk 3) segments over {in,out,.,..,''} (thorough 5/4) for every op form and "
               'view kind, then random longer paths and sequences. Each call is judged by comparing the parent tree outside the view root '
               'before/after and by scanning every returned value for outside-only content.',
 'level_note': "Trusts the fixture construction and the walker; escaping paths may be rejected or clamped (both accepted); removal of a view's own "
               'root is not judged.',
 'design_ref': 'DESIGN.md 4/C03'}
