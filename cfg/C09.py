CHECK = {'rule': 'rapid-generated concurrent programs on one fresh memfs: 2..8 goroutines x 5..24 (thorough 5..40) ops over shared directories '
         '(root, s, s/t, u), shared files (f, h) and nodes private to one goroutine inside those directories; ops WriteFile / stream Writer of '
         'self-describing values, ReadFile / stream Reader / polling read, MkdirAll of shared chains and private dirs, ReadDir, CopyFile / Copy / '
         'CopyDirectory into private names, Remove / RemoveAll of private nodes, IsExist/IsFile/IsDir/Lstat; up to 4 (6) spin-barrier bursts in '
         'which several goroutines create the same new name (all files, all dirs, mixed) while others list, poll or mutate the same directory; '
         'generated harness-side delays, GOMAXPROCS in {1,2,4,16} and a generated plan (pass / Gosched / sleep / spin, every n-th visit) for the '
         'three verif yield points inside memfs. Non-trivial: >=2 goroutines, and a successful creation inside a shared directory whose op '
         'interval (global tick counter) overlaps a ReadDir of that directory or a successful Remove/RemoveAll inside it by another goroutine. '
         'Kind handles: 150..600 rounds per case on fresh directories; a holder opens a Reader or Writer on d/f, releases 1..3 contenders '
         '(WriteFile / Writer / ReadFile / Reader / CopyFile / Copy / CopyDirectory / Lstat / ReadDir on d/f or d), spins a delay swept over the rounds '
         'and makes a second call (WriteFile / Writer incl. the stream copy f->g / MkdirAll / CopyFile / ReadDir in d, WriteFile in another directory) '
         'with the handle open; 20 s watchdog per round; values of f, g and of every copy judged afterwards. Non-trivial there: a round in which '
         'the second call was made while a contender was inside its call. '
         'Distinct = distinct case JSON (FNV-64).',
 'assumptions': ['in the generated programs (kind program) a goroutine holds at most one stream handle and does only Write/Read/Close while holding it; '
                 'the kind handles covers the holder of ONE open handle that makes one further call on another path (what a stream copy inside one '
                 'filespace does); a goroutine that calls an operation on the very file it holds open is not generated (that waits for itself)',
                 'shared nodes are never removed, private nodes are touched only by their owner (the statement speaks of distinct paths)',
                 'an operation that succeeds under every sequential order of the concurrent operations (WriteFile/Writer on a name only ever '
                 'written as a file, MkdirAll on a name only ever made a directory, any op on a private path) must succeed; mixed-kind races accept '
                 'either outcome',
                 'a run whose goroutines have not all returned after 30 s (work of microseconds) counts as "blocks forever"',
                 'hooks memfs.mkdir.gap / memfs.create.gap / memfs.writer.created exist (hit counters in evidence; zero hits degrade that part to '
                 'plain stress)'],
 'essential_labels': {'all': ['burst-same-name-files', 'burst-same-name-dirs', 'burst-same-name-mixed', 'overlap-create-list',
                              'overlap-create-remove', 'overlap-read-write', 'overlap-write-write', 'op-Ws', 'op-Rs', 'op-Rp', 'op-Cd',
                              'procs=1', 'procs=16', 'yield-plan', 'listrace:listed-before-and-after-the-change',
                              'handles:second-call-while-a-contender-is-inside-its-call', 'handles:contender-writes-the-held-file',
                              'handles:contender-copies-the-held-file-into-the-same-directory', 'handles:hold-reader', 'handles:hold-writer']},
 'tiers': {'quick': [{'test': '^TestProp$', 'checks': 600, 'shards': 8, 'timeout': 240},
                     {'test': '^TestPropListRace$', 'checks': 40, 'shards': 2, 'timeout': 240, 'seed_offset': 300},
                     {'test': '^TestPropHandles$', 'checks': 40, 'shards': 2, 'timeout': 240, 'seed_offset': 500}],
           'thorough': [{'test': '^TestProp$', 'checks': 10000, 'shards': 16, 'timeout': 3000},
                        {'test': '^TestPropListRace$', 'checks': 600, 'shards': 8, 'timeout': 3000, 'seed_offset': 300},
                        {'test': '^TestPropHandles$', 'checks': 600, 'shards': 8, 'timeout': 3000, 'seed_offset': 500}]}}

TEXT = {'technique': 'concurrent property testing (rapid): generated multi-goroutine programs over shared and private paths with self-describing '
              'values, same-name creation bursts behind spin barriers, per-owner exact models, must-contain listings from completion flags, '
              'schedule knobs (GOMAXPROCS, delays, verif yield points), 30 s progress watchdog; listings racing with the LAST change of a fresh directory '
              '(hundreds of rounds per case) judged on the settled listing; a holder of an open stream handle making a second call while others write or copy '
              'the held file (swept delay, 20 s watchdog per round)',
 'level_text': 'Exploration of schedules: thousands of generated concurrent programs run against one memfs under GOMAXPROCS 1/2/4/16; the '
               'check-then-create windows inside memfs are widened by generated yields/sleeps at three verif hook points, every other '
               'interleaving is whatever the Go scheduler produced. Passing means no inconsistency was observed on the sample.',
 'level_note': 'Oracle is per clause of the statement (complete values by set lookup, exact per-owner models for private paths, '
               'completion-flag lower bounds for shared nodes, one node per burst name, duplicate-free listings, watchdog); no '
               'linearizability claim, no -race. Hooks: memfs.mkdir.gap, memfs.create.gap, memfs.writer.created (build tag verif).',
 'design_ref': 'DESIGN.md 2.5, 2.7, 3, 4/C09'}
