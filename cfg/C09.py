CHECK = {'rule': 'rapid-generated concurrent programs on one fresh memfs: 2..8 goroutines x 5..24 (thorough 5..40) ops over shared directories '
         '(root, s, s/t, u), shared files (f, h) and nodes private to one goroutine inside those directories; ops WriteFile / stream Writer of '
         'self-describing values, ReadFile / stream Reader / polling read, MkdirAll of shared chains and private dirs, ReadDir, CopyFile / Copy / '
         'CopyDirectory into private names, Remove / RemoveAll of private nodes, IsExist/IsFile/IsDir/Lstat; up to 4 (6) spin-barrier bursts in '
         'which several goroutines create the same new name (all files, all dirs, mixed) while others list, poll or mutate the same directory; '
         'generated harness-side delays, GOMAXPROCS in {1,2,4,16} and a generated plan (pass / Gosched / sleep / spin, every n-th visit) for the '
         'three verif yield points inside memfs. Non-trivial: >=2 goroutines, and a successful creation inside a shared directory whose op '
         'interval (global tick counter) overlaps a ReadDir of that directory or a successful Remove/RemoveAll inside it by another goroutine. '
         'Distinct = distinct case JSON (FNV-64).',
 'assumptions': ['handle discipline holds by construction: a goroutine holds at most one stream handle, does only Write/Read/Close while holding it',
                 'shared nodes are never removed, private nodes are touched only by their owner (the statement speaks of distinct paths)',
                 'an operation that succeeds under every sequential order of the concurrent operations (WriteFile/Writer on a name only ever '
                 'written as a file, MkdirAll on a name only ever made a directory, any op on a private path) must succeed; mixed-kind races accept '
                 'either outcome',
                 'a run whose goroutines have not all returned after 30 s (work of microseconds) counts as "blocks forever"',
                 'hooks memfs.mkdir.gap / memfs.create.gap / memfs.writer.created exist (hit counters in evidence; zero hits degrade that part to '
                 'plain stress)'],
 'essential_labels': {'all': ['burst-same-name-files', 'burst-same-name-dirs', 'burst-same-name-mixed', 'overlap-create-list',
                              'overlap-create-remove', 'overlap-read-write', 'overlap-write-write', 'op-Ws', 'op-Rs', 'op-Rp', 'op-Cd',
                              'procs=1', 'procs=16', 'yield-plan', 'listrace:listed-before-and-after-the-change']},
 'tiers': {'quick': [{'test': '^TestProp$', 'checks': 600, 'shards': 8, 'timeout': 240},
                     {'test': '^TestPropListRace$', 'checks': 40, 'shards': 2, 'timeout': 240, 'seed_offset': 300}],
           'thorough': [{'test': '^TestProp$', 'checks': 10000, 'shards': 16, 'timeout': 3000},
                        {'test': '^TestPropListRace$', 'checks': 600, 'shards': 8, 'timeout': 3000, 'seed_offset': 300}]}}

TEXT = {'technique': 'concurrent property testing (rapid): generated multi-goroutine programs over shared and private paths with self-describing '
              'values, same-name creation bursts behind spin barriers, per-owner exact models, must-contain listings from completion flags, '
              'schedule knobs (GOMAXPROCS, delays, verif yield points), 30 s progress watchdog; listings racing with the LAST change of a fresh directory '
              '(hundreds of rounds per case) judged on the settled listing',
 'level_text': 'Exploration of schedules: thousands of generated concurrent programs run against one memfs under GOMAXPROCS 1/2/4/16; the '
               'check-then-create windows inside memfs are widened by generated yields/sleeps at three verif hook points, every other '
               'interleaving is whatever the Go scheduler produced. Passing means no inconsistency was observed on the sample.',
 'level_note': 'Oracle is per clause of the statement (complete values by set lookup, exact per-owner models for private paths, '
               'completion-flag lower bounds for shared nodes, one node per burst name, duplicate-free listings, watchdog); no '
               'linearizability claim, no -race. Hooks: memfs.mkdir.gap, memfs.create.gap, memfs.writer.created (build tag verif).',
 'design_ref': 'DESIGN.md 2.5, 2.7, 3, 4/C09'}
