CHECK = {'rule': '(files) rapid-generated template file sets (helpers, 1-3 layouts, 1-5 views; every file a list of {{define}} blocks over a 7-name pool '
         'shared by all layers, optional top-level body, nested directories, files with non-matching extensions) plus a request sequence of '
         'View/Layout/Base calls, run against the four providers {html,text} x {cached,uncached}; every returned template is compared (set of '
         'defined names, rendering of every name and of the template itself) with a pure layering model helpers < layout < view, at request time and '
         'again at the end; the model itself is cross-checked against templates built directly with html/template and text/template. Non-trivial: '
         '>=2 distinct views requested and >=1 name defined in >=2 layers of a requested helpers/layout/view chain. (conc) one provider kind and '
         'cache mode, 4-16 goroutines issuing generated request plans against fresh providers (20-50 providers per case when cached) inside a child '
         'process; the parent requires exit without crash and every template every goroutine got to equal the model. Non-trivial: >=2 keys asked for '
         'by >=2 goroutines. (loose, consistency-only) file sets with BROKEN matching files (syntax error, empty file) and/or several files of one layer '
         'defining the same name or carrying top-level text; no winner and no particular error is modelled: every request is asked three times of a '
         'cached and an uncached provider and (third ask) of two fresh providers over the same filespace, per provider kind all observations '
         '(request failed / defined names + rendering of every name and of the template) must be identical, no call may panic or return neither '
         'template nor error, and requests whose chain touches no broken/ambiguous layer must equal the model. 25% of the conc cases carry a layout '
         'with a broken file: all callers must observe the same outcome for it. Non-trivial (loose): >=2 requests, >=1 touching a broken or '
         'ambiguous layer. Distinct = distinct case JSON (FNV-64).',
 'assumptions': ['kinds files/conc (model clauses): template files are syntactically valid, non-empty, define each name at most once per layer (file order inside a layer is not fixed '
                 'by the statement) and have non-blank bodies (text/template documents that a blank redefinition does not replace)',
                 'no view/layout directory nested inside another view/layout directory',
                 'html: templates the model expects to fail (they reach an undefined name) are not executed, html/template cuts such trees and may '
                 'panic afterwards',
                 'a child process that neither crashes nor finishes within its watchdog is inconclusive (the statement promises no crash and '
                 'equivalence, not progress)',
                 'kind loose: which error a broken file produces, whether a request touching it fails, and which same-layer duplicate wins are NOT '
                 'asserted, only that the outcome is the same on every ask, with caching on and off and for a fresh provider over the same filespace '
                 '(the unchanged code is deterministic given the filespace listing order); html is compared with html, text with text; bodies are '
                 'literals/func calls only (no {{template}} calls)',
                 'memfs filespace; default path patterns and extensions of goathtml/goattext'],
 'essential_labels': {'all': ['view-overrides-layout',
                              'layout-overrides-helper',
                              'view-overrides-helper',
                              'same-name-in-two-views',
                              'nested-dir', 'template-file-in-a-dot-directory', 'template-file-larger-than-64KiB',
                              'non-matching-ext',
                              'colon-key-pair',
                              'layout-request',
                              'base-request',
                              'repeat-request',
                              'missing-view-dir',
                              'default-alias',
                              'conc-html-cached',
                              'conc-text-cached',
                              'conc-goroutines>=8',
                              'conc-broken-layout',
                              'loose-broken-syntax',
                              'loose-broken-empty',
                              'loose-broken-layout',
                              'loose-dup-name',
                              'loose-multi-top',
                              'loose-req-touches-broken',
                              'loose-req-touches-duplicate',
                              'loose-req-clean-modelled']},
 'tiers': {'quick': [{'test': '^TestProp$', 'checks': 400, 'shards': 8, 'timeout': 240},
                     {'test': '^TestPropConc$', 'checks': 12, 'shards': 4, 'timeout': 240, 'seed_offset': 500},
                     {'test': '^TestPropLoose$', 'checks': 250, 'shards': 4, 'timeout': 240, 'seed_offset': 900}],
           'thorough': [{'test': '^TestProp$', 'checks': 10000, 'shards': 16, 'timeout': 3000},
                        {'test': '^TestPropConc$', 'checks': 40, 'shards': 16, 'timeout': 3000, 'seed_offset': 500},
                        {'test': '^TestPropLoose$', 'checks': 3000, 'shards': 16, 'timeout': 3000, 'seed_offset': 900}]}}

TEXT = {'technique': 'model-based + differential property testing (rapid): generated template file sets and request sequences against a pure layering model '
              'over {html,text}x{cached,uncached}; generated concurrent request plans executed in a child process (exit status + per-caller model '
              'comparison)',
 'level_text': 'Exploration: 3 200 generated file sets x 4 providers, 1 000 consistency-only file sets (broken files, same-layer duplicates) x 8 providers and 48 child processes (~1 400 concurrently used providers) per quick run; 208 '
               '640 cases in thorough. The layering model is cross-checked against html/template and text/template on every case. Concurrency is '
               'sampled (4-16 goroutines, GOMAXPROCS 2-16), not enumerated.',
 'level_note': 'Trusts the layering model in props/c19 (cross-checked against the stdlib template engines). The crash clause relies on the Go '
               "runtime's concurrent-map detector in a child process; a child that neither crashes nor finishes within the watchdog is inconclusive.",
 'design_ref': 'DESIGN.md 4/C19'}

# native coverage-guided campaign over the rapid generator (hx.FuzzRapid), thorough tier only
CHECK['tiers']['thorough'].append({'test': '^$', 'fuzz': '^FuzzFiles$', 'fuzztime': '90s', 'gomaxprocs': 4, 'timeout': 400})
TEXT['technique'] += '; thorough adds a native coverage-guided go fuzzing campaign over the same generator (rapid.MakeFuzz)'
