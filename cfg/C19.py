CHECK = {'rule': '(files) rapid-generated template file sets (helpers, 1-3 layouts, 1-5 views; every file a list of {{define}} blocks over a 7-name pool '
         'shared by all layers, optional top-level body, nested directories, files with non-matching extensions) plus a request sequence of '
         'View/Layout/Base calls, run against the four providers {html,text} x {cached,uncached}; every returned template is compared (set of '
         'defined names, rendering of every name and of the template itself) with a pure layering model helpers < layout < view, at request time and '
         'again at the end; the model itself is cross-checked against templates built directly with html/template and text/template. Non-trivial: '
         '>=2 distinct views requested and >=1 name defined in >=2 layers of a requested helpers/layout/view chain. (conc) one provider kind and '
         'cache mode, 4-16 goroutines issuing generated request plans against fresh providers (20-50 providers per case when cached) inside a child '
         'process; the parent requires exit without crash and every template every goroutine got to equal the model. Non-trivial: >=2 keys asked for '
         'by >=2 goroutines. Distinct = distinct case JSON (FNV-64).',
 'assumptions': ['template files are syntactically valid, non-empty, define each name at most once per layer (file order inside a layer is not fixed '
                 'by the statement) and have non-blank bodies (text/template documents that a blank redefinition does not replace)',
                 'no view/layout directory nested inside another view/layout directory',
                 'html: templates the model expects to fail (they reach an undefined name) are not executed, html/template cuts such trees and may '
                 'panic afterwards',
                 'a child process that neither crashes nor finishes within its watchdog is inconclusive (the statement promises no crash and '
                 'equivalence, not progress)',
                 'memfs filespace; default path patterns and extensions of goathtml/goattext'],
 'essential_labels': {'all': ['view-overrides-layout',
                              'layout-overrides-helper',
                              'view-overrides-helper',
                              'same-name-in-two-views',
                              'nested-dir',
                              'non-matching-ext',
                              'colon-key-pair',
                              'layout-request',
                              'base-request',
                              'repeat-request',
                              'missing-view-dir',
                              'default-alias',
                              'conc-html-cached',
                              'conc-text-cached',
                              'conc-goroutines>=8']},
 'tiers': {'quick': [{'test': '^TestProp$', 'checks': 400, 'shards': 8, 'timeout': 240},
                     {'test': '^TestPropConc$', 'checks': 12, 'shards': 4, 'timeout': 240, 'seed_offset': 500}],
           'thorough': [{'test': '^TestProp$', 'checks': 10000, 'shards': 16, 'timeout': 3000},
                        {'test': '^TestPropConc$', 'checks': 40, 'shards': 16, 'timeout': 3000, 'seed_offset': 500}]}}

TEXT = {'technique': 'model-based + differential property testing (rapid): generated template file sets and request sequences against a pure layering model '
              'over {html,text}x{cached,uncached}; generated concurrent request plans executed in a child process (exit status + per-caller model '
              'comparison)',
 'level_text': 'Exploration: 3 200 generated file sets x 4 providers and 48 child processes (~1 400 concurrently used providers) per quick run; 160 '
               '640 cases in thorough. The layering model is cross-checked against html/template and text/template on every case. Concurrency is '
               'sampled (4-16 goroutines, GOMAXPROCS 2-16), not enumerated.',
 'level_note': 'Trusts the layering model in props/c19 (cross-checked against the stdlib template engines). The crash clause relies on the Go '
               "runtime's concurrent-map detector in a child process; a child that neither crashes nor finishes within the watchdog is inconclusive.",
 'design_ref': 'DESIGN.md 4/C19'}
