CHECK = {'rule': 'four rapid-generated case kinds plus one exhaustive part. maps: nested maps (dot-free non-empty keys, no empty sub-maps, '
         'string/int/float/bool/nil/slice leaves) flattened and rebuilt in both directions; read: JSON documents of nested objects rendered with a '
         'per-character choice of spelling (raw UTF-8, \\uXXXX in either hex case incl. surrogate pairs, short escapes, \\/), all JSON number '
         'shapes, skipped leaves (true/false/null/arrays/empty objects) and optional whitespace, compared with encoding/json(UseNumber)+flatten; '
         'write: flat string maps with prefix-free dotted keys and values over all valid Unicode written by both emitters, output must be valid JSON '
         'and read back to the same map by the library reader and by encoding/json; load: 1-40 (thorough: up to 1500) translation files with '
         'globally disjoint keys in generated directory layouts on memfs plus files without the .json suffix, loaded 1-3 times with GOMAXPROCS '
         '1/2/4/8, workers.MaxJob 1/2/3/8/16 and the process confined to 1, 2 or all CPUs (OS time-slicing of the Go threads), then Translate(k)=v '
         'for every key; an eighth of the small load cases inject one I/O failure into the load (a Load that returns nil must still have made every key '
         'translatable); config read cases also boot an application on an in-memory working directory with the document as the config file of the chosen '
         'environment (Params.Env / --env= / default) and compare its config scope. Exhaustive: every string of length <=3 (thorough 4) over 14 character-class representatives written+read back and read in 4 '
         'uniform spellings. Non-trivial: a string value that contains a quote, backslash or control character, or nesting depth >= 2, or >= 3 '
         'files. Distinct = distinct case JSON (FNV-64).',
 'assumptions': ["encoding/json (UseNumber) is the 'standard JSON decoder' of the statement",
                 'documents have unique keys per object, dot-free non-empty keys and no lone surrogates; flat maps have non-empty key segments and '
                 'valid UTF-8',
                 "translation values contain no '%' (Translate treats the value as a format string); keys are disjoint across files",
                 'loader schedules are sampled (GOMAXPROCS 1/2/4/8, workers.MaxJob 1/2/3/8/16, CPU confinement via sched_setaffinity on Linux, '
                 "1-1500 files, repeated loads), not directed; the directed fsloop window is C08's"],
 'essential_labels': {'all': ['kind:maps',
                              'kind:read',
                              'kind:write',
                              'kind:load',
                              'value-needs-escape',
                              'depth>=2',
                              'files>=3',
                              'esc:short',
                              'esc:slash',
                              'esc:unicode',
                              'esc:unicode-uppercase-hex',
                              'esc:surrogate-pair',
                              'number-leaf',
                              'skipped-leaf',
                              'non-ascii-value',
                              'key-needs-escape',
                              'maps:string-map-rebuild',
                              'load:gomaxprocs=1',
                              'load:gomaxprocs=8',
                              'load:maxjob=1',
                              'load:maxjob=16',
                              'load:nested-dirs',
                              'load:dir-named-.json',
                              'load:ignored-files',
                              'load:base-subdir',
                              'load:files=1',
                              'load:files=9-40',
                              'load:keys>512', 'load:store-held-older-values-of-some-keys', 'load:injected-io-failure-reported', 'config:application-boot:env-by-args', 'config:application-boot:env-by-params', 'config:application-boot:env-by-default',
                              'config:read',
                              'config:write-read'],
                      'thorough': ['kind:maps',
                                   'kind:read',
                                   'kind:write',
                                   'kind:load',
                                   'value-needs-escape',
                                   'depth>=2',
                                   'files>=3',
                                   'esc:short',
                                   'esc:slash',
                                   'esc:unicode',
                                   'esc:surrogate-pair',
                                   'number-leaf',
                                   'skipped-leaf',
                                   'load:gomaxprocs=1',
                                   'load:gomaxprocs=8',
                                   'load:maxjob=1',
                                   'load:maxjob=16',
                                   'load:files>40',
                                   'load:files>1000(channel-capacity)']},
 'tiers': {'quick': [{'test': '^TestEnum$', 'timeout': 120},
                     {'test': '^TestPropMaps$', 'checks': 8000, 'shards': 1, 'timeout': 120},
                     {'test': '^TestPropRead$', 'checks': 30000, 'shards': 1, 'timeout': 180},
                     {'test': '^TestPropWrite$', 'checks': 30000, 'shards': 1, 'timeout': 180},
                     {'test': '^TestPropLoad$', 'checks': 2500, 'shards': 4, 'timeout': 240},
                     {'test': '^TestPropConfig$', 'checks': 20000, 'shards': 1, 'timeout': 180}],
           'thorough': [{'test': '^TestEnum$', 'shards': 1, 'timeout': 600},
                        {'test': '^TestPropMaps$', 'checks': 200000, 'shards': 1, 'timeout': 900},
                        {'test': '^TestPropRead$', 'checks': 300000, 'shards': 5, 'timeout': 900},
                        {'test': '^TestPropWrite$', 'checks': 300000, 'shards': 4, 'timeout': 900},
                        {'test': '^TestPropLoad$', 'checks': 25000, 'shards': 5, 'timeout': 900},
                        {'test': '^TestPropConfig$', 'checks': 300000, 'shards': 2, 'timeout': 900},
                        {'test': '^$', 'fuzz': '^FuzzReadDoc$', 'fuzztime': '120s', 'gomaxprocs': 4, 'timeout': 400},
                        {'test': '^$', 'fuzz': '^FuzzWriteMap$', 'fuzztime': '90s', 'gomaxprocs': 4, 'timeout': 400},
                        {'test': '^$', 'fuzz': '^FuzzMaps$', 'fuzztime': '90s', 'gomaxprocs': 4, 'timeout': 400}]}}

TEXT = {'technique': 'property-based testing (rapid): round-trip and differential oracles against encoding/json over generated nested maps, JSON documents '
              'rendered with per-character escape choice, flat maps over all valid Unicode, and generated translation directories loaded under '
              'varied GOMAXPROCS / workers.MaxJob / CPU confinement; small exhaustive enumeration of escape-relevant strings; a config kind (filesystem/json ReadJSON/WriteJSON + flatten, the path goatapp takes) compared with encoding/json; thorough adds native '
              'coverage-guided go fuzzing of raw JSON documents (domain filter + same differential oracle), of flat maps and of the nested-map generator '
              '(rapid.MakeFuzz)',
 'level_text': 'Exploration: ~93 k cases per quick run (~76 k distinct non-trivial) + 2 955 strings exhaustively (length <= 3 over 14 character '
               'classes); thorough ~3.2 M cases + length <= 4. Loader schedules are sampled, not directed (single-consumer and one-CPU classes '
               'over-weighted); the directed version of the fsloop window lives in C08.',
 'level_note': 'Trusts encoding/json (UseNumber) as the standard decoder and a 10-line reference flatten. Domain: unique dot-free non-empty keys, no '
               "lone surrogates, values without '%' for Translate.",
 'design_ref': 'DESIGN.md 4/C20'}
