CHECK = {'rule': 'rapid-generated initial remote trees and cache histories (write, writer, mkdir, remove, recursive remove, file/dir copy, reads; only ops '
         'valid on the merged view) with 0-2 interleaved Commits and a final one; fault cases fail every remote I/O call of the first Commit once, '
         'then re-Commit. Oracle: remote tree byte-identical to its last committed state after every non-Commit op; after a successful Commit remote '
         '== model (initial + successful ops); a fired fault must be reported, the following fault-free Commit must succeed and yield the same tree. '
         'Non-trivial: >=2 mutating ops below one top-level name and >=1 touching a node of the initial remote.',
 'assumptions': ['ops that the model refuses (invalid on the merged view) are not generated; an op the cache itself refuses is not applied to the '
                 'model',
                 'memfs remote behind a fault wrapper; single faults only'],
 'essential_labels': {'all': ['remove-of-remote-dir',
                              'dir-copy',
                              'overwrite-remote-file',
                              'second-commit',
                              'fault-fired',
                              'remove-of-cache-created-dir']},
 'level': 'fault_enumeration',
 'tiers': {'quick': [{'test': '^TestProp$', 'checks': 5000, 'shards': 4, 'timeout': 240},
                     {'test': '^TestPropFaults$', 'checks': 120, 'shards': 4, 'timeout': 240, 'seed_offset': 100}],
           'thorough': [{'test': '^TestProp$', 'checks': 40000, 'shards': 12, 'timeout': 3000},
                        {'test': '^TestPropFaults$', 'checks': 1500, 'shards': 4, 'timeout': 3000, 'seed_offset': 100}]}}

TEXT = {'technique': 'model-based stateful property testing (rapid) of cache histories against a merged-tree model with remote-unchanged invariant after '
              'every step, plus exhaustive single-fault enumeration over every remote I/O call of Commit',
 'level_text': 'Fault enumeration + exploration: generated histories with interleaved Commits; the remote is walked after every step (must be '
               'untouched) and after every Commit (must equal the model); each remote I/O call of the first Commit is failed once and the re-Commit '
               'must converge.',
 'level_note': 'Trusts the merged-tree model (fsmodel) and the fault wrapper; only ops valid on the merged view are generated; single faults; memfs '
               'remote.',
 'design_ref': 'DESIGN.md 4/C06'}

# native coverage-guided campaign over the rapid generator (hx.FuzzRapid), thorough tier only
CHECK['tiers']['thorough'].append({'test': '^$', 'fuzz': '^FuzzCommit$', 'fuzztime': '90s', 'gomaxprocs': 4, 'timeout': 400})
TEXT['technique'] += '; thorough adds a native coverage-guided go fuzzing campaign over the same generator (rapid.MakeFuzz)'
