CHECK = {'rule': 'Holders of the shared mutex service (goroutines calling SharedMutex.Lock directly, and pipeline tasks carrying the same maps as Pip.Lock '
         "through pipservices.Runner.Run on a MockupApp). Kind 'holders': 2-12 free-running holders, lock maps over a pool of 1-5 names (any mix of "
         'R/RW, any size incl. empty and nil), 1-3 rounds each, generated start offsets, hold times and gaps (Gosched/spin/sleep), GOMAXPROCS '
         "1/2/4/8; every holder takes numbers from one atomic counter before Lock, after Lock returned and before Unlock. Kind 'gated': a generated "
         'script of start/release/pause steps over 2-6 holders that park inside their section on a channel; a holder started while it conflicts with '
         'no live holder must reach its section while the others stay parked (watchdog 20 s); plus all 1458 two-holder scripts over 3 resources. '
         "Non-trivial ('holders'): >=2 different holders that name a common resource and whose Lock..Unlock windows overlapped (by the recorded "
         "numbers). Non-trivial ('gated'): a holder was started while another one was parked inside its section and either had to acquire beside it "
         '(both maps non-empty) or shares a resource with it. Distinct = distinct case JSON (FNV-64) per kind. '
         "Argument layer (kinds 'cli-holders', 'cli-gated'): the same two executors with every holder a separate terminal session running "
         "`pip:run --rlock=... --wlock=... --body=probe` on one app (generated lists: names in both lists, repeated names, '@' global names, blanks "
         "around commas; model: a name under --wlock was asked for write); kind 'cli-map': one pip:run line handed to a recording PipRunner, the "
         "received Pip.Lock map compared with the model (non-trivial: non-empty map).",
 'assumptions': ['recorded [after-Lock, before-Unlock] intervals are sub-intervals of true holding, so overlap of two conflicting intervals proves '
                 'simultaneous holding',
                 'progress clauses use a 20 s watchdog for work that takes micro- to milliseconds (the statement promises progress)',
                 "'must acquire' is only asserted for a holder whose map conflicts with no holder that is started and not yet seen finished (parked "
                 "or possibly queued), because Go's RWMutex lets a queued writer hold back later readers",
                 'a lock map names a resource at most once (it is a Go map)',
                 "pipeline variant: tasks share one scope and have empty wait lists; the probe command runs inside runner.runGo's Lock..Unlock "
                 'window',
                 "argument layer: a resource named under --wlock was asked for write access whatever else the lists contain; every session uses the "
                 "default lock namespace; list entries match pip:run's name pattern (malformed lists are not generated)"],
 'essential_labels': {'all': ['pip-waitlock:waits-for-a-task-it-conflicts-with', 'pip-waitlock:pipeline-failed',
                              'conflict-contended',
                              'deadlock-prone-pair',
                              'readers-shared-overlap',
                              'disjoint-overlap',
                              'procs-1',
                              'procs-8',
                              'racing-first-get',
                              'gated-two-holders',
                              'gated-disjoint',
                              'gated-read-overlap',
                              'gated-conflicting-start',
                              'pipeline',
                              'pipeline-gated',
                              'cli',
                              'cli-gated',
                              'cli-map',
                              'cli-name-in-both-lists',
                              'cli-both-lists-shared',
                              'cli-global-name',
                              'cli-repeated-name',
                              'cli-blanks']},
 'tiers': {'quick': [{'test': '^TestEnum$', 'timeout': 240, 'shrinktime': '5s'},
                     {'test': '^TestPropGated$', 'checks': 4000, 'shards': 2, 'timeout': 240, 'shrinktime': '5s', 'seed_offset': 100},
                     {'test': '^TestProp$', 'checks': 2000, 'shards': 3, 'timeout': 240, 'shrinktime': '5s'},
                     {'test': '^TestPropPipGated$', 'checks': 1500, 'shards': 1, 'timeout': 240, 'shrinktime': '5s', 'seed_offset': 300},
                     {'test': '^TestPropPip$', 'checks': 1000, 'shards': 1, 'timeout': 240, 'shrinktime': '5s', 'seed_offset': 200},
                     {'test': '^TestPropCliGated$', 'checks': 800, 'shards': 1, 'timeout': 240, 'shrinktime': '5s', 'seed_offset': 400},
                     {'test': '^TestPropCli$', 'checks': 600, 'shards': 1, 'timeout': 240, 'shrinktime': '5s', 'seed_offset': 500},
                     {'test': '^TestPropCliMap$', 'checks': 3000, 'shards': 1, 'timeout': 240, 'shrinktime': '5s', 'seed_offset': 600},
                     {'test': '^TestPropWaitLock$', 'checks': 500, 'shards': 2, 'timeout': 240, 'shrinktime': '5s', 'seed_offset': 700}],
           'thorough': [{'test': '^TestEnum$', 'timeout': 900, 'shrinktime': '5s'},
                        {'test': '^TestPropGated$', 'checks': 40000, 'shards': 3, 'timeout': 900, 'shrinktime': '5s', 'seed_offset': 100},
                        {'test': '^TestProp$', 'checks': 20000, 'shards': 8, 'timeout': 900, 'shrinktime': '5s'},
                        {'test': '^TestPropPipGated$', 'checks': 15000, 'shards': 2, 'timeout': 900, 'shrinktime': '5s', 'seed_offset': 300},
                        {'test': '^TestPropPip$', 'checks': 10000, 'shards': 2, 'timeout': 900, 'shrinktime': '5s', 'seed_offset': 200},
                        {'test': '^TestPropCliGated$', 'checks': 10000, 'shards': 2, 'timeout': 900, 'shrinktime': '5s', 'seed_offset': 400},
                        {'test': '^TestPropCli$', 'checks': 8000, 'shards': 2, 'timeout': 900, 'shrinktime': '5s', 'seed_offset': 500},
                        {'test': '^TestPropCliMap$', 'checks': 30000, 'shards': 1, 'timeout': 900, 'shrinktime': '5s', 'seed_offset': 600},
                        {'test': '^TestPropWaitLock$', 'checks': 8000, 'shards': 4, 'timeout': 900, 'shrinktime': '5s', 'seed_offset': 700}]}}

TEXT = {'technique': 'property-based testing with generated schedules (rapid): holder sets (lock maps, start offsets, hold times, GOMAXPROCS) run as '
              'goroutines against the real SharedMutex and as pipeline tasks through pipservices.Runner.Run; interval-overlap invariant over '
              'sequence numbers taken inside the critical sections, channel-gated scenarios for non-serialisation, completion watchdog for deadlock; '
              'exhaustive enumeration of all two-holder scenarios over 3 resources; argument layer: the same scenarios with every holder a concurrent '
              'terminal session running pip:run with generated --rlock/--wlock lists, plus a recording PipRunner stand-in comparing the built '
              'lock map with the model; pipeline tasks that carry a lock map AND a wait list (a task waiting for a task it shares a resource with)',
 'level_text': 'Exploration with an exhaustive core: all 1458 two-holder map pairs over 3 resources are enumerated in gated scenarios; larger holder '
               'sets, interleavings inside Lock and GOMAXPROCS are sampled (~18 k cases quick, ~330 k thorough).',
 'level_note': 'Exclusion is judged from sequence numbers taken strictly inside the critical sections (sound); non-serialisation and '
               'deadlock-freedom are progress claims judged with a 20 s watchdog on microsecond work in gated scenarios. The interleaving needed for '
               'a lock-order deadlock is found by repetition, not forced by a hook.',
 'design_ref': 'DESIGN.md 4/C15'}
