CHECK = {'rule': 'rapid-generated histories on a scope tree that starts as one root scope (goatcore app/scope): NewChild with shared or isolated context '
         '[isolated contexts built from the parent scope or, 60 %, from the parent\'s bare context object as production code nests them, incl. '
         'isolated-below-isolated chains whose middle level is stopped/killed/failed while the leaf is alive] '
         '(depth <= 3, <= 9 scopes), listener registration for any of the 11 events on any open scope (35 % return an error), AddTasks/DoneTask '
         '(balanced by construction), AppendError, Kill, Stop, Close of any scope (asynchronous), a second Close (first finished or still waiting), '
         'and batches of 2-4 DoneTask/Close released together from separate goroutines; every action runs in a fresh goroutine, an epilogue '
         'finishes all tasks and closes every scope. One sequence-numbered log receives every listener invocation (with the scope passed as '
         'data) and a marker written just before each DoneTask. Judged against a sequential model of the protocol: exact listener sequence per '
         'closing scope (before-close; one triple, commit iff no error when the waiting ended; after-close; ancestors first, a failing listener '
         'ends its trigger and fails the scope), first triple event after every task marker of the scope and after the last after-close '
         'listener of every child (order check), Close has not returned while the model says blocked (checked at every later step, plus a '
         '2 ms timed probe in a share of cases), Close returns within 20 s once unblocked and returns an error iff the scope holds one, second '
         'Close panics and adds no event, Err/IsDone of every scope after every step (shared child fails the parent, isolated child does not, '
         'isolated child becomes done when its parent context does). Non-trivial: a Close that had to wait for >= 1 task or child, or a '
         'rollback, or an error/kill applied in an isolated context. Distinct = distinct case JSON (FNV-64).',
 'assumptions': ['a child "shares the parent\'s context" is read as: the same context object, so done-ness and errors are compared in both directions',
                 'not generated (outside the statement or other properties\' domain): NewChild of a scope that is done or whose Close was issued '
                 '(C12 late-child hazard, counted under excluded_by_known_finding), AddTasks/Kill/Stop/AppendError/On on a scope whose Close was '
                 'issued, concurrent Stop/Kill/AppendError, batches in which a close listener could fail',
                 'left open and followed from the implementation (either): whether an isolated child also receives an error when its parent '
                 'context ends with errors, what an error returned by a stop listener does, whether AddTasks on a done scope registers, the '
                 'return value of a child Close that races with an error added by its parent\'s own commit listeners',
                 'watchdog 20 s on operations the model calls unblocked (the statement promises "waits ... then fires"); all other waits that '
                 'expire make the case inconclusive',
                 'batches are schedule-dependent: a replay re-runs the same plan, not the same interleaving'],
 'essential_labels': {'all': ['close-had-to-wait', 'rollback', 'commit', 'shared-child', 'isolated-child', 'depth-3',
                              'error-in-shared-child', 'error-in-isolated-context', 'parent-stop-reached-isolated-child',
                              'before-close-listener-error', 'listener-error-during-commit', 'listener-error-during-rollback',
                              'second-close-after-first-finished', 'second-close-while-first-waits',
                              'concurrent-batch', 'timed-still-blocked-probe',
                              'isolated-chain-from-bare-isolated-context', 'intermediate-isolated-ended-with-live-bare-leaf',
                              'stop-on-intermediate-isolated', 'kill-on-intermediate-isolated', 'err-on-intermediate-isolated']},
 'tiers': {'quick': [{'test': '^TestProp$', 'checks': 3000, 'shards': 6, 'timeout': 240, 'shrinktime': '2s'}],
           'thorough': [{'test': '^TestProp$', 'checks': 50000, 'shards': 16, 'timeout': 1500, 'shrinktime': '5s'}]}}

TEXT = {'technique': 'model-based stateful property testing (rapid): generated scope trees, listener sets and action histories issued from fresh '
              'goroutines (plus concurrent DoneTask/Close batches), judged on one sequence-numbered event log against a sequential model of the '
              'close protocol; order-based waiting check, 20 s progress watchdog, state comparison after every step',
 'level_text': 'Exploration: 15 000 (quick) / 1.28 M (thorough) generated histories; every Close of every history is compared listener by '
               'listener with the protocol model, the waiting clause is an order check on the log (task markers and children\'s after-close '
               'before the first commit/rollback event), never a timing check. Passing means no divergence on the sample, not absence.',
 'level_note': 'Actions are serialised by the harness except for DoneTask/Close batches; interleavings inside Stop/Kill/AppendError are C12\'s '
               'domain and not generated. Outcomes the statement leaves open (error state of an isolated child after its parent failed, stop '
               'listener errors) are followed from the implementation. No hook in goatcore is needed.',
 'design_ref': 'DESIGN.md 4/C11'}
