CHECK = {'rule': 'rapid-generated terminal scripts run through the real terminal service of a bootstrapped MockupApp (terminal, common, oc and pipeline '
         'modules) on a child scope of the application scope (sharing the app context, with a fresh context, or with an isolated context) or on a caller-owned scope that is no child of the application scope: 0-2 '
         'leading probes, 1-3 top-level pip:try blocks with optional (possibly failing) probes between/after them; bodies of 1-4 commands (probe '
         'commands with generated duration: none / 1-5 yields / 20 us - 2.5 ms, nested pip:run tasks up to two levels - in the self sandbox, in a harness control sandbox that runs the body through the terminal, or in a sandbox that fails while it is set up (a harness sandbox whose Run returns an error without touching the scope, or container:<image>, where the real command line engine refuses the in-memory working directory before executing anything; such a task is a failing command of the enclosing context, its begin/end events are written by the harness sandbox / a recording engine wrapper) - and nested pip:try blocks), a '
         'failing command at a uniform position in 55 % of the bodies (a probe, a command of a nested task, or a handler of a nested try), every '
         'subset of success/fail/finally handlers (each 65 %), handlers that themselves fail (18 %) or contain tasks / try blocks, here-document and '
         'quoted spellings, --silent on/off, GOMAXPROCS in {1,2,4,8}. Probe commands write begin/end events into one sequence-numbered log. Oracle '
         'over the log and the final scope state, for every try block that was entered: no handler event precedes an event of the body subtree and '
         'no handler runs without the body; success handler only after an error-free body, fail handler only after a body with an error; a defined '
         'matching handler and a defined finally handler did run (skipped only when a failing command outside of that handler ran in the context '
         'of the try or an enclosing one - sibling-failure exemption; a failing command of the matching handler that failed only after the finally handler had '
         'begun, or after waiting 10 s for it, does not exempt the finally handler); Err() of the surrounding scope is non-nil iff a command of its own context '
         '(a handler or a top-level probe) failed; the application scope agrees (shared) or stays clean (own/isolated); RunLoop, Wait and Close of '
         'the surrounding scope return (watchdog 20 s, then the partial log is judged by the same clauses, otherwise inconclusive). TestEnum adds '
         'the grid 8 handler subsets x 14 body shapes (four with nested tasks in the control / set-up-failing sandboxes) x {no / each defined handler fails} x 3 context kinds. Non-trivial: an entered try block '
         'whose body has >= 2 commands or a nested task/try and >= 1 handler defined, run to completion. Distinct = distinct case JSON (FNV-64).',
 'assumptions': ['"the body finished with an error" is read off the log: a failing probe whose context is the body context began (it always returns an '
                 'error, which the terminal appends to that context); task names are unique so no submission is refused for other reasons',
                 'when a command fails in the context a try block runs in (or an enclosing one), handlers of that block that had not started may be '
                 'refused or cut short: for them only "never the wrong handler" and "not before the body" are required (DESIGN C16, Not asserted)',
                 'a script that does not finish within 20 s is a violation only if the log already shows a finished body whose required handler '
                 'never started; otherwise the case is inconclusive'],
 'essential_labels': {'all': ['failing-command-stopped-its-scope-first', 'failing-command-returned-nil:kill', 'failing-command-returned-nil:stop-kill', 'failing-command-returned-nil:append', 'body:ok',
                              'body:fail',
                              'body:ok-with-task',
                              'body:fail-with-task',
                              'handlers:none',
                              'handlers:su',
                              'handlers:fa',
                              'handlers:fi',
                              'handlers:sufafi',
                              'matching-handler-undefined',
                              'handler-failed', 'matching-handler-failed-after-finally-had-begun',
                              'body-failure-contained',
                              'surrounding-scope-failed',
                              'exempt:skipped-after-sibling-failure',
                              'nested-try:in-body',
                              'nested-try:in-handler',
                              'task-fails-at-sandbox-setup:body',
                              'task-fails-at-sandbox-setup:handler',
                              'sandbox:broken',
                              'sandbox:container',
                              'sandbox:control',
                              'ctx:shared',
                              'ctx:own',
                              'ctx:isolated', 'ctx:fresh']},
 'tiers': {'quick': [{'test': '^TestEnum$', 'shards': 1, 'timeout': 200},
                     {'test': '^TestProp$', 'checks': 1200, 'shards': 6, 'timeout': 240}],
           'thorough': [{'test': '^TestEnum$', 'shards': 2, 'timeout': 600},
                        {'test': '^TestProp$', 'checks': 20000, 'shards': 16, 'timeout': 3000}]}}

TEXT = {'technique': 'property-based testing (rapid) of generated pip:try programs run through the real terminal service: probe commands with generated '
              'durations write a sequence-numbered event log, validity predicates over the log and the final scope state; plus an exhaustive grid '
              'of handler subsets x body shapes x failing handler x context kind (incl. a caller-owned scope outside the application scope); handler failures that wait for the finally handler to begin',
 'level_text': 'Exploration: thousands of generated scripts (failing command at any body position, nested tasks and nested try blocks, every handler '
               'subset, failing handlers, three kinds of surrounding context, GOMAXPROCS 1/2/4/8, generated probe durations) are judged by '
               'order/iff/containment predicates over one event log; interleavings of concurrently running handlers are sampled, not enumerated.',
 'level_note': 'No hook needed. The must-run direction of the iff-clauses is not evaluated for handlers whose sibling (or an enclosing context) failed, '
               'because the shared context is then stopped and the statement fixes handler selection only by the outcome of the body. A crash on a '
               'goatcore goroutine is attributed through the persisted current case. Hangs are inconclusive unless the log already shows a finished '
               'body without its required handler.',
 'design_ref': 'DESIGN.md 2.5, 4/C16'}
