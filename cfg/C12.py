CHECK = {'rule': 'rapid-generated signalling programs: context kind in {plain, isolated, full scope, shared-context child, isolated-context child}, 2-16 '
         'goroutines each running 1-5 of AppendError(unique error)/Kill/Stop/IsDone/Err/Errors from a common barrier, GOMAXPROCS in {1,2,4,16}, a '
         'generated plan for the verif yield point inside Stop (arrivals are paired up in the check-then-close window), optional concurrent end of '
         "the parent of isolated kinds, 'late children' created and closed after the scope is done and children created/closed while the signalling "
         'runs. Oracle: no call panics (process crashes are attributed to the running case), every appended error is in Errors() by identity, one '
         'cancellation error per Kill, Err/Wait/Close report an error iff one was appended, IsDone/Done set after any stopping call, Wait/Close '
         'return within 20 s. Non-trivial: >=2 goroutines issue stopping calls and at least one rendezvous in the window happened, or late/racing '
         'children were created. Kind taskclose: 200-1000 rounds per case; the owner registers 1-4 tasks (AddTasks), starts them and calls Close; every '
         'task signals (AppendError / Kill / Stop, reads in between) after a delay swept over the rounds and then reports DoneTask; Close must return '
         'within 20 s, report an error iff one was appended or a kill issued, and Errors() must hold every appended error. Non-trivial there: a '
         'round in which a task signalled while Close was running.',
 'assumptions': ['hook contextscope.stop.gap exists (hit counters in evidence; zero hits degrade the check to plain stress)',
                 'use of a scope after its Close is refused loudly by design and not generated'],
 'essential_labels': {'all': ['rendezvous-in-stop-gap',
                              'late-child-of-done-scope',
                              'child-creation-racing-signals',
                              'kind:plain',
                              'kind:isolated',
                              'kind:scope',
                              'kind:child',
                              'kind:isochild', 'childrace:end-landed-during-creation', 'taskclose:signal-while-close-is-running', 'isolated-of-done-parent', 'post-append-on-isolated-and-parent', 'caller-owned-error-list-reused']},
 'tiers': {'quick': [{'test': '^TestProp$', 'checks': 5000, 'shards': 6, 'timeout': 240},
                     {'test': '^TestPropChildRace$', 'checks': 12, 'shards': 2, 'timeout': 240, 'seed_offset': 500},
                     {'test': '^TestPropTaskClose$', 'checks': 40, 'shards': 2, 'timeout': 240, 'seed_offset': 700}],
           'thorough': [{'test': '^TestProp$', 'checks': 30000, 'shards': 16, 'timeout': 3000},
                        {'test': '^TestPropChildRace$', 'checks': 150, 'shards': 8, 'timeout': 3000, 'seed_offset': 500},
                        {'test': '^TestPropTaskClose$', 'checks': 600, 'shards': 8, 'timeout': 3000, 'seed_offset': 700}]}}

TEXT = {'technique': 'schedule-directed property testing (rapid): generated multi-goroutine signalling programs on five context/scope kinds with a '
              'generated rendezvous plan for the verif yield point inside Stop, plus late/racing child creation and a swept two-goroutine race of child creation against the end of the parent (delay sweep over the duration of NewChild, thousands of rounds per case) and registered tasks signalling their failure while the owner is inside Close (swept delay, 20 s watchdog); invariants over the final state',
 'level_text': 'Exploration with a directed schedule: the rendezvous at the yield point makes the check-then-close window deterministic (the double '
               'close fired in every paired case before the fix); all other interleavings are sampled under GOMAXPROCS 1/2/4/16.',
 'level_note': 'Hook contextscope.stop.gap (build tag verif) in both context implementations. Panics on harness goroutines are recovered and '
               'reported; a crash in a goatcore goroutine is attributed through the persisted current case.',
 'design_ref': 'DESIGN.md 2.7, 4/C12'}
