CHECK = {'rule': 'rapid-generated initial remote trees and cache histories (all 16 ops incl. child views of the cache, noisy spellings; mutating ops only '
         'when valid on the merged view, no Commit). Every result is compared with the merged model (remote + pending ops) and the whole tree seen '
         "through the cache, and through every child view, is walked and compared after every step. Non-trivial: some path's presence differs "
         'between the remote and the merged model (so reads had to reflect a pending op).',
 'assumptions': ['merged-tree model of fsmodel is the contract', 'ops invalid on the merged view are not generated'],
 'essential_labels': {'all': ['remove-of-remote-node', 'dir-copy', 'via-child-view']},
 'tiers': {'quick': [{'test': '^TestProp$', 'checks': 1500, 'shards': 6, 'timeout': 240}],
           'thorough': [{'test': '^TestProp$', 'checks': 12000, 'shards': 16, 'timeout': 3000}]}}

TEXT = {'technique': 'model-based stateful property testing (rapid): cache histories vs. merged-tree model, every result compared and the whole merged view '
              '(also through child views) walked after every step',
 'level_text': 'Exploration: thousands of generated histories over generated remote trees; after each op the complete tree visible through the cache '
               'and through each child view must equal remote + pending operations.',
 'level_note': 'Trusts the merged-tree model; only ops valid on the merged view are generated; no Commit (C06 covers it).',
 'design_ref': 'DESIGN.md 4/C07'}

# native coverage-guided campaign over the rapid generator (hx.FuzzRapid), thorough tier only
CHECK['tiers']['thorough'].append({'test': '^$', 'fuzz': '^FuzzCacheHistory$', 'fuzztime': '90s', 'gomaxprocs': 4, 'timeout': 400})
TEXT['technique'] += '; thorough adds a native coverage-guided go fuzzing campaign over the same generator (rapid.MakeFuzz)'
