CHECK = {'rule': 'rapid-generated definition programs (Set/SetDefault/AddFactory/AddDefaultFactory over N0..N5 in a uniformly drawn order, same-kind '
         "duplicates, generated factories = step lists of Get / InjectTo(reflect-built tagged struct, '?' fields, extra-injector fields) / late "
         'definition, result ok|error|nil; planted rings of length 1..5) followed by request programs (Get, InjectTo, Keys, late definitions; '
         "InjectTo targets are fresh structs whose tagged fields are zero or PRE-POPULATED with a foreign instance, a second provider's instance of "
         "the same name or the container's own instance, and 14% of the InjectTo calls hand one struct value to two providers in turn), run on the "
         'plain provider, the static provider and the provider wired by goatapp; every request, top level and nested inside factories, is compared '
         'with a reference container (error presence, instance identity), every factory entry is checked for laziness, once-only, precedence and '
         'non-recursion. Plus an exhaustive precedence table, an exhaustive table of pre-populated injection targets (1 name) and all rings up to '
         'length 5. Non-trivial: >=2 top-level Get/InjectTo requests, >=1 request issued from inside a factory, and at least one of: a failing or '
         'nil factory reached, an optional edge that failed, an undefined name requested, a request that hit the construction stack (cycle), a '
         'requested name with both an explicit and a default definition. Distinct = distinct case JSON (FNV-64).',
 'assumptions': ['per name at most one explicit kind and one default kind (Set+AddFactory or SetDefault+AddDefaultFactory for one name are outside '
                 'the quantifier and skipped)',
                 'same-kind duplicate definitions before the first resolution may be refused or accepted (statement silent); if accepted the case is '
                 'not judged further',
                 'generated factories are deterministic functions of the container state; a failed factory may be re-run on a later request (run '
                 'counts after failures are not compared)',
                 "any Get (also of an undefined name, also from InjectTo) is the 'first resolution'; Keys and InjectTo without dependency fields are "
                 'not',
                 'error presence and instance identity compared, never error texts; Keys() results not judged',
                 "after a successful InjectTo every resolvable dependency-tagged field holds this container's instance whatever it held before; the "
                 "final content of a pre-populated OPTIONAL field whose resolution fails is left open ('stays nil' is only asserted for a field that "
                 'was nil)'],
 'essential_labels': {'all': ['cycle-hit',
                              'self-loop',
                              'cycle-len>=3',
                              'failing-factory-run',
                              'nil-factory-run',
                              'optional-edge-failed',
                              'missing-name',
                              'explicit+default',
                              'explicit-factory+default-instance',
                              'late-definition',
                              'late-definition-in-factory',
                              'inject-request',
                              'inject-in-factory',
                              'extra-injector',
                              'repeat-request',
                              'request-after-failure',
                              'static-provider',
                              'goatapp-provider',
                              'prepopulated-field',
                              'prepopulated-foreign',
                              'prepopulated-other',
                              'prepopulated-own',
                              'prepopulated-optional-field',
                              'prepopulated-optional-unresolved',
                              'prepopulated-in-factory',
                              'two-providers-second-first', 'two-providers-foreign-tag-name',
                              'two-providers-second-last',
                              'two-providers-in-factory']},
 'tiers': {'quick': [{'test': '^TestProp$', 'checks': 5000, 'shards': 6, 'timeout': 240}, {'test': '^TestEnum$', 'shards': 2, 'timeout': 240}],
           'thorough': [{'test': '^TestProp$', 'checks': 50000, 'shards': 14, 'timeout': 3000},
                        {'test': '^TestEnum$', 'shards': 2, 'timeout': 3000}]}}

TEXT = {'technique': 'model-based property testing (rapid): generated definition/request programs with generated factories co-simulated against a ~90-line '
              'reference container on three container flavours; exhaustive enumeration of the precedence table, of pre-populated injection targets '
              'and of all dependency rings up to length 5 (6 thorough)',
 'level_text': 'Exploration with exhaustive sub-families: ~30 000 random programs + 2 741 enumerated cases per quick run, ~700 000 + 6 837 in '
               'thorough; every factory entry and every nested request is judged (lazy, once, same-instance, precedence, late-definition, cycle, '
               'outcome).',
 'level_note': 'Trusts the reference container in props/c10. Names N0..N5 plus one undefined name; deterministic factories; concurrency out of scope '
               '(the statement does not mention it). Same-kind duplicate definitions and re-run counts after failures are not judged.',
 'design_ref': 'DESIGN.md 4/C10'}

# native coverage-guided campaign over the rapid generator (hx.FuzzRapid), thorough tier only
CHECK['tiers']['thorough'].append({'test': '^$', 'fuzz': '^FuzzProgram$', 'fuzztime': '90s', 'gomaxprocs': 4, 'timeout': 400})
TEXT['technique'] += '; thorough adds a native coverage-guided go fuzzing campaign over the same generator (rapid.MakeFuzz)'
