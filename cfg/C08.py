CHECK = {'rule': 'rapid-generated loop runs: tree shape (empty, deep, minimal, random, wide > channel capacity), hash-keyed Dir/File filters, OnDir/OnFile '
         'presence, producer/consumer limits 1..NumCPU and 0 (max), per-callback delays, injected callback / listing errors, GOMAXPROCS in '
         '{1,2,4,16}, and a schedule plan for the verif yield points: consumers arriving in the gap between the emptiness test and the close test '
         'are parked until the close announcement, and a gated directory listing releases the producer only once N consumers are parked. Oracle: '
         'callback multiset == model walk (nothing skipped/repeated/unselected), max concurrent callbacks <= consumers, Wait returns with zero '
         'callbacks in flight and none begins later, injected errors appear in Errors(), no spurious errors. Non-trivial: >=3 expected callbacks and '
         '(a hold happened, >=2 consumers, or a filter rejected something).',
 'assumptions': ['hooks fsloop.consumer.gap / fsloop.close.announced exist (hook hit counters in evidence; zero hits degrade the check to plain '
                 'stress)',
                 'a Wait that does not return within 30 s is inconclusive (the statement does not promise termination)'],
 'essential_labels': {'all': ['errlist:strict', 'two-callback-errors-with-a-read-of-the-list-between', 'held-in-gap-until-close',
                              'producer-released-while-consumers-parked',
                              'injected-error',
                              'consumers=1',
                              'consumers=5+']},
 'tiers': {'quick': [{'test': '^TestProp$', 'checks': 900, 'shards': 6, 'timeout': 240},
                     {'test': '^TestPropErrList$', 'checks': 40, 'shards': 2, 'timeout': 240, 'seed_offset': 300}],
           'thorough': [{'test': '^TestProp$', 'checks': 9000, 'shards': 16, 'timeout': 3000},
                        {'test': '^TestPropErrList$', 'checks': 1500, 'shards': 4, 'timeout': 3000, 'seed_offset': 300}]}}

TEXT = {'technique': 'schedule-directed property testing (rapid): generated trees/filters/limits/delays/errors plus a generated plan for two verif yield '
              'points and a gated source; callback multiset vs. model walk, concurrency bound, Wait ordering; the loop\'s error list is polled from inside callbacks and, as '
              'an object (jobsync.Lifecycle), hammered by concurrently failing callbacks and readers',
 'level_text': 'Exploration with a directed schedule: the generated plan parks consumers in the window between the emptiness test and the close test '
               'while a gated listing lets the producers finish, which makes the lost-item interleaving deterministic; all other interleavings are '
               'sampled under GOMAXPROCS 1/2/4/16.',
 'level_note': 'Hooks fsloop.consumer.gap and fsloop.close.announced (build tag verif). Other interleavings are only sampled. Wait not returning '
               'within 30 s is inconclusive.',
 'design_ref': 'DESIGN.md 2.7, 4/C08'}
