CHECK = {'rule': 'three case kinds (plus TestEnum: every applicable seq history of length 5 on a 3-level chain with one key, run through the seq executor). '
         'seq: rapid-generated histories of SetValue/Value/Keys/LockData..Commit on a chain of 1-5 data scopes (datascope.New/NewChild or '
         'scope.New/scope.NewChild), every readable (level,key) compared with a map-chain model after every step; non-trivial = a read that fell '
         'through >=1 level while the key was held by >=2 levels of the chain. conc: 2-6 goroutines on one scope of a chain (locked increment '
         'sections with generated delays inside, lock-only readers, plain writers, plain readers, readers through a child, writers on the parent); '
         'non-trivial = >=1 holder plus >=1 other goroutine on that scope and >=1 operation measured as issued while a section was open. goc: 2-8 '
         'goroutines released together into tasks.Unit.FromScope / envs.Unit.Envs / waits.WaitManager.ForScope on a fresh scope and/or a child of '
         "it; non-trivial = >=2 callers of one service on one scope and >=1 call measured as arriving while another caller's section was open. "
         'Distinct = distinct case JSON (FNV-64).',
 'assumptions': ['values are non-nil ints (a key set to nil in a child is left open by the statement and not generated)',
                 'Keys() is executed but its content is not judged (the statement does not fix it)',
                 'operations that a single goroutine could only issue by blocking forever on a locked level are not generated in seq',
                 'a hang is reported as inconclusive, never as a violation (the statement promises exclusion, not progress)',
                 'concurrent cases are schedule-dependent: a replay of a conc/goc case re-runs the same plan, not the same interleaving'],
 'essential_labels': {'all': ['seq:fallthrough-with-override-elsewhere',
                              'seq:locker-read-falls-to-parent',
                              'seq:parent-write-after-child-read',
                              'seq:via-app-scope',
                              'conc:op-issued-while-section-open',
                              'conc:>=2-holders',
                              'conc:plain-writer',
                              'conc:target-is-child',
                              'conc:counter-starts-in-parent',
                              'goc:call-arrived-while-section-open',
                              'goc:svc-tasks',
                              'goc:svc-envs',
                              'goc:svc-waits',
                              'goc:child-scope']},
 'tiers': {'quick': [{'test': '^TestProp$', 'checks': 40000, 'shards': 1, 'timeout': 90},
                     {'test': '^TestPropConc$', 'checks': 800, 'shards': 3, 'timeout': 240, 'seed_offset': 100},
                     {'test': '^TestPropGoc$', 'checks': 1000, 'shards': 3, 'timeout': 240, 'seed_offset': 200},
                     {'test': '^TestEnum$', 'shards': 1, 'timeout': 120}],
           'thorough': [{'test': '^TestProp$', 'checks': 500000, 'shards': 4, 'timeout': 1500},
                        {'test': '^TestPropConc$', 'checks': 8000, 'shards': 6, 'timeout': 1500, 'seed_offset': 100},
                        {'test': '^TestPropGoc$', 'checks': 12000, 'shards': 6, 'timeout': 1500, 'seed_offset': 200},
                        {'test': '^TestEnum$', 'shards': 4, 'timeout': 1500}]}}

TEXT = {'technique': 'model-based property testing (rapid) of key/value histories on parent-child data-scope chains against a map-chain reference, with '
              'bounded exhaustive enumeration of short histories; generated multi-goroutine stress of locked sections and of the three get-or-create '
              'services with harness-side generated delays and a happens-before order oracle (section-open / section-finished marks) plus counter, '
              'marker and instance-identity invariants',
 'level_text': 'Exploration: sequential part exhaustive for all histories of <= 5 ops (thorough <= 6 on 3 levels, <= 8 on 2 levels) over one key, '
               'random beyond. Concurrent part: schedules are sampled, not enumerated; ~90 % of concurrent cases are measured to have an operation '
               'issued while a section was open.',
 'level_note': 'The harness controls delays around every data-scope call and GOMAXPROCS but not the interleaving inside sync.RWMutex. Exclusion is '
               'judged by an order check on atomics, never by timing; a hang is inconclusive.',
 'design_ref': 'DESIGN.md 4/C13'}

# native coverage-guided campaign over the rapid generator (hx.FuzzRapid), thorough tier only
CHECK['tiers']['thorough'].append({'test': '^$', 'fuzz': '^FuzzSeq$', 'fuzztime': '90s', 'gomaxprocs': 4, 'timeout': 400})
TEXT['technique'] += '; thorough adds a native coverage-guided go fuzzing campaign over the same generator (rapid.MakeFuzz)'
