CHECK = {'rule': 'three case kinds. crypt: one plaintext (empty, 1, 15-17, 4095-4097, 65536, random <= 2 KiB; low and high entropy) written with WriteFile '
         'and with Writer (generated chunking) through encryptfs(cipher in {aesgcm256cfs, extcfs default}) over base in {memfs, diskfs, memfs behind '
         'a short-reading Reader}, root or child view, generated secret/salt/HostOnly; read back through ReadFile and Reader (generated buffer '
         'sizes) by an independently constructed filespace with the same settings; raw bytes inspected (no plaintext, fresh bytes on every write); '
         'read with another secret/salt; the stored blob truncated to EVERY length and changed at EVERY offset when <= 128 B (structural boundaries '
         '+ 64 sampled positions above), extended, and re-tagged with an unknown cipher id - every such read through both read paths must be an '
         'error without data and without panic. Non-trivial (crypt): plaintext >= 1 B and >= 1 wrong-key or tampered read performed. ns: fsmodel '
         'histories run in lock-step on encryptfs(base) and a plain base of the same kind; non-trivial: >= 1 successful mkdir/remove/copy, >= 1 '
         'non-empty write, >= 1 query after both. bytes: arbitrary stored bytes through both read paths and the cipher directly (no panic; no data '
         'with an error); every case counts. TestEnum: fixed grid cipher x base x plaintext length {0,1,15,16,17} with every truncation and every '
         'single-bit flip. Streams phase of every crypt case (and of every TestEnum case): 2-4 extra files with different plaintexts, 2-4 stream '
         'Readers (7 on the enum grid) open at the same time on different files (same file twice on disk only), driven by one goroutine in a generated '
         'interleaving, each with a generated consumption style (Read loop, io.ReadAll, io.Copy, io.Copy to a plain Writer, Read k + io.Copy, Read k + '
         'WriteTo, io.ReadFull k + ReadAll), closed at once or all at the end; every reader must deliver exactly its own plaintext. '
         'Distinct = distinct case JSON (FNV-64).',
 'assumptions': ["an underlying filespace's Reader may return fewer bytes than asked for (io.Reader contract) - base kind 'memshort'",
                 'precondition kept from C02: the parent directory of a written path exists in the base',
                 "'never with data' is read strictly: a failing read must not deliver any byte, also not before the error of a stream",
                 'secrecy is judged for plaintexts >= 8 B (whole plaintext, plus first/last 16 B for plaintexts >= 32 B); a chance hit has '
                 'probability < 2^-40 per case',
                 'nothing is asserted about reading with a different HostOnly flag (idutil.HostID() is always empty; outside the statement)',
                 'name-space clause: error presence, booleans, listing sets, Lstat IsDir/Name and the whole name/kind tree are compared with the '
                 'plain base; Lstat Size is the stored size and is not compared; contents are compared for files whose plaintext the model knows',
                 'open finding C05-key-concat excludes generator class c05.sameKeyMaterial (other key whose secret||host||salt concatenation equals '
                 "the key's)"],
 'essential_labels': {'all': ['cipher:aesgcm',
                              'cipher:ext',
                              'base:mem',
                              'base:disk',
                              'base:memshort',
                              'plain:empty',
                              'plain:block-boundary',
                              'plain:4k-boundary',
                              'plain:64k',
                              'tamper:exhaustive',
                              'tamper:sampled',
                              'tamper:retag',
                              'other:secret-differs',
                              'other:salt-differs',
                              'other:both-differ',
                              'via-child-view',
                              'host-only',
                              'writer:multi-chunk',
                              'secrecy-judged',
                              'ns:copy',
                              'ns:remove',
                              'ns:disk',
                              'ns:via-child-view',
                              'bytes:empty',
                              'bytes:shorter-than-tag',
                              'bytes:shorter-than-header',
                              'streams:overlap',
                              'streams:prefix-then-bulk',
                              'streams:same-file-twice',
                              'streams:close-late',
                              'style:read',
                              'style:readall',
                              'style:copy',
                              'style:copy-plain',
                              'style:read+copy',
                              'style:read+writeto',
                              'style:readfull+readall',
                              'tenants']},
 'tiers': {'quick': [{'test': '^TestProp$', 'checks': 170, 'shards': 8, 'timeout': 240},
                     {'test': '^TestPropNS$', 'checks': 1200, 'shards': 2, 'timeout': 240},
                     {'test': '^TestPropBytes$', 'checks': 3000, 'shards': 1, 'timeout': 240},
                     {'test': '^TestEnum$', 'shards': 2, 'timeout': 240},
                     {'test': '^TestPropTenants$', 'checks': 120, 'shards': 2, 'timeout': 240, 'seed_offset': 300}],
           'thorough': [{'test': '^TestProp$', 'checks': 4000, 'shards': 16, 'timeout': 3000},
                        {'test': '^TestPropNS$', 'checks': 5000, 'shards': 16, 'timeout': 3000},
                        {'test': '^TestPropBytes$', 'checks': 60000, 'shards': 4, 'timeout': 3000},
                        {'test': '^TestEnum$', 'shards': 4, 'timeout': 3000},
                        {'test': '^TestPropTenants$', 'checks': 3000, 'shards': 4, 'timeout': 3000, 'seed_offset': 300},
                        {'test': '^$', 'fuzz': '^FuzzBytes$', 'fuzztime': '120s', 'gomaxprocs': 4, 'timeout': 400}]}}

TEXT = {'technique': 'round-trip / metamorphic property testing (rapid) of encryptfs over memfs, diskfs and a short-reading base: four write x read path '
              'combinations, raw-byte inspection, wrong-key reads, exhaustive truncation and byte corruption of stored blobs <= 128 B (sampled '
              'above), fixed-grid exhaustive single-bit flips, differential name-space histories against the plain base, arbitrary-byte robustness '
              '(rapid + native fuzz target FuzzBytes); 2-4 filespaces with different keys used concurrently, each on its own base (round-trip per tenant, '
              'foreign keys rejected afterwards)',
 'level_text': 'Exploration: ~1 400 generated key/plaintext/cipher/base configurations per quick run with ~380 000 wrong-key or tampered reads, '
               'every truncation length and byte offset of small blobs and every single-bit flip on a fixed grid, 2 400 name-space histories '
               'compared with the plain base, ~5 000 concurrently open stream readers with generated interleavings and consumption styles. Cryptographic strength is not assessed - only that AEAD failures surface as errors.',
 'level_note': 'Open finding C05-key-concat (secret||salt concatenation ambiguity) is reproduced on every run and its class is excluded from '
               'generation by construction. Assumes an underlying Reader may return short reads; secrecy judged for plaintexts >= 8 B; nothing '
               'asserted about a different HostOnly flag.',
 'design_ref': 'DESIGN.md 4/C05'}
