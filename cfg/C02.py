CHECK = {'rule': "rapid-generated histories restricted to the property's preconditions (model-gated), run in lock-step on a backend pair drawn from {mem, "
         'disk, mem child view, disk child view}; per-step results and whole trees compared between the two backends; 35% of cases end with one op '
         'outside the preconditions judged per backend (no panic, change confined to addressed paths); host sentinels next to the disk root checked. '
         'Non-trivial: a disk backend in the pair, >=1 mutation later read back at the same path, and >=1 copy or remove. Distinct = distinct case '
         'JSON.',
 'assumptions': ['preconditions as stated in C02 (source exists with the kind the op names, destination parent exists, copy destination absent, '
                 'remove target exists, view target is a directory)',
                 'ReadDir compared as a set; Lstat compared on IsDir, file Size and Name (not for the root)'],
 'essential_labels': {'all': ['has-CopyDirectory', 'has-Writer', 'has-outside-precondition-op', 'via-child-view']},
 'tiers': {'quick': [{'test': '^TestProp$', 'checks': 2500, 'shards': 6, 'timeout': 240}],
           'thorough': [{'test': '^TestProp$', 'checks': 6000, 'shards': 16, 'timeout': 3000}]}}

TEXT = {'technique': 'differential property testing (rapid): same generated history in lock-step on memory/disk/child-view backend pairs, results and trees '
              'compared; outside-precondition ops judged by containment predicate',
 'level_text': 'Exploration: generated precondition-respecting histories run on two backends at once, every result and the whole tree compared after '
               'each step; ops outside the preconditions must not panic and may only change addressed paths; host sentinels guard the disk root.',
 'level_note': 'Trusts the model only for gating preconditions; the verdict is the backend-vs-backend comparison. Real temp directories under TMPDIR '
               'are used.',
 'design_ref': 'DESIGN.md 4/C02'}

# native coverage-guided campaign over the rapid generator (hx.FuzzRapid), thorough tier only
CHECK['tiers']['thorough'].append({'test': '^$', 'fuzz': '^FuzzPairHistory$', 'fuzztime': '90s', 'gomaxprocs': 4, 'timeout': 400})
TEXT['technique'] += '; thorough adds a native coverage-guided go fuzzing campaign over the same generator (rapid.MakeFuzz)'
