CHECK = {'rule': 'rapid-generated histories of the 16 Filespace ops on a fresh memfs root and on child views (model-aware path choice, noisy spellings), '
         'each op compared with the tree model and the whole tree walked after every step. Non-trivial: >=3 executed ops, >=2 different mutating op '
         'kinds that succeeded below one common top-level name, and >=1 query after them. Distinct = distinct case JSON (FNV-64).',
 'assumptions': ['reference tree model of DESIGN.md section 3 is the contract',
                 'error presence compared, never texts',
                 'ops outside the fixed domain (copy onto existing destination, remove of a view root, escaping paths) are skipped'],
 'essential_labels': {'all': ['via-child-view', 'root-spelling', 'inner-dotdot', 'caller-scribbles', 'writer']},
 'tiers': {'quick': [{'test': '^TestProp$', 'checks': 12000, 'shards': 4, 'timeout': 240}],
           'thorough': [{'test': '^TestProp$', 'checks': 25000, 'shards': 16, 'timeout': 3000}]}}

TEXT = {'technique': 'model-based stateful property testing (rapid): generated op histories vs. reference tree model, whole-tree comparison after every '
              'step, snapshot/aliasing probes',
 'level_text': 'Exploration: tens of thousands of generated histories (16 ops, noisy path spellings, child views, caller-side buffer reuse) are '
               'compared step by step with a plain tree model; passing means no divergence on the generated sample, not absence.',
 'level_note': "Trusts the reference model in harness/fsmodel (DESIGN.md section 3) and rapid's generators; ops whose outcome the statement leaves "
               'open are skipped, error texts/order/times are never compared.',
 'design_ref': 'DESIGN.md 3, 4/C01'}

# native coverage-guided campaign over the rapid generator (hx.FuzzRapid), thorough tier only
CHECK['tiers']['thorough'].append({'test': '^$', 'fuzz': '^FuzzHistory$', 'fuzztime': '90s', 'gomaxprocs': 4, 'timeout': 400})
TEXT['technique'] += '; thorough adds a native coverage-guided go fuzzing campaign over the same generator (rapid.MakeFuzz)'
